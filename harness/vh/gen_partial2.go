package vh

// Rich request templates for C05 / C06 (strengthening round 3).
//
// The random templates of gen_partial.go punch a few holes into a random context.  The templates built here are made
// so that an operand of EVERY status is available to the policy generator (gen_partial3.go) at the same time:
//
//	known         concrete fields n, s, b, e, ls, ss, es, r (always present) and the attributes of known entities
//	unknown       fields that ARE a variable (vb, vn, vs, ve, vls, vr), unknown principal / action / resource / context
//	tainted       containers that merely CONTAIN a variable, at depth 1-3: tls = [?x, 1, 2], tss, tes, tr = {n: ?x, …},
//	              td = {r: {n: ?x}, ls: [?x, 1]}, trs = [{n: ?x, s: "a"}, {n: 2}], tdd = {d: {rs: [{n: ?x}], n: 0}}
//	ignored       ignored request parts and — what internal/eval/partial_test.go calls ignoreAnd / ignoreHas — ignore
//	              markers nested in the context: the same feature fields built with eval.Ignore() instead of variables
//	              (ivb, ivn, …, itls, itr, itd, …)
//
// The same variable is used in several feature fields and, for entity variables, also as the principal ("the same
// variable in several request parts and in nested containers").

import (
	"sort"
	"strings"

	"github.com/cedar-policy/cedar-go/types"
	"github.com/cedar-policy/cedar-go/x/exp/ast"
	"github.com/cedar-policy/cedar-go/x/exp/eval"
)

// NestedIgn is an ignore marker nested inside the context: Path is "context.r.n", "context.ls[]" (a set member), …
type NestedIgn struct {
	Path string
	Kind Ty
	Base types.Value // the concrete value the marker stands for in Template.Base
}

// ContainsIgn: v is, or contains (inside records / sets, at any depth), an ignore marker.
func ContainsIgn(v types.Value) bool {
	switch t := v.(type) {
	case types.EntityUID:
		return t.Type == IgnoreEntityType
	case types.Record:
		for x := range t.Values() {
			if ContainsIgn(x) {
				return true
			}
		}
	case types.Set:
		for x := range t.All() {
			if ContainsIgn(x) {
				return true
			}
		}
	}
	return false
}

// SubstIgnAt replaces the ignore markers nested in v by the values given for their paths (prefix = path of v itself).
// A marker whose path has no value stays.
func SubstIgnAt(v types.Value, prefix string, vals map[string]types.Value) types.Value {
	if !ContainsIgn(v) {
		return v
	}
	switch t := v.(type) {
	case types.EntityUID:
		if x, ok := vals[prefix]; ok {
			return x
		}
		return t
	case types.Record:
		m := types.RecordMap{}
		for k, x := range t.All() {
			m[k] = SubstIgnAt(x, prefix+"."+string(k), vals)
		}
		return types.NewRecord(m)
	case types.Set:
		var xs []types.Value
		for x := range t.All() {
			xs = append(xs, SubstIgnAt(x, prefix+"[]", vals))
		}
		return types.NewSet(xs...)
	}
	return v
}

// RichOpts steers RichTemplate.
type RichOpts struct {
	PVarPart float64 // principal / resource is an unknown (action: a third of it)
	PIgnPart float64 // a request part is ignored
	PCtxVar  float64 // the whole context is an unknown
	PNestIgn float64 // a feature field is built with ignore markers instead of variables (0: never)
	MaxVars  int     // variable slots for the context (1..MaxVars)
	PFeature float64 // probability of each feature field
	Force    []Ty    // kinds of the first variable slots (then random kinds)
}

type richSlot struct {
	name types.String
	kind Ty
}

func (g *Gen) smallOf(kind Ty) types.Value {
	switch kind {
	case TBool:
		return types.Boolean(g.chance(0.5))
	case TLong:
		return g.smallLong()
	case TString:
		return types.String(Strings[g.pick(6)])
	case TEntity:
		return g.UID()
	case TSetLong:
		return types.NewSet(g.smallLong(), g.smallLong())
	case TSetString:
		return types.NewSet(types.String(Strings[g.pick(6)]))
	case TSetEntity:
		return types.NewSet(g.UID(), g.UID())
	case TRecord:
		return g.Record(0)
	}
	return g.Value(kind, 0)
}

// RichTemplate builds a request template (see the file comment) out of the concrete environment base.
func (g *Gen) RichTemplate(base eval.Env, o RichOpts) *Template {
	t := &Template{VarKind: map[types.String]Ty{}, KindAt: map[string]Ty{}}
	env := base
	part := func(name string, concrete types.Value, pVar float64) types.Value {
		switch {
		case g.chance(pVar):
			n := types.String(name[:1])
			t.VarKind[n] = TEntity
			return MkVar(string(n))
		case g.chance(o.PIgnPart):
			t.Ignored = append(t.Ignored, name)
			return MkIgnore()
		}
		return concrete
	}
	env.Principal = part("principal", base.Principal, o.PVarPart)
	env.Action = part("action", base.Action, o.PVarPart/3)
	env.Resource = part("resource", base.Resource, o.PVarPart)

	// variable slots for the context
	var slots []richSlot
	nv := 1 + g.pick(o.MaxVars)
	if nv < len(o.Force) {
		nv = len(o.Force)
	}
	names := []types.String{"x", "y", "z", "w"}
	for i := 0; i < nv && i < len(names); i++ {
		var k Ty
		switch x := g.pick(100); {
		case i < len(o.Force):
			k = o.Force[i]
		case x < 30:
			k = TLong
		case x < 55:
			k = TBool
		case x < 80:
			k = TEntity
		case x < 90:
			k = TString
		case x < 95:
			k = TSetLong
		default:
			k = TRecord
		}
		n := names[i]
		if k == TEntity && g.chance(0.4) {
			// the same variable in a request part and nested in the context
			for _, pn := range []types.String{"p", "r"} {
				if _, ok := t.VarKind[pn]; ok {
					n = pn
					break
				}
			}
		}
		slots = append(slots, richSlot{n, k})
	}
	slotOf := func(kind Ty) (types.String, bool) {
		var c []types.String
		for _, s := range slots {
			if s.kind == kind {
				c = append(c, s.name)
			}
		}
		if len(c) == 0 {
			return "", false
		}
		return c[g.pick(len(c))], true
	}

	// the concrete context: the known fields are always there
	conc := base.Context.(types.Record).Map()
	if conc == nil {
		conc = types.RecordMap{}
	}
	for _, k := range []types.String{"n", "s", "b", "e", "ls", "ss", "es", "r"} {
		if _, ok := conc[k]; !ok {
			conc[k] = g.smallOf(FieldTypes[k])
		}
	}
	marked := types.RecordMap{}
	for k, v := range conc {
		marked[k] = v
	}

	// feature fields.  build(h) constructs the field; h(kind, relative path) yields the hole's content.
	type feat struct {
		name  types.String
		kind  Ty
		need  []Ty // some slot of one of these kinds must exist (nil: any of the first listed in build)
		build func(h func(Ty, string) types.Value) types.Value
	}
	sub := SubFieldNames[g.pick(len(SubFieldNames))] // the sub-field of tr that is a hole
	sub2 := SubFieldNames[g.pick(len(SubFieldNames))]
	feats := []feat{
		{"vb", TBool, []Ty{TBool}, func(h func(Ty, string) types.Value) types.Value { return h(TBool, "") }},
		{"vn", TLong, []Ty{TLong}, func(h func(Ty, string) types.Value) types.Value { return h(TLong, "") }},
		{"vs", TString, []Ty{TString}, func(h func(Ty, string) types.Value) types.Value { return h(TString, "") }},
		{"ve", TEntity, []Ty{TEntity}, func(h func(Ty, string) types.Value) types.Value { return h(TEntity, "") }},
		{"vls", TSetLong, []Ty{TSetLong}, func(h func(Ty, string) types.Value) types.Value { return h(TSetLong, "") }},
		{"vr", TRecord, []Ty{TRecord}, func(h func(Ty, string) types.Value) types.Value { return h(TRecord, "") }},
		{"tls", TSetLong, []Ty{TLong}, func(h func(Ty, string) types.Value) types.Value {
			return types.NewSet(h(TLong, "[]"), types.Long(1), types.Long(2))
		}},
		{"tss", TSetString, []Ty{TString}, func(h func(Ty, string) types.Value) types.Value {
			return types.NewSet(h(TString, "[]"), types.String("a"))
		}},
		{"tes", TSetEntity, []Ty{TEntity}, func(h func(Ty, string) types.Value) types.Value {
			return types.NewSet(h(TEntity, "[]"), g.World.UIDs[0])
		}},
		{"tr", TRecord, []Ty{SubFieldTypes[sub]}, func(h func(Ty, string) types.Value) types.Value {
			m := types.RecordMap{"n": types.Long(1), "s": types.String("a"), "b": types.True, "e": g.World.UIDs[0]}
			m[sub] = h(SubFieldTypes[sub], "."+string(sub))
			return types.NewRecord(m)
		}},
		{"td", TRecord, []Ty{SubFieldTypes[sub2]}, func(h func(Ty, string) types.Value) types.Value {
			inner := types.RecordMap{"n": types.Long(2), "s": types.String("b")}
			inner[sub2] = h(SubFieldTypes[sub2], ".r."+string(sub2))
			return types.NewRecord(types.RecordMap{"r": types.NewRecord(inner), "ls": types.NewSet(types.Long(1), types.Long(3))})
		}},
		{"tdl", TRecord, []Ty{TLong}, func(h func(Ty, string) types.Value) types.Value {
			return types.NewRecord(types.RecordMap{"r": types.NewRecord(types.RecordMap{"n": types.Long(2)}), "ls": types.NewSet(h(TLong, ".ls[]"), types.Long(1))})
		}},
		{"trs", TSetLong, []Ty{TLong}, func(h func(Ty, string) types.Value) types.Value {
			return types.NewSet(types.NewRecord(types.RecordMap{"n": h(TLong, "[].n"), "s": types.String("a")}), types.NewRecord(types.RecordMap{"n": types.Long(2)}))
		}},
		{"tdd", TRecord, []Ty{TLong}, func(h func(Ty, string) types.Value) types.Value {
			inner := types.NewSet(types.NewRecord(types.RecordMap{"n": h(TLong, ".d.rs[].n")}), types.NewRecord(types.RecordMap{"n": types.Long(3)}))
			return types.NewRecord(types.RecordMap{"d": types.NewRecord(types.RecordMap{"rs": inner, "n": types.Long(0)})})
		}},
	}
	included := 0
	for pass := 0; pass < 2 && included == 0; pass++ {
		for _, f := range feats {
			kind := f.need[0]
			asIgn := o.PNestIgn > 0 && g.chance(o.PNestIgn)
			name := f.name
			var vn types.String
			if asIgn {
				name = "i" + f.name // ivb, ivn, …, itls, itr, itd, …: the ignore twins of the variable features
				if _, dup := marked[name]; dup {
					continue
				}
			} else {
				var ok bool
				if vn, ok = slotOf(kind); !ok {
					continue
				}
			}
			if pass == 0 && !g.chance(o.PFeature) {
				continue
			}
			cv := g.smallOf(kind)
			path := "context." + string(name)
			marked[name] = f.build(func(k Ty, rel string) types.Value {
				if asIgn {
					t.NestedIgn = append(t.NestedIgn, NestedIgn{Path: path + rel, Kind: k, Base: cv})
					return MkIgnore()
				}
				t.VarKind[vn] = k
				return MkVar(string(vn))
			})
			conc[name] = f.build(func(Ty, string) types.Value { return cv })
			t.KindAt[path] = f.kind
			included++
		}
	}
	// variables that ended up unused are not part of the template
	base.Context = types.NewRecord(conc)
	switch {
	case g.chance(o.PCtxVar):
		t.VarKind = map[types.String]Ty{}
		for _, v := range []types.Value{env.Principal, env.Action, env.Resource} {
			if n, ok := IsVar(v); ok {
				t.VarKind[n] = TEntity
			}
		}
		t.VarKind["c"] = TRecord
		t.NestedIgn = nil
		env.Context = MkVar("c")
	case g.chance(o.PIgnPart):
		t.VarKind = map[types.String]Ty{}
		for _, v := range []types.Value{env.Principal, env.Action, env.Resource} {
			if n, ok := IsVar(v); ok {
				t.VarKind[n] = TEntity
			}
		}
		t.NestedIgn = nil
		t.Ignored = append(t.Ignored, "context")
		env.Context = MkIgnore()
	default:
		env.Context = types.NewRecord(marked)
	}
	t.Base = base
	t.Env = env
	t.collectRich()
	return t
}

// collectRich computes Paths with the status flags (known / unknown / tainted / ignored) for every position down to depth 4,
// for the attributes of known principal / resource entities, and for references into ignored parts.
func (t *Template) collectRich() {
	t.Paths = nil
	add := func(e ast.IsNode, text string, v types.Value, kind Ty) {
		p := Path{Expr: e, Text: text, Kind: kind, Val: v}
		if k, ok := t.KindAt[text]; ok {
			p.Kind = k
		}
		if v != nil {
			if n, ok := IsVar(v); ok {
				p.IsVar = true
				if k, known := t.VarKind[n]; known {
					p.Kind = k
				}
			} else if IsIgn(v) {
				p.Ign = true
			} else {
				p.Tainted = ContainsVar(v)
				p.TaintIgn = ContainsIgn(v)
			}
			if s, ok := v.(types.Set); ok {
				for x := range s.All() {
					if _, isRec := x.(types.Record); isRec {
						p.RecSet = true
					}
				}
			}
		}
		t.Paths = append(t.Paths, p)
	}
	store, _ := t.Env.Entities.(types.EntityMap)
	for _, pr := range []struct {
		name string
		v    types.Value
	}{{"principal", t.Env.Principal}, {"action", t.Env.Action}, {"resource", t.Env.Resource}} {
		node := ast.NodeTypeVariable{Name: types.String(pr.name)}
		add(node, pr.name, pr.v, TEntity)
		switch {
		case IsIgn(pr.v):
			// references into an ignored part
			for _, k := range []types.String{"n", "s", "b", "e", "ls", "r"} {
				t.Paths = append(t.Paths, Path{Expr: access(node, k), Text: pr.name + "." + string(k), Kind: FieldTypes[k], Ign: true})
			}
		case pr.name != "action":
			if u, ok := pr.v.(types.EntityUID); ok && u.Type != VariableEntityType {
				if e, found := store[u]; found {
					for _, k := range SortedKeys(e.Attributes) {
						v, _ := e.Attributes.Get(k)
						if ft, ok := FieldTypes[k]; ok {
							add(access(node, k), pr.name+"."+string(k), v, ft)
						}
					}
				}
			}
		}
	}
	if IsIgn(t.Env.Context) {
		t.Paths = append(t.Paths, Path{Expr: ctxNode, Text: "context", Kind: TRecord, Ign: true})
		for _, k := range []types.String{"n", "s", "b", "e", "ls", "r"} {
			t.Paths = append(t.Paths, Path{Expr: access(ctxNode, k), Text: "context." + string(k), Kind: FieldTypes[k], Ign: true})
		}
		return
	}
	add(ctxNode, "context", t.Env.Context, TRecord)
	var walk func(e ast.IsNode, text string, r types.Record, depth int)
	walk = func(e ast.IsNode, text string, r types.Record, depth int) {
		for _, k := range SortedKeys(r) {
			v, _ := r.Get(k)
			kind := kindOfValue(v)
			if ft, ok := FieldTypes[k]; ok && depth == 0 {
				kind = ft
			} else if ft, ok := SubFieldTypes[k]; ok && depth > 0 {
				if _, isRec := v.(types.Record); !isRec {
					if _, isSet := v.(types.Set); !isSet {
						kind = ft
					}
				}
			}
			ne := access(e, k)
			nt := text + "." + string(k)
			add(ne, nt, v, kind)
			if sub, ok := v.(types.Record); ok && depth < 4 {
				walk(ne, nt, sub, depth+1)
			}
		}
	}
	if r, ok := t.Env.Context.(types.Record); ok {
		walk(ctxNode, "context", r, 0)
	}
}

// HasIgnore: some request part is ignored or an ignore marker is nested in the context.
func (t *Template) HasIgnore() bool { return len(t.Ignored) > 0 || len(t.NestedIgn) > 0 }

// NestedIgnPaths lists the paths of the nested ignore markers, sorted, without duplicates.
func (t *Template) NestedIgnPaths() []NestedIgn {
	seen := map[string]bool{}
	var out []NestedIgn
	for _, n := range t.NestedIgn {
		if !seen[n.Path] {
			seen[n.Path] = true
			out = append(out, n)
		}
	}
	sort.Slice(out, func(i, j int) bool { return out[i].Path < out[j].Path })
	return out
}

// PathsWith returns the positions of the given status (and kind; kind < 0: any).
func (t *Template) PathsWith(st OpStatus, kind Ty) []Path {
	var out []Path
	for _, p := range t.Paths {
		if kind >= 0 && p.Kind != kind {
			continue
		}
		var ok bool
		switch st {
		case StKnown:
			ok = !p.IsVar && !p.Tainted && !p.Ign && !p.TaintIgn && !strings.HasPrefix(p.Text, "action")
		case StUnknown:
			ok = p.IsVar
		case StIgnored:
			ok = p.Ign
		case StTaintVar:
			ok = p.Tainted
		case StTaintIgn:
			ok = p.TaintIgn && !p.Tainted
		}
		if ok {
			out = append(out, p)
		}
	}
	return out
}
