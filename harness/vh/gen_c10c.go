package vh

// C10, part c: growth forms.
//
// Small documents (a few hundred bytes, nesting depth 6..30) whose shape makes a decoder that tries one reading of an
// object and then falls back to another reading of the SAME bytes decode the nested part more than once per level:
// the time then grows like 2^depth (or 3^depth) although the input grows linearly.  The forms are run on a short
// depth ladder in the subprocess worker; a CPU budget of seconds that is exhausted on an input of under 4 KiB is
// reported as `exponential-time:<family>:<stage>` (see c10RunChain) — a class of its own, never one of the
// `cpu-budget:…` classes that record quadratic work on inputs of 10^3..10^5 nested levels.
//
// The policy-JSON decoder (`nodeJSON.UnmarshalJSON`) decodes an expression object into the struct with
// DisallowUnknownFields and, when a key is unknown, reads the object again as an extension call
// (`map[string][]nodeJSON`): every form below puts an unknown key (or a key of a nested struct that is unknown) next
// to a known key at every level, for every kind of known key that holds nested expressions (array-valued `Set`,
// also spelled `set` — encoding/json matches keys case-insensitively —, object-valued `Record`, binary / unary /
// ternary operators, `like`, `is`, `.`/`has`) and for two unknown keys side by side.

func c10Nest(n int, open, leaf, close string) []byte {
	return c10PolicyJSON(rep(open, n) + leaf + rep(close, n))
}

// C10GrowthForms: see above.  Family policy-json: the entries of c10DeepTargets["policy-json"].
var C10GrowthForms = []C10DeepForm{
	// known array-valued key + unknown key (accepted: the Set field wins over the extension map)
	{"jx-set-unknown", "policy-json", func(n int) []byte { return c10Nest(n, `{"Set":[`, `{"Value":1}`, `],"zz":[]}`) }},
	{"jx-unknown-set", "policy-json", func(n int) []byte { return c10Nest(n, `{"aa":[],"Set":[`, `{"Value":1}`, `]}`) }},
	{"jx-set-folded-unknown", "policy-json", func(n int) []byte { return c10Nest(n, `{"set":[`, `{"Value":1}`, `],"zz":[]}`) }},
	{"jx-set-unknown-args", "policy-json", func(n int) []byte { return c10Nest(n, `{"Set":[`, `{"Value":1}`, `],"zz":[{"Value":1}]}`) }},
	{"jx-set-null-unknown", "policy-json", func(n int) []byte { return c10Nest(n, `{"Set":[null,`, `{"Value":1}`, `],"zz":null}`) }},
	// known array-valued key + a nested struct with an unknown key (rejected, but only after decoding)
	{"jx-set-nested-unknown", "policy-json", func(n int) []byte { return c10Nest(n, `{"Set":[`, `{"Value":1}`, `],"==":{"zz":1}}`) }},
	// two unknown keys (rejected by ToNode: more than one extension)
	{"jx-ext-two", "policy-json", func(n int) []byte { return c10Nest(n, `{"decimal":[`, `{"Value":"1.0"}`, `],"zz":[]}`) }},
	{"jx-ext-two-args", "policy-json", func(n int) []byte { return c10Nest(n, `{"yy":[{"Value":1}],"zz":[`, `{"Value":1}`, `]}`) }},
	// known object-valued keys + unknown key (rejected: the value of the known key is not an array)
	{"jx-record-unknown", "policy-json", func(n int) []byte { return c10Nest(n, `{"Record":{"a":`, `{"Value":1}`, `},"zz":[]}`) }},
	{"jx-and-unknown", "policy-json", func(n int) []byte {
		return c10Nest(n, `{"&&":{"left":`, `{"Value":true}`, `,"right":{"Value":true}},"zz":[]}`)
	}},
	{"jx-and-right-unknown", "policy-json", func(n int) []byte {
		return c10Nest(n, `{"zz":[],"&&":{"left":{"Value":true},"right":`, `{"Value":true}`, `}}`)
	}},
	{"jx-not-unknown", "policy-json", func(n int) []byte { return c10Nest(n, `{"!":{"arg":`, `{"Value":true}`, `},"zz":[]}`) }},
	{"jx-ite-unknown", "policy-json", func(n int) []byte {
		return c10Nest(n, `{"if-then-else":{"if":{"Value":true},"then":`, `{"Value":true}`, `,"else":{"Value":true}},"zz":[]}`)
	}},
	{"jx-access-unknown", "policy-json", func(n int) []byte { return c10Nest(n, `{".":{"left":`, `{"Var":"context"}`, `,"attr":"a"},"zz":[]}`) }},
	{"jx-like-unknown", "policy-json", func(n int) []byte {
		return c10Nest(n, `{"like":{"left":`, `{"Value":"a"}`, `,"pattern":["Wildcard"]},"zz":[]}`)
	}},
	{"jx-is-in-unknown", "policy-json", func(n int) []byte {
		return c10Nest(n, `{"is":{"left":{"Var":"principal"},"entity_type":"A","in":`, `{"Var":"principal"}`, `},"zz":[]}`)
	}},
	// mixed: Set under Record under a binary operator, an unknown key at each level
	{"jx-mixed-unknown", "policy-json", func(n int) []byte {
		return c10Nest(n, `{"Set":[{"Record":{"a":{"Set":[`, `{"Value":1}`, `],"zz":[]}}}],"zz":[]}`)
	}},
}

// C10FindGrowthForm looks a growth form up by name.
func C10FindGrowthForm(name string) *C10DeepForm {
	for i := range C10GrowthForms {
		if C10GrowthForms[i].Name == name {
			return &C10GrowthForms[i]
		}
	}
	return nil
}
