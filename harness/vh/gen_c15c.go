package vh

// C15 generators, third part: the `singleton-caps` family (see gen_c15b.go for the overview).

import (
	"github.com/cedar-policy/cedar-go/types"
	"github.com/cedar-policy/cedar-go/x/exp/ast"
	"github.com/cedar-policy/cedar-go/x/exp/schema/resolved"
)

// c15CapSite is one optional thing with its guard: an optional attribute of an entity / record reached by a variable
// path, or a tag of an entity type that declares tags.
type c15CapSite struct {
	guard func() ast.IsNode // `base has attr` / `base.hasTag("k")`
	use   func() ast.IsNode // a Bool expression that reads the attribute / tag (needs the capability)
	other func() ast.IsNode // a guard on the same base that yields NO capability for the read (typed False or unrelated key)
	kind  string
}

func (c *C15Gen) capSites(d int) []c15CapSite {
	var out []c15CapSite
	for _, p := range c.paths {
		p := p
		var open []c15Guard
		for _, n := range p.needs {
			if !c.caps[n.key()] {
				open = append(open, n)
			}
		}
		if len(open) != 1 {
			continue
		}
		gd := open[0]
		kind := "record-attr"
		if p.viaEntity {
			kind = "entity-attr"
		}
		if p.nsegs > 1 {
			kind += "-nested"
		}
		out = append(out, c15CapSite{kind: kind,
			guard: func() ast.IsNode { return hasN(gd.base, gd.attr) },
			use:   func() ast.IsNode { return c.useBool(p.node, p.ty, d) },
			other: func() ast.IsNode { return hasN(gd.base, "zzz") }})
	}
	for _, p := range c.entityPaths(true) {
		p := p
		if !c.satisfied(p) {
			continue
		}
		tagTy := c.S.RS.Entities[types.EntityType(p.ty.(resolved.EntityType))].Tags
		key := C15TagKeys[c.pick(len(C15TagKeys))]
		out = append(out, c15CapSite{kind: "tag",
			guard: func() ast.IsNode { return ast.NodeTypeHasTag{BinaryNode: bin(p.node, lit(key))} },
			use: func() ast.IsNode {
				return c.useBool(ast.NodeTypeGetTag{BinaryNode: bin(p.node, lit(key))}, tagTy, d)
			},
			other: func() ast.IsNode { return ast.NodeTypeHasTag{BinaryNode: bin(p.node, lit(types.String("zz-other")))} }})
	}
	return out
}

// falseWithGuard: a test built around the guard h whose type is (meant to be) the singleton False.
func (c *C15Gen) falseWithGuard(s c15CapSite) (ast.IsNode, string) {
	h := s.guard
	F := func() ast.IsNode { return c.singletonOf(false, 1) }
	T := func() ast.IsNode { return c.singletonOf(true, 1) }
	b := func() ast.IsNode { return c.boolLeaf() }
	switch c.pick(12) {
	case 0, 1, 2:
		return andN(h(), F()), "h&&F"
	case 3:
		return andN(andN(h(), b()), F()), "(h&&b)&&F"
	case 4:
		return andN(h(), andN(b(), F())), "h&&(b&&F)"
	case 5:
		return andN(h(), notN(T())), "h&&!T"
	case 6:
		return orN(F(), andN(h(), F())), "F||(h&&F)"
	case 7:
		return iteN(T(), andN(h(), F()), b()), "if-T-then-(h&&F)"
	case 8:
		return andN(h(), s.other()), "h&&other-guard-False"
	case 9:
		return andN(andN(h(), F()), b()), "(h&&F)&&b"
	case 10:
		return andN(F(), h()), "F&&h"
	}
	return orN(andN(h(), F()), F()), "(h&&F)||F"
}

// trueWithGuard: a test built around the guard h whose type is (meant to be) the singleton True.
func (c *C15Gen) trueWithGuard(s c15CapSite) (ast.IsNode, string) {
	h := s.guard
	F := func() ast.IsNode { return c.singletonOf(false, 1) }
	T := func() ast.IsNode { return c.singletonOf(true, 1) }
	switch c.pick(8) {
	case 0, 1:
		return orN(h(), T()), "h||T"
	case 2:
		return orN(T(), h()), "T||h"
	case 3:
		return notN(andN(h(), F())), "!(h&&F)"
	case 4:
		return orN(andN(h(), F()), T()), "(h&&F)||T"
	case 5:
		return iteN(h(), T(), T()), "if-h-then-T-else-T"
	case 6:
		return andN(T(), orN(h(), T())), "T&&(h||T)"
	}
	return iteN(andN(h(), F()), F(), T()), "if-(h&&F)-then-F-else-T"
}

// singletonCaps: see the file comment of gen_c15b.go.
func (c *C15Gen) singletonCaps(d int) (ast.IsNode, bool) {
	sites := c.capSites(d - 1)
	if len(sites) == 0 {
		return nil, false
	}
	s := sites[c.pick(len(sites))]
	h, use := s.guard, s.use
	ok := func() ast.IsNode {
		if d > 1 && c.chance(0.4) {
			return c.boolExpr(d - 2)
		}
		return lit(types.Boolean(c.chance(0.5)))
	}
	junk := func() ast.IsNode { return c.junkExpr(d - 1) }
	var n ast.IsNode
	test, form := "", ""
	switch k := c.pick(40); {
	// ---- a False-typed test that carries the capability
	case k < 9:
		t, ts := c.falseWithGuard(s)
		n, test, form = iteN(t, ok(), use()), "false-typed:"+ts, "else-reads"
	case k < 11:
		t, ts := c.falseWithGuard(s)
		n, test, form = iteN(t, use(), use()), "false-typed:"+ts, "both-read"
	case k < 13:
		t, ts := c.falseWithGuard(s)
		n, test, form = iteN(t, use(), ok()), "false-typed:"+ts, "then-reads(dead)"
	case k < 15:
		t, ts := c.falseWithGuard(s)
		n, test, form = orN(t, use()), "false-typed:"+ts, "TEST||reads"
	case k < 16:
		t, ts := c.falseWithGuard(s)
		n, test, form = andN(t, use()), "false-typed:"+ts, "TEST&&reads(dead)"
	case k < 18:
		t, ts := c.falseWithGuard(s)
		n, test, form = andN(notN(t), use()), "false-typed:"+ts, "!TEST&&reads"
	case k < 19:
		t, ts := c.falseWithGuard(s)
		n, test, form = andN(iteN(t, ok(), ok()), use()), "false-typed:"+ts, "(if TEST ..)&&reads"
	case k < 21: // the else branch of the inner if IS the guard: capability legitimately reaches the outer then-branch
		t, ts := c.falseWithGuard(s)
		n, test, form = iteN(iteN(t, ok(), h()), use(), ok()), "false-typed:"+ts, "if (if TEST then b else h) then reads"
	case k < 22:
		t, ts := c.falseWithGuard(s)
		n, test, form = iteN(iteN(t, h(), ok()), use(), ok()), "false-typed:"+ts, "if (if TEST then h else b) then reads"
	// ---- a True-typed test
	case k < 25:
		t, ts := c.trueWithGuard(s)
		n, test, form = iteN(t, use(), ok()), "true-typed:"+ts, "then-reads"
	case k < 27:
		t, ts := c.trueWithGuard(s)
		n, test, form = andN(t, use()), "true-typed:"+ts, "TEST&&reads"
	case k < 28:
		t, ts := c.trueWithGuard(s)
		n, test, form = iteN(t, ok(), use()), "true-typed:"+ts, "else-reads(dead)"
	case k < 29:
		t, ts := c.trueWithGuard(s)
		n, test, form = orN(notN(t), use()), "true-typed:"+ts, "!TEST||reads"
	// ---- True by a capability already held: the skipped branch is dead for a good reason
	case k < 31:
		n, test, form = andN(h(), iteN(h(), use(), junk())), "", "h&&(if h then reads else junk)"
	case k < 32:
		n, test, form = andN(h(), orN(notN(h()), use())), "", "h&&(!h||reads)"
	case k < 33:
		n, test, form = iteN(h(), iteN(notN(h()), junk(), use()), ok()), "", "if h then (if !h then junk else reads)"
	case k < 34:
		n, test, form = andN(h(), orN(h(), junk())), "", "h&&(h||junk)"
	case k < 35: // … and NOT held: the same shapes with the inner guard on another key
		n, test, form = andN(h(), iteN(s.other(), junk(), use())), "", "h&&(if other-guard then junk else reads)"
	case k < 36:
		n, test, form = andN(s.other(), use()), "", "other-guard&&reads"
	// ---- capabilities must not leak out of a negation / the right of `||` / one branch only
	case k < 37:
		n, test, form = andN(notN(notN(h())), use()), "", "!!h&&reads"
	case k < 38:
		n, test, form = andN(orN(c.singletonOf(false, 1), h()), use()), "", "(F||h)&&reads"
	case k < 39:
		n, test, form = andN(andN(c.singletonOf(true, 1), h()), use()), "", "(T&&h)&&reads"
	default:
		n, test, form = iteN(orN(h(), c.singletonOf(false, 1)), use(), ok()), "", "if (h||F) then reads"
	}
	c.note("caps:site=" + s.kind)
	c.note("caps:form=" + form)
	if test != "" {
		c.note("caps:test=" + test)
		if form == "else-reads" && test[:5] == "false" {
			c.note("caps:false-typed-test:else-reads")
		}
	}
	return n, true
}
