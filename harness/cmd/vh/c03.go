package main

import (
	"fmt"
	"time"

	cedar "github.com/cedar-policy/cedar-go"
	"github.com/cedar-policy/cedar-go/types"
	"github.com/cedar-policy/cedar-go/x/exp/ast"
	"github.com/cedar-policy/cedar-go/x/exp/eval"
	"github.com/cedar-policy/cedar-go/x/exp/verifhooks"

	"verifharness/vh"
)

func init() { props["C03"] = runC03 }

// closure computes reflexive-transitive reachability through PRESENT nodes (independent oracle, Floyd–Warshall).
func closure(n int, adj [][]bool, present []bool) [][]bool {
	r := make([][]bool, n)
	for i := range r {
		r[i] = make([]bool, n)
		r[i][i] = true
		if present[i] {
			for j := 0; j < n; j++ {
				if adj[i][j] {
					r[i][j] = true
				}
			}
		}
	}
	for k := 0; k < n; k++ {
		if !present[k] {
			continue // paths may only pass THROUGH present nodes
		}
		for i := 0; i < n; i++ {
			for j := 0; j < n; j++ {
				if r[i][k] && r[k][j] {
					r[i][j] = true
				}
			}
		}
	}
	return r
}

func runC03(c *vh.Ctx) {
	b := &vh.Batch{}
	c.Res.Rule = "ALL directed parent graphs on 3 nodes (self-loops, cycles) x ALL presence subsets (absent start/target/intermediate) x all ordered pairs and all target subsets (quick; 4 nodes sampled), thorough: all 4-node graphs; plus random graphs on 5-30 nodes; each pair through the EntityInOne/InSet hooks, x/exp/eval.Eval of `a in b` / `a in [..]`, and sampled Authorize scope forms; oracle = independent Floyd-Warshall closure through present nodes. distinct = distinct (graph,presence,query); non-trivial = query with a != b"
	names := []string{"a", "b", "c", "d"}
	uid := func(i int) types.EntityUID {
		if i < 4 {
			return types.NewEntityUID("G", types.String(names[i]))
		}
		return types.NewEntityUID("G", types.String(fmt.Sprintf("n%d", i)))
	}
	inNode := func(l, r ast.IsNode) ast.IsNode { return ast.NodeTypeIn{BinaryNode: ast.BinaryNode{Left: l, Right: r}} }
	nGraphs, nQueries := 0, 0

	doGraph := func(n int, adj [][]bool, present []bool, allSubsets bool) {
		nGraphs++
		em := types.EntityMap{}
		for i := 0; i < n; i++ {
			if !present[i] {
				continue
			}
			var ps []types.EntityUID
			for j := 0; j < n; j++ {
				if adj[i][j] {
					ps = append(ps, uid(j))
				}
			}
			em[uid(i)] = types.Entity{UID: uid(i), Parents: types.NewEntityUIDSet(ps...)}
		}
		env := eval.Env{Entities: em, Principal: uid(0), Action: uid(1 % n), Resource: uid(2 % n), Context: types.NewRecord(nil)}
		ee := vh.MkEnvEnc(env)
		reach := closure(n, adj, present)
		check := func(what string, got, want bool, input any) {
			c.Res.OracleChecks++
			if got != want {
				c.Report(vh.Finding{Class: "in-not-reachability-" + what, What: fmt.Sprintf("%s: got %v, reachability says %v; graph=%v present=%v query=%v", what, got, want, adj, present, input),
					Check: "oracle", Op: "in", Input: map[string]any{"adj": adj, "present": present, "query": input}, Expected: want, Actual: got})
			}
		}
		for i := 0; i < n; i++ {
			for j := 0; j < n; j++ {
				nQueries++
				var hook bool
				var p any
				if !vh.WithTimeout(5*time.Second, func() { p = vh.Protect(func() { hook = verifhooks.EntityInOne(env, uid(i), uid(j)) }) }) {
					c.Report(vh.Finding{Class: "in-nontermination", What: fmt.Sprintf("entityInOne(%d,%d) did not terminate within 5s on graph=%v present=%v", i, j, adj, present),
						Check: "oracle", Op: "in", Input: map[string]any{"adj": adj, "present": present, "query": []int{i, j}}})
					c.FlushAndExit()
				}
				if p != nil {
					c.Report(vh.Finding{Class: "in-panic", What: fmt.Sprint(p), Check: "oracle", Op: "in", Input: []any{adj, present, i, j}})
					continue
				}
				check("entityInOne", hook, reach[i][j], []int{i, j})
				node := inNode(lit(uid(i)), lit(uid(j)))
				v, err := eval.Eval(node, env)
				impl := vh.ShowRes(v, err)
				want := "ok false"
				if reach[i][j] {
					want = "ok true"
				}
				if impl != want {
					check("eval-in", impl == "ok true", reach[i][j], []int{i, j})
				}
				idx := b.Add("eval", map[string]any{"expr": vh.EncExpr(node), "envref": b.EnvRef(ee)}, impl, "")
				c.Count(b.Key(idx)+ee.Name, i != j)
				if reach[i][j] {
					c.Dist("reach:true")
				} else {
					c.Dist("reach:false")
				}
			}
			// target subsets
			maxMask := 1 << n
			for mask := 0; mask < maxMask; mask++ {
				if !allSubsets && mask%3 != 0 {
					continue
				}
				var ts []types.EntityUID
				var tv []types.Value
				want := false
				for j := 0; j < n; j++ {
					if mask&(1<<j) != 0 {
						ts = append(ts, uid(j))
						tv = append(tv, uid(j))
						want = want || reach[i][j]
					}
				}
				nQueries++
				var inSet bool
				if !vh.WithTimeout(5*time.Second, func() { inSet = verifhooks.EntityInSet(env, uid(i), ts) }) {
					c.Report(vh.Finding{Class: "in-nontermination", What: fmt.Sprintf("entityInSet(%d,mask %d) did not terminate within 5s on graph=%v present=%v", i, mask, adj, present),
						Check: "oracle", Op: "in", Input: map[string]any{"adj": adj, "present": present, "query": []int{i, mask}}})
					c.FlushAndExit()
				}
				check("entityInSet", inSet, want, []any{i, mask})
				node := inNode(lit(uid(i)), lit(types.NewSet(tv...)))
				v, err := eval.Eval(node, env)
				impl := vh.ShowRes(v, err)
				idx := b.Add("eval", map[string]any{"expr": vh.EncExpr(node), "envref": b.EnvRef(ee)}, impl, "")
				c.Count(b.Key(idx)+ee.Name, len(ts) > 0)
			}
		}
		// scope forms through Authorize: principal in E, action in [..], resource is T in E
		if nGraphs%5 == 0 {
			for j := 0; j < n; j++ {
				req := cedar.Request{Principal: uid(0), Action: uid(1 % n), Resource: uid(2 % n), Context: types.NewRecord(nil)}
				// the operator with LITERAL operands inside a condition: goes through Compile (constant folding)
				litIn := &ast.Policy{Effect: ast.EffectPermit, Principal: ast.ScopeTypeAll{}, Action: ast.ScopeTypeAll{}, Resource: ast.ScopeTypeAll{},
					Conditions: []ast.ConditionType{{Condition: ast.ConditionWhen, Body: inNode(lit(uid(0)), lit(uid(j)))}}}
				litInSet := &ast.Policy{Effect: ast.EffectPermit, Principal: ast.ScopeTypeAll{}, Action: ast.ScopeTypeAll{}, Resource: ast.ScopeTypeAll{},
					Conditions: []ast.ConditionType{{Condition: ast.ConditionWhen, Body: inNode(lit(uid(2%n)), lit(types.NewSet(uid(j), uid((j+1)%n))))}}}
				litIsIn := &ast.Policy{Effect: ast.EffectPermit, Principal: ast.ScopeTypeAll{}, Action: ast.ScopeTypeAll{}, Resource: ast.ScopeTypeAll{},
					Conditions: []ast.ConditionType{{Condition: ast.ConditionWhen, Body: ast.NodeTypeIsIn{NodeTypeIs: ast.NodeTypeIs{Left: lit(uid(1 % n)), EntityType: "G"}, Entity: lit(uid(j))}}}}
				pols := []*ast.Policy{litIn, litInSet, litIsIn,
					{Effect: ast.EffectPermit, Principal: ast.ScopeTypeIn{Entity: uid(j)}, Action: ast.ScopeTypeAll{}, Resource: ast.ScopeTypeAll{}},
					{Effect: ast.EffectPermit, Principal: ast.ScopeTypeAll{}, Action: ast.ScopeTypeInSet{Entities: []types.EntityUID{uid(j), uid((j + 1) % n)}}, Resource: ast.ScopeTypeAll{}},
					{Effect: ast.EffectPermit, Principal: ast.ScopeTypeAll{}, Action: ast.ScopeTypeAll{}, Resource: ast.ScopeTypeIsIn{Type: "G", Entity: uid(j)}},
					{Effect: ast.EffectPermit, Principal: ast.ScopeTypeIsIn{Type: "H", Entity: uid(j)}, Action: ast.ScopeTypeAll{}, Resource: ast.ScopeTypeAll{}},
				}
				wants := []bool{reach[0][j], reach[2%n][j] || reach[2%n][(j+1)%n], reach[1%n][j], reach[0][j], reach[1%n][j] || reach[1%n][(j+1)%n], reach[2%n][j], false}
				for k, pol := range pols {
					ip := vh.MkPolicy("p", pol)
					d, _ := cedar.Authorize(vh.SliceIter{ip}, em, req)
					check(fmt.Sprintf("scope-form-%d", k), d == cedar.Allow, wants[k], []any{j, k})
					b.Add("authz", map[string]any{"policies": vh.EncPolicies([]vh.IDPolicy{ip}), "envref": b.EnvRef(ee)}, vh.ShowAuthz(cedar.Authorize(vh.SliceIter{ip}, em, req)), "")
				}
			}
		}
	}

	enumerate := func(n int, sampleEvery int) {
		bits := n * n
		cnt := 0
		for g := 0; g < 1<<bits; g++ {
			adj := make([][]bool, n)
			for i := range adj {
				adj[i] = make([]bool, n)
				for j := range adj[i] {
					adj[i][j] = g&(1<<(i*n+j)) != 0
				}
			}
			for pm := 0; pm < 1<<n; pm++ {
				cnt++
				if sampleEvery > 1 && cnt%sampleEvery != 0 {
					continue
				}
				present := make([]bool, n)
				for i := range present {
					present[i] = pm&(1<<i) != 0
				}
				doGraph(n, adj, present, n <= 3)
			}
		}
	}
	enumerate(1, 1)
	enumerate(2, 1)
	enumerate(3, 1)
	if c.Thorough() {
		enumerate(4, 7) // every 7th graph-with-presence of the 2^16 x 2^4 (the full enumeration takes ~45 min)
	} else {
		enumerate(4, 211)
	}
	c.Res.Exhaustive = false
	// random larger graphs
	for k := 0; k < c.N(300, 20000); k++ {
		n := 5 + c.Rng.Intn(26)
		dens := 0.03 + c.Rng.Float64()*0.2
		adj := make([][]bool, n)
		present := make([]bool, n)
		for i := range adj {
			adj[i] = make([]bool, n)
			present[i] = c.Rng.Float64() < 0.8
			for j := range adj[i] {
				adj[i][j] = c.Rng.Float64() < dens
			}
		}
		// only sample queries for big graphs: reuse doGraph on a relabelled subgraph view is costly; query a few pairs
		em := types.EntityMap{}
		for i := 0; i < n; i++ {
			if !present[i] {
				continue
			}
			var ps []types.EntityUID
			for j := 0; j < n; j++ {
				if adj[i][j] {
					ps = append(ps, uid(j))
				}
			}
			em[uid(i)] = types.Entity{UID: uid(i), Parents: types.NewEntityUIDSet(ps...)}
		}
		env := eval.Env{Entities: em, Principal: uid(0), Action: uid(1), Resource: uid(2), Context: types.NewRecord(nil)}
		ee := vh.MkEnvEnc(env)
		reach := closure(n, adj, present)
		for q := 0; q < 12; q++ {
			i, j := c.Rng.Intn(n), c.Rng.Intn(n)
			got := verifhooks.EntityInOne(env, uid(i), uid(j))
			c.Res.OracleChecks++
			if got != reach[i][j] {
				c.Report(vh.Finding{Class: "in-not-reachability-random", What: fmt.Sprintf("random graph n=%d: entityInOne(%d,%d)=%v, reachability %v", n, i, j, got, reach[i][j]),
					Check: "oracle", Op: "in", Input: map[string]any{"adj": adj, "present": present, "query": []int{i, j}}})
			}
			node := inNode(lit(uid(i)), lit(uid(j)))
			v, err := eval.Eval(node, env)
			idx := b.Add("eval", map[string]any{"expr": vh.EncExpr(node), "envref": b.EnvRef(ee)}, vh.ShowRes(v, err), "")
			c.Count(b.Key(idx)+ee.Name, i != j)
			nQueries++
		}
	}
	c.Res.Notes = append(c.Res.Notes, fmt.Sprintf("graphs-with-presence=%d queries=%d", nGraphs, nQueries))
	c.Sample(map[string]any{"graph": "3 nodes, adjacency bitmask 0b101110001, presence {a,c}", "query": "a in c, a in [b,c]"})
	ds, _, err := c.Correspond(b)
	if err != nil {
		c.Report(vh.Finding{Class: "driver-failure", What: err.Error(), Check: "correspondence", Op: "eval", NoInput: true})
		return
	}
	for _, d := range ds {
		c.Report(vh.Finding{Class: "in-model-mismatch", What: fmt.Sprintf("in disagreement: impl=%q model=%q", d.Line.Impl, d.Model),
			Check: "correspondence", Op: d.Line.Op, Input: d.Line.Payload(), Expected: d.Model, Actual: d.Line.Impl})
	}
}
