package main

// C14 case generation.  c14Cases(seed, tier) is a pure function of its arguments (it never iterates a
// Go map while choosing), so the parent and the fresh worker processes build the very same cases and
// can compare what they observe on them.

import (
	"encoding/json"
	"fmt"
	"math"
	"math/rand"
	"sort"
	"strings"

	cedar "github.com/cedar-policy/cedar-go"
	publicast "github.com/cedar-policy/cedar-go/ast"
	"github.com/cedar-policy/cedar-go/types"
	"github.com/cedar-policy/cedar-go/x/exp/ast"
	"github.com/cedar-policy/cedar-go/x/exp/eval"
	"github.com/cedar-policy/cedar-go/x/exp/schema"
	sast "github.com/cedar-policy/cedar-go/x/exp/schema/ast"
	"github.com/cedar-policy/cedar-go/x/exp/schema/resolved"
	exptypes "github.com/cedar-policy/cedar-go/x/exp/types"

	"verifharness/vh"
)

type c14Class struct{ Class, What string }

// c14Case: one input; Run produces one observation (name -> canonical string) of the real code.
// rep 0 is the baseline construction order; other reps rebuild containers in a shuffled insertion order.
type c14Case struct {
	Key        string
	Kind       string
	Labels     []string
	Nontrivial bool
	Input      any
	Run        func(rep int, sh *rand.Rand) map[string]string
	// Classify explains why observation `name` varies (all = every observation's variants); nil or an
	// empty answer means: unexplained => VIOLATION.
	Classify func(name string, all map[string][]string) []c14Class
}

type c14Ent struct {
	UID     types.EntityUID
	Parents []types.EntityUID
	Attrs   types.Record
	Tags    types.Record
}

func (e c14Ent) build(shuffle bool, sh *rand.Rand) types.Entity {
	ps := append([]types.EntityUID{}, e.Parents...)
	if shuffle {
		sh.Shuffle(len(ps), func(i, j int) { ps[i], ps[j] = ps[j], ps[i] })
	}
	return types.Entity{UID: e.UID, Parents: types.NewEntityUIDSet(ps...), Attributes: e.Attrs, Tags: e.Tags}
}

func c14BuildEntityMap(es []c14Ent, shuffle bool, sh *rand.Rand) types.EntityMap {
	idx := make([]int, len(es))
	for i := range idx {
		idx[i] = i
	}
	if shuffle {
		sh.Shuffle(len(idx), func(i, j int) { idx[i], idx[j] = idx[j], idx[i] })
	}
	m := types.EntityMap{}
	for _, i := range idx {
		m[es[i].UID] = es[i].build(shuffle, sh)
	}
	return m
}

func c14EncEnts(es []c14Ent) any {
	out := []any{}
	for _, e := range es {
		ps := []any{}
		for _, p := range e.Parents {
			ps = append(ps, vh.EncUID(p))
		}
		out = append(out, map[string]any{"uid": vh.EncUID(e.UID), "parents": ps, "attrs": vh.EncValue(e.Attrs), "tags": vh.EncValue(e.Tags)})
	}
	return out
}

// ---- expression pools ----

func c14Lit(v types.Value) ast.IsNode { return ast.NodeValue{Value: v} }
func c14Bin(l, r ast.IsNode) ast.BinaryNode {
	return ast.BinaryNode{Left: l, Right: r}
}
func c14Ctx() ast.IsNode { return ast.NodeTypeVariable{Name: "context"} }
func c14Access(n ast.IsNode, k string) ast.IsNode {
	return ast.NodeTypeAccess{StrOpNode: ast.StrOpNode{Arg: n, Value: types.String(k)}}
}
func c14Call(name string, args ...ast.IsNode) ast.IsNode {
	return ast.NodeTypeExtensionCall{Name: types.Path(name), Args: args}
}

type c14Named struct {
	Name string
	Node ast.IsNode
}

// erroring expressions: different kinds, and the same kind with different messages
func c14ErrExprs() []c14Named {
	one := c14Lit(types.Long(1))
	return []c14Named{
		{"type-add-string", ast.NodeTypeAdd{BinaryNode: c14Bin(one, c14Lit(types.String("x")))}},
		{"type-add-bool", ast.NodeTypeAdd{BinaryNode: c14Bin(one, c14Lit(types.True))}},
		{"type-lt-string", ast.NodeTypeLessThan{BinaryNode: c14Bin(one, c14Lit(types.String("x")))}},
		{"type-lt-bool", ast.NodeTypeLessThan{BinaryNode: c14Bin(one, c14Lit(types.True))}},
		{"type-not-long", ast.NodeTypeNot{UnaryNode: ast.UnaryNode{Arg: one}}},
		{"overflow-add", ast.NodeTypeAdd{BinaryNode: c14Bin(c14Lit(types.Long(math.MaxInt64)), one)}},
		{"overflow-mul", ast.NodeTypeMult{BinaryNode: c14Bin(c14Lit(types.Long(math.MaxInt64)), c14Lit(types.Long(2)))}},
		{"overflow-neg", ast.NodeTypeNegate{UnaryNode: ast.UnaryNode{Arg: c14Lit(types.Long(math.MinInt64))}}},
		{"attr-missing1", c14Access(c14Ctx(), "missing1")},
		{"attr-missing2", c14Access(c14Ctx(), "missing2")},
		{"entity-ghost", c14Access(c14Lit(types.NewEntityUID("User", "ghost")), "x")},
		{"entity-attr", c14Access(ast.NodeTypeVariable{Name: "principal"}, "nope")},
		{"tag-missing", ast.NodeTypeGetTag{BinaryNode: c14Bin(ast.NodeTypeVariable{Name: "principal"}, c14Lit(types.String("zz")))}},
		{"ext-decimal", c14Call("decimal", c14Lit(types.String("abc")))},
		{"ext-ip", c14Call("ip", c14Lit(types.String("x.y")))},
		{"ext-datetime", c14Call("datetime", c14Lit(types.String("yesterday")))},
		{"ext-duration", c14Call("duration", c14Lit(types.String("1x")))},
		{"unknown-fn", c14Call("nosuchfn", one)},
		{"arity", c14Call("decimal")},
		{"type-like", ast.NodeTypeLike{Arg: one, Value: types.NewPattern(types.Wildcard{})}},
		{"in-rhs-long", ast.NodeTypeIn{BinaryNode: c14Bin(ast.NodeTypeVariable{Name: "principal"}, one)}},
	}
}

func c14OkExprs() []c14Named {
	return []c14Named{
		{"long", c14Lit(types.Long(7))},
		{"string", c14Lit(types.String("s"))},
		{"bool", c14Lit(types.True)},
		{"context", c14Ctx()},
		{"principal", ast.NodeTypeVariable{Name: "principal"}},
		{"set", ast.NodeTypeSet{Elements: []ast.IsNode{c14Lit(types.Long(1)), c14Lit(types.Long(2))}}},
		{"sum", ast.NodeTypeAdd{BinaryNode: c14Bin(c14Lit(types.Long(1)), c14Lit(types.Long(2)))}},
		{"has", ast.NodeTypeHas{StrOpNode: ast.StrOpNode{Arg: c14Ctx(), Value: "n"}}},
	}
}

var c14Keys = []string{"a", "b", "c", "d", "e", "k1", "k2", "zz", "if", "é", "key with space"}

// c14RecordLit builds a record literal with nErr erroring and nOk fine entries (distinct keys), at
// shuffled positions; deep > 0 may nest another such literal under one key.
func c14RecordLit(r *rand.Rand, nErr, nOk, deep int) (ast.NodeTypeRecord, []string) {
	errs, oks := c14ErrExprs(), c14OkExprs()
	keys := append([]string{}, c14Keys...)
	r.Shuffle(len(keys), func(i, j int) { keys[i], keys[j] = keys[j], keys[i] })
	var els []ast.RecordElementNode
	var names []string
	k := 0
	for i := 0; i < nErr; i++ {
		e := errs[r.Intn(len(errs))]
		els = append(els, ast.RecordElementNode{Key: types.String(keys[k]), Value: e.Node})
		names = append(names, e.Name)
		k++
	}
	for i := 0; i < nOk; i++ {
		e := oks[r.Intn(len(oks))]
		els = append(els, ast.RecordElementNode{Key: types.String(keys[k]), Value: e.Node})
		k++
	}
	if deep > 0 && k < len(keys) {
		inner, innerNames := c14RecordLit(r, 1+r.Intn(2), r.Intn(2), deep-1)
		els = append(els, ast.RecordElementNode{Key: types.String(keys[k]), Value: c14Access(inner, string(inner.Elements[0].Key))})
		names = append(names, innerNames...)
	}
	r.Shuffle(len(els), func(i, j int) { els[i], els[j] = els[j], els[i] })
	return ast.NodeTypeRecord{Elements: els}, names
}

// c14RecordCond wraps a record literal into a boolean condition in one of several shapes.
func c14RecordCond(r *rand.Rand, rec ast.NodeTypeRecord) ast.IsNode {
	k := string(rec.Elements[r.Intn(len(rec.Elements))].Key)
	switch r.Intn(6) {
	case 0:
		return ast.NodeTypeEquals{BinaryNode: c14Bin(c14Access(rec, k), c14Lit(types.Long(7)))}
	case 1:
		return ast.NodeTypeEquals{BinaryNode: c14Bin(rec, ast.NodeTypeRecord{})}
	case 2:
		return ast.NodeTypeHas{StrOpNode: ast.StrOpNode{Arg: rec, Value: types.String(k)}}
	case 3:
		return ast.NodeTypeContains{BinaryNode: c14Bin(ast.NodeTypeSet{Elements: []ast.IsNode{rec}}, c14Lit(types.Long(1)))}
	case 4:
		return ast.NodeTypeIfThenElse{If: c14Lit(types.True), Then: ast.NodeTypeNotEquals{BinaryNode: c14Bin(rec, c14Ctx())}, Else: c14Lit(types.False)}
	default:
		return ast.NodeTypeOr{BinaryNode: c14Bin(c14Lit(types.False), ast.NodeTypeEquals{BinaryNode: c14Bin(c14Ctx(), rec)})}
	}
}

func c14Policy(effect ast.Effect, k int, conds ...ast.IsNode) *ast.Policy {
	p := &ast.Policy{Effect: effect, Principal: ast.ScopeTypeAll{}, Action: ast.ScopeTypeAll{}, Resource: ast.ScopeTypeAll{},
		Position: ast.Position{Filename: "c14.cedar", Offset: 10 * k, Line: k + 1, Column: 1}}
	for _, c := range conds {
		p.Conditions = append(p.Conditions, ast.ConditionType{Condition: ast.ConditionWhen, Body: c})
	}
	return p
}

// c14Hierarchy: n group entities G0..G(n-1), each with up to maxParents parents (cycles, self and dangling allowed).
func c14Hierarchy(r *rand.Rand, n, maxParents int) []c14Ent {
	var es []c14Ent
	uid := func(i int) types.EntityUID { return types.NewEntityUID("Group", types.String(fmt.Sprintf("g%d", i))) }
	for i := 0; i < n; i++ {
		np := r.Intn(maxParents + 1)
		var ps []types.EntityUID
		for j := 0; j < np; j++ {
			ps = append(ps, uid(r.Intn(n+2))) // n, n+1 are dangling
		}
		es = append(es, c14Ent{UID: uid(i), Parents: ps, Attrs: types.NewRecord(types.RecordMap{"n": types.Long(int64(i))}), Tags: types.NewRecord(nil)})
	}
	return es
}

// c14WorldEnts: the shared generator's store as a deterministic slice.
func c14WorldEnts(g *vh.Gen) []c14Ent {
	m := g.Entities()
	var es []c14Ent
	for _, u := range g.World.UIDs { // slice order, not map order
		e, ok := m[u]
		if !ok {
			continue
		}
		var ps []types.EntityUID
		for p := range e.Parents.All() {
			ps = append(ps, p)
		}
		sort.Slice(ps, func(i, j int) bool { return ps[i].String() < ps[j].String() })
		es = append(es, c14Ent{UID: u, Parents: ps, Attrs: e.Attributes, Tags: e.Tags})
	}
	return es
}

func c14BigSet(r *rand.Rand, n int) []types.Value {
	var vs []types.Value
	cv := vh.CollidingValues()
	for i := 0; i < n; i++ {
		switch r.Intn(4) {
		case 0:
			vs = append(vs, cv[r.Intn(len(cv))])
		case 1:
			vs = append(vs, types.String(fmt.Sprintf("s%d", r.Intn(40))))
		default:
			vs = append(vs, types.Long(int64(r.Intn(60))))
		}
	}
	return vs
}

func c14SetLit(vs []types.Value) ast.IsNode {
	var es []ast.IsNode
	for _, v := range vs {
		es = append(es, c14Lit(v))
	}
	return ast.NodeTypeSet{Elements: es}
}

// ---- observation renderers ----

func c14ShowAuthz(d cedar.Decision, diag cedar.Diagnostic) string {
	var rs, es []string
	for _, x := range diag.Reasons {
		rs = append(rs, "R "+vh.Hex(string(x.PolicyID))+"@"+vh.ShowPos(x.Position.Filename, x.Position.Offset, x.Position.Line, x.Position.Column))
	}
	for _, x := range diag.Errors {
		es = append(es, "E "+vh.Hex(string(x.PolicyID))+"@"+vh.ShowPos(x.Position.Filename, x.Position.Offset, x.Position.Line, x.Position.Column)+"\t"+x.Message)
	}
	sort.Strings(rs)
	sort.Strings(es)
	lines := []string{"D deny"}
	if d == cedar.Allow {
		lines[0] = "D allow"
	}
	lines = append(lines, c14Dedup(rs)...)
	lines = append(lines, c14Dedup(es)...)
	return strings.Join(lines, "\n")
}

func c14Dedup(xs []string) []string {
	var out []string
	for i, x := range xs {
		if i == 0 || x != xs[i-1] {
			out = append(out, x)
		}
	}
	return out
}

func c14Protect(obs map[string]string, name string, f func() string) {
	var s string
	if p := vh.Protect(func() { s = f() }); p != nil {
		s = fmt.Sprintf("panic: %v", p)
	}
	obs[name] = s
}

func c14PolicyOf(p *ast.Policy) *cedar.Policy { return cedar.NewPolicyFromAST((*publicast.Policy)(p)) }

// ---- the cases ----

type c14AuthzInput struct {
	Policies []vh.IDPolicy
	Ents     []c14Ent
	Req      cedar.Request
}

func (in c14AuthzInput) env(em types.EntityMap) eval.Env {
	return eval.Env{Entities: em, Principal: in.Req.Principal, Action: in.Req.Action, Resource: in.Req.Resource, Context: in.Req.Context}
}

func c14AuthzCase(key string, in c14AuthzInput, labels []string) *c14Case {
	var baseSet *cedar.PolicySet
	var baseMap types.EntityMap
	c := &c14Case{Key: key, Kind: "authz", Labels: labels, Nontrivial: len(in.Policies) > 0,
		Input: map[string]any{"policies": vh.EncPolicies(in.Policies), "entities": c14EncEnts(in.Ents),
			"request": []any{vh.EncUID(in.Req.Principal), vh.EncUID(in.Req.Action), vh.EncUID(in.Req.Resource), vh.EncValue(in.Req.Context)}}}
	c.Run = func(rep int, sh *rand.Rand) map[string]string {
		obs := map[string]string{}
		c14Protect(obs, "authz", func() string {
			if baseSet == nil {
				baseSet = cedar.NewPolicySet()
				for _, ip := range in.Policies {
					baseSet.Add(ip.ID, ip.P)
				}
				baseMap = c14BuildEntityMap(in.Ents, false, sh)
			}
			var it cedar.PolicyIterator = baseSet
			em := baseMap
			switch {
			case rep == 0 || rep%4 == 2: // the very same objects again: only Go's per-range randomisation varies
			case rep%4 == 1: // a slice-backed iterator in shuffled order, two policies yielded twice
				ps := append([]vh.IDPolicy{}, in.Policies...)
				if len(ps) > 0 {
					ps = append(ps, ps[sh.Intn(len(ps))], ps[sh.Intn(len(ps))])
				}
				sh.Shuffle(len(ps), func(i, j int) { ps[i], ps[j] = ps[j], ps[i] })
				it = vh.SliceIter(ps)
				em = c14BuildEntityMap(in.Ents, true, sh)
			default: // a fresh PolicySet and EntityMap filled in shuffled insertion orders
				ps := append([]vh.IDPolicy{}, in.Policies...)
				sh.Shuffle(len(ps), func(i, j int) { ps[i], ps[j] = ps[j], ps[i] })
				set := cedar.NewPolicySet()
				for _, ip := range ps {
					set.Add(ip.ID, ip.P)
				}
				it = set
				em = c14BuildEntityMap(in.Ents, true, sh)
			}
			d, diag := cedar.Authorize(it, em, in.Req)
			return c14ShowAuthz(d, diag)
		})
		return obs
	}
	c.Classify = func(name string, all map[string][]string) []c14Class {
		asts := map[string]*ast.Policy{}
		for _, ip := range in.Policies {
			asts[vh.Hex(string(ip.ID))] = ip.AST
		}
		return c14ClassifyAuthz(all[name], asts, in.env(c14BuildEntityMap(in.Ents, false, nil)))
	}
	return c
}

// c14GenAuthz: >= 8 policies, >= 8 entities; favours record literals with several erroring entries,
// `in` over deep hierarchies and over sets with non-entity members, containsAll/Any over big sets.
func c14GenAuthz(r *rand.Rand, g *vh.Gen, idx int) *c14Case {
	ents := c14Hierarchy(r, 8+r.Intn(8), 2+r.Intn(8))
	ents = append(ents, c14WorldEnts(g)...)
	gUID := func() types.EntityUID { return ents[r.Intn(len(ents))].UID }
	ctx := g.Record(1).Map()
	if ctx == nil {
		ctx = types.RecordMap{}
	}
	big := c14BigSet(r, 20+r.Intn(30))
	ctx["big"] = types.NewSet(big...)
	req := cedar.Request{Principal: gUID(), Action: types.NewEntityUID("Action", "a"), Resource: g.UID(), Context: types.NewRecord(ctx)}
	if r.Intn(3) == 0 {
		req.Principal = g.UID()
	}
	n := 8 + r.Intn(7)
	var ps []vh.IDPolicy
	labels := map[string]bool{}
	for k := 0; k < n; k++ {
		eff := ast.Effect(r.Intn(3) != 0)
		var p *ast.Policy
		shape := r.Intn(11)
		if idx%2 == 1 && (shape <= 2 || shape == 4) { // odd cases stay inside the proved domain: no known order-leaking shape
			shape = []int{3, 5, 6, 7}[r.Intn(4)]
		}
		switch shape {
		case 0, 1, 2: // record literal, >= 2 erroring entries
			rec, names := c14RecordLit(r, 2+r.Intn(2), r.Intn(3), r.Intn(2))
			p = c14Policy(eff, k, c14RecordCond(r, rec))
			labels["reclit-multi-error"] = true
			_ = names
		case 3: // record literal, <= 1 erroring entry
			rec, _ := c14RecordLit(r, r.Intn(2), 1+r.Intn(3), 0)
			p = c14Policy(eff, k, c14RecordCond(r, rec))
			labels["reclit-single-error"] = true
		case 4: // `in` with a set holding non-entities of several types
			mem := []types.Value{gUID(), types.Long(1), types.String("x"), types.True, gUID()}
			r.Shuffle(len(mem), func(i, j int) { mem[i], mem[j] = mem[j], mem[i] })
			mem = mem[:2+r.Intn(4)]
			p = c14Policy(eff, k, ast.NodeTypeIn{BinaryNode: c14Bin(ast.NodeTypeVariable{Name: "principal"}, c14SetLit(mem))})
			labels["in-set-nonentity"] = true
		case 5: // `in` over the hierarchy: single target, set of targets, scope forms
			var tg []ast.IsNode
			var us []types.EntityUID
			for i := 0; i < 1+r.Intn(6); i++ {
				u := gUID()
				tg = append(tg, c14Lit(u))
				us = append(us, u)
			}
			switch r.Intn(4) {
			case 0:
				p = c14Policy(eff, k, ast.NodeTypeIn{BinaryNode: c14Bin(ast.NodeTypeVariable{Name: "principal"}, tg[0])})
			case 1:
				p = c14Policy(eff, k, ast.NodeTypeIn{BinaryNode: c14Bin(ast.NodeTypeVariable{Name: "principal"}, ast.NodeTypeSet{Elements: tg})})
			case 2:
				p = c14Policy(eff, k)
				p.Principal = ast.ScopeTypeIn{Entity: us[0]}
			default:
				p = c14Policy(eff, k)
				p.Principal = ast.ScopeTypeIsIn{Type: "Group", Entity: us[0]}
				p.Action = ast.ScopeTypeInSet{Entities: append(us, types.NewEntityUID("Action", "a"))}
			}
			labels["in-hierarchy"] = true
		case 6: // containsAll / containsAny over large sets with colliding members
			sub := append([]types.Value{}, big[:r.Intn(len(big))]...)
			if r.Intn(2) == 0 {
				sub = append(sub, types.String("not-there"))
			}
			r.Shuffle(len(sub), func(i, j int) { sub[i], sub[j] = sub[j], sub[i] })
			l, rr := c14Access(c14Ctx(), "big"), c14SetLit(sub)
			if r.Intn(2) == 0 {
				p = c14Policy(eff, k, ast.NodeTypeContainsAll{BinaryNode: c14Bin(l, rr)})
			} else {
				p = c14Policy(eff, k, ast.NodeTypeContainsAny{BinaryNode: c14Bin(l, rr)})
			}
			labels["contains-big"] = true
		case 7: // several erroring conjuncts: `&&` is ordered, the first error is THE error
			es := c14ErrExprs()
			p = c14Policy(eff, k, es[r.Intn(len(es))].Node, es[r.Intn(len(es))].Node)
			if r.Intn(2) == 0 {
				p.Conditions = append([]ast.ConditionType{{Condition: ast.ConditionWhen, Body: c14Lit(types.True)}}, p.Conditions...)
			}
			labels["multi-error-conjuncts"] = true
		case 8:
			cls := []string{"sat", "unsat", "err"}[r.Intn(3)]
			p = classBodies(eff, cls, r.Intn(5))
			p.Position = ast.Position{Filename: "c14.cedar", Offset: 10 * k, Line: k + 1, Column: 1}
		default:
			p = g.Policy(1 + r.Intn(3))
			p.Position = ast.Position{Filename: "c14.cedar", Offset: 10 * k, Line: k + 1, Column: 1}
		}
		ps = append(ps, vh.MkPolicy(fmt.Sprintf("p%d", k), p))
	}
	var ls []string
	for _, l := range []string{"reclit-multi-error", "reclit-single-error", "in-set-nonentity", "in-hierarchy", "contains-big", "multi-error-conjuncts"} {
		if labels[l] {
			ls = append(ls, l)
		}
	}
	if idx%2 == 1 {
		ls = append(ls, "authz-no-known-leak-shape")
	}
	return c14AuthzCase(fmt.Sprintf("authz-%d", idx), c14AuthzInput{Policies: ps, Ents: ents, Req: req}, ls)
}

// ---- marshal cases ----

func c14PolicyMarshalCase(key string, p *ast.Policy) *c14Case {
	var pol *cedar.Policy
	return &c14Case{Key: key, Kind: "marshal-policy", Nontrivial: true, Input: vh.EncPolicy(p),
		Run: func(rep int, sh *rand.Rand) map[string]string {
			obs := map[string]string{}
			if pol == nil || rep%4 == 3 { // mostly the same Policy object; every fourth time a new one from the same AST
				pol = c14PolicyOf(p)
			}
			c14Protect(obs, "policy.cedar", func() string { return string(pol.MarshalCedar()) })
			c14Protect(obs, "policy.json", func() string {
				b, err := pol.MarshalJSON()
				if err != nil {
					return "error"
				}
				return string(b)
			})
			return obs
		}}
}

func c14PolicySetMarshalCase(key string, ps []vh.IDPolicy) *c14Case {
	return &c14Case{Key: key, Kind: "marshal-policyset", Nontrivial: len(ps) > 1, Input: vh.EncPolicies(ps),
		Run: func(rep int, sh *rand.Rand) map[string]string {
			obs := map[string]string{}
			qs := append([]vh.IDPolicy{}, ps...)
			if rep != 0 {
				sh.Shuffle(len(qs), func(i, j int) { qs[i], qs[j] = qs[j], qs[i] })
			}
			set := cedar.NewPolicySet()
			for _, ip := range qs {
				set.Add(ip.ID, ip.P)
			}
			c14Protect(obs, "policyset.cedar", func() string { return string(set.MarshalCedar()) })
			c14Protect(obs, "policyset.json", func() string {
				b, err := set.MarshalJSON()
				if err != nil {
					return "error"
				}
				return string(b)
			})
			return obs
		}}
}

func c14EntityMapMarshalCase(key string, es []c14Ent) *c14Case {
	return &c14Case{Key: key, Kind: "marshal-entities", Nontrivial: len(es) > 1, Input: c14EncEnts(es),
		Run: func(rep int, sh *rand.Rand) map[string]string {
			obs := map[string]string{}
			em := c14BuildEntityMap(es, rep != 0, sh)
			c14Protect(obs, "entitymap.json", func() string {
				b, err := em.MarshalJSON()
				if err != nil {
					return "error"
				}
				return string(b)
			})
			if len(es) > 0 {
				e := es[0].build(rep != 0, sh)
				c14Protect(obs, "entity.json", func() string {
					b, err := e.MarshalJSON()
					if err != nil {
						return "error"
					}
					return string(b)
				})
			}
			return obs
		}}
}

// c14ValueMarshalCase: the SAME value object every time (sets keep their construction order: equal sets built
// in different orders may legitimately render differently); a top-level record is rebuilt from a
// RecordMap filled in shuffled insertion order (same member objects).
func c14ValueMarshalCase(key string, v types.Value) *c14Case {
	return &c14Case{Key: key, Kind: "marshal-value", Nontrivial: true, Input: vh.EncValue(v),
		Run: func(rep int, sh *rand.Rand) map[string]string {
			obs := map[string]string{}
			w := v
			if rec, ok := v.(types.Record); ok && rep != 0 {
				keys := vh.SortedKeys(rec)
				sh.Shuffle(len(keys), func(i, j int) { keys[i], keys[j] = keys[j], keys[i] })
				m := types.RecordMap{}
				for _, k := range keys {
					x, _ := rec.Get(k)
					m[k] = x
				}
				w = types.NewRecord(m)
			}
			c14Protect(obs, "value.json", func() string {
				b, err := json.Marshal(w)
				if err != nil {
					return "error"
				}
				return string(b)
			})
			c14Protect(obs, "value.cedar", func() string { return string(w.MarshalCedar()) })
			c14Protect(obs, "value.string", func() string { return w.String() })
			return obs
		}}
}

// ---- schema ----

func c14GenSchemaType(r *rand.Rand, depth int, entNames, commonNames []string) sast.IsType {
	switch r.Intn(9) {
	case 0:
		return sast.String()
	case 1:
		return sast.Long()
	case 2:
		return sast.Bool()
	case 3:
		return []sast.ExtensionType{sast.IPAddr(), sast.Decimal(), sast.Datetime(), sast.Duration()}[r.Intn(4)]
	case 4:
		if depth > 0 {
			return sast.Set(c14GenSchemaType(r, depth-1, entNames, commonNames))
		}
		return sast.Long()
	case 5, 6:
		if depth > 0 {
			return c14GenSchemaRecord(r, depth-1, entNames, commonNames)
		}
		return sast.String()
	case 7:
		return sast.EntityType(types.EntityType(entNames[r.Intn(len(entNames))]))
	default:
		if len(commonNames) > 0 {
			return sast.Type(types.Path(commonNames[r.Intn(len(commonNames))]))
		}
		return sast.Bool()
	}
}

var c14AttrNames = []string{"name", "age", "owner", "tags", "a", "b", "c", "zeta", "alpha", "mid"}

func c14GenAnnotations(r *rand.Rand) sast.Annotations {
	n := r.Intn(5)
	if n == 0 {
		return nil
	}
	a := sast.Annotations{}
	for i := 0; i < n; i++ {
		a[types.Ident([]string{"doc", "owner", "a", "z", "id", "since"}[r.Intn(6)])] = types.String(fmt.Sprintf("v%d", r.Intn(9)))
	}
	return a
}

func c14GenSchemaRecord(r *rand.Rand, depth int, entNames, commonNames []string) sast.RecordType {
	rec := sast.RecordType{}
	n := 3 + r.Intn(3)
	for i := 0; i < n; i++ {
		rec[types.String(c14AttrNames[r.Intn(len(c14AttrNames))])] = sast.Attribute{Type: c14GenSchemaType(r, depth, entNames, commonNames), Optional: r.Intn(3) == 0, Annotations: c14GenAnnotations(r)}
	}
	return rec
}

func c14GenNamespace(r *rand.Rand) sast.Namespace {
	entNames := []string{"User", "Group", "Doc", "Folder"}
	commonNames := []string{"Name", "Meta", "Tags"}
	ns := sast.Namespace{Annotations: c14GenAnnotations(r), Entities: sast.Entities{}, Enums: sast.Enums{}, Actions: sast.Actions{}, CommonTypes: sast.CommonTypes{}}
	for _, cn := range commonNames {
		if r.Intn(3) != 0 {
			ns.CommonTypes[types.Ident(cn)] = sast.CommonType{Annotations: c14GenAnnotations(r), Type: c14GenSchemaType(r, 2, entNames, nil)}
		}
	}
	var cn []string
	for _, n := range commonNames {
		if _, ok := ns.CommonTypes[types.Ident(n)]; ok {
			cn = append(cn, n)
		}
	}
	for _, en := range entNames {
		e := sast.Entity{Annotations: c14GenAnnotations(r)}
		for i := 0; i < r.Intn(4); i++ {
			e.ParentTypes = append(e.ParentTypes, sast.EntityType(types.EntityType(entNames[r.Intn(len(entNames))])))
		}
		if r.Intn(4) != 0 {
			e.Shape = c14GenSchemaRecord(r, 2, entNames, cn)
		}
		if r.Intn(4) == 0 {
			e.Tags = c14GenSchemaType(r, 1, entNames, cn)
		}
		ns.Entities[types.Ident(en)] = e
	}
	for i := 0; i < r.Intn(3); i++ {
		ns.Enums[types.Ident(fmt.Sprintf("Color%d", i))] = sast.Enum{Annotations: c14GenAnnotations(r), Values: []types.String{"red", "green", "blue"}[:1+r.Intn(3)]}
	}
	acts := []string{"view", "edit", "delete", "share", "admin", "list all"}
	for _, an := range acts {
		if r.Intn(4) == 0 {
			continue
		}
		a := sast.Action{Annotations: c14GenAnnotations(r)}
		for i := 0; i < r.Intn(3); i++ {
			a.Parents = append(a.Parents, sast.ParentRefFromID(types.String(acts[r.Intn(len(acts))])))
		}
		if r.Intn(5) != 0 {
			at := &sast.AppliesTo{}
			for i := 0; i < 1+r.Intn(3); i++ {
				at.Principals = append(at.Principals, sast.EntityType(types.EntityType(entNames[r.Intn(len(entNames))])))
				at.Resources = append(at.Resources, sast.EntityType(types.EntityType(entNames[r.Intn(len(entNames))])))
			}
			if r.Intn(2) == 0 {
				at.Context = c14GenSchemaRecord(r, 1, entNames, cn)
			}
			a.AppliesTo = at
		}
		ns.Actions[types.String(an)] = a
	}
	return ns
}

func c14GenSchema(r *rand.Rand) *sast.Schema {
	top := c14GenNamespace(r)
	s := &sast.Schema{Entities: top.Entities, Enums: top.Enums, Actions: top.Actions, CommonTypes: top.CommonTypes, Namespaces: sast.Namespaces{}}
	for _, n := range []string{"App::Core", "Zeta", "Alpha"} {
		if r.Intn(2) == 0 {
			s.Namespaces[types.Path(n)] = c14GenNamespace(r)
		}
	}
	return s
}

// shuffled deep copies: every map is refilled in an insertion order drawn from sh (keys sorted first,
// so that the copy itself does not depend on Go's iteration order)
func c14Keys2[K ~string, V any](m map[K]V, sh *rand.Rand) []K {
	ks := make([]K, 0, len(m))
	for k := range m {
		ks = append(ks, k)
	}
	sort.Slice(ks, func(i, j int) bool { return ks[i] < ks[j] })
	if sh != nil {
		sh.Shuffle(len(ks), func(i, j int) { ks[i], ks[j] = ks[j], ks[i] })
	}
	return ks
}

func c14CopyAnn(a sast.Annotations, sh *rand.Rand) sast.Annotations {
	if a == nil {
		return nil
	}
	out := sast.Annotations{}
	for _, k := range c14Keys2(a, sh) {
		out[k] = a[k]
	}
	return out
}

func c14CopyType(t sast.IsType, sh *rand.Rand) sast.IsType {
	switch v := t.(type) {
	case sast.SetType:
		return sast.SetType{Element: c14CopyType(v.Element, sh)}
	case sast.RecordType:
		return c14CopyRecordType(v, sh)
	}
	return t
}

func c14CopyRecordType(rec sast.RecordType, sh *rand.Rand) sast.RecordType {
	if rec == nil {
		return nil
	}
	out := sast.RecordType{}
	for _, k := range c14Keys2(rec, sh) {
		a := rec[k]
		out[k] = sast.Attribute{Type: c14CopyType(a.Type, sh), Optional: a.Optional, Annotations: c14CopyAnn(a.Annotations, sh)}
	}
	return out
}

func c14CopyNamespace(ns sast.Namespace, sh *rand.Rand) sast.Namespace {
	out := sast.Namespace{Annotations: c14CopyAnn(ns.Annotations, sh), Entities: sast.Entities{}, Enums: sast.Enums{}, Actions: sast.Actions{}, CommonTypes: sast.CommonTypes{}}
	for _, k := range c14Keys2(ns.Entities, sh) {
		e := ns.Entities[k]
		ne := sast.Entity{Annotations: c14CopyAnn(e.Annotations, sh), ParentTypes: append([]sast.EntityTypeRef(nil), e.ParentTypes...), Shape: c14CopyRecordType(e.Shape, sh)}
		if e.Tags != nil {
			ne.Tags = c14CopyType(e.Tags, sh)
		}
		out.Entities[k] = ne
	}
	for _, k := range c14Keys2(ns.Enums, sh) {
		e := ns.Enums[k]
		out.Enums[k] = sast.Enum{Annotations: c14CopyAnn(e.Annotations, sh), Values: e.Values}
	}
	for _, k := range c14Keys2(ns.Actions, sh) {
		a := ns.Actions[k]
		na := sast.Action{Annotations: c14CopyAnn(a.Annotations, sh), Parents: a.Parents}
		if a.AppliesTo != nil {
			at := *a.AppliesTo
			if at.Context != nil {
				at.Context = c14CopyType(at.Context, sh)
			}
			na.AppliesTo = &at
		}
		out.Actions[k] = na
	}
	for _, k := range c14Keys2(ns.CommonTypes, sh) {
		ct := ns.CommonTypes[k]
		out.CommonTypes[k] = sast.CommonType{Annotations: c14CopyAnn(ct.Annotations, sh), Type: c14CopyType(ct.Type, sh)}
	}
	return out
}

func c14CopySchema(s *sast.Schema, sh *rand.Rand) *sast.Schema {
	top := c14CopyNamespace(sast.Namespace{Entities: s.Entities, Enums: s.Enums, Actions: s.Actions, CommonTypes: s.CommonTypes}, sh)
	out := &sast.Schema{Entities: top.Entities, Enums: top.Enums, Actions: top.Actions, CommonTypes: top.CommonTypes, Namespaces: sast.Namespaces{}}
	for _, k := range c14Keys2(s.Namespaces, sh) {
		out.Namespaces[k] = c14CopyNamespace(s.Namespaces[k], sh)
	}
	return out
}

func c14SchemaObs(obs map[string]string, prefix string, s *schema.Schema) {
	c14SchemaObsOrder(obs, prefix, s, false)
}

// c14SchemaObsOrder: both encodings of one schema value; jsonFirst swaps the order of the two calls (an encoder
// that rewrites the schema it is given makes the other encoding depend on the call history).
func c14SchemaObsOrder(obs map[string]string, prefix string, s *schema.Schema, jsonFirst bool) {
	ced := func() {
		c14Protect(obs, prefix+".cedar", func() string {
			b, err := s.MarshalCedar()
			if err != nil {
				return "error"
			}
			return string(b)
		})
	}
	js := func() {
		c14Protect(obs, prefix+".json", func() string {
			b, err := s.MarshalJSON()
			if err != nil {
				return "error"
			}
			return string(b)
		})
	}
	if jsonFirst {
		js()
		ced()
	} else {
		ced()
		js()
	}
}

func c14SchemaMarshalCase(key string, s *sast.Schema) *c14Case {
	return &c14Case{Key: key, Kind: "marshal-schema", Nontrivial: true, Input: key,
		Run: func(rep int, sh *rand.Rand) map[string]string {
			obs := map[string]string{}
			var cp *sast.Schema
			if rep == 0 {
				cp = c14CopySchema(s, nil)
			} else {
				cp = c14CopySchema(s, sh)
			}
			c14SchemaObsOrder(obs, "schema", schema.NewSchemaFromAST(cp), rep%2 == 1)
			return obs
		}}
}

// ---- decode → encode of fixed bytes ----

// c14PolicyJSONDecodeCase: the same policy JSON bytes decoded again and again; Cedar text and JSON re-encodings,
// plus the Cedar text of the decoded AST with record entries / annotations / both put in sorted order
// (these attribute a variation of the plain text to its cause).
func c14PolicyJSONDecodeCase(key string, js string, labels []string) *c14Case {
	c := &c14Case{Key: key, Kind: "decode-policy-json", Labels: labels, Nontrivial: true, Input: js}
	c.Run = func(rep int, sh *rand.Rand) map[string]string {
		obs := map[string]string{}
		p := c14DestPolicy(rep) // odd repetitions: a receiver that already holds a policy (c14_reuse.go)
		var derr error
		if pn := vh.Protect(func() { derr = p.UnmarshalJSON([]byte(js)) }); pn != nil {
			obs["decode"] = fmt.Sprintf("panic: %v", pn)
			return obs
		}
		if derr != nil {
			obs["decode"] = "error"
			return obs
		}
		obs["decode"] = "ok"
		c14Protect(obs, "policy.cedar", func() string { return string(p.MarshalCedar()) })
		c14Protect(obs, "policy.json", func() string {
			b, err := p.MarshalJSON()
			if err != nil {
				return "error"
			}
			return string(b)
		})
		a := (*ast.Policy)(p.AST())
		c14Protect(obs, "policy.cedar/sorted-records", func() string { return string(c14PolicyOf(c14NormPolicy(a, true, false)).MarshalCedar()) })
		c14Protect(obs, "policy.cedar/sorted-annotations", func() string { return string(c14PolicyOf(c14NormPolicy(a, false, true)).MarshalCedar()) })
		c14Protect(obs, "policy.cedar/sorted-both", func() string { return string(c14PolicyOf(c14NormPolicy(a, true, true)).MarshalCedar()) })
		return obs
	}
	c.Classify = func(name string, all map[string][]string) []c14Class {
		return c14ClassifyDecode(name, "policy.cedar", all)
	}
	return c
}

func c14PolicySetJSONDecodeCase(key string, js string, in *c14AuthzInput) *c14Case {
	c := &c14Case{Key: key, Kind: "decode-policyset-json", Nontrivial: true, Input: js}
	c.Run = func(rep int, sh *rand.Rand) map[string]string {
		obs := map[string]string{}
		set := c14DestPolicySet(rep) // odd repetitions: a receiver that already holds policies (c14_reuse.go)
		var derr error
		if pn := vh.Protect(func() { derr = set.UnmarshalJSON([]byte(js)) }); pn != nil {
			obs["decode"] = fmt.Sprintf("panic: %v", pn)
			return obs
		}
		if derr != nil {
			obs["decode"] = "error"
			return obs
		}
		obs["decode"] = "ok"
		c14Protect(obs, "policyset.cedar", func() string { return string(set.MarshalCedar()) })
		c14Protect(obs, "policyset.json", func() string {
			b, err := set.MarshalJSON()
			if err != nil {
				return "error"
			}
			return string(b)
		})
		norm := func(rec, ann bool) string {
			out := cedar.NewPolicySet()
			for id, p := range set.All() {
				out.Add(id, c14PolicyOf(c14NormPolicy((*ast.Policy)(p.AST()), rec, ann)))
			}
			return string(out.MarshalCedar())
		}
		c14Protect(obs, "policyset.cedar/sorted-records", func() string { return norm(true, false) })
		c14Protect(obs, "policyset.cedar/sorted-annotations", func() string { return norm(false, true) })
		c14Protect(obs, "policyset.cedar/sorted-both", func() string { return norm(true, true) })
		if in != nil { // the decoded set also authorizes deterministically
			c14Protect(obs, "authz", func() string {
				d, diag := cedar.Authorize(&set, c14BuildEntityMap(in.Ents, rep != 0, sh), in.Req)
				return c14ShowAuthz(d, diag)
			})
		}
		return obs
	}
	c.Classify = func(name string, all map[string][]string) []c14Class {
		if name == "authz" && in != nil {
			asts := map[string]*ast.Policy{}
			for _, ip := range in.Policies {
				asts[vh.Hex(string(ip.ID))] = ip.AST
			}
			return c14ClassifyAuthz(all[name], asts, in.env(c14BuildEntityMap(in.Ents, false, nil)))
		}
		return c14ClassifyDecode(name, "policyset.cedar", all)
	}
	return c
}

func c14PolicyTextDecodeCase(key string, text string) *c14Case {
	return &c14Case{Key: key, Kind: "decode-policy-text", Nontrivial: true, Input: text,
		Run: func(rep int, sh *rand.Rand) map[string]string {
			obs := map[string]string{}
			var set *cedar.PolicySet
			var derr error
			if pn := vh.Protect(func() { set, derr = cedar.NewPolicySetFromBytes("c14.cedar", []byte(text)) }); pn != nil {
				obs["decode"] = fmt.Sprintf("panic: %v", pn)
				return obs
			}
			if derr != nil {
				obs["decode"] = "error"
				return obs
			}
			obs["decode"] = "ok"
			c14Protect(obs, "policyset.cedar", func() string { return string(set.MarshalCedar()) })
			c14Protect(obs, "policyset.json", func() string {
				b, err := set.MarshalJSON()
				if err != nil {
					return "error"
				}
				return string(b)
			})
			return obs
		}}
}

func c14EntitiesJSONDecodeCase(key string, js string) *c14Case {
	return &c14Case{Key: key, Kind: "decode-entities-json", Nontrivial: true, Input: js,
		Run: func(rep int, sh *rand.Rand) map[string]string {
			obs := map[string]string{}
			em := c14DestEntityMap(rep) // odd repetitions: a destination that already holds entities (c14_reuse.go)
			var derr error
			if pn := vh.Protect(func() { derr = json.Unmarshal([]byte(js), &em) }); pn != nil {
				obs["decode"] = fmt.Sprintf("panic: %v", pn)
				return obs
			}
			if derr != nil {
				obs["decode"] = "error"
				return obs
			}
			obs["decode"] = "ok"
			c14Protect(obs, "entitymap.json", func() string {
				b, err := em.MarshalJSON()
				if err != nil {
					return "error"
				}
				return string(b)
			})
			return obs
		}}
}

func c14ValueJSONDecodeCase(key string, js string) *c14Case {
	return &c14Case{Key: key, Kind: "decode-value-json", Nontrivial: true, Input: js,
		Run: func(rep int, sh *rand.Rand) map[string]string {
			obs := map[string]string{}
			v := c14DestValue(rep) // odd repetitions: a variable that already holds a value (c14_reuse.go)
			var derr error
			if pn := vh.Protect(func() { derr = types.UnmarshalJSON([]byte(js), &v) }); pn != nil {
				obs["decode"] = fmt.Sprintf("panic: %v", pn)
				return obs
			}
			if derr != nil || v == nil {
				obs["decode"] = "error"
				return obs
			}
			obs["decode"] = "ok"
			c14Protect(obs, "value.json", func() string {
				b, err := json.Marshal(v)
				if err != nil {
					return "error"
				}
				return string(b)
			})
			c14Protect(obs, "value.cedar", func() string { return string(v.MarshalCedar()) })
			return obs
		}}
}

func c14SchemaDecodeCase(key string, doc string, isJSON bool) *c14Case {
	kind := "decode-schema-text"
	if isJSON {
		kind = "decode-schema-json"
	}
	return &c14Case{Key: key, Kind: kind, Nontrivial: true, Input: doc,
		Run: func(rep int, sh *rand.Rand) map[string]string {
			obs := map[string]string{}
			s := c14DestSchema(rep) // odd repetitions: a Schema that already holds another schema (c14_reuse.go)
			var derr error
			if pn := vh.Protect(func() {
				if isJSON {
					derr = s.UnmarshalJSON([]byte(doc))
				} else {
					derr = s.UnmarshalCedar([]byte(doc))
				}
			}); pn != nil {
				obs["decode"] = fmt.Sprintf("panic: %v", pn)
				return obs
			}
			if derr != nil {
				obs["decode"] = "error"
				return obs
			}
			obs["decode"] = "ok"
			c14SchemaObsOrder(obs, "schema", &s, rep%4 >= 2)
			return obs
		}}
}

// c14EntitiesSchemaDecodeCase: entity JSON decoded WITH a schema (x/exp/types): values are coerced to the
// schema's types; a coerced set is rebuilt with NewSet from the members in Set.All() (Go map) order.
func c14EntitiesSchemaDecodeCase(key, schemaText, js string) *c14Case {
	c := &c14Case{Key: key, Kind: "decode-entities-json-schema", Labels: []string{"schema-coerced-set"}, Nontrivial: true, Input: map[string]any{"schema": schemaText, "entities": js}}
	var rs *resolved.Schema
	c.Run = func(rep int, sh *rand.Rand) map[string]string {
		obs := map[string]string{}
		if rs == nil {
			var s schema.Schema
			if err := s.UnmarshalCedar([]byte(schemaText)); err != nil {
				obs["decode"] = "schema-error"
				return obs
			}
			r, err := s.Resolve()
			if err != nil {
				obs["decode"] = "schema-error"
				return obs
			}
			rs = r
		}
		em := exptypes.EntityMap(c14DestEntityMap(rep)) // odd repetitions: a destination that already holds entities
		var derr error
		if pn := vh.Protect(func() { derr = em.UnmarshalJSONWithSchema([]byte(js), rs) }); pn != nil {
			obs["decode"] = fmt.Sprintf("panic: %v", pn)
			return obs
		}
		if derr != nil {
			obs["decode"] = "error"
			return obs
		}
		obs["decode"] = "ok"
		c14Protect(obs, "entitymap.json", func() string {
			b, err := types.EntityMap(em).MarshalJSON()
			if err != nil {
				return "error"
			}
			return string(b)
		})
		// the same content in the harness's own canonical form (sets as sorted lists)
		c14Protect(obs, "entitymap.canonical", func() string {
			b, _ := json.Marshal(vh.EncEntities(types.EntityMap(em)))
			return string(b)
		})
		return obs
	}
	c.Classify = func(name string, all map[string][]string) []c14Class {
		if name != "entitymap.json" || len(all["entitymap.canonical"]) != 1 {
			return nil
		}
		// every variant must decode (without schema) to the same entity map: only the order of set members differs
		var first types.EntityMap
		for i, v := range all[name] {
			var em types.EntityMap
			if err := json.Unmarshal([]byte(v), &em); err != nil {
				return nil
			}
			if i == 0 {
				first = em
				continue
			}
			if len(em) != len(first) {
				return nil
			}
			for uid, e := range em {
				f, ok := first[uid]
				if !ok || !e.Equal(f) {
					return nil
				}
			}
		}
		return []c14Class{{c14ClassCoerce, fmt.Sprintf("%d different JSON texts for the same decoded entities: only the order of (hash-colliding) members of a schema-coerced set differs", len(all[name]))}}
	}
	return c
}

// c14HandPolicyJSON: hand-assembled policy JSON (no codec under test involved) with >= 3-key records
// (also nested) and >= 3 annotations, keys in shuffled textual order.
func c14HandPolicyJSON(r *rand.Rand) (string, []string) {
	var labels []string
	keys := append([]string{}, c14Keys...)
	r.Shuffle(len(keys), func(i, j int) { keys[i], keys[j] = keys[j], keys[i] })
	leaf := func() c14J {
		switch r.Intn(5) {
		case 0:
			return c14JLong(int64(r.Intn(100)))
		case 1:
			return c14JString(fmt.Sprintf("s%d", r.Intn(9)))
		case 2:
			return c14JBool(r.Intn(2) == 0)
		case 3:
			return c14JAccess(c14JVar("context"), "n")
		default:
			return c14JBin("+", c14JLong(1), c14JLong(int64(r.Intn(5))))
		}
	}
	var mkRec func(depth int) c14J
	mkRec = func(depth int) c14J {
		n := r.Intn(6)
		ks := append([]string{}, keys[:n]...)
		r.Shuffle(len(ks), func(i, j int) { ks[i], ks[j] = ks[j], ks[i] })
		var vs []c14J
		for range ks {
			if depth > 0 && r.Intn(3) == 0 {
				vs = append(vs, mkRec(depth-1))
			} else {
				vs = append(vs, leaf())
			}
		}
		if n >= 2 {
			labels = append(labels, "json-record>=2")
		}
		if n >= 3 {
			labels = append(labels, "json-record>=3")
		}
		return c14JRecord(ks, vs)
	}
	nAnn := r.Intn(6)
	annKeys := append([]string{}, []string{"id", "doc", "owner", "a", "z", "since"}[:nAnn]...)
	r.Shuffle(len(annKeys), func(i, j int) { annKeys[i], annKeys[j] = annKeys[j], annKeys[i] })
	var annVals []string
	for range annKeys {
		annVals = append(annVals, fmt.Sprintf("v%d", r.Intn(9)))
	}
	if nAnn >= 2 {
		labels = append(labels, "json-annotations>=2")
	}
	if nAnn >= 3 {
		labels = append(labels, "json-annotations>=3")
	}
	var conds []c14J
	for i := 0; i < r.Intn(3); i++ {
		switch r.Intn(3) {
		case 0:
			conds = append(conds, c14JBin("==", mkRec(1), c14JVar("context")))
		case 1:
			conds = append(conds, c14JHas(mkRec(1), "a"))
		default:
			conds = append(conds, c14JBin("contains", c14JSet(mkRec(0), mkRec(1)), c14JLong(1)))
		}
	}
	eff := "permit"
	if r.Intn(3) == 0 {
		eff = "forbid"
	}
	return c14JPolicy(eff, annKeys, annVals, conds), c14Dedup(sortedCopy(labels))
}

func sortedCopy(xs []string) []string {
	ys := append([]string{}, xs...)
	sort.Strings(ys)
	return ys
}

// ---- all cases ----

func c14Cases(seed int64, tier string) []*c14Case {
	r := rand.New(rand.NewSource(seed*7919 + 14))
	g := vh.NewGen(r)
	thorough := tier == "thorough"
	pick := func(q, t int) int {
		if thorough {
			return t
		}
		return q
	}
	var cases []*c14Case

	// 1. authorization
	var authzInputs []*c14Case
	for i := 0; i < pick(260, 1300); i++ {
		c := c14GenAuthz(r, g, i)
		cases = append(cases, c)
		authzInputs = append(authzInputs, c)
	}
	// the design's two witnesses, verbatim
	{
		rec := ast.NodeTypeRecord{Elements: []ast.RecordElementNode{
			{Key: "a", Value: ast.NodeTypeAdd{BinaryNode: c14Bin(c14Lit(types.Long(1)), c14Lit(types.String("x")))}},
			{Key: "b", Value: c14Access(c14Ctx(), "missing")}}}
		p0 := c14Policy(ast.EffectPermit, 0, ast.NodeTypeEquals{BinaryNode: c14Bin(c14Access(rec, "a"), c14Lit(types.Long(1)))})
		p1 := c14Policy(ast.EffectPermit, 1, ast.NodeTypeIn{BinaryNode: c14Bin(ast.NodeTypeVariable{Name: "principal"}, c14SetLit([]types.Value{types.Long(1), types.String("x")}))})
		req := cedar.Request{Principal: types.NewEntityUID("User", "a"), Action: types.NewEntityUID("Action", "a"), Resource: types.NewEntityUID("Doc", "a"), Context: types.NewRecord(nil)}
		cases = append(cases, c14AuthzCase("authz-witness-reclit", c14AuthzInput{Policies: []vh.IDPolicy{vh.MkPolicy("p0", p0)}, Req: req}, []string{"reclit-multi-error"}))
		cases = append(cases, c14AuthzCase("authz-witness-inset", c14AuthzInput{Policies: []vh.IDPolicy{vh.MkPolicy("p1", p1)}, Req: req}, []string{"in-set-nonentity"}))
	}

	// 2. encoders
	var somePolicies []vh.IDPolicy
	for i := 0; i < pick(150, 750); i++ {
		var p *ast.Policy
		if i%3 == 0 {
			rec, _ := c14RecordLit(r, r.Intn(3), 1+r.Intn(4), r.Intn(2))
			p = c14Policy(ast.Effect(r.Intn(2) == 0), i, c14RecordCond(r, rec))
			for _, k := range []string{"id", "doc", "z", "a"}[:r.Intn(5)] {
				p.Annotations = append(p.Annotations, ast.AnnotationType{Key: types.Ident(k), Value: types.String(g.Str())})
			}
		} else {
			p = g.Policy(1 + r.Intn(3))
		}
		cases = append(cases, c14PolicyMarshalCase(fmt.Sprintf("mpolicy-%d", i), p))
		somePolicies = append(somePolicies, vh.MkPolicy(fmt.Sprintf("policy%d", i), p))
	}
	for i := 0; i < pick(30, 150); i++ {
		n := 8 + r.Intn(6)
		var ps []vh.IDPolicy
		for k := 0; k < n; k++ {
			src := somePolicies[r.Intn(len(somePolicies))]
			id := fmt.Sprintf("policy%d", k)
			if r.Intn(4) == 0 {
				id = []string{"z", "a b", "é", "policy", "P", ""}[r.Intn(6)] + fmt.Sprint(k)
			}
			ps = append(ps, vh.MkPolicy(id, src.AST))
		}
		cases = append(cases, c14PolicySetMarshalCase(fmt.Sprintf("mpolicyset-%d", i), ps))
	}
	for i := 0; i < pick(40, 200); i++ {
		es := c14Hierarchy(r, 8+r.Intn(8), 1+r.Intn(10))
		es = append(es, c14WorldEnts(g)...)
		cases = append(cases, c14EntityMapMarshalCase(fmt.Sprintf("mentities-%d", i), es))
	}
	// entity ids whose (type, id) pairs differ but whose concatenations coincide: any sort key that is
	// not injective on UIDs (Type+ID, Type+"::"+ID, String() without quoting…) ties here and falls back
	// to map order
	{
		u := types.NewEntityUID
		amb := []types.EntityUID{u("User", "s1"), u("Users", "1"), u("Team", "Lead7"), u("TeamLead", "7"), u("A", "B::C"), u("A::B", "C"),
			u("A", "b\"::\"c"), u("N::S", "x"), u("N", "S::x"), u("a", ""), u("", "a"), u("T", "a::\"b"), u("T::a", "\"b")}
		var es []c14Ent
		for i, id := range amb {
			es = append(es, c14Ent{UID: id, Parents: append([]types.EntityUID{}, amb[(i+1)%len(amb)], amb[(i+2)%len(amb)], amb[(i+5)%len(amb)], amb[(i+6)%len(amb)]),
				Attrs: types.NewRecord(types.RecordMap{"k": types.Long(i)}), Tags: types.NewRecord(nil)})
		}
		cases = append(cases, c14EntityMapMarshalCase("mentities-ambiguous-uid-concat", es))
		for i := 0; i < 6; i++ {
			cases = append(cases, c14EntityMapMarshalCase(fmt.Sprintf("mentities-ambiguous-%d", i), es[i:i+6]))
		}
		// the same entities with Entity.MarshalJSON of EVERY member observed (parents order), and generated
		// look-alike groups: all splits of a random string / all `::` splits of a random path (c14_reuse.go)
		cases = append(cases, c14EntityAllMarshalCase("mentities-ambiguous-all-entities", es))
		cases = append(cases, c14AmbiguousCases(g, pick(12, 100))...)
	}
	var someValues []types.Value
	for i := 0; i < pick(200, 1000); i++ {
		var v types.Value
		switch r.Intn(6) {
		case 0:
			v = types.NewSet(c14BigSet(r, 2+r.Intn(40))...)
		case 1:
			cv := vh.CollidingValues()
			r.Shuffle(len(cv), func(i, j int) { cv[i], cv[j] = cv[j], cv[i] })
			v = types.NewSet(cv[:2+r.Intn(len(cv)-2)]...)
		case 2:
			m := types.RecordMap{}
			for _, k := range c14Keys[:3+r.Intn(6)] {
				m[types.String(k)] = types.NewSet(c14BigSet(r, r.Intn(8))...)
			}
			v = types.NewRecord(m)
		case 3:
			v = types.NewSet(types.NewSet(c14BigSet(r, 3)...), types.NewSet(c14BigSet(r, 3)...), g.Record(1), types.NewSet())
		default:
			v = g.Value(vh.Ty(r.Intn(12)), 2)
		}
		someValues = append(someValues, v)
		cases = append(cases, c14ValueMarshalCase(fmt.Sprintf("mvalue-%d", i), v))
	}
	var someSchemas []*sast.Schema
	for i := 0; i < pick(16, 80); i++ {
		s := c14GenSchema(r)
		someSchemas = append(someSchemas, s)
		cases = append(cases, c14SchemaMarshalCase(fmt.Sprintf("mschema-%d", i), s))
	}

	// 3. decode → encode of fixed bytes
	for i := 0; i < pick(170, 850); i++ {
		js, labels := c14HandPolicyJSON(r)
		cases = append(cases, c14PolicyJSONDecodeCase(fmt.Sprintf("dpolicyjson-hand-%d", i), js, labels))
	}
	cases = append(cases, c14PolicyJSONDecodeCase("dpolicyjson-witness",
		`{"annotations":{"a":"1","b":"2","c":"3"},"effect":"permit","principal":{"op":"All"},"action":{"op":"All"},"resource":{"op":"All"},"conditions":[{"kind":"when","body":{"==":{"left":{"Record":{"x":{"Value":1},"y":{"Value":2},"z":{"Value":3}}},"right":{"Value":1}}}}]}`,
		[]string{"json-record>=3", "json-annotations>=3"}))
	for i := 0; i < pick(60, 300); i++ { // bytes produced by MarshalJSON at generation time (their stability is checked by the mpolicy cases)
		ip := somePolicies[r.Intn(len(somePolicies))]
		b, err := ip.P.MarshalJSON()
		if err != nil {
			continue
		}
		cases = append(cases, c14PolicyJSONDecodeCase(fmt.Sprintf("dpolicyjson-gen-%d", i), string(b), nil))
	}
	for i := 0; i < pick(20, 100); i++ {
		src := authzInputs[r.Intn(len(authzInputs))]
		_ = src
		n := 8 + r.Intn(6)
		set := cedar.NewPolicySet()
		var ps []vh.IDPolicy
		for k := 0; k < n; k++ {
			ip := somePolicies[r.Intn(len(somePolicies))]
			q := *ip.AST
			q.Position = ast.Position{}
			np := vh.MkPolicy(fmt.Sprintf("policy%d", k), &q)
			ps = append(ps, np)
			set.Add(np.ID, np.P)
		}
		b, err := set.MarshalJSON()
		if err != nil {
			continue
		}
		ents := c14WorldEnts(g)
		in := &c14AuthzInput{Policies: ps, Ents: ents, Req: cedar.Request{Principal: g.UID(), Action: g.UID(), Resource: g.UID(), Context: g.Record(1)}}
		cases = append(cases, c14PolicySetJSONDecodeCase(fmt.Sprintf("dpolicysetjson-%d", i), string(b), in))
		cases = append(cases, c14PolicyTextDecodeCase(fmt.Sprintf("dpolicytext-%d", i), string(set.MarshalCedar())))
	}
	for i := 0; i < pick(25, 125); i++ {
		es := c14Hierarchy(r, 8+r.Intn(6), 1+r.Intn(8))
		es = append(es, c14WorldEnts(g)...)
		b, err := c14BuildEntityMap(es, false, nil).MarshalJSON()
		if err != nil {
			continue
		}
		cases = append(cases, c14EntitiesJSONDecodeCase(fmt.Sprintf("dentities-%d", i), string(b)))
	}
	for i := 0; i < pick(120, 600); i++ {
		b, err := json.Marshal(someValues[r.Intn(len(someValues))])
		if err != nil {
			continue
		}
		cases = append(cases, c14ValueJSONDecodeCase(fmt.Sprintf("dvalue-%d", i), string(b)))
	}
	for i, js := range []string{
		`[3,1,2,{"a":1,"c":[true,false,0,1],"b":{"__entity":{"type":"A","id":"b"}}},[],[[]],{"z":1,"y":2,"x":3,"w":{"q":1,"p":2}}]`,
		`{"k3":[1,true,"",0],"k1":{"__extn":{"fn":"decimal","arg":"1.5"}},"k2":[[1],[true],[]]}`,
	} {
		cases = append(cases, c14ValueJSONDecodeCase(fmt.Sprintf("dvalue-hand-%d", i), js))
	}
	for i, s := range someSchemas {
		sc := schema.NewSchemaFromAST(c14CopySchema(s, nil))
		if b, err := sc.MarshalJSON(); err == nil {
			cases = append(cases, c14SchemaDecodeCase(fmt.Sprintf("dschemajson-%d", i), string(b), true))
		}
		if b, err := sc.MarshalCedar(); err == nil {
			cases = append(cases, c14SchemaDecodeCase(fmt.Sprintf("dschematext-%d", i), string(b), false))
		}
	}
	// entity JSON decoded with a schema: sets of sets of decimals whose inner sets collide (hash of a set = sum of member hashes)
	for i := 0; i < pick(30, 150); i++ {
		schemaText := "entity User { s: Set<Set<decimal>>, n: Long, t: Set<decimal> };"
		var ents []string
		for k := 0; k < 1+r.Intn(3); k++ {
			var inner []string
			for j := 0; j < 2+r.Intn(4); j++ {
				// inner sets drawn from a few shapes with equal hash sums: {1,2} {3} {0,3} {0,1,2}
				shapes := [][]int{{1, 2}, {3}, {0, 3}, {0, 1, 2}, {4}, {1, 3}, {5, 6}, {11}}
				sh := shapes[r.Intn(len(shapes))]
				var ms []string
				for _, x := range sh {
					ms = append(ms, fmt.Sprintf("\"0.%04d\"", x))
				}
				inner = append(inner, "["+strings.Join(ms, ",")+"]")
			}
			ents = append(ents, fmt.Sprintf(`{"uid":{"type":"User","id":"u%d"},"parents":[],"attrs":{"s":[%s],"n":%d,"t":["1.5","0.0003"]},"tags":{}}`, k, strings.Join(inner, ","), r.Intn(9)))
		}
		cases = append(cases, c14EntitiesSchemaDecodeCase(fmt.Sprintf("dentities-schema-%d", i), schemaText, "["+strings.Join(ents, ",")+"]"))
	}

	// 4. messages that name a sub-expression (unspecified principal / resource); batch.Authorize (c14_batch.go)
	cases = append(cases, c14BatchCases(seed, pick)...)
	return cases
}
