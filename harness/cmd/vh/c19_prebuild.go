package main

import (
	"fmt"

	"verifharness/vh"
)

// C19-prebuild: build (and cache) the race-instrumented worker during setup so that `./check C19 quick` is fast.
func init() {
	props["C19-prebuild"] = func(c *vh.Ctx) {
		p, why := c19RaceBinary(c)
		fmt.Println("race worker:", p, why)
	}
}
