package main

// C15, continued: the per-policy step shared by the whole-validator stream and the focused stream, and the focused
// stream itself (hierarchy-rich schemas x the near-miss families `in-lub-guard` and `singleton-caps`).

import (
	"fmt"
	"os"
	"sort"
	"strings"

	"github.com/cedar-policy/cedar-go/types"
	"github.com/cedar-policy/cedar-go/x/exp/eval"
	"github.com/cedar-policy/cedar-go/x/exp/schema/validate"

	"verifharness/vh"
)

// c15Process: validate one generated policy in both modes, hand both decisions to the Lean model (if toModel) and run
// the evaluation oracle on what was accepted.  Returns (accepted strict, accepted permissive).
func c15Process(c *vh.Ctx, st *c15Stats, lines *c15Lines, s *vh.C15Schema, cases map[int][]c15Case, vs, vp *validate.Validator, senc any,
	pol vh.C15Policy, polKey string, toModel bool, tag string) (bool, bool) {
	st.generated++
	ops := c15PolicyOps(pol.AST)
	okS, pnS := c15Accepts(vs, pol.AST)
	okP, pnP := c15Accepts(vp, pol.AST)
	if pnS != nil || pnP != nil {
		c.Report(vh.Finding{Class: "validator-panic", What: fmt.Sprintf("Validator.Policy panicked: %v %v on %s", pnS, pnP, c15PolicyText(pol.AST)), Check: "oracle", Op: "validate",
			Input: c15Input(s, pnS != nil, pol.AST, types.Request{}, nil)})
		return false, false
	}
	if toModel { // the model also decides the whole-validator stream where it can
		lines.add(senc, true, pol.AST, map[bool]string{true: "accept", false: "reject"}[okS], tag)
		lines.add(senc, false, pol.AST, map[bool]string{true: "accept", false: "reject"}[okP], tag)
	}
	mk := pol.Mut
	if mk == "" {
		mk = "none"
	} else if !pol.Hit {
		mk = "none(" + mk + " not applicable)"
	}
	st.mutGen[mk]++
	for o := range ops {
		st.gen[o]++
	}
	if !okS && !okP {
		for o := range ops {
			st.rej[o]++
		}
		return false, false
	}
	st.mutAcc[mk]++
	if dbg := os.Getenv("VH_C15_DEBUG"); dbg != "" && strings.Contains(dbg, mk) && pol.Hit {
		fmt.Fprintf(os.Stderr, "DEBUG accepted near-miss %s strict=%v perm=%v target=%s\n%s\n", mk, okS, okP, pol.Target, c15PolicyText(pol.AST))
	}
	st.accepted++
	for o := range ops {
		st.acc[o]++
	}
	if st.accepted <= 3 {
		c.Sample(map[string]any{"op": "validate-then-eval", "stream": tag, "schema": s.Text, "policy": c15PolicyText(pol.AST), "accepted_strict": okS, "accepted_permissive": okP, "near_miss": mk})
	}
	if okS {
		st.acceptedStrict++
		c15RunPolicy(c, st, s, true, pol, cases, polKey)
	}
	if okP {
		st.acceptedPerm++
		if !okS {
			c15RunPolicy(c, st, s, false, pol, cases, polKey)
		} else {
			// same policy, same data: evaluation is identical; only count the acceptance
		}
	}
	if okS && !okP {
		c.Dist("strict-accepts-permissive-rejects")
	}
	return okS, okP
}

// c15Focus: hierarchy-rich schemas x policies of six near-miss families: static folding (in-lub-guard, singleton-caps,
// action-in-mixed), least upper bounds / operand types (lub-attr, in-operand-type), capability flow between the clauses
// of a policy (clause-caps).  Every policy goes through the same
// step as the whole-validator stream (both modes, Lean model, evaluation oracle on every environment x 5 conforming
// request/store pairs).  Self-tests: every structural variant the families are about must have been produced often
// enough, and the multi-type `in` tests must actually be TRUE on the generated stores often enough (otherwise the
// evaluation oracle could not see a wrongly skipped operand).
func c15Focus(c *vh.Ctx, g *vh.Gen, lines *c15Lines) {
	st := newC15Stats()
	nSchemas := c.N(36, 400)
	per := c.N(132, 180)
	shapes := map[string]int{}
	probeTrue, probePolicies, probeReach, probeReachTrue, probeAct, probeActTrue := 0, 0, 0, 0, 0, 0
	accS, accP := map[string]int{}, map[string]int{}
	done := 0
	for tries := 0; done < nSchemas && tries < 20*nSchemas; tries++ {
		s, err := g.C15GenSchemaHier()
		if err != nil {
			c.Report(vh.Finding{Class: "generator-schema", What: err.Error(), Check: "self-test", NoInput: true})
			return
		}
		if len(s.Envs) == 0 {
			continue
		}
		done++
		cases := c15Cases(c, g, s, 5)
		vs, vp := c15Validators(s)
		senc := vh.EncC15Schema(s)
		for j := 0; j < per; j++ {
			mut := vh.C15FocusMutations[j%len(vh.C15FocusMutations)]
			pol := g.C15GenPolicyFocus(s, mut)
			okS, okP := c15Process(c, st, lines, s, cases, vs, vp, senc, pol, fmt.Sprintf("focus%d/%d", done, j), true, "focus")
			if !pol.Hit {
				continue
			}
			for _, sh := range pol.Shapes {
				shapes[sh]++
			}
			if okS {
				accS[mut]++
			}
			if okP {
				accP[mut]++
			}
			// how often is the multi-type `in` test true on the stores of the target environment?
			if pol.Probe != nil {
				reach := false
				for _, sh := range pol.Shapes {
					reach = reach || strings.HasPrefix(sh, "in-lub:reach-")
				}
				anyTrue := false
				for ei, env := range s.Envs {
					if env.Action != pol.Target.Action || env.PType != pol.Target.PType || env.RType != pol.Target.RType {
						continue
					}
					for _, cs := range cases[ei] {
						e := eval.Env{Principal: cs.req.Principal, Action: cs.req.Action, Resource: cs.req.Resource, Context: cs.req.Context, Entities: cs.store.Entities}
						if b, ok := mustBool(pol.Probe, e); ok && b {
							anyTrue = true
						}
					}
				}
				probePolicies++
				if anyTrue {
					probeTrue++
				}
				for _, sh := range pol.Shapes {
					if strings.HasPrefix(sh, "action-in:") && strings.HasSuffix(sh, ",non-literal-always-related") {
						probeAct++
						if anyTrue {
							probeActTrue++
						}
					}
				}
				if reach {
					probeReach++
					if anyTrue {
						probeReachTrue++
					}
				}
			}
		}
	}
	var ks []string
	for k := range shapes {
		ks = append(ks, k)
	}
	sort.Strings(ks)
	group := map[string]int{}
	for _, k := range ks {
		c.Res.Distribution["focus-shape:"+k] = shapes[k]
		switch {
		case strings.HasPrefix(k, "caps:test=false-typed:"):
			group["false-typed-test"] += shapes[k]
		case strings.HasPrefix(k, "caps:test=true-typed:"):
			group["true-typed-test"] += shapes[k]
		case strings.HasPrefix(k, "in-lub:reach-one") && strings.HasSuffix(k, ":reachable-sorts-first"):
			group["sorts-first"] += shapes[k]
		case strings.HasPrefix(k, "in-lub:reach-one") && strings.HasSuffix(k, ":reachable-sorts-last"):
			group["sorts-last"] += shapes[k]
		}
		if strings.HasPrefix(k, "in-lub:reach-one-multilevel") {
			group["multilevel"] += shapes[k]
		}
		switch {
		case strings.HasPrefix(k, "lub-attr:record:then-wider"):
			group["then-wider"] += shapes[k]
		case strings.HasPrefix(k, "lub-attr:record:else-wider"):
			group["else-wider"] += shapes[k]
		case strings.HasPrefix(k, "in-operand:rhs=set-of-sets"):
			group["set-of-sets"] += shapes[k]
		case strings.HasPrefix(k, "in-operand:lhs="):
			group["bad-lhs"] += shapes[k]
		}
		switch {
		case strings.HasPrefix(k, "action-in:literals-unrelated") && strings.HasSuffix(k, ",non-literal-always-related"):
			group["action-mixed"] += shapes[k]
		case strings.HasPrefix(k, "clauses:unless-guard,"):
			group["unless-guard"] += shapes[k]
		case strings.HasPrefix(k, "clauses:when-guard,"):
			group["when-guard"] += shapes[k]
		}
	}
	for k, v := range st.mutGen {
		c.Res.Distribution["focus:"+k+":generated"] = v
		c.Res.Distribution["focus:"+k+":accepted"] = st.mutAcc[k]
	}
	for k, v := range st.results {
		if strings.HasPrefix(k, "err:") {
			c.Res.Distribution["focus:eval:"+k] += v
		}
	}
	c.Res.Notes = append(c.Res.Notes, fmt.Sprintf("focused stream: %d hierarchy-rich schemas, %d policies (in-lub-guard / singleton-caps / lub-attr / in-operand-type / action-in-mixed / clause-caps in turn), accepted strict %v permissive %v, %d evaluations; multi-type `in` tests true on a store of the target environment: %d of %d policies (membership-possible entity variants: %d of %d; action sets whose non-literal element is the request action or a group of it: %d of %d)",
		done, st.generated, accS, accP, st.evals, probeTrue, probePolicies, probeReachTrue, probeReach, probeActTrue, probeAct))
	// ---- self-tests ----
	var margins []string
	defer func() {
		c.Res.Notes = append(c.Res.Notes, "focused stream self-test (got/required): "+strings.Join(margins, "; "))
	}()
	need := func(label string, got, min int) {
		margins = append(margins, fmt.Sprintf("%s %d/%d", label, got, min))
		if got < min {
			c.Report(vh.Finding{Class: "generator-collapse", What: fmt.Sprintf("focused stream too thin: %s = %d (< %d)", label, got, min), Check: "self-test", NoInput: true})
		}
	}
	m := c.N(1, 8)
	need("reachable type sorts first", group["sorts-first"], 30*m)
	need("reachable type sorts last", group["sorts-last"], 40*m)
	need("reachable type several memberOf levels away", group["multilevel"], 25*m)
	need("unreachable right-hand side", shapes["in-lub:unreachable"], 50*m)
	need("right operand that is not a plain set literal", shapes["in-lub:rhs=entity-ite"]+shapes["in-lub:rhs=set-ite"]+shapes["in-lub:rhs=set-with-ite-element"], 120*m)
	need("membership-possible `in` tests that are true at run time", probeReachTrue, 200*m)
	need("False-typed tests with a guard", group["false-typed-test"], 180*m)
	need("False-typed tests with a guard whose else branch reads", shapes["caps:false-typed-test:else-reads"], 70*m)
	need("True-typed tests with a guard", group["true-typed-test"], 60*m)
	need("tag capabilities", shapes["caps:site=tag"], 30*m)
	need("entity attribute capabilities", shapes["caps:site=entity-attr"]+shapes["caps:site=entity-attr-nested"], 200*m)
	need("record attribute capabilities", shapes["caps:site=record-attr"]+shapes["caps:site=record-attr-nested"], 60*m)
	need("record LUB of different widths, then-branch wider", group["then-wider"], 80*m)
	need("record LUB of different widths, else-branch wider", group["else-wider"], 80*m)
	need("entity LUB with an attribute declared by one type only", shapes["lub-attr:entity:declared-by-one"], 70*m)
	need("`in` against a set of sets of entities", group["set-of-sets"], 120*m)
	need("`in` with a left operand that is not an entity", group["bad-lhs"], 50*m)
	need("action sets mixing unrelated literals with a non-literal element that is the request action or one of its groups", group["action-mixed"], 100*m)
	need("such action sets for which `in` is true at run time", probeActTrue, 150*m)
	need("policies whose guard clause is an `unless`", group["unless-guard"], 130*m)
	need("policies whose guard clause is a `when`", group["when-guard"], 130*m)
	need("policies whose reading clause precedes the guard clause", shapes["clauses:order=reader-first"], 40*m)
	need("accepted in-lub-guard policies (permissive)", accP["in-lub-guard"], 120*m)
	need("accepted singleton-caps policies (strict)", accS["singleton-caps"], 120*m)
}

// c15FoldingProbes: hand-written corner cases (on c15ProbeSchema) of the two static-folding families: `in` against a
// right operand whose entity LUB has several element types (sorted: Color < Doc < Group < Org < Team < User; Doc is in
// Team, Team is in Group and Org, User is in Group), and singleton-typed tests around a `has` / `hasTag` guard.
func c15FoldingProbes() []string {
	ill := `context.n < "x"`
	rd := `principal.age == principal.age`
	var out []string
	for _, in := range []string{
		// reachable through the LAST / FIRST / MIDDLE element of the sorted LUB, one or two memberOf levels away
		`resource in [Color::"red", Org::"o"]`, `resource in [Org::"o", Color::"red"]`, `resource in [Org::"o", User::"u"]`, `resource in [Color::"red", Org::"o", User::"u"]`,
		`resource in [Color::"red", Group::"g"]`, `resource in [Doc::"d", Group::"g"]`, `resource in [Color::"red", Doc::"d"]`, `principal in [Doc::"d", Org::"o"]`,
		`principal in [Color::"red", Doc::"d", Group::"g"]`, `context.u in [Color::"red", Doc::"d", Group::"g"]`, `context.u in [Color::"red", Doc::"d", Org::"o"]`,
		// the same LUBs built by if-then-else (an entity, two sets, an element of a set literal), and set-typed paths
		`resource in (if context.n > 0 then Color::"red" else Org::"o")`, `resource in (if context.n > 0 then [Color::"red"] else [Org::"o"])`,
		`resource in [if context.n > 0 then Color::"red" else Org::"o"]`, `resource in (if context.n > 0 then context.us else [Org::"o"])`,
		`resource in (if context.n > 0 then [Color::"red", Doc::"nope"] else [Org::"o"])`,
		// left operand with a LUB of its own; is-in
		`(if context.n > 0 then principal else resource) in [Color::"red", Doc::"d", Org::"o"]`, `(if context.n > 0 then principal else context.u) in [Color::"red", Org::"o"]`,
		`resource is Doc in [Color::"red", Org::"o"]`, `resource is Team in [Color::"red", Org::"o"]`,
		// nothing reachable: the fold to False is right
		`principal in [Color::"red", Doc::"d"]`, `context.u in [Color::"red", Doc::"d", Org::"o", Team::"t"]`,
	} {
		out = append(out, in+` && `+ill, `!(`+in+`) || `+ill, `if `+in+` then `+ill+` else true`, `(`+in+` && context.n > 0) && `+ill, `(`+in+` || 1 == 2) && `+ill)
	}
	for _, g := range [][2]string{{`principal has age`, rd}, {`principal.hasTag("k")`, `principal.getTag("k") == 1`}, {`context has o`, `context.o > 0`},
		{`context.u has age`, `context.u.age > 0`}, {`principal has mgr && principal.mgr has age`, `principal.mgr.age > 0`}} {
		h, use := g[0], g[1]
		for _, t := range []string{h + ` && false`, `(` + h + ` && context.n > 0) && false`, h + ` && (context.n > 0 && false)`, h + ` && !true`, `false || (` + h + ` && false)`,
			`if true then (` + h + ` && false) else context.n > 0`, h + ` && principal has nope`, h + ` && principal is Doc`, `(` + h + ` && false) && context.n > 0`, `false && ` + h,
			`(` + h + ` && false) || false`, h + ` && 1 == 2`, h + ` && action in [User::"u"]`} {
			out = append(out, `if `+t+` then true else `+use, `if `+t+` then `+use+` else true`, `if `+t+` then `+use+` else `+use, `(`+t+`) || `+use, `!(`+t+`) && `+use,
				`(if `+t+` then true else false) && `+use, `if (if `+t+` then false else `+h+`) then `+use+` else true`)
		}
		for _, t := range []string{h + ` || true`, `true || ` + h, `!(` + h + ` && false)`, `(` + h + ` && false) || true`, `if ` + h + ` then true else true`, `true && (` + h + ` || true)`,
			h + ` || principal is User`, h + ` || action in Action::"grp"`} {
			out = append(out, `if `+t+` then `+use+` else true`, `(`+t+`) && `+use, `if `+t+` then true else `+use, `!(`+t+`) || `+use)
		}
		out = append(out, h+` && (if `+h+` then `+use+` else `+ill+`)`, h+` && (!(`+h+`) || `+use+`)`, `if `+h+` then (if !(`+h+`) then `+ill+` else `+use+`) else true`,
			h+` && (`+h+` || `+ill+`)`, `!!(`+h+`) && `+use, `(false || `+h+`) && `+use, `(true && `+h+`) && `+use, `if `+h+` || false then `+use+` else true`)
	}
	return out
}

// c15ActionInProbes: bodies (on c15ProbeSchema: view in grp2 in grp; edit unrelated) for `action in [ … ]` against set
// literals mixing literals with non-literal elements of action type.
func c15ActionInProbes() []string {
	ill := `context.n < "x"`
	nl := `(if context.n > 0 then Action::"view" else Action::"view")`
	var out []string
	for _, in := range []string{
		`action in [Action::"edit", ` + nl + `]`, `action in [` + nl + `, Action::"edit"]`, `action in [Action::"edit", User::"u", ` + nl + `]`, `action in [` + nl + `]`,
		`action in [Action::"grp", ` + nl + `]`, `action in [Action::"edit", if context.n > 0 then action else Action::"grp2"]`, `action in [Action::"edit", Action::"edit", ` + nl + `, ` + nl + `]`,
		`Action::"view" in [Action::"edit", ` + nl + `]`, `Action::"edit" in [Action::"view", if context.n > 0 then Action::"edit" else Action::"edit"]`,
		`action in [Action::"edit", if context.n > 0 then Action::"edit" else Action::"edit"]`, `action in [Action::"edit", if context.n > 0 then (if context.n > 1 then Action::"grp" else action) else Action::"grp2"]`,
		`action in [User::"u", ` + nl + `]`, `action in [Action::"edit", context.u]`, `action in [Action::"nope", ` + nl + `]`,
	} {
		out = append(out, in+` && `+ill, `!(`+in+`) || `+ill, `if `+in+` then `+ill+` else true`, `(`+in+` && context.n > 0) && `+ill, in)
	}
	return out
}

// c15ClauseProbes: whole policies with several when/unless clauses around a has / hasTag guard: capabilities must not
// flow from one clause into another one, whatever the clause kinds and their order.
func c15ClauseProbes() []string {
	var out []string
	for _, scope := range []string{`principal, action, resource`, `principal is User, action == Action::"view", resource is Doc`} {
		for _, g := range [][2]string{{`principal has age`, `principal.age == principal.age`}, {`principal.hasTag("k")`, `principal.getTag("k") == 1`}, {`context has o`, `context.o > 0`},
			{`context.u has age`, `context.u.age > 0`}} {
			h, use := g[0], g[1]
			for _, k1 := range []string{"when", "unless"} {
				for _, k2 := range []string{"when", "unless"} {
					pre := `permit(` + scope + `) `
					out = append(out,
						pre+k1+` { `+h+` } `+k2+` { `+use+` };`,
						pre+k2+` { `+use+` } `+k1+` { `+h+` };`,
						pre+k1+` { `+h+` && context.n > 0 } `+k2+` { `+use+` };`,
						pre+k1+` { !(`+h+`) } `+k2+` { `+use+` };`,
						pre+k1+` { `+h+` } when { context.n > 0 } `+k2+` { `+use+` };`,
						pre+k1+` { `+h+` } unless { context.n > 0 } `+k2+` { context.n > 0 && `+use+` };`,
						pre+k1+` { `+h+` } `+k2+` { `+h+` && `+use+` };`,
						pre+k1+` { `+h+` } `+k2+` { !(`+h+`) || `+use+` };`,
						pre+k1+` { `+h+` } `+k1+` { `+h+` } `+k2+` { `+use+` };`)
				}
			}
		}
	}
	return out
}
