package main

// C17: the deterministic near-reserved pass. For every (position, identifier) of vh.C17NearReservedCases
//   - the minimal schema AST goes through the four round trips of checkC17 and the model correspondence like every
//     other generated schema (the caller appends it to its case list);
//   - the same schema written by hand as Cedar text (not produced by the printer) is parsed: the parser must accept it
//     exactly when the identifier is legal at that position, and the tree it builds must be the AST above.
// Whether an identifier is legal comes from the grammar, stated here independently of the code under test
// (c17NameLegal): reserved words are reserved as WHOLE words only.

import (
	"fmt"

	"github.com/cedar-policy/cedar-go/x/exp/schema"

	"verifharness/vh"
)

// c17NameLegal: may id be written (unquoted) at a position of the given kind?
func c17NameLegal(kind, id string) bool {
	switch kind {
	case "path", "ident": // a namespace component, an entity or enum type name: IDENT (the reserved words, `__cedar` included, are not IDENTs)
		return validIdent(id)
	case "common": // IDENT, and not one of the reserved type names
		return validIdent(id) && !reservedCommon[id]
	case "name": // attribute and action names: IDENT or a string; `__cedar` is the one reserved word accepted without quotes
		return validIdent(id) || id == "__cedar"
	case "annotation": // any identifier-shaped word, reserved or not
		return validIdentOrKeyword(id)
	}
	return false
}

// c17TextSetShape: positions whose hand-written text mentions the identifier as a bare type reference; for the identifier
// `Set` that is the recorded defect `type-named-Set-renders-unparseable` (the type parser accepts `Set` only before `<`).
var c17TextSetShape = map[string]bool{"entity": true, "entity-in-namespace": true, "enum": true}

// c17NearReservedPass runs the text direction and returns the schema cases for the caller's round-trip loop.
func c17NearReservedPass(c *vh.Ctx, b *vh.Batch) []vh.SchemaCase {
	var out []vh.SchemaCase
	for _, nc := range vh.C17NearReservedCases() {
		id, pos := nc.Ident, nc.Position
		tag := nc.Tag()
		want := pos.Build(id)
		out = append(out, vh.SchemaCase{Tag: tag, S: want})
		legal := c17NameLegal(pos.Kind, id)
		txt := pos.Text(id)
		var sc schema.Schema
		var err error
		c.Res.OracleChecks++
		if p := vh.Protect(func() { err = sc.UnmarshalCedar([]byte(txt)) }); p != nil {
			c.Report(vh.Finding{Class: "near-reserved-text-panic", What: fmt.Sprintf("UnmarshalCedar panics on %q: %v", txt, p), Check: "oracle", Op: "schema-parse",
				Input: map[string]any{"text": txt, "position": pos.Name, "ident": id}, Expected: "a schema or an error", Actual: fmt.Sprint(p)})
			continue
		}
		c.Dist(fmt.Sprintf("nearres-text:%s-%s-%v", nc.Group, map[bool]string{true: "legal", false: "illegal"}[legal], err == nil))
		impl := "err"
		if err == nil {
			impl = "ok " + vh.ShowSchemaAST(sc.AST())
		}
		b.Add("schema-parse", map[string]any{"text": vh.Hex(txt)}, impl, tag+"-text")
		in := map[string]any{"text": txt, "position": pos.Name, "ident": id, "rule": pos.Kind}
		switch {
		case legal && err != nil:
			cls := "near-reserved-text-rejected-" + pos.Kind
			// the two repaired `Set` defects: attributed by repair — the same text with another ordinary identifier in
			// place of `Set` must parse (otherwise the position's text is rejected for a reason that is not about `Set`)
			otherParses := func() bool {
				var sc2 schema.Schema
				ok := false
				vh.Protect(func() { ok = sc2.UnmarshalCedar([]byte(pos.Text("Set"+c17Fresh))) == nil })
				return ok
			}
			if id == "Set" && c17TextSetShape[pos.Name] && otherParses() {
				cls = "type-named-Set-renders-unparseable"
			}
			if id == "Set" && pos.Name == "namespace-referenced" && otherParses() { // `a: Set::A`: the same check in parseType, reached through a namespace called Set
				cls = "type-reference-into-namespace-Set-renders-unparseable"
			}
			c.Report(vh.Finding{Class: cls, What: fmt.Sprintf("the schema parser rejects %q, although %q is an ordinary identifier at position %s: %v", txt, id, pos.Name, err), Check: "oracle", Op: "schema-parse",
				Input: in, Expected: "ok " + vh.ShowSchemaAST(want), Actual: "err " + err.Error()})
		case !legal && err == nil:
			c.Report(vh.Finding{Class: "near-reserved-text-accepted-" + pos.Kind, What: fmt.Sprintf("the schema parser accepts %q, although %q is reserved at position %s", txt, id, pos.Name), Check: "oracle", Op: "schema-parse",
				Input: in, Expected: "err", Actual: impl})
		case err == nil:
			c.Res.OracleChecks++
			if got, exp := vh.ShowSchemaAST(sc.AST()), vh.ShowSchemaAST(want); got != exp {
				c.Report(vh.Finding{Class: "near-reserved-text-ast-differs", What: fmt.Sprintf("the schema parser builds a different tree for %q (position %s)", txt, pos.Name), Check: "oracle", Op: "schema-parse",
					Input: in, Expected: exp, Actual: got})
			}
		}
	}
	return out
}
