package main

import (
	"bytes"
	"encoding/hex"
	"errors"
	"fmt"
	"hash/fnv"
	"io"
	"strings"
	"time"

	cedar "github.com/cedar-policy/cedar-go"
	"github.com/cedar-policy/cedar-go/types"
	"github.com/cedar-policy/cedar-go/x/exp/verifhooks"

	"verifharness/vh"
)

func init() { props["C18"] = runC18 }

// c18Toks renders the scanner's token list in the canonical form shared with the Lean ops `lex` / `scan`.
func c18Toks(r io.Reader) (out string) {
	var toks []verifhooks.VerifToken
	var err error
	if p := vh.Protect(func() { toks, err = verifhooks.TokenizeReader(r) }); p != nil {
		return fmt.Sprintf("panic %v", p)
	}
	if err != nil {
		return "err"
	}
	var sb strings.Builder
	sb.WriteString("ok ")
	for i, t := range toks {
		if i > 0 {
			sb.WriteByte(',')
		}
		fmt.Fprintf(&sb, "%d:%d:%d:%d:%s", t.Type, t.Offset, t.Line, t.Column, hex.EncodeToString([]byte(t.Text)))
	}
	return sb.String()
}

// c18Decoded is the observable outcome of decoding a document policy by policy.
type c18Decoded struct {
	Texts []string
	Poss  []cedar.Position
	Pols  []*cedar.Policy
	Err   string // "" = clean io.EOF after the last policy; otherwise the error text
	Panic any
}

func (d c18Decoded) String() string {
	var sb strings.Builder
	for i := range d.Texts {
		fmt.Fprintf(&sb, "[%d:%d:%d %s]", d.Poss[i].Offset, d.Poss[i].Line, d.Poss[i].Column, hex.EncodeToString([]byte(d.Texts[i])))
	}
	if d.Panic != nil {
		fmt.Fprintf(&sb, " panic=%v", d.Panic)
	}
	return sb.String() + " err=" + d.Err
}

// c18Stream decodes all policies from r with cedar.NewDecoder until the first error.
func c18Stream(r io.Reader) (d c18Decoded) {
	d.Panic = vh.Protect(func() {
		dec := cedar.NewDecoder(r)
		for n := 0; n < 1_000_000; n++ {
			var p cedar.Policy
			err := dec.Decode(&p)
			if err == io.EOF {
				return
			}
			if err != nil {
				d.Err = err.Error()
				if d.Err == "" {
					d.Err = "(empty error text)"
				}
				return
			}
			d.Texts = append(d.Texts, string(p.MarshalCedar()))
			d.Poss = append(d.Poss, p.Position())
			d.Pols = append(d.Pols, &p)
		}
		d.Err = "decoder did not stop"
	})
	return d
}

// c18List parses the whole byte slice with NewPolicyListFromBytes.
func c18List(file string, b []byte) (d c18Decoded) {
	d.Panic = vh.Protect(func() {
		pl, err := cedar.NewPolicyListFromBytes(file, b)
		if err != nil {
			d.Err = err.Error()
			if u := errors.Unwrap(err); u != nil {
				d.Err = u.Error() // strip the "parser error: " wrapper: the decoder reports the inner error
			}
			return
		}
		for _, p := range pl {
			d.Texts = append(d.Texts, string(p.MarshalCedar()))
			d.Poss = append(d.Poss, p.Position())
			d.Pols = append(d.Pols, p)
		}
	})
	return d
}

func c18Env() (types.EntityMap, cedar.Request) {
	ctx := types.NewRecord(types.RecordMap{"s": types.String("aéb"), "x": types.Long(5)})
	req := cedar.Request{Principal: types.NewEntityUID("User", "a"), Action: types.NewEntityUID("Action", "a"), Resource: types.NewEntityUID("Doc", "a"), Context: ctx}
	return types.EntityMap{}, req
}

// c18Authorize: every Diagnostic reason/error position must be the policy's Position (filename included).
// Returns (number of diagnostic entries checked, description of the first mismatch or "").
func c18Authorize(pols []*cedar.Policy, want []polPos, file string) (int, string) {
	ps := cedar.NewPolicySet()
	for i, p := range pols {
		ps.Add(cedar.PolicyID(fmt.Sprintf("policy%d", i)), p)
	}
	em, req := c18Env()
	_, diag := cedar.Authorize(ps, em, req)
	n := 0
	check := func(id cedar.PolicyID, pos cedar.Position) string {
		var i int
		fmt.Sscanf(string(id), "policy%d", &i)
		n++
		w := cedar.Position{Filename: file, Offset: want[i].Off, Line: want[i].Line, Column: want[i].Col}
		if pos != w {
			return fmt.Sprintf("diagnostic for %s reports %+v, first token is at %+v", id, pos, w)
		}
		if pos != pols[i].Position() {
			return fmt.Sprintf("diagnostic for %s reports %+v, Policy.Position() is %+v", id, pos, pols[i].Position())
		}
		return ""
	}
	for _, r := range diag.Reasons {
		if m := check(r.PolicyID, r.Position); m != "" {
			return n, m
		}
	}
	for _, e := range diag.Errors {
		if m := check(e.PolicyID, e.Position); m != "" {
			return n, m
		}
	}
	return n, ""
}

// c18Key hashes (document, chunk list, final) for distinct counting.
func c18Key(b []byte, sizes []int, final int) string {
	h := fnv.New64a()
	h.Write(b)
	var t [4]byte
	for _, n := range sizes {
		t[0], t[1], t[2], t[3] = byte(n), byte(n>>8), byte(n>>16), 0xfe
		h.Write(t[:])
	}
	h.Write([]byte{byte(final)})
	return string(h.Sum(nil))
}

type c18Run struct {
	c        *vh.Ctx
	b        *vh.Batch
	scanOps  int
	diagSeen int
	// one-shot reader failures (c18_oneshot.go)
	oneshotRuns int
	oneshotDur  time.Duration
}

func posEq(p cedar.Position, w polPos) bool {
	return p.Offset == w.Off && p.Line == w.Line && p.Column == w.Col
}

func samePolicies(a, b c18Decoded, n int) bool {
	for i := 0; i < n; i++ {
		pa, pb := a.Poss[i], b.Poss[i]
		pa.Filename, pb.Filename = "", ""
		if a.Texts[i] != b.Texts[i] || pa != pb {
			return false
		}
	}
	return true
}

func (r *c18Run) report(class, what string, d c18Doc, extra map[string]any, expected, actual any) {
	in := map[string]any{"src_hex": hex.EncodeToString(d.Bytes), "doc_kind": d.Kind}
	for k, v := range extra {
		in[k] = v
	}
	r.c.Report(vh.Finding{Class: class, What: what, Check: "oracle", Op: "stream", Input: in, Expected: expected, Actual: actual})
}

// doc runs every check on one document.
//
//	scheds: schedule kinds to run (each with final = EOF and data-with-EOF); failAt: byte positions at which the reader fails;
//	leanScans: how many of the schedules are also sent to the Lean scanner model.
func (r *c18Run) doc(d c18Doc, scheds []schedKind, failAt []int, leanScans int) {
	c := r.c
	src := hex.EncodeToString(d.Bytes)
	c.Dist("doc:" + d.Kind)
	if len(d.Bytes) > 1024 {
		c.Dist("doc>bufLen")
	}
	baseToks := c18Toks(bytes.NewReader(d.Bytes))
	if strings.HasPrefix(baseToks, "panic") {
		r.report("scanner-panic", baseToks, d, nil, "no panic", baseToks)
	}
	r.b.Add("lex", map[string]any{"src": src}, baseToks, "lex")
	nontrivialDoc := strings.Count(baseToks, ",") >= 1 || baseToks == "err"

	list := c18List("doc.cedar", d.Bytes)
	base := c18Stream(bytes.NewReader(d.Bytes))
	c.Res.OracleChecks++
	if list.Panic != nil || base.Panic != nil {
		r.report("decode-panic", fmt.Sprintf("list panic=%v stream panic=%v", list.Panic, base.Panic), d, nil, "no panic", nil)
		return
	}
	// whole-slice parse vs streaming decode of the same bytes
	if list.Err == "" {
		c.Dist("list:ok")
		if base.Err != "" || len(base.Texts) != len(list.Texts) || !samePolicies(list, base, len(list.Texts)) {
			r.report("stream-vs-bytes", "Decoder on bytes.Reader differs from NewPolicyListFromBytes", d, nil, list.String(), base.String())
		}
	} else {
		c.Dist("list:err")
		if base.Err != list.Err {
			r.report("stream-vs-bytes-error", "Decoder error differs from NewPolicyListFromBytes error", d, nil, list.Err, base.String())
		}
	}
	// exact positions (valid documents: expected positions computed while assembling the bytes)
	if d.Valid {
		if list.Err != "" || len(list.Poss) != len(d.Pols) {
			r.report("generator-valid-doc-rejected", "assembled well-formed document rejected or wrong policy count: "+list.Err, d, nil, len(d.Pols), list.String())
		} else {
			for i, p := range list.Poss {
				c.Res.OracleChecks++
				if !posEq(p, d.Pols[i]) || p.Filename != "doc.cedar" {
					r.report("policy-position", fmt.Sprintf("policy %d Position %+v, first token at %+v", i, p, d.Pols[i]), d, nil, d.Pols[i], p)
				}
			}
			n, m := c18Authorize(list.Pols, d.Pols, "doc.cedar")
			r.diagSeen += n
			if m != "" {
				r.report("diagnostic-position", m, d, nil, nil, nil)
			}
		}
	}
	for si, k := range scheds {
		for final := finalEOF; final <= finalEOFData; final++ {
			sizes := mkSizes(c.Rng, k, len(d.Bytes))
			extra := map[string]any{"chunks": sizes, "final": finalName(final)}
			toks := c18Toks(newScriptReader(d.Bytes, sizes, final))
			st := c18Stream(newScriptReader(d.Bytes, sizes, final))
			c.Res.OracleChecks += 2
			c.Count(c18Key(d.Bytes, sizes, final), nontrivialDoc && len(sizes) > 1)
			c.Dist("sched:" + k.name)
			if toks != baseToks {
				r.report("tokens-chunking-variant", "token stream depends on reader chunking ("+k.name+")", d, extra, baseToks, toks)
			}
			if st.Panic != nil || st.Err != base.Err || len(st.Texts) != len(base.Texts) || !samePolicies(st, base, len(base.Texts)) {
				r.report("decode-chunking-variant", "decoded policies/error depend on reader chunking ("+k.name+")", d, extra, base.String(), st.String())
			}
			if d.Valid && st.Err == "" && final == finalEOF && si == 0 {
				for _, p := range st.Pols {
					p.SetFilename("s.cedar")
				}
				if len(st.Pols) == len(d.Pols) {
					n, m := c18Authorize(st.Pols, d.Pols, "s.cedar")
					r.diagSeen += n
					if m != "" {
						r.report("diagnostic-position", m+" (streamed)", d, extra, nil, nil)
					}
				}
			}
			if c.Rng.Intn(2*len(scheds)) < leanScans {
				r.scanOps++
				r.b.Add("scan", map[string]any{"src": src, "chunks": sizes, "buflen": 1024, "final": finalName(final)}, toks, "scan:"+k.name)
				if c.Rng.Intn(3) == 0 {
					// the model's buffer size is a parameter: any size >= utf8.UTFMax must give what Go gives with 1024
					r.scanOps++
					r.b.Add("scan", map[string]any{"src": src, "chunks": sizes, "buflen": 4 + c.Rng.Intn(13), "final": finalName(final)}, toks, "scan-smallbuf:"+k.name)
				}
			}
		}
	}
	for fi, k := range failAt {
		if k < 0 || k > len(d.Bytes) {
			continue
		}
		kind := c18Scheds[c.Rng.Intn(len(c18Scheds))]
		sizes := mkSizes(c.Rng, kind, k)
		extra := map[string]any{"chunks": sizes, "final": "fail", "fail_at": k}
		toks := c18Toks(newScriptReader(d.Bytes, sizes, finalFail))
		st := c18Stream(newScriptReader(d.Bytes, sizes, finalFail))
		c.Res.OracleChecks += 2
		c.Count(c18Key(d.Bytes, sizes, finalFail), true)
		c.Dist("fail:" + map[bool]string{true: "mid-document", false: "after-last-byte"}[k < len(d.Bytes)])
		if st.Panic != nil || strings.HasPrefix(toks, "panic") {
			r.report("decode-panic", fmt.Sprintf("panic with failing reader: %v %s", st.Panic, toks), d, extra, "no panic", nil)
			continue
		}
		if k < len(d.Bytes) {
			// the property: a failure in mid-document must surface as an error, and whatever was
			// yielded before it must be policies of the document (a prefix), never a truncated one
			if toks != "err" {
				r.report("reader-failure-swallowed", "TokenizeReader succeeded although the reader failed in mid-document", d, extra, "err", toks)
			}
			np := len(st.Texts)
			if st.Err == "" || np > len(base.Texts) || !samePolicies(st, base, np) {
				r.report("reader-failure-swallowed", "Decoder reported clean EOF or a truncated policy although the reader failed in mid-document", d, extra, "error after a prefix of "+base.String(), st.String())
			}
		}
		if d.Kind == "tiny" || fi == len(failAt)-1 {
			r.scanOps++
			r.b.Add("scan", map[string]any{"src": src, "chunks": sizes, "buflen": 1024, "final": "fail"}, toks, "scan:fail")
		}
	}
	// readers that fail exactly once (error together with data / without, then EOF / resume / sticky): c18_oneshot.go
	// (every mode at every position for documents whose failAt list is exhaustive; otherwise every mode at
	// policy boundaries and one random mode at four of the sampled positions)
	if len(failAt) == len(d.Bytes)+1 {
		r.oneshot(d, base, failAt, nil, scheds)
	} else {
		some := append([]int{}, failAt...)
		c.Rng.Shuffle(len(some), func(i, j int) { some[i], some[j] = some[j], some[i] })
		if len(some) > 4 {
			some = some[:4]
		}
		r.oneshot(d, base, c18PolicyBoundaries(c.Rng, d), some, scheds)
	}
}

// boundaryPads: pads that put each internal byte split of an interesting token / multi-byte character at offset 1024*k.
func boundaryPads(d c18Doc, class string, maxSplits int) []int {
	var pads []int
	for _, sp := range d.Spans {
		start, end := sp.Start, sp.End
		if class == "multibyte" {
			if sp.Class != "string" && sp.Class != "comment" {
				continue
			}
			q := -1
			for i := sp.Start; i < sp.End; i++ {
				if d.Bytes[i] >= 0xC0 {
					q = i
					break
				}
			}
			if q < 0 {
				continue
			}
			start, end = q, q+1
			for end < sp.End && d.Bytes[end]&0xC0 == 0x80 {
				end++
			}
		} else if class == "escape" {
			if sp.Class != "string" {
				continue
			}
			q := bytes.IndexByte(d.Bytes[sp.Start:sp.End], '\\')
			if q < 0 {
				continue
			}
			start = sp.Start + q
			end = start + 2
			if d.Bytes[start+1] == 'u' || d.Bytes[start+1] == 'x' {
				for end < sp.End-1 && d.Bytes[end-1] != '}' && end-start < 10 {
					end++
				}
			}
		} else if sp.Class != class {
			continue
		}
		if end-start < 2 {
			continue
		}
		for j := 1; j < end-start && j <= maxSplits; j++ {
			for k := 1; k <= 2; k++ {
				p := 1024*k - (start + j)
				for p < 0 {
					p += 1024
				}
				pads = append(pads, p)
			}
		}
		return pads
	}
	return nil
}

func runC18(c *vh.Ctx) {
	r := &c18Run{c: c, b: &vh.Batch{}}
	c.Res.Rule = "documents assembled from policy tokens/strings/comments/CR-LF trivia/1-4-byte characters (positions of each policy's first token computed while assembling), padded so that every internal byte split of a token of each class and of a multi-byte character falls on offset 1024k; plus malformed documents (truncated, mutated, garbage incl. NUL/invalid UTF-8/unterminated literals). Each document x reader schedules {whole,1,2,3,4,1023,1024,1025,random,+zero-length reads} x final {EOF, data-with-EOF} x reader failure at byte k (every k for short documents), sticky (error repeated with n=0) and one-shot (error once, with n>0 or n=0, then EOF / the rest of the document / the error again; every policy boundary and every byte of small multi-policy documents): TokenizeReader and Decoder must report an error. distinct = (document, chunk list, final); non-trivial = document has a token or a lexical error and the schedule has more than one chunk"
	all := c18Scheds
	small := []schedKind{c18Scheds[0], c18Scheds[1], c18Scheds[2], c18Scheds[3], c18Scheds[4], c18Scheds[8], c18Scheds[9], c18Scheds[12]}
	everyK := func(n int) []int {
		ks := make([]int, n+1)
		for i := range ks {
			ks[i] = i
		}
		return ks
	}
	sampleK := func(n int, m int) []int {
		ks := []int{0, n, n - 1, 1023, 1024, 1025, 2047, 2048}
		for i := 0; i < m; i++ {
			ks = append(ks, c.Rng.Intn(n+1))
		}
		return ks
	}
	// 1. hand-written tiny documents: every failure position, all small schedules
	tiny := []string{"", " ", "\n", "\r\n", "a", "a\n", "é", "\"é\"", "\"€😀\"", "// é\n", "/* € */", "/*", "\"", "\"\\u{1F600}\" ==", "a==b", "a = b", "x::y", "1<=2", "&&||&|",
		"\x00", "\xc3", "\xe2\x82", "a\xf0\x9f\x98", "\"\xf0\x9f\x98\x80", "\xef\xbf\xbd", "\"\xef\xbf\xbd\"", "if iff __cedar", "permit(principal,action,resource);",
		"@id(\"é\")\r\npermit(principal,action,resource)\r\nwhen{context.s==\"a\\u{e9}b\"};\n\nforbid(principal,action,resource)unless{context.missing};"}
	for _, t := range tiny {
		d := c18Doc{Bytes: []byte(t), Kind: "tiny"}
		r.doc(d, small, everyK(len(t)), 3)
	}
	// 2. boundary-padded valid documents
	classes := []string{"string", "comment", "ws", "ident", "int", "op2", "multibyte", "escape"}
	for ci, class := range classes {
		for rep := 0; rep < c.N(2, 8); rep++ {
			var seed int64
			var d0 c18Doc
			for try := 0; try < 20; try++ { // a document that contains a token of this class
				seed = c.Rng.Int63()
				d0 = buildValidDoc(seed, 2+c.Rng.Intn(3), 0)
				if len(boundaryPads(d0, class, 1)) > 0 {
					break
				}
			}
			for _, pad := range boundaryPads(d0, class, c.N(5, 12)) {
				d := buildValidDocN(seed, d0, pad)
				d.Kind = "boundary:" + class
				r.doc(d, all, sampleK(len(d.Bytes), 2), 2+ci%2)
			}
		}
	}
	// 3. random valid documents, small and larger than the buffer
	for i := 0; i < c.N(60, 1500); i++ {
		n := 1 + c.Rng.Intn(3)
		if i%6 == 0 {
			n = 8 + c.Rng.Intn(20)
		}
		d := buildValidDoc(c.Rng.Int63(), n, c.Rng.Intn(3)*c.Rng.Intn(1100))
		fails := sampleK(len(d.Bytes), 4)
		if len(d.Bytes) <= 200 && i%5 == 1 {
			fails = everyK(len(d.Bytes))
		}
		r.doc(d, all, fails, 3)
	}
	// 4. malformed documents
	for i := 0; i < c.N(200, 6000); i++ {
		base := buildValidDoc(c.Rng.Int63(), 1+c.Rng.Intn(2), c.Rng.Intn(2)*c.Rng.Intn(1100))
		d := buildMalformedDoc(c.Rng, base)
		r.doc(d, all, sampleK(len(d.Bytes), 2), 2)
	}
	// 5. small multi-policy documents: a reader failing once at EVERY byte position, every one-shot mode
	for _, d := range c18OneShotDocs(c.Rng, c.N(3, 60)) {
		r.doc(d, small, everyK(len(d.Bytes)), 1)
	}
	c.Res.Notes = append(c.Res.Notes, fmt.Sprintf("lean scan ops=%d, diagnostic entries checked=%d, one-shot reader runs=%d (%.1fs), go side %.1fs", r.scanOps, r.diagSeen, r.oneshotRuns, r.oneshotDur.Seconds(), time.Since(c.Start).Seconds()))
	if r.diagSeen == 0 {
		c.Report(vh.Finding{Class: "self-test", What: "no Authorize diagnostic entry was produced by any document", Check: "oracle", NoInput: true})
	}
	ds, _, err := c.Correspond(r.b)
	if err != nil {
		c.Report(vh.Finding{Class: "driver-failure", What: err.Error(), Check: "correspondence", NoInput: true})
		return
	}
	for _, dg := range ds {
		l := dg.Line
		class := "model-vs-impl-" + l.Op
		c.Report(vh.Finding{Class: class, What: "Go scanner tokens differ from the Lean " + l.Op + " model (" + l.Tag + ")", Check: "correspondence", Op: l.Op,
			Input: l.Payload(), Expected: dg.Model, Actual: l.Impl})
	}
	c.Sample(map[string]any{"doc": tiny[len(tiny)-1], "tokens": c18Toks(strings.NewReader(tiny[len(tiny)-1]))})
}

// buildValidDocN rebuilds the document of `seed` (same policies as d0) with `pad` bytes of trivia in front.
func buildValidDocN(seed int64, d0 c18Doc, pad int) c18Doc {
	return buildValidDoc(seed, len(d0.Pols), pad)
}
