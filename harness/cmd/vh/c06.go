package main

// C06 — partial evaluation is sound for every completion of the unknowns.
//
// DIRECT ORACLE (decides the property on the implementation):
//   for a policy p and a partial environment e^ (unknowns = eval.Variable(name) in principal / action /
//   resource / context and nested in context records and sets up to depth 3; ignored parts = the ignore marker)
//     (res, keep) := x/exp/eval.PartialPolicy(e^, p)
//   and for EVERY completion s of the unknowns drawn from a universe built from the literals of p, their
//   neighbours and values of other types (sampled when the product exceeds the cap):
//     kept    =>  Eval(PolicyToNode(res)) under s(e^) is satisfied  <=>  Eval(PolicyToNode(p)) under s(e^) is satisfied
//     dropped =>  p is not satisfied under s(e^)
//     ignored part, p permit, p satisfied for some value of the ignored part  =>  kept and res satisfied
//   "error vs false" differences are recorded as a weaker signal (distribution `weak:`), not as violations:
//   the property speaks about satisfaction only.
//
// CLASSIFICATION of a failure is causal: a reference re-implementation of partial.go over the public API
// (vh/partialref.go) must first reproduce the implementation's residual exactly — in one of its base configurations
// (vh.BaseCfgs: the code as repaired, the repaired code with one defect family reverted, the code before any repair);
// the failure is then attributed to the smallest set of single repairs on top of that base which makes every
// completion of the case pass.  The repair names are the finding classes (stale-residual-and|or|if,
// tainted-container-<op>, tainted-record-<op>, isin-eager-rhs-error; all "fixed" in known_findings, so a returning
// defect is a VIOLATION that names it).  A failure that no repair explains is `unexplained-…` and hence a VIOLATION.
//
// CORRESPONDENCE: op `partial` — the Lean model's residual (Model/Partial.lean) against the implementation's
// residual AST, compared by the driver after canonical rendering (partialError messages masked).  White-box:
// a difference is counted as whitebox_drift and intensifies the oracle on that case; it cannot fail the check alone.

import (
	"encoding/json"
	"fmt"
	"math/rand"
	"os"
	"sort"
	"strings"

	cedar "github.com/cedar-policy/cedar-go"
	publicast "github.com/cedar-policy/cedar-go/ast"
	"github.com/cedar-policy/cedar-go/types"
	"github.com/cedar-policy/cedar-go/x/exp/ast"
	"github.com/cedar-policy/cedar-go/x/exp/eval"

	"verifharness/vh"
)

func init() { props["C06"] = runC06 }

type c06Case struct {
	name   string
	t      *vh.Template
	p      *ast.Policy
	rich   bool     // built by the lazy-matrix stream (vh/gen_partial2.go, gen_partial3.go)
	labels []string // the cells of the lazy matrix the policy was built for
}

func policyText(p *ast.Policy) (s string) {
	defer func() {
		if r := recover(); r != nil {
			s = fmt.Sprintf("<unrenderable: %v>", r)
		}
	}()
	return strings.Join(strings.Fields(string(cedar.NewPolicyFromAST((*publicast.Policy)(p)).MarshalCedar())), " ")
}

func mustPolicy(text string) *ast.Policy {
	var p cedar.Policy
	if err := p.UnmarshalCedar([]byte(text)); err != nil {
		panic(fmt.Sprintf("table policy does not parse: %v: %s", err, text))
	}
	return (*ast.Policy)(p.AST())
}

// unknownEnv replaces ignore markers the way batch.fixIgnores does.
func unknownEnv(env eval.Env) eval.Env {
	if vh.IsIgn(env.Principal) {
		env.Principal = types.NewEntityUID(vh.UnknownEntityType, "principal")
	}
	if vh.IsIgn(env.Action) {
		env.Action = types.NewEntityUID(vh.UnknownEntityType, "action")
	}
	if vh.IsIgn(env.Resource) {
		env.Resource = types.NewEntityUID(vh.UnknownEntityType, "resource")
	}
	if vh.IsIgn(env.Context) {
		var nilRecord types.Record
		env.Context = nilRecord
	}
	return env
}

// axis is one dimension of the completion space: an unknown or an ignored part.
type axis struct {
	name    types.String // unknown name, or "" for an ignored part
	part    string       // ignored part name
	choices []types.Value
}

func c06Axes(g *vh.Gen, cs c06Case, perVar int) []axis {
	lits := vh.Literals(cs.p)
	var axes []axis
	t := cs.t
	partOf := map[types.String]types.Value{}
	for _, pr := range []struct{ v, base types.Value }{{t.Env.Principal, t.Base.Principal}, {t.Env.Action, t.Base.Action}, {t.Env.Resource, t.Base.Resource}, {t.Env.Context, t.Base.Context}} {
		if n, ok := vh.IsVar(pr.v); ok {
			partOf[n] = pr.base
		}
	}
	for _, n := range t.VarNames() {
		base, isPart := partOf[n]
		axes = append(axes, axis{name: n, choices: g.Universe(t.VarKind[n], lits, base, perVar, !isPart)})
	}
	for _, part := range t.Ignored {
		var ch []types.Value
		switch part {
		case "principal":
			ch = g.Universe(vh.TEntity, lits, t.Base.Principal, 3, false)
		case "action":
			ch = g.Universe(vh.TEntity, lits, t.Base.Action, 3, false)
		case "resource":
			ch = g.Universe(vh.TEntity, lits, t.Base.Resource, 3, false)
		default:
			ch = g.Universe(vh.TRecord, lits, t.Base.Context, 3, false)
		}
		if cs.rich && part != "context" {
			// the lazy-matrix stream: an ignored entity part ranges over what an unknown entity would range over, so
			// that `?p in <ignored resource>`, `?p == <ignored principal>` are satisfiable
			base := map[string]types.Value{"principal": t.Base.Principal, "action": t.Base.Action, "resource": t.Base.Resource}[part]
			ch = g.Universe(vh.TEntity, lits, base, 5, false)
		}
		axes = append(axes, axis{part: part, choices: ch})
	}
	// ignore markers nested in the context: completed like unknowns of their kind (the property's ignore clause read
	// for a part OF a request part, which is what partial_test.go's ignoreAnd / ignoreHas … exercise)
	for _, n := range t.NestedIgnPaths() {
		axes = append(axes, axis{part: n.Path, choices: g.Universe(n.Kind, lits, n.Base, 4, false)})
	}
	return axes
}

type combo struct {
	sub map[types.String]types.Value
	ign map[string]types.Value
}

// combos enumerates the product of the axes, or a random sample of `limit` points (always including point 0).
func combos(g *vh.Gen, axes []axis, limit int) ([]combo, bool) {
	total := 1
	for _, a := range axes {
		total *= len(a.choices)
		if total > 1<<30 {
			total = 1 << 30
		}
	}
	mk := func(idx int) combo {
		c := combo{sub: map[types.String]types.Value{}, ign: map[string]types.Value{}}
		for _, a := range axes {
			v := a.choices[idx%len(a.choices)]
			idx /= len(a.choices)
			if a.part != "" {
				c.ign[a.part] = v
			} else {
				c.sub[a.name] = v
			}
		}
		return c
	}
	var out []combo
	if total <= limit {
		for i := 0; i < total; i++ {
			out = append(out, mk(i))
		}
		return out, true
	}
	seen := map[int]bool{0: true}
	out = append(out, mk(0))
	for len(out) < limit {
		i := g.R.Intn(total)
		if !seen[i] {
			seen[i] = true
			out = append(out, mk(i))
		}
	}
	return out, false
}

// c06Diagonals: for a sampled completion space, the points at which every axis that can take the value v takes it
// (the other axes their first choice): what makes `?p in <ignored resource>`, `?x == context.vn` … satisfiable.
func c06Diagonals(axes []axis) []combo {
	seen := map[string]bool{}
	var out []combo
	for _, a := range axes {
		for _, v := range a.choices {
			key := vh.ShowValue(v)
			if seen[key] {
				continue
			}
			seen[key] = true
			c := combo{sub: map[types.String]types.Value{}, ign: map[string]types.Value{}}
			n := 0
			for _, b := range axes {
				pick := b.choices[0]
				for _, w := range b.choices {
					if vh.ShowValue(w) == key {
						pick = w
						n++
						break
					}
				}
				if b.part != "" {
					c.ign[b.part] = pick
				} else {
					c.sub[b.name] = pick
				}
			}
			if n >= 2 {
				out = append(out, c)
			}
		}
	}
	return out
}

func completeEnv(envHat eval.Env, cb combo) eval.Env {
	env := vh.SubstEnv(envHat, cb.sub)
	if v, ok := cb.ign["principal"]; ok {
		env.Principal = v
	}
	if v, ok := cb.ign["action"]; ok {
		env.Action = v
	}
	if v, ok := cb.ign["resource"]; ok {
		env.Resource = v
	}
	if v, ok := cb.ign["context"]; ok {
		env.Context = v
	} else if vh.ContainsIgn(env.Context) {
		env.Context = vh.SubstIgnAt(env.Context, "context", cb.ign)
	}
	return env
}

type c06Failure struct {
	kind  string // kept-sat-mismatch | dropped-but-satisfied | ignore-permit-dropped | ignore-permit-not-widened | panic
	cb    combo
	orig  string
	resid string
}

// judge decides the property for one residual over all combos; weak counts error-vs-false differences.
func c06Judge(cs c06Case, res *ast.Policy, keep bool, cbs []combo) (fails []c06Failure, weak int, origClasses map[string]int) {
	origClasses = map[string]int{}
	ignored := cs.t.HasIgnore()
	for _, cb := range cbs {
		env := completeEnv(cs.t.Env, cb)
		orig := vh.PolicyClass(cs.p, env)
		origClasses[orig]++
		if strings.HasPrefix(orig, "panic") {
			fails = append(fails, c06Failure{kind: "panic", cb: cb, orig: orig})
			continue
		}
		if !ignored {
			if !keep {
				if orig == "sat" {
					fails = append(fails, c06Failure{kind: "dropped-but-satisfied", cb: cb, orig: orig, resid: "dropped"})
				} else if orig == "err" {
					weak++
				}
				continue
			}
			resid := vh.PolicyClass(res, env)
			if (orig == "sat") != (resid == "sat") || strings.HasPrefix(resid, "panic") {
				fails = append(fails, c06Failure{kind: "kept-sat-mismatch", cb: cb, orig: orig, resid: resid})
			} else if orig != resid {
				weak++
			}
			continue
		}
		// ignored parts: only permits are promised anything, and only widening
		if cs.p.Effect != ast.EffectPermit || orig != "sat" {
			continue
		}
		if !keep {
			fails = append(fails, c06Failure{kind: "ignore-permit-dropped", cb: cb, orig: orig, resid: "dropped"})
			continue
		}
		r1 := vh.PolicyClass(res, env)
		r2 := vh.PolicyClass(res, unknownEnv(vh.SubstEnv(cs.t.Env, cb.sub)))
		if r1 != "sat" || r2 != "sat" {
			fails = append(fails, c06Failure{kind: "ignore-permit-not-widened", cb: cb, orig: orig, resid: r1 + "/" + r2})
		}
	}
	return
}

func encCombo(cb combo) any {
	m := map[string]any{}
	var ks []string
	for k := range cb.sub {
		ks = append(ks, string(k))
	}
	sort.Strings(ks)
	for _, k := range ks {
		m["?"+k] = vh.ShowValue(cb.sub[types.String(k)])
	}
	for k, v := range cb.ign {
		m["ignored:"+k] = vh.ShowValue(v)
	}
	return m
}

type c06Outcome struct {
	keep      bool
	res       *ast.Policy
	events    map[string]int // known-unsound situations exercised by this case
	failed    bool
	classes   []string
	goDrift   bool
	ncombos   int
	exhaustiv bool
}

// c06Explain finds the smallest set of single repairs of the reference evaluator (on top of the base configuration
// that reproduces the implementation) under which every combo passes.
func c06Explain(cs c06Case, cbs []combo, base *vh.Ref) ([]string, bool) {
	cands := map[string]bool{}
	for k := range base.Events {
		cands[k] = true
	}
	// repairs can open paths that exercise further known situations: close the candidate set
	for round := 0; round < 4; round++ {
		var names []string
		for k := range cands {
			names = append(names, k)
		}
		r := vh.NewRef(base.Cfg.With(names), cs.t.Env)
		r.PartialPolicy(cs.p)
		grew := false
		for k := range r.Events {
			if !cands[k] {
				cands[k] = true
				grew = true
			}
		}
		if !grew {
			break
		}
	}
	var names []string
	for k := range cands {
		names = append(names, k)
	}
	sort.Strings(names)
	for _, s := range vh.Subsets(names) {
		r := vh.NewRef(base.Cfg.With(s), cs.t.Env)
		var res *ast.Policy
		var keep bool
		if p := vh.Protect(func() { res, keep = r.PartialPolicy(cs.p) }); p != nil {
			continue
		}
		if fails, _, _ := c06Judge(cs, res, keep, cbs); len(fails) == 0 {
			return s, true
		}
	}
	return nil, false
}

// c06BaseRef finds the base configuration of the reference evaluator that reproduces the implementation's result on
// this case (nil: none does = white-box drift).
func c06BaseRef(cs c06Case, res *ast.Policy, keep bool) *vh.Ref {
	want := vh.MaskedPolicyJSON(res, keep)
	for _, cfg := range vh.BaseCfgs() {
		ref := vh.NewRef(cfg, cs.t.Env)
		var rres *ast.Policy
		var rkeep bool
		if p := vh.Protect(func() { rres, rkeep = ref.PartialPolicy(cs.p) }); p != nil {
			continue
		}
		if vh.MaskedPolicyJSON(rres, rkeep) == want {
			return ref
		}
	}
	return nil
}

func c06Input(cs c06Case, f *c06Failure) map[string]any {
	in := map[string]any{
		"case": cs.name, "policy_text": policyText(cs.p), "policy": vh.EncPolicy(cs.p), "env": vh.EncEnv(cs.t.Env),
		"principal": vh.ShowValue(cs.t.Env.Principal), "action": vh.ShowValue(cs.t.Env.Action), "resource": vh.ShowValue(cs.t.Env.Resource), "context": vh.ShowValue(cs.t.Env.Context),
	}
	if f != nil {
		in["completion"] = encCombo(f.cb)
	}
	return in
}

// c06Run runs the oracle on one case.
func c06Run(c *vh.Ctx, g *vh.Gen, cs c06Case, perVar, limit int) c06Outcome {
	var out c06Outcome
	var res *ast.Policy
	var keep bool
	if p := vh.Protect(func() { res, keep = eval.PartialPolicy(cs.t.Env, cs.p) }); p != nil {
		c.Report(vh.Finding{Class: "partial-panic", What: fmt.Sprintf("PartialPolicy panicked: %v on %s", p, policyText(cs.p)), Check: "oracle", Op: "partial", Input: c06Input(cs, nil)})
		out.failed = true
		return out
	}
	out.keep, out.res = keep, res
	// the reference evaluator must reproduce the implementation in one of its base configurations (repaired code first)
	ref := c06BaseRef(cs, res, keep)
	if ref == nil {
		out.goDrift = true
		ref = vh.NewRef(vh.RepairedCfg(), cs.t.Env)
		vh.Protect(func() { ref.PartialPolicy(cs.p) })
	} else if ref.Cfg.String() != vh.RepairedCfg().String() {
		c.Dist("reference-base:" + ref.Cfg.String()) // the implementation behaves like the code BEFORE a repair on this case
	}
	out.events = ref.Events
	if out.goDrift {
		c.Res.WhiteboxDrift++
		c.Dist("drift:go-reference")
		limit *= 8 // intensify
	}
	axes := c06Axes(g, cs, perVar)
	cbs, exhaustive := combos(g, axes, limit)
	if cs.rich && !exhaustive {
		cbs = append(cbs, c06Diagonals(axes)...)
	}
	out.ncombos, out.exhaustiv = len(cbs), exhaustive
	fails, weak, origClasses := c06Judge(cs, res, keep, cbs)
	c.Res.OracleChecks += len(cbs)
	for k, n := range origClasses {
		c.Res.Distribution["orig:"+k] += n
	}
	c.Res.Distribution["weak:error-vs-false"] += weak
	if len(fails) == 0 {
		return out
	}
	out.failed = true
	f := fails[0]
	what := func(cls string) string {
		return fmt.Sprintf("%s: %s | principal=%s action=%s resource=%s context=%s | completion %v: original %s, residual %s (%d of %d completions fail)",
			f.kind, policyText(cs.p), showMarked(cs.t.Env.Principal), showMarked(cs.t.Env.Action), showMarked(cs.t.Env.Resource), showMarked(cs.t.Env.Context), encCombo(f.cb), f.orig, f.resid, len(fails), len(cbs))
	}
	if f.kind == "panic" {
		c.Report(vh.Finding{Class: "eval-panic", What: what(""), Check: "oracle", Op: "partial", Input: c06Input(cs, &f)})
		return out
	}
	if out.goDrift {
		out.classes = []string{"unexplained-reference-drift"}
		c.Report(vh.Finding{Class: "unexplained-reference-drift", What: what(""), Check: "oracle", Op: "partial", Input: c06Input(cs, &f), Expected: f.orig, Actual: f.resid})
		return out
	}
	classes, ok := c06Explain(cs, cbs, ref)
	if !ok {
		cls := "unexplained-" + f.kind
		out.classes = []string{cls}
		c.Report(vh.Finding{Class: cls, What: what(cls), Check: "oracle", Op: "partial", Input: c06Input(cs, &f), Expected: f.orig, Actual: f.resid})
		return out
	}
	out.classes = classes
	for _, cls := range classes {
		c.Report(vh.Finding{Class: cls, What: what(cls), Check: "oracle", Op: "partial", Input: c06Input(cs, &f), Expected: f.orig, Actual: f.resid})
	}
	return out
}

// showMarked renders a template value for humans: unknowns as ?name, ignore as <ignore>.
func showMarked(v types.Value) string {
	switch t := v.(type) {
	case types.EntityUID:
		if t.Type == vh.VariableEntityType {
			return "?" + string(t.ID)
		}
		if t.Type == vh.IgnoreEntityType {
			return "<ignore>"
		}
		return string(t.Type) + "::" + fmt.Sprintf("%q", string(t.ID))
	case types.Record:
		var xs []string
		for _, k := range vh.SortedKeys(t) {
			x, _ := t.Get(k)
			xs = append(xs, string(k)+": "+showMarked(x))
		}
		return "{" + strings.Join(xs, ", ") + "}"
	case types.Set:
		var xs []string
		for x := range t.All() {
			xs = append(xs, showMarked(x))
		}
		sort.Strings(xs)
		return "[" + strings.Join(xs, ", ") + "]"
	case types.String:
		return fmt.Sprintf("%q", string(t))
	case nil:
		return "<nil>"
	}
	return v.String()
}

// ---- hand-written table: every known defect, its sound neighbours, ignore handling ----

func tableStore() types.EntityMap {
	ua, ub := types.NewEntityUID("User", "a"), types.NewEntityUID("User", "b")
	ga := types.NewEntityUID("Group", "a")
	return types.EntityMap{
		ua: {UID: ua, Parents: types.NewEntityUIDSet(ga), Attributes: types.NewRecord(types.RecordMap{"n": types.Long(2), "b": types.True}), Tags: types.NewRecord(types.RecordMap{"t1": types.String("x")})},
		ub: {UID: ub, Parents: types.NewEntityUIDSet(), Attributes: types.NewRecord(types.RecordMap{"n": types.Long(0)}), Tags: types.NewRecord(nil)},
		ga: {UID: ga, Parents: types.NewEntityUIDSet(), Attributes: types.NewRecord(nil), Tags: types.NewRecord(nil)},
	}
}

func tableTemplate(principal, action, resource, context types.Value, kinds map[types.String]vh.Ty) *vh.Template {
	ua, aa, da := types.NewEntityUID("User", "a"), types.NewEntityUID("Action", "a"), types.NewEntityUID("Doc", "a")
	base := eval.Env{Entities: tableStore(), Principal: ua, Action: aa, Resource: da, Context: types.NewRecord(types.RecordMap{"n": types.Long(1)})}
	env := base
	t := &vh.Template{Base: base, VarKind: map[types.String]vh.Ty{}}
	set := func(name string, v types.Value, dst *types.Value) {
		if v == nil {
			return
		}
		*dst = v
		if vh.IsIgn(v) {
			t.Ignored = append(t.Ignored, name)
		}
	}
	set("principal", principal, &env.Principal)
	set("action", action, &env.Action)
	set("resource", resource, &env.Resource)
	set("context", context, &env.Context)
	for k, v := range kinds {
		t.VarKind[k] = v
	}
	found := map[types.String]bool{}
	for _, v := range []types.Value{env.Principal, env.Action, env.Resource, env.Context} {
		vh.VarsOf(v, found)
	}
	for n := range found {
		if _, ok := t.VarKind[n]; !ok {
			t.VarKind[n] = vh.TLong
		}
	}
	t.Env = env
	return t
}

func rec(kv ...any) types.Record {
	m := types.RecordMap{}
	for i := 0; i+1 < len(kv); i += 2 {
		m[types.String(kv[i].(string))] = kv[i+1].(types.Value)
	}
	return types.NewRecord(m)
}

func c06Table() []c06Case {
	V := vh.MkVar
	var out []c06Case
	add := func(name string, t *vh.Template, texts ...string) {
		for i, tx := range texts {
			out = append(out, c06Case{name: fmt.Sprintf("table/%s/%d", name, i), t: t, p: mustPolicy(tx)})
		}
	}
	both := func(body string) []string {
		return []string{
			"permit(principal, action, resource) when { " + body + " };",
			"forbid(principal, action, resource) when { " + body + " };",
			"permit(principal, action, resource) unless { " + body + " };",
			"permit(principal == User::\"a\", action, resource) when { true } when { " + body + " };",
		}
	}
	kb := tableTemplate(nil, nil, nil, rec("key", V("k"), "n", types.Long(1)), map[types.String]vh.Ty{"k": vh.TBool})
	add("stale-and", kb, both("context.key && true")...)
	add("stale-and-right", kb, both("context.n == 1 && context.key && context.n == 1")...)
	add("stale-or", kb, both("context.key || false")...)
	add("stale-if-cond", kb, both("if context.key then true else false")...)
	add("stale-if-branch", kb, both("if principal == User::\"a\" && context.key then context.key else context.key")...)
	add("stale-if-value", kb, both("(if context.key then 1 else 2) == 1")...)
	add("stale-through-if-true", kb, both("(if true then context.key else false) && true")...)
	add("sound-neighbours", kb, append(append(append(both("true && context.key"), both("!context.key")...), both("context.key == true")...), both("context.key")...)...)
	deep := tableTemplate(nil, nil, nil, rec("d", rec("r", rec("b", V("k")))), map[types.String]vh.Ty{"k": vh.TBool})
	add("stale-and-depth3", deep, both("context.d.r.b && true")...)
	ks := tableTemplate(nil, nil, nil, rec("s", types.NewSet(V("x")), "t", types.NewSet(V("x"), types.Long(1)), "n", types.Long(1)), map[types.String]vh.Ty{"x": vh.TLong})
	add("tainted-contains", ks, both("context.s.contains(1)")...)
	add("tainted-set-ops", ks, append(append(append(append(append(both("context.s == [1]"), both("context.s != [1]")...), both("context.s.containsAll([1])")...), both("context.s.containsAny([1, 2])")...), both("[1].containsAll(context.s)")...), both("[context.s].contains([1])")...)...)
	add("tainted-sound", ks, append(both("context.s.isEmpty()"), both("context.t.contains(1)")...)...)
	kr := tableTemplate(nil, nil, nil, rec("r", rec("a", V("x")), "rs", types.NewSet(rec("n", V("x")))), map[types.String]vh.Ty{"x": vh.TLong})
	add("tainted-record-eq", kr, append(append(append(both("context.r == {a: 1}"), both("context.r != {a: 1}")...), both("context.rs.contains({n: 1})")...), both("context == context")...)...)
	add("tainted-record-sound", kr, append(append(both("context.r.a == 1"), both("context.r has a")...), both("context has r && context.r.a < 2")...)...)
	ke := tableTemplate(nil, nil, nil, rec("es", types.NewSet(V("x")), "e", V("x")), map[types.String]vh.Ty{"x": vh.TEntity})
	add("tainted-in", ke, append(append(both("principal in context.es"), both("principal is User in context.es")...), both("context.e in Group::\"a\"")...)...)
	add("tainted-embedded-if", kr, append(both("(if context.r.a == 1 then context.r else {a: 2}) == {a: 1}"), both("(if context.r.a == 1 then {a: 2} else context.r) == {a: 1}")...)...)
	pe := tableTemplate(V("p"), nil, nil, rec("es", types.NewSet(V("x"))), map[types.String]vh.Ty{"p": vh.TEntity, "x": vh.TEntity})
	add("tainted-embedded-isin", pe, append(both("principal is User in context.es"), both("principal is User in context.es || principal is Doc in context.es")...)...)
	pv := tableTemplate(V("p"), nil, nil, rec("n", types.Long(1)), map[types.String]vh.Ty{"p": vh.TEntity})
	add("isin-eager", pv, append(append(both("!(principal is Doc in context.missing)"), both("principal is User in context.missing")...), both("principal is Doc in context.missing || context.n == 1")...)...)
	add("principal-unknown", pv, "permit(principal in Group::\"a\", action, resource) when { principal.n > 1 };", "forbid(principal == User::\"b\", action == Action::\"a\", resource) unless { principal has n && principal.n == 0 };",
		"permit(principal is User, action, resource) when { principal.hasTag(\"t1\") && principal.getTag(\"t1\") == \"x\" };", "permit(principal, action, resource) when { principal == User::\"a\" || context.n == 2 };")
	cv := tableTemplate(nil, nil, nil, V("c"), map[types.String]vh.Ty{"c": vh.TRecord})
	add("context-unknown", cv, "permit(principal, action, resource) when { context has n && context.n > 0 };", "permit(principal, action, resource) when { context == {n: 1} };", "forbid(principal, action, resource) when { context.n == 1 && true };")
	twice := tableTemplate(V("x"), nil, nil, rec("a", V("x"), "b", V("x")), map[types.String]vh.Ty{"x": vh.TEntity})
	add("same-unknown-twice", twice, "permit(principal, action, resource) when { context.a == context.b && principal == context.a };", "permit(principal, action, resource) when { context.a == User::\"a\" && context.b != User::\"b\" };")
	ig := tableTemplate(vh.MkIgnore(), nil, nil, rec("key", V("k"), "n", types.Long(1)), map[types.String]vh.Ty{"k": vh.TBool})
	add("ignore-principal", ig, "permit(principal == User::\"a\", action, resource) when { principal.n == 2 };", "permit(principal, action, resource) when { context.key } when { principal == User::\"a\" };",
		"permit(principal, action, resource) when { context.key && principal == User::\"a\" };", "forbid(principal == User::\"b\", action, resource) when { context.key };", "forbid(principal, action, resource) when { principal == User::\"a\" };",
		"permit(principal, action, resource) when { false && principal == User::\"a\" };", "permit(principal, action, resource) unless { principal == User::\"b\" };")
	igc := tableTemplate(nil, nil, vh.MkIgnore(), vh.MkIgnore(), nil)
	add("ignore-context-resource", igc, "permit(principal, action, resource is Doc) when { context.n == 1 };", "permit(principal, action, resource) when { principal == User::\"a\" } unless { context has x };", "permit(principal, action, resource) when { resource in Doc::\"a\" || principal == User::\"b\" };")
	// an operand that is directly an unknown FOLLOWED (or preceded) by an operand over an ignored part, in every
	// n-ary node kind whose operands are walked by one loop (comparison, arithmetic, membership, set / record
	// literal, extension call, is..in): the ignored reference must be noticed wherever it stands among the operands,
	// so that a permit is widened (condition dropped), never kept depending on the ignored part
	pairs := func(u, i string, shapes ...string) []string {
		var out []string
		for _, sh := range shapes {
			for _, ops := range [][2]string{{u, i}, {i, u}} {
				body := strings.NewReplacer("$1", ops[0], "$2", ops[1]).Replace(sh)
				out = append(out, "permit(principal, action, resource) when { "+body+" };", "permit(principal, action, resource) when { context.n == 1 } when { "+body+" };",
					"forbid(principal, action, resource) when { "+body+" };", "permit(principal, action, resource) unless { "+body+" };")
			}
		}
		return out
	}
	entShapes := []string{"$1 == $2", "$1 != $2", "$1 in $2", "$1 in [$2, Group::\"a\"]", "[$1, $2].contains(User::\"a\")", "[$1].containsAny([$2, User::\"a\"])", "[$1, User::\"a\"].containsAll([$2])",
		"{a: $1, b: $2}.a != Group::\"a\"", "[{a: $1}, {a: $2}].isEmpty() == false", "$1 is User in $2 || $1 == $2", "($1 == User::\"a\") == ($2 == Doc::\"a\")", "$1.hasTag(\"t1\") == $2.hasTag(\"t1\")"}
	ui := tableTemplate(V("p"), nil, vh.MkIgnore(), rec("n", types.Long(1)), map[types.String]vh.Ty{"p": vh.TEntity})
	add("unknown-then-ignored-entity", ui, pairs("principal", "resource", entShapes...)...)
	uic := tableTemplate(V("p"), nil, nil, vh.MkIgnore(), map[types.String]vh.Ty{"p": vh.TEntity})
	add("unknown-then-ignored-context", uic, pairs("principal", "context", "$1 != $2", "[$1, $2].isEmpty() == false", "{a: $1, b: $2} has a")...)
	longShapes := []string{"$1 == $2", "$1 != $2", "$1 < $2", "$1 <= $2", "$1 > $2", "$1 >= $2", "$1 + $2 < 100", "$1 - $2 < 100", "$1 * $2 < 100", "[$1, $2].contains(2)", "[$1].containsAll([$2]) || true == true",
		"{a: $1, b: $2}.b < 100", "decimal(\"1.0\").lessThan(decimal(\"2.0\")) == ($1 == $2)", "(if $1 == 2 then 1 else 2) != $2"}
	il := tableTemplate(vh.MkIgnore(), nil, nil, rec("key", V("k"), "n", types.Long(1)), map[types.String]vh.Ty{"k": vh.TLong})
	add("unknown-then-ignored-long", il, pairs("context.key", "principal.n", longShapes...)...)
	return out
}

func runC06(c *vh.Ctx) {
	g := vh.NewGen(c.Rng)
	g.PWrong = 0.04
	b := &vh.Batch{}
	c.Res.Rule = "hand-written table (every known defect with forbid/unless/scoped variants, sound neighbours, ignore handling; every n-ary node kind with an operand that is directly an unknown next to an operand over an ignored part, in both operand orders, over entity / context / long-typed parts) then random cases: request templates with unknowns in principal/action/resource/context and nested in context records and sets (depth<=3, same unknown reused), ignore markers, x policies generated over the unknown positions (attribute paths, whole-value comparison, membership, has/in/is/like, arithmetic, &&/||/if) x every completion from a universe of the policy's literals, their neighbours and off-type values (sampled above the cap); then the LAZY MATRIX (vh/gen_partial2.go, gen_partial3.go): a text-built table (every lazily evaluated construct with an IGNORED operand - ignored request part, marker that is a context field, marker inside a set - at every operand position next to an unknown operand, when / forbid / unless / scoped) and random cases drawn round-robin over every cell construct (&&, ||, boolean if, value-typed if used whole or through access, is..in, has / . chains, whole use through literals; nested to depth 2) x operand position x operand status (known, unknown, ignored, erroring, container value with a nested variable / nested ignore marker at depth 1-3) over rich templates offering every status at once; ignored entity parts range over the universe of an unknown entity, sampled completion spaces also get the all-equal points; markers nested in the context are completed like ignored parts (widening only; open finding nested-ignore-consumed-whole); distinct = distinct (policy, partial env) encodings; non-trivial = the policy mentions at least one unknown or ignored position and at least one completion was evaluated"
	intens := 1
	if os.Getenv("VERIF_INTENSIFY") != "" {
		intens = 4
	}
	cases := c06Table()
	nTable := len(cases)
	nRand := c.N(1700, 30000) * intens
	opts := vh.TemplateOpts{PVarPart: 0.22, PIgnore: 0.06, PCtxVar: 0.06, MaxHoles: 3, PReuse: 0.3}
	var pool []eval.Env
	for i := 0; i < c.N(150, 3000); i++ {
		pool = append(pool, g.Env())
	}
	for i := 0; i < nRand; i++ {
		base := pool[c.Rng.Intn(len(pool))]
		base.Principal, base.Action, base.Resource = g.UID(), g.UID(), g.UID()
		if c.Rng.Intn(3) == 0 {
			base.Context = g.Record(1)
		}
		t := g.TemplateFrom(base, opts)
		if len(t.VarKind) == 0 && len(t.Ignored) == 0 {
			continue
		}
		np := 1 + c.Rng.Intn(2)
		for k := 0; k < np; k++ {
			cases = append(cases, c06Case{name: fmt.Sprintf("rand/%d/%d", i, k), t: t, p: g.PolicyOver(t, 3)})
		}
	}
	nRandom := len(cases) - nTable
	lazyTable := c06LazyTable()
	cases = append(cases, lazyTable...)
	cases = append(cases, c06LazyCases(c, pool, intens)...)
	perVar, limit := c.N(7, 9), c.N(96, 400)
	type caseRec struct {
		cs  c06Case
		out c06Outcome
	}
	recs := map[int]caseRec{}
	inside, outside, outsideFailing, insideFailing := 0, 0, 0, 0
	eventCases, failingByClass := map[string]int{}, map[string]int{}
	for ci, cs := range cases {
		out := c06Run(c, g, cs, perVar, limit)
		mentions := false
		ops := map[string]int{}
		for _, cond := range cs.p.Conditions {
			vh.NodeOps(cond.Body, ops)
		}
		mentions = ops["Variable"] > 0 || !isAllScope(cs.p)
		payload := map[string]any{"policy": vh.EncPolicy(cs.p), "parts": encParts(cs.t.Env)}
		if em, ok := cs.t.Env.Entities.(types.EntityMap); ok {
			payload["envref"] = b.EnvRef(storeEnc(em))
		}
		if out.keep && out.res != nil {
			payload["impl"] = map[string]any{"keep": true, "policy": vh.EncPolicy(out.res)}
		} else {
			payload["impl"] = map[string]any{"keep": false}
		}
		idx := b.Add("partial", payload, "", cs.name) // compared below (the answer also carries the domain flag)
		recs[idx] = caseRec{cs, out}
		c.Count(b.Key(idx), mentions && out.ncombos > 0)
		// distributions
		if out.keep {
			c.Dist("result:kept")
		} else {
			c.Dist("result:dropped")
		}
		c.Dist(fmt.Sprintf("unknowns:%d ignored:%d", len(cs.t.VarKind), len(cs.t.Ignored)))
		if ci >= nTable && ci%7 == 0 {
			for k := range ops {
				c.Dist("op:" + k)
			}
		}
		for _, l := range cs.labels {
			c06LazyDist(c, l, out.failed)
		}
		if cs.rich {
			c.Dist("lazy-stream:cases")
			if len(cs.t.NestedIgn) > 0 {
				c.Dist("lazy-stream:nested-ignore-markers")
			}
		}
		if len(out.events) == 0 {
			inside++
			if out.failed {
				insideFailing++
			}
		} else {
			outside++
			if out.failed {
				outsideFailing++
			}
			for k := range out.events {
				eventCases[k]++
			}
		}
		for _, k := range out.classes {
			failingByClass[k]++
		}
		if ci < 3 || (ci >= nTable && ci < nTable+3) {
			c.Sample(map[string]any{"case": cs.name, "policy": policyText(cs.p), "context": showMarked(cs.t.Env.Context), "principal": showMarked(cs.t.Env.Principal), "kept": out.keep, "completions": out.ncombos, "failed": out.failed, "classes": out.classes})
		}
	}
	c.Res.Notes = append(c.Res.Notes,
		fmt.Sprintf("cases=%d (table %d, random %d, lazy-matrix table %d, lazy matrix %d); no situation of a repaired defect family exercised (reference-evaluator instrumentation)=%d of which failing=%d; such situations exercised=%d of which failing=%d", len(cases), nTable, nRandom, len(lazyTable), len(cases)-nTable-nRandom-len(lazyTable), inside, insideFailing, outside, outsideFailing),
		"situations of the repaired defect families exercised (cases): "+fmtCounts(eventCases),
		"failing cases by class: "+fmtCounts(failingByClass))

	_, model, err := c.Correspond(b)
	if err != nil {
		c.Report(vh.Finding{Class: "driver-failure", What: err.Error(), Check: "correspondence", Op: "partial", NoInput: true})
		return
	}
	// white-box drift against the Lean model: intensify the oracle on those cases, never fail on drift alone.
	// The model also says whether the case lies in the domain of the Lean soundness theorems (partialDomain):
	// a property failure INSIDE that domain contradicts the theorems' tie to the code and is a violation.
	leanIn, leanInFailing, drift := 0, 0, 0
	for idx, r := range recs {
		out := model[idx]
		if strings.HasPrefix(out, "skip ") || b.Line(idx).Op != "partial" {
			continue
		}
		c.Res.Corresponded++
		inDom := strings.HasPrefix(out, "dom=1 ")
		agree := strings.HasSuffix(out, " agree")
		if len(r.cs.t.NestedIgn) > 0 {
			// the Lean theorems complete unknowns and ignored request PARTS; a marker nested in the context stays what it
			// is there, while the oracle completes it with values: the theorems say nothing about those completions
			inDom = false
			c.Dist("lean-domain:not-claimed(nested ignore marker)")
		} else if !inDom && len(r.cs.t.Ignored) > 0 && r.cs.p.Effect == ast.EffectPermit && strings.Contains(out, " domI=1 ") {
			inDom = true // the ignore-widening theorem applies
			c.Dist("lean-domain:ignore-widening")
		}
		if inDom {
			leanIn++
			if r.out.failed {
				leanInFailing++
				c.Report(vh.Finding{Class: "failure-inside-proved-domain", What: "the oracle fails on a case that the Lean model places inside partialDomain (soundness theorems apply): " + policyText(r.cs.p) + " | context=" + showMarked(r.cs.t.Env.Context),
					Check: "proof", Op: "partial", Input: c06Input(r.cs, nil)})
			}
		}
		if !agree {
			c.Res.WhiteboxDrift++
			c.Dist("drift:lean-model")
			drift++
			if drift <= 3 {
				c.Res.Notes = append(c.Res.Notes, fmt.Sprintf("whitebox drift (model vs impl residual) on %s: %s :: %s", r.cs.name, policyText(r.cs.p), oneLineN(out, 400)))
			}
			if drift <= 200 {
				c06Run(c, g, r.cs, perVar+4, limit*16)
			}
		}
	}
	c.Res.Notes = append(c.Res.Notes, fmt.Sprintf("cases inside the domain of the Lean soundness theorems (partialDomain, computed by the model)=%d of %d, of which failing the oracle=%d", leanIn, len(recs), leanInFailing))
}

// c06LazyDist records which cell of the lazy matrix a case was built for ("construct:st0/st1/st2").
func c06LazyDist(c *vh.Ctx, label string, failed bool) {
	i := strings.Index(label, ":")
	if i < 0 {
		return
	}
	c.Dist("lazy:" + label[:i])
	for k, st := range strings.Split(label[i+1:], "/") {
		c.Dist(fmt.Sprintf("lazy:%s@%d=%s", label[:i], k, st))
	}
	if failed {
		c.Dist("lazy-failing:" + label)
	}
}

// c06LazyCases: the lazy-matrix stream (vh/gen_partial3.go) over rich templates (vh/gen_partial2.go), in three regimes:
// unknowns only; unknowns and ignored request parts; unknowns, ignored parts and ignore markers nested in the context.
// It draws from its own random stream, so the table and the random cases before it are what they were.
func c06LazyCases(c *vh.Ctx, pool []eval.Env, intens int) []c06Case {
	g := vh.NewGen(rand.New(rand.NewSource(c.Seed*2654435761 + 606)))
	g.PWrong = 0.02
	var out []c06Case
	cells := vh.AllLazyCells()
	g.R.Shuffle(len(cells), func(i, j int) { cells[i], cells[j] = cells[j], cells[i] })
	n := c.N(4500, 30000) * intens
	for i := 0; i < n; i++ {
		// round-robin over the matrix: every cell gets the same number of templates
		cell := cells[i%len(cells)]
		o := vh.RichOpts{PVarPart: 0.3, PCtxVar: 0.03, MaxVars: 2, PFeature: 0.55}
		switch (i / len(cells)) % 4 { // beyond what the cell asks for
		case 1:
			o.PIgnPart = 0.2
		case 2:
			o.PNestIgn = 0.2
		}
		t := g.RichTemplateFor(func() eval.Env {
			base := pool[g.R.Intn(len(pool))]
			base.Principal, base.Action, base.Resource = g.UID(), g.UID(), g.UID()
			return base
		}, cell, o)
		if len(t.VarKind) == 0 && !t.HasIgnore() {
			continue
		}
		p, labels := g.LazyPolicyFor(t, &cell)
		out = append(out, c06Case{name: fmt.Sprintf("lazy/%d", i), t: t, p: p, rich: true, labels: labels})
		if g.R.Intn(3) == 0 {
			p2, l2 := g.LazyPolicy(t)
			out = append(out, c06Case{name: fmt.Sprintf("lazy/%d/b", i), t: t, p: p2, rich: true, labels: l2})
		}
	}
	return out
}

// c06LazyTable: every lazily evaluated construct with an IGNORED operand (an ignored request part; an ignore marker
// that is a context field; a marker inside a set) at every operand position next to an UNKNOWN operand, in the
// when / forbid / unless / scoped variants.  Whatever the position, a permit must come out widened.
func c06LazyTable() []c06Case {
	V := vh.MkVar
	var out []c06Case
	variants := func(body string) []string {
		return []string{
			"permit(principal, action, resource) when { " + body + " };",
			"forbid(principal, action, resource) when { " + body + " };",
			"permit(principal, action, resource) unless { " + body + " };",
			"permit(principal, action, resource) when { context.n == 1 } when { " + body + " };",
		}
	}
	type tpl struct {
		name   string
		t      *vh.Template
		ie, ib string // an ignored entity-valued operand, an ignored boolean operand
	}
	kinds := map[types.String]vh.Ty{"p": vh.TEntity, "k": vh.TBool}
	part := tableTemplate(V("p"), nil, vh.MkIgnore(), rec("n", types.Long(1), "k", V("k")), kinds)
	nest := tableTemplate(V("p"), nil, nil, rec("n", types.Long(1), "k", V("k"), "ig", vh.MkIgnore(), "igs", types.NewSet(vh.MkIgnore(), types.NewEntityUID("Group", "a"))), kinds)
	nest.NestedIgn = []vh.NestedIgn{{Path: "context.ig", Kind: vh.TEntity, Base: types.NewEntityUID("User", "a")}, {Path: "context.igs[]", Kind: vh.TEntity, Base: types.NewEntityUID("User", "a")}}
	shapes := []string{
		"$UB && $IB", "$IB && $UB", "$UB || $IB", "$IB || $UB", "!($UB && $IB)", "!($UB || $IB)",
		"if $UB then $IB else true", "if $UB then true else $IB", "if $UB then false else $IB", "if $IB then $UB else true", "if $UB then $IB else $IB",
		"$UE is User in $IE", "!($UE is User in $IE)", "$UE is Group in $IE", "$UE is User in [$IE, Group::\"a\"]", "!($UE is User in [$IE])", "$IE is User in $UE",
		"$UE is User in (if $UB then $IE else Group::\"a\")", "(if $UB then $IE else User::\"a\") == User::\"a\"", "(if $UB then User::\"a\" else $IE) == $UE",
		"[$UE, $IE].contains(User::\"a\")", "{a: $UE, b: $IE}.a == User::\"a\"", "{a: $IE} has a && $UB", "$UB && ({a: $IE}.a == User::\"a\")",
		"$UE == User::\"a\" && $UE in $IE", "$UE in $IE || $UB",
	}
	// the witness of the former C06_nested_ignore_not_widened_counterexample and its neighbours (finding
	// nested-ignore-consumed-whole, repaired: all are widened; the last two reach the marker itself)
	recn := tableTemplate(nil, nil, nil, rec("n", types.Long(1), "k", V("k"), "r", rec("a", vh.MkIgnore()), "ls", types.NewSet(types.Long(1), vh.MkIgnore())), kinds)
	recn.NestedIgn = []vh.NestedIgn{{Path: "context.r.a", Kind: vh.TLong, Base: types.Long(1)}, {Path: "context.ls[]", Kind: vh.TLong, Base: types.Long(5)}}
	for bi, body := range []string{"context.r == {a: 1}", "context.ls.contains(5)", "context.k && context.r == {a: 1}", "(if context.k then context.r else {a: 2}) == {a: 1}",
		"context.k || [context.r].contains({a: 1})", "context.r.a == 1", "context.r has a && context.k"} {
		for vi, tx := range variants(body) {
			out = append(out, c06Case{name: fmt.Sprintf("lazy-table/nested-ignore/%d/%d", bi, vi), t: recn, p: mustPolicy(tx), rich: true})
		}
	}
	for _, tp := range []tpl{
		{"part", part, "resource", "resource == Doc::\"a\""},
		{"field", nest, "context.ig", "context.ig == User::\"a\""},
		{"set-member", nest, "context.igs", "context.igs.contains(User::\"a\")"},
	} {
		for si, sh := range shapes {
			for ui, ub := range []string{"context.k", "principal == User::\"a\""} {
				body := strings.NewReplacer("$UB", ub, "$IB", tp.ib, "$UE", "principal", "$IE", tp.ie).Replace(sh)
				for vi, tx := range variants(body) {
					out = append(out, c06Case{name: fmt.Sprintf("lazy-table/%s/%d/%d/%d", tp.name, si, ui, vi), t: tp.t, p: mustPolicy(tx), rich: true})
				}
			}
		}
	}
	return out
}

func isAllScope(p *ast.Policy) bool {
	_, a := p.Principal.(ast.ScopeTypeAll)
	_, b := p.Action.(ast.ScopeTypeAll)
	_, c := p.Resource.(ast.ScopeTypeAll)
	return a && b && c
}

func fmtCounts(m map[string]int) string {
	var ks []string
	for k := range m {
		ks = append(ks, k)
	}
	sort.Strings(ks)
	var xs []string
	for _, k := range ks {
		xs = append(xs, fmt.Sprintf("%s=%d", k, m[k]))
	}
	if len(xs) == 0 {
		return "none"
	}
	return strings.Join(xs, " ")
}

func oneLineN(s string, n int) string {
	s = strings.ReplaceAll(s, "\n", " ")
	if len(s) > n {
		return s[:n] + "…"
	}
	return s
}

var _ = json.Marshal
