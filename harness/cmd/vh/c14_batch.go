package main

// C14 — determinism of (a) error MESSAGES that name a sub-expression and (b) batch.Authorize.
//
// Kind `authz-unspecified`: policy TEXT whose conditions apply getTag / hasTag / attribute access / has to a principal
// or resource that the request leaves unspecified (the zero EntityUID), with tag expressions that are NOT literals
// (context.k, context.a.b, if … then … else …, another getTag).  The text is parsed again on EVERY repetition (and in
// the three fresh processes): a message that prints an evaluator node instead of a value carries the heap address of
// that node and is different for every parse.  Class `error-message-contains-address`: the variants are identical
// once every `0x…` run is masked.
//
// Kind `batch`: batch.Authorize over a request template with variables; every result handed to the callback is kept
// (Request incl. the context as JSON and as Cedar text, Values, Decision, reasons, errors WITH messages).
//   shape tie:   >= 2 variables with equally many values (batch binds "fewest values first"; among equals the order
//                must still be a function of the request), conditions whose operands BOTH fail, one operand per
//                variable-bearing part (`principal.n + resource.m > 0`, `principal in resource.owner`,
//                `principal is T in resource.owner`, record / set literals, getTag on both sides) — which operand's
//                error is reported depends on which variable was bound (and partially evaluated) first.
//                Class `batch-variable-order-error-message`; the order of the callback invocations is observed as
//                well (`batch-variable-order-callback-sequence`).
//   shape set:   a context holding sets whose members collide in the hash table (1 / true / decimal 0.0001 / …) next
//                to a variable, also nested: the substituted set is rebuilt, the member order of the rebuilt set shows
//                in the marshalled context.  Class `batch-substituted-set-member-order`.
//   shape unspec: a fixed unspecified principal / resource next to variables (messages as in `authz-unspecified`).
//   shape badvars: >= 2 variables of the template without a value list (unbound) or >= 2 value lists for names the
//                template does not mention (unused): the documented error names ONE of them; which one must be a
//                function of the request.  Class `batch-unbound-unused-variable-order`.
// Batch cases are observed three times as often as the other kinds (Go picks the iteration start of a small map
// such that two entries swap in about one range out of eight).

import (
	"context"
	"encoding/json"
	"fmt"
	"maps"
	"math/rand"
	"regexp"
	"sort"
	"strings"

	cedar "github.com/cedar-policy/cedar-go"
	"github.com/cedar-policy/cedar-go/types"
	"github.com/cedar-policy/cedar-go/x/exp/batch"

	"verifharness/vh"
)

const (
	c14ClassAddr        = "error-message-contains-address"
	c14ClassBatchMsg    = "batch-variable-order-error-message"
	c14ClassBatchSeq    = "batch-variable-order-callback-sequence"
	c14ClassBatchSet    = "batch-substituted-set-member-order"
	c14ClassBatchVarErr = "batch-unbound-unused-variable-order"
)

var c14AddrRe = regexp.MustCompile(`0x[0-9a-fA-F]+`)

func c14MaskAddr(s string) string { return c14AddrRe.ReplaceAllString(s, "0x?") }

// c14AuthzDiff compares two c14ShowAuthz renderings: same = identical; shape = decision, reasons and the erroring
// policies agree (only messages differ); masked = they are identical once addresses are masked.
func c14AuthzDiff(a, b string) (same, shape, masked bool) {
	if a == b {
		return true, true, true
	}
	pa, pb := c14ParseAuthz(a), c14ParseAuthz(b)
	if pa.decision != pb.decision || pa.reasons != pb.reasons || len(pa.errs) != len(pb.errs) {
		return false, false, false
	}
	for k, ms := range pa.errs {
		if other, ok := pb.errs[k]; !ok || len(other) != len(ms) {
			return false, false, false
		}
	}
	return false, true, c14MaskAddr(a) == c14MaskAddr(b)
}

// ---- kind authz-unspecified ----

type c14UnspecInput struct {
	Text string
	Ents []c14Ent
	Req  cedar.Request
}

func c14UnspecCase(key string, in c14UnspecInput, labels []string) *c14Case {
	c := &c14Case{Key: key, Kind: "authz-unspecified", Labels: labels, Nontrivial: true,
		Input: map[string]any{"policies_text": in.Text, "entities": c14EncEnts(in.Ents),
			"request": []any{vh.EncUID(in.Req.Principal), vh.EncUID(in.Req.Action), vh.EncUID(in.Req.Resource), vh.EncValue(in.Req.Context)}}}
	c.Run = func(rep int, sh *rand.Rand) map[string]string {
		obs := map[string]string{}
		c14Protect(obs, "authz", func() string {
			// a new parse and a new compilation on every repetition
			set, err := cedar.NewPolicySetFromBytes("c14.cedar", []byte(in.Text))
			if err != nil {
				return "parse-error " + err.Error()
			}
			d, diag := cedar.Authorize(set, c14BuildEntityMap(in.Ents, rep != 0, sh), in.Req)
			return c14ShowAuthz(d, diag)
		})
		return obs
	}
	c.Classify = func(name string, all map[string][]string) []c14Class {
		vs := all[name]
		for _, v := range vs[1:] {
			if _, shape, masked := c14AuthzDiff(vs[0], v); !shape || !masked {
				return nil
			}
		}
		return []c14Class{{c14ClassAddr, fmt.Sprintf("%d different error texts for the same policy text and request (a new parse each time); identical once every 0x… run is masked: the message prints an evaluator node (a pointer) instead of a value", len(vs))}}
	}
	return c
}

// ---- kind batch ----

type c14BatchVar struct {
	Name   types.String
	Values []types.Value
}

type c14BatchInput struct {
	Text string
	Ents []c14Ent
	P    types.Value
	A    types.Value
	R    types.Value
	C    types.Value
	Vars []c14BatchVar // in a fixed order (the Go map is built from it)
}

// tie: two variables with the same number of values
func (in c14BatchInput) tie() bool {
	for i := range in.Vars {
		for j := i + 1; j < len(in.Vars); j++ {
			if len(in.Vars[i].Values) == len(in.Vars[j].Values) {
				return true
			}
		}
	}
	return false
}

type c14BatchRes struct {
	Vals     string `json:"vals"`
	P        string `json:"p"`
	A        string `json:"a"`
	R        string `json:"r"`
	CtxJSON  string `json:"ctx_json"`
	CtxCedar string `json:"ctx_cedar"`
	Authz    string `json:"authz"`
}

func c14ShowBatchResult(r batch.Result) c14BatchRes {
	var ks []string
	for k := range r.Values {
		ks = append(ks, string(k))
	}
	sort.Strings(ks)
	var vals []string
	for _, k := range ks {
		vals = append(vals, vh.Hex(k)+"="+string(r.Values[types.String(k)].MarshalCedar()))
	}
	cj, err := json.Marshal(r.Request.Context)
	if err != nil {
		cj = []byte("error " + err.Error())
	}
	return c14BatchRes{Vals: strings.Join(vals, ";"), P: r.Request.Principal.String(), A: r.Request.Action.String(), R: r.Request.Resource.String(),
		CtxJSON: string(cj), CtxCedar: string(r.Request.Context.MarshalCedar()), Authz: c14ShowAuthz(r.Decision, r.Diagnostic)}
}

func c14BatchCase(key string, in c14BatchInput, labels []string) *c14Case {
	var encVars []any
	for _, v := range in.Vars {
		var vs []any
		for _, x := range v.Values {
			vs = append(vs, vh.EncValue(x))
		}
		encVars = append(encVars, []any{vh.Hex(string(v.Name)), vs})
	}
	c := &c14Case{Key: key, Kind: "batch", Labels: labels, Nontrivial: len(in.Vars) > 0,
		Input: map[string]any{"policies_text": in.Text, "entities": c14EncEnts(in.Ents),
			"request":       []any{vh.EncValue(in.P), vh.EncValue(in.A), vh.EncValue(in.R), vh.EncValue(in.C)},
			"context_cedar": string(in.C.MarshalCedar()), "variables": encVars}}
	c.Run = func(rep int, sh *rand.Rand) map[string]string {
		obs := map[string]string{}
		var results []c14BatchRes
		var callErr error
		if pn := vh.Protect(func() {
			set, err := cedar.NewPolicySetFromBytes("c14.cedar", []byte(in.Text))
			if err != nil {
				callErr = fmt.Errorf("parse-error %v", err)
				return
			}
			// odd repetitions: the Variables map and the entity map are filled in another insertion order
			vs := append([]c14BatchVar{}, in.Vars...)
			if rep%2 == 1 {
				sh.Shuffle(len(vs), func(i, j int) { vs[i], vs[j] = vs[j], vs[i] })
			}
			vars := batch.Variables{}
			for _, v := range vs {
				vars[v.Name] = v.Values
			}
			req := batch.Request{Principal: in.P, Action: in.A, Resource: in.R, Context: in.C, Variables: vars}
			callErr = batch.Authorize(context.Background(), set, c14BuildEntityMap(in.Ents, rep%2 == 1, sh), req, func(r batch.Result) error {
				results = append(results, c14ShowBatchResult(r))
				return nil
			})
		}); pn != nil {
			obs["batch.results"] = fmt.Sprintf("panic: %v", pn)
			return obs
		}
		obs["batch.err"] = fmt.Sprint(callErr)
		var seq []string
		for _, r := range results {
			seq = append(seq, r.Vals)
		}
		obs["batch.sequence"] = strings.Join(seq, "\n")
		sorted := append([]c14BatchRes{}, results...)
		sort.SliceStable(sorted, func(i, j int) bool { return sorted[i].Vals < sorted[j].Vals })
		b, _ := json.Marshal(sorted)
		obs["batch.results"] = string(b)
		return obs
	}
	c.Classify = func(name string, all map[string][]string) []c14Class {
		switch name {
		case "batch.sequence":
			return c14ClassifyBatchSeq(all[name], in.tie())
		case "batch.results":
			return c14ClassifyBatchResults(all[name], in.tie())
		case "batch.err":
			return c14ClassifyBatchErr(all[name])
		}
		return nil
	}
	return c
}

// c14ClassifyBatchErr: every variant is the documented error for an unbound (or: unused) variable, naming another one
// of the request's several unbound (unused) variables.
func c14ClassifyBatchErr(variants []string) []c14Class {
	for _, prefix := range []string{"unbound variable: ", "unused variable: "} {
		all := true
		for _, v := range variants {
			all = all && strings.HasPrefix(v, prefix)
		}
		if all {
			return []c14Class{{c14ClassBatchVarErr, fmt.Sprintf("the request has several variables that are %s; the returned error names a different one from call to call (%q): the first one met in Go map order", strings.TrimSuffix(prefix, " variable: "), variants)}}
		}
	}
	return nil
}

// c14ClassifyBatchSeq: the callback invocations are the same multiset of substitutions in another order, and the
// request has two variables with equally many values.
func c14ClassifyBatchSeq(variants []string, tie bool) []c14Class {
	if !tie {
		return nil
	}
	norm := func(s string) string {
		ls := strings.Split(s, "\n")
		sort.Strings(ls)
		return strings.Join(ls, "\n")
	}
	for _, v := range variants[1:] {
		if norm(v) != norm(variants[0]) {
			return nil
		}
	}
	return []c14Class{{c14ClassBatchSeq, fmt.Sprintf("the callback received the same substitutions in %d different orders: variables with equally many values are bound in Go map order", len(variants))}}
}

// c14ClassifyBatchResults attributes differing result lists: substitution by substitution the requests' principal,
// action and resource, the decision, the reasons and the erroring policies must agree; what may differ is
//   - the context, if both contexts decode to EQUAL records (only the order of set members differs),
//   - error messages that are equal once addresses are masked,
//   - other error messages, if the request has two variables with equally many values.
func c14ClassifyBatchResults(variants []string, tie bool) []c14Class {
	var first []c14BatchRes
	if json.Unmarshal([]byte(variants[0]), &first) != nil {
		return nil
	}
	setOrder, addr, msg := false, false, false
	for _, v := range variants[1:] {
		var rs []c14BatchRes
		if json.Unmarshal([]byte(v), &rs) != nil || len(rs) != len(first) {
			return nil
		}
		for i := range rs {
			a, b := first[i], rs[i]
			if a.Vals != b.Vals || a.P != b.P || a.A != b.A || a.R != b.R {
				return nil
			}
			if a.CtxJSON != b.CtxJSON || a.CtxCedar != b.CtxCedar {
				var ra, rb types.Record
				if ra.UnmarshalJSON([]byte(a.CtxJSON)) != nil || rb.UnmarshalJSON([]byte(b.CtxJSON)) != nil || !ra.Equal(rb) {
					return nil
				}
				setOrder = true
			}
			same, shape, masked := c14AuthzDiff(a.Authz, b.Authz)
			switch {
			case same:
			case !shape:
				return nil
			case masked:
				addr = true
			case tie:
				msg = true
			default:
				return nil
			}
		}
	}
	var out []c14Class
	if setOrder {
		out = append(out, c14Class{c14ClassBatchSet, fmt.Sprintf("%d result lists; the contexts of a substitution are equal records whose marshalled texts differ: the members of a substituted set were re-inserted in Go map order (members with colliding hashes swap)", len(variants))})
	}
	if msg {
		out = append(out, c14Class{c14ClassBatchMsg, fmt.Sprintf("%d result lists; same decisions, reasons and erroring policies, different error messages: which failing operand is reported depends on which of two variables with equally many values was bound first (Go map order)", len(variants))})
	}
	if addr {
		out = append(out, c14Class{c14ClassAddr, fmt.Sprintf("%d result lists; error messages identical once every 0x… run is masked", len(variants))})
	}
	return out
}

// ---- eval-site style oracles for batch.Authorize against the Lean model (ops c14.bindorder, c14.firstname) ----

// c14BatchSites:
//
//	(6) the binding order: 2..5 variables with 2..3 values each sit in the fields of the context; a permit-all
//	    policy; the nesting of the enumeration is read off the callback sequence (the variable bound first changes
//	    last) and compared with the model's `bindingOrder` over every order of the map (one outcome).
//	(7) the name in the unbound- / unused-variable error against `firstUnbound` (the least offending name).
func c14BatchSites(c *vh.Ctx, b *vh.Batch, r *rand.Rand) {
	set, err := cedar.NewPolicySetFromBytes("c14.cedar", []byte("permit (principal, action, resource);"))
	if err != nil {
		panic(err)
	}
	u := types.NewEntityUID
	pool := []types.String{"a", "b", "p", "r", "zz", "V1", "é", "x10", "x9", "", "A", "aa"}
	for i := 0; i < c.N(150, 1500); i++ {
		names := c14Pick(r, pool, 2+r.Intn(4))
		vars := batch.Variables{}
		ctx := types.RecordMap{}
		var enc []any
		for k, n := range names {
			cnt := 2 + r.Intn(2)
			var vs []types.Value
			for j := 0; j < cnt; j++ {
				vs = append(vs, types.Long(int64(10*k+j)))
			}
			vars[n] = vs
			ctx[types.String(fmt.Sprintf("f%d", k))] = batch.Variable(n)
			enc = append(enc, []any{vh.Hex(string(n)), cnt})
		}
		observed := map[string]bool{}
		for rep := 0; rep < 6; rep++ {
			var seq []batch.Values
			var callErr error
			if pn := vh.Protect(func() {
				req := batch.Request{Principal: u("U", "1"), Action: u("A", "a"), Resource: u("D", "1"), Context: types.NewRecord(ctx), Variables: vars}
				callErr = batch.Authorize(context.Background(), set, types.EntityMap{}, req, func(res batch.Result) error {
					seq = append(seq, maps.Clone(res.Values)) // the map is reused by the next invocation
					return nil
				})
			}); pn != nil || callErr != nil || len(seq) == 0 {
				observed[fmt.Sprintf("failed: %v %v", pn, callErr)] = true
				continue
			}
			// first callback at which a variable's value differs from its value at the first callback
			firstChange := map[types.String]int{}
			for _, n := range names {
				firstChange[n] = len(seq)
				for k, vals := range seq {
					if !vals[n].Equal(seq[0][n]) {
						firstChange[n] = k
						break
					}
				}
			}
			order := append([]types.String{}, names...)
			sort.SliceStable(order, func(x, y int) bool { return firstChange[order[x]] > firstChange[order[y]] })
			var hs []string
			for _, n := range order {
				hs = append(hs, vh.Hex(string(n)))
			}
			observed[strings.Join(hs, ",")] = true
		}
		payload := map[string]any{"vars": enc}
		line := b.Add("c14.bindorder", payload, c14Join(observed), "")
		c.Count(b.Key(line), true)
		c.Dist("bindorder")
		c.Res.OracleChecks++
		if len(observed) != 1 {
			c.Dist("class:" + c14ClassBatchSeq)
			c.Report(vh.Finding{Class: c14ClassBatchSeq, What: fmt.Sprintf("batch.Authorize nested the variables in %d different orders over 6 calls: %s", len(observed), c14Join(observed)), Check: "oracle", Op: "c14.bindorder", Input: payload, Expected: "one order", Actual: c14Join(observed)})
		}
	}
	for i := 0; i < c.N(150, 1500); i++ {
		inTemplate := c14Pick(r, pool, 1+r.Intn(3))
		var listed []types.String
		unused := r.Intn(2) == 0
		if unused { // every template variable has a list, plus 1..3 names that do not occur
			listed = append(listed, inTemplate...)
			for _, n := range c14Pick(r, pool, 6) {
				dup := false
				for _, m := range inTemplate {
					dup = dup || m == n
				}
				if !dup && len(listed) < len(inTemplate)+1+i%3 {
					listed = append(listed, n)
				}
			}
		} else { // a proper subset of the template's variables has a list
			listed = append(listed, inTemplate[:r.Intn(len(inTemplate))]...)
		}
		ctx := types.RecordMap{}
		for k, n := range inTemplate {
			ctx[types.String(fmt.Sprintf("f%d", k))] = types.NewSet(batch.Variable(n), types.Long(1))
		}
		vars := batch.Variables{}
		for _, n := range listed {
			vars[n] = []types.Value{types.Long(1)}
		}
		observed := map[string]bool{}
		for rep := 0; rep < 8; rep++ {
			var callErr error
			if pn := vh.Protect(func() {
				req := batch.Request{Principal: u("U", "1"), Action: u("A", "a"), Resource: u("D", "1"), Context: types.NewRecord(ctx), Variables: vars}
				callErr = batch.Authorize(context.Background(), set, types.EntityMap{}, req, func(res batch.Result) error { return nil })
			}); pn != nil {
				observed[fmt.Sprintf("panic: %v", pn)] = true
				continue
			}
			prefix := "unbound variable: "
			if unused {
				prefix = "unused variable: "
			}
			switch {
			case callErr == nil:
				observed["none"] = true
			case strings.HasPrefix(callErr.Error(), prefix):
				observed[vh.Hex(strings.TrimPrefix(callErr.Error(), prefix))] = true
			default:
				observed["other: "+callErr.Error()] = true
			}
		}
		hexes := func(xs []types.String) []any {
			out := []any{}
			for _, x := range xs {
				out = append(out, vh.Hex(string(x)))
			}
			return out
		}
		payload := map[string]any{"names": hexes(inTemplate), "other": hexes(listed)}
		if unused {
			payload = map[string]any{"names": hexes(listed), "other": hexes(inTemplate)}
		}
		line := b.Add("c14.firstname", payload, c14Join(observed), fmt.Sprint(unused))
		c.Count(b.Key(line)+fmt.Sprint(unused), true)
		c.Dist("firstname")
		c.Res.OracleChecks++
		if len(observed) != 1 {
			c.Dist("class:" + c14ClassBatchVarErr)
			c.Report(vh.Finding{Class: c14ClassBatchVarErr, What: fmt.Sprintf("the error of batch.Authorize named %d different variables over 8 calls: %s", len(observed), c14Join(observed)), Check: "oracle", Op: "c14.firstname", Input: payload, Expected: "one name", Actual: c14Join(observed)})
		}
	}
}
