package main

// C13, second round: entity maps with the order of their encoding and duplicate UIDs on input, Diagnostic /
// Decision, nested schema-guided coercion with mixed spellings. Each part = correspondence with the Lean model
// (Model/Json/{EntityMap,Diagnostic,Coerce}.lean) on generated and near-miss documents + a strict direct oracle.

import (
	"bytes"
	"encoding/json"
	"fmt"
	"reflect"
	"strings"

	cedar "github.com/cedar-policy/cedar-go"
	"github.com/cedar-policy/cedar-go/types"
	exptypes "github.com/cedar-policy/cedar-go/x/exp/types"

	"verifharness/vh"
)

// c13AddDoc: one document through Go (out already computed) and, unless it holds an exponent literal, the model.
func c13AddDoc(c *vh.Ctx, b *vh.Batch, op string, tree any, doc []byte, extra map[string]any, out, tag string) {
	c.Dist(op + ":" + vh.FirstWordC13(out))
	if out == "panic" {
		c.Report(vh.Finding{Class: "json-decode-panic", What: "decoder panics on " + string(doc), Check: "oracle", Op: op, Input: string(doc)})
	}
	if tree != nil && vh.HasExponentLiteral(tree) {
		c.Dist("exponent-literal-go-only")
		return
	}
	payload := map[string]any{"doc": string(doc)}
	for k, v := range extra {
		payload[k] = v
	}
	idx := b.Add(op, payload, out, tag)
	c.Count(b.Key(idx), true)
}

// c13Reencode: decode an entity-map document and marshal the result again.
func c13Reencode(doc []byte) (out string, em types.EntityMap) {
	if pn := vh.Protect(func() {
		var w types.EntityMap
		if err := json.Unmarshal(doc, &w); err != nil {
			out = "err"
			return
		}
		em = w
		enc, err := json.Marshal(w)
		if err != nil {
			out = "marshal-err"
			return
		}
		t, err := vh.GenericDecode(enc)
		if err != nil {
			out = "invalid-json"
			return
		}
		out = "ok " + vh.CanonEntityMapC13(t)
	}); pn != nil {
		return "panic", nil
	}
	return
}

func c13DecodeDiag(doc []byte) (out string, d cedar.Diagnostic) {
	if pn := vh.Protect(func() {
		var w cedar.Diagnostic
		if err := json.Unmarshal(doc, &w); err != nil {
			out = "err"
			return
		}
		out, d = "ok "+vh.ShowDiagC13(w), w
	}); pn != nil {
		out = "panic"
	}
	return
}

func c13DecodeDecision(text []byte) (out string) { return c13DecodeDecisionInto(cedar.Deny, text) }

// c13DecodeDecisionInto: json.Unmarshal into a Decision variable that holds recv before the call.
func c13DecodeDecisionInto(recv cedar.Decision, text []byte) (out string) {
	if pn := vh.Protect(func() {
		d := recv
		if err := json.Unmarshal(text, &d); err != nil {
			out = "err"
			return
		}
		out = "ok " + d.String()
	}); pn != nil {
		out = "panic"
	}
	return
}

// c13NormDiag: what the JSON form keeps (nil and empty slices identified) — the right-hand side of
// C13_diagnostic_json_roundtrip.
func c13NormDiag(d cedar.Diagnostic) cedar.Diagnostic {
	if len(d.Reasons) == 0 {
		d.Reasons = nil
	}
	if len(d.Errors) == 0 {
		d.Errors = nil
	}
	return d
}

func c13SecondRound(c *vh.Ctx, g *vh.Gen, b *vh.Batch) {
	mutE := &vh.TreeMutator{G: g, Keys: c13EntityKeys, Values: c13ValueVals}
	mutD := &vh.TreeMutator{G: g, Keys: vh.DiagKeysC13, Values: vh.DiagValuesC13}
	mutV := &vh.TreeMutator{G: g, Keys: c13ValueKeys, Values: c13ValueVals}

	// ---- A. entity maps: order of the encoding; duplicates on input ----
	nEM := c.N(500, 20000)
	for i := 0; i < nEM; i++ {
		c.Res.OracleChecks++
		em := g.EntityMapOrderC13()
		enc, st := c13Marshal(em)
		if st != "" {
			c.Report(vh.Finding{Class: "entitymap-marshal-fails", What: st, Check: "oracle", Op: "emjson-encode", Input: vh.EncEntities(em)})
			continue
		}
		tree, err := vh.GenericDecode(enc)
		if err != nil {
			c.Report(vh.Finding{Class: "value-marshal-invalid-json", What: "EntityMap.MarshalJSON produced invalid JSON: " + string(enc), Check: "oracle", Op: "emjson-encode", Input: vh.EncEntities(em)})
			continue
		}
		// oracle: strictly increasing UID.String(), every entity once (independent of the model)
		if arr, ok := tree.([]any); ok {
			prev := ""
			for k, x := range arr {
				u, _ := x.(map[string]any)["uid"].(map[string]any)
				ty, _ := u["type"].(string)
				id, _ := u["id"].(string)
				key := types.NewEntityUID(types.EntityType(ty), types.String(id)).String()
				if k > 0 && !(prev < key) {
					c.Report(vh.Finding{Class: "entitymap-encoding-unsorted", What: fmt.Sprintf("entity array not strictly increasing by UID.String(): %q then %q", prev, key), Check: "oracle", Op: "emjson-encode", Input: string(enc)})
				}
				prev = key
			}
			if len(arr) != len(em) {
				c.Report(vh.Finding{Class: "entitymap-json-roundtrip", What: fmt.Sprintf("%d entities encoded as %d array members", len(em), len(arr)), Check: "oracle", Op: "emjson-encode", Input: string(enc)})
			}
		} else if len(em) != 0 || tree != nil {
			c.Report(vh.Finding{Class: "entitymap-json-roundtrip", What: "entity map encoded as a non-array: " + string(enc), Check: "oracle", Op: "emjson-encode", Input: string(enc)})
		}
		idx := b.Add("emjson-encode", map[string]any{"entities": g.EncEntitiesShuffledC13(em)}, vh.CanonEntityMapC13(tree), "")
		c.Count(b.Key(idx), len(em) > 1)
		c.Dist(fmt.Sprintf("entitymap-order-size:%d", len(em)))

		// re-encoding of: the own encoding, a near-miss, a document with duplicated UIDs
		arr, _ := tree.([]any)
		var docTree any
		tag := "own-encoding"
		switch {
		case i%3 == 1:
			docTree, tag = mutE.Mutate(tree), "near-miss"
		case i%3 == 2 && len(arr) > 0:
			// duplicate: a second entry for the UID of entry k with other attributes, at a random position
			k := g.R.Intn(len(arr))
			dup := map[string]any{"uid": arr[k].(map[string]any)["uid"], "attrs": map[string]any{"dup": json.Number(fmt.Sprint(i))}, "parents": []any{}, "tags": map[string]any{}}
			pos := g.R.Intn(len(arr) + 1)
			na := append(append(append([]any{}, arr[:pos]...), dup), arr[pos:]...)
			docTree, tag = na, "duplicate-uid"
		default:
			docTree = tree
		}
		doc := vh.SortedJSON(docTree)
		out, em2 := c13Reencode(doc)
		c13AddDoc(c, b, "emjson-reencode", docTree, doc, nil, out, tag)
		if tag == "own-encoding" {
			c.Res.OracleChecks++
			if !strings.HasPrefix(out, "ok ") || out[3:] != vh.CanonEntityMapC13(tree) {
				cls := "entitymap-json-unstable"
				for _, e := range em {
					if k := c13Class(e.Attributes); k != "value-json-roundtrip" {
						cls = k
					}
					if k := c13Class(e.Tags); k != "value-json-roundtrip" {
						cls = k
					}
				}
				c.Report(vh.Finding{Class: cls, What: "decode + encode of an entity map's own encoding differs: " + out, Check: "oracle", Op: "emjson-reencode", Input: string(doc), Expected: "ok " + vh.CanonEntityMapC13(tree), Actual: out})
			}
		}
		if tag == "duplicate-uid" {
			c.Res.OracleChecks++
			if em2 != nil {
				// strict oracle (C13_entitymap_decode_rejects_duplicates): a document naming one UID twice cannot be the
				// encoding of any entity map; accepting it means one of the two entries is dropped silently
				c.Report(vh.Finding{Class: "entitymap-duplicate-uid-last-wins", What: fmt.Sprintf("an entity array with two entries for one UID is accepted; one entry is dropped silently (%d entries -> %d entities): %s", len(docTree.([]any)), len(em2), trunc(string(doc), 400)), Check: "oracle", Op: "emjson-reencode", Input: string(doc), Expected: "err", Actual: trunc(out, 300)})
			}
		}
		if tag == "own-encoding" && len(arr) > 1 {
			// the decoder does not depend on the order of the array (C13_entitymap_decode_rejects_duplicates, second half):
			// the own encoding with its members shuffled decodes to the same map
			c.Res.OracleChecks++
			sh := append([]any{}, arr...)
			g.R.Shuffle(len(sh), func(a, b int) { sh[a], sh[b] = sh[b], sh[a] })
			shDoc := vh.SortedJSON(sh)
			shOut, _ := c13Reencode(shDoc)
			if shOut != out {
				c.Report(vh.Finding{Class: "entitymap-json-roundtrip", What: "an entity map's own encoding with the array members shuffled decodes differently: " + trunc(shOut, 300), Check: "oracle", Op: "emjson-reencode", Input: string(shDoc), Expected: trunc(out, 300), Actual: trunc(shOut, 300)})
			}
			c13AddDoc(c, b, "emjson-reencode", sh, shDoc, nil, shOut, "own-encoding-shuffled")
		}
	}

	// regression witness of the repaired finding entitymap-duplicate-uid-last-wins (regression `example` next to
	// C13_entitymap_decode_rejects_duplicates), replayed on the Go code and through the model: must be refused; the same
	// two entities under different UIDs must be accepted in either order
	{
		c.Res.OracleChecks++
		doc := []byte(`[{"attrs":{"k":1},"parents":[],"tags":{},"uid":{"id":"x","type":"A"}},{"attrs":{"k":2},"parents":[],"tags":{},"uid":{"id":"x","type":"A"}}]`)
		out, em := c13Reencode(doc)
		if out != "err" {
			c.Report(vh.Finding{Class: "entitymap-duplicate-uid-last-wins", What: fmt.Sprintf("two entries for A::\"x\" are accepted (%d entities kept), one of them is dropped silently", len(em)), Check: "oracle", Op: "emjson-reencode", Input: string(doc), Expected: "err", Actual: out})
		}
		tree, _ := vh.GenericDecode(doc)
		c13AddDoc(c, b, "emjson-reencode", tree, doc, nil, out, "witness")
		for _, d2 := range []string{
			`[{"attrs":{"k":1},"parents":[],"tags":{},"uid":{"id":"y","type":"A"}},{"attrs":{"k":2},"parents":[],"tags":{},"uid":{"id":"x","type":"A"}}]`,
			`[{"attrs":{"k":2},"parents":[],"tags":{},"uid":{"id":"x","type":"A"}},{"attrs":{"k":1},"parents":[],"tags":{},"uid":{"id":"y","type":"A"}}]`,
			// look-alike UIDs are different UIDs: equal Type+ID concatenations, ids holding '::'
			`[{"attrs":{},"parents":[],"tags":{},"uid":{"id":"bc","type":"A"}},{"attrs":{},"parents":[],"tags":{},"uid":{"id":"c","type":"Ab"}},{"attrs":{},"parents":[],"tags":{},"uid":{"id":"B::c","type":"A"}},{"attrs":{},"parents":[],"tags":{},"uid":{"id":"c","type":"A::B"}}]`,
			// the same UID in two spellings of the uid member (implicit and explicit __entity) is still the same UID
			`[{"attrs":{},"parents":[],"tags":{},"uid":{"id":"x","type":"A"}},{"attrs":{},"parents":[],"tags":{},"uid":{"__entity":{"id":"x","type":"A"}}}]`,
			// three entries, the repeated pair not adjacent; two null members (both decode to the zero UID)
			`[{"attrs":{},"parents":[],"tags":{},"uid":{"id":"x","type":"A"}},{"attrs":{},"parents":[],"tags":{},"uid":{"id":"y","type":"A"}},{"attrs":{"z":true},"parents":[],"tags":{},"uid":{"id":"x","type":"A"}}]`,
			`[null,null]`, `[null]`, `[{},{"uid":{"id":"","type":""}}]`,
		} {
			c.Res.OracleChecks++
			o2, em2 := c13Reencode([]byte(d2))
			t2, err := vh.GenericDecode([]byte(d2))
			if err != nil {
				panic("c13 entity-map table: " + d2)
			}
			// independent count of the distinct (type, id) pairs named by the document
			seen, dup := map[[2]string]bool{}, false
			for _, x := range t2.([]any) {
				var key [2]string
				if m, ok := x.(map[string]any); ok {
					if u, ok := m["uid"].(map[string]any); ok {
						if in, ok := u["__entity"].(map[string]any); ok {
							u = in
						}
						key[0], _ = u["type"].(string)
						key[1], _ = u["id"].(string)
					}
				}
				dup = dup || seen[key]
				seen[key] = true
			}
			switch {
			case dup && o2 != "err":
				c.Report(vh.Finding{Class: "entitymap-duplicate-uid-last-wins", What: fmt.Sprintf("an entity array naming one UID twice is accepted (%d members -> %d entities)", len(t2.([]any)), len(em2)), Check: "oracle", Op: "emjson-reencode", Input: d2, Expected: "err", Actual: trunc(o2, 300)})
			case !dup && (!strings.HasPrefix(o2, "ok ") || len(em2) != len(t2.([]any))):
				c.Report(vh.Finding{Class: "entitymap-json-roundtrip", What: fmt.Sprintf("an entity array with pairwise different UIDs does not decode to one entity per member (%d members -> %d entities): %s", len(t2.([]any)), len(em2), trunc(o2, 300)), Check: "oracle", Op: "emjson-reencode", Input: d2})
			}
			c13AddDoc(c, b, "emjson-reencode", t2, vh.SortedJSON(t2), nil, o2, "table")
		}
		c.Dist("witness-replayed")
	}

	// ---- B. diagnostics ----
	nDiag := c.N(500, 20000)
	for i := 0; i < nDiag; i++ {
		c.Res.OracleChecks++
		d := g.DiagnosticC13()
		enc, st := c13Marshal(d)
		if st != "" {
			c.Report(vh.Finding{Class: "diagnostic-json-roundtrip", What: "json.Marshal of a Diagnostic " + st, Check: "oracle", Op: "diagjson-encode", Input: vh.EncDiagC13(d)})
			continue
		}
		tree, err := vh.GenericDecode(enc)
		if err != nil {
			c.Report(vh.Finding{Class: "value-marshal-invalid-json", What: "Diagnostic marshals to invalid JSON: " + string(enc), Check: "oracle", Op: "diagjson-encode", Input: string(enc)})
			continue
		}
		idx := b.Add("diagjson-encode", map[string]any{"diag": vh.EncDiagC13(d)}, vh.CanonJSON(tree, false), "")
		c.Count(b.Key(idx), len(d.Reasons)+len(d.Errors) > 0)
		c.Dist(fmt.Sprintf("diagnostic:reasons=%d,errors=%d", len(d.Reasons), len(d.Errors)))
		out, d2 := c13DecodeDiag(enc)
		switch {
		case !strings.HasPrefix(out, "ok "):
			c.Report(vh.Finding{Class: "diagnostic-json-roundtrip", What: "a Diagnostic's own encoding is rejected: " + string(enc), Check: "oracle", Op: "diagjson-decode", Input: string(enc)})
		case !reflect.DeepEqual(d2, c13NormDiag(d)):
			c.Report(vh.Finding{Class: "diagnostic-json-roundtrip", What: fmt.Sprintf("Diagnostic does not round-trip (up to nil/empty slices): %s -> %s", enc, out), Check: "oracle", Op: "diagjson-decode", Input: string(enc), Expected: "ok " + vh.ShowDiagC13(c13NormDiag(d)), Actual: out})
		default:
			if enc2, _ := c13Marshal(d2); !bytes.Equal(enc, enc2) {
				c.Report(vh.Finding{Class: "diagnostic-json-unstable", What: fmt.Sprintf("%s vs %s", enc, enc2), Check: "oracle", Op: "diagjson-decode", Input: string(enc)})
			}
		}
		if i%2 == 0 {
			c13AddDoc(c, b, "diagjson-decode", tree, enc, nil, out, "own-encoding")
		} else {
			mt := mutD.Mutate(tree)
			doc := vh.SortedJSON(mt)
			o, _ := c13DecodeDiag(doc)
			c13AddDoc(c, b, "diagjson-decode", mt, doc, nil, o, "near-miss")
		}
		if i < 2 {
			c.Sample(map[string]any{"op": "diagnostic-roundtrip", "json": string(enc)})
		}
	}
	for _, doc := range []string{`null`, `{}`, `[]`, `"x"`, `1`, `true`, `{"reasons":null}`, `{"reasons":[]}`, `{"errors":[]}`, `{"reasons":{}}`, `{"reasons":"x"}`, `{"reasons":[null]}`,
		`{"reasons":[{}]}`, `{"reasons":[[]]}`, `{"reasons":[{"policy":null,"position":null}]}`, `{"reasons":[{"policy":1}]}`, `{"errors":[{"message":1}]}`, `{"errors":[{"message":null,"policy":"p"}]}`,
		`{"reasons":[{"position":{"line":1.0}}]}`, `{"reasons":[{"position":{"line":1.5}}]}`, `{"reasons":[{"position":{"line":9223372036854775807}}]}`, `{"reasons":[{"position":{"line":9223372036854775808}}]}`,
		`{"reasons":[{"position":{"offset":-9223372036854775808}}]}`, `{"reasons":[{"position":{"offset":-9223372036854775809}}]}`, `{"reasons":[{"position":{"column":"1"}}]}`,
		`{"reasons":[{"position":{"column":true}}]}`, `{"reasons":[{"position":[]}]}`, `{"reasons":[{"position":"f"}]}`, `{"reasons":[{"position":{"filename":1}}]}`, `{"reasons":[{"position":{"filename":null,"line":null}}]}`,
		`{"Reasons":[{"POLICY":"p","Position":{"FileName":"f","OFFSET":1}}]}`, `{"reasons":[{"policy":"p","extra":1}],"other":[1,2]}`, `{"errors":[{"policy":"p","position":{"line":2},"message":"m"}],"reasons":[{"policy":"q"}]}`,
		`{"reasons":[{"policy":"p"},{"policy":"p"}]}`, `{"reasons":[{"policy":""}]}`, `{"reasons":[{"position":{"line":-0}}]}`, `{"reasons":[1]}`, `{"errors":["x"]}`} {
		tree, err := vh.GenericDecode([]byte(doc))
		if err != nil {
			panic("c13 diagnostic table: " + doc)
		}
		o, _ := c13DecodeDiag([]byte(doc))
		c13AddDoc(c, b, "diagjson-decode", tree, vh.SortedJSON(tree), nil, o, "table")
	}
	// witness of C13_diagnostic_empty_slice_counterexample: an empty non-nil slice comes back nil
	{
		c.Res.OracleChecks++
		w := cedar.Diagnostic{Reasons: []cedar.DiagnosticReason{}}
		enc, _ := c13Marshal(w)
		out, w2 := c13DecodeDiag(enc)
		if string(enc) != `{}` || out != "ok R=nil E=nil" || w2.Reasons != nil {
			c.Report(vh.Finding{Class: "witness-drift", What: fmt.Sprintf("witness of C13_diagnostic_empty_slice_counterexample: Diagnostic{Reasons: []} encodes to %s and decodes to %s; the theorem says {} and nil slices", enc, out), Check: "oracle", Op: "diagjson-decode", Input: string(enc)})
		}
		idx := b.Add("diagjson-encode", map[string]any{"diag": vh.EncDiagC13(w)}, "{}", "witness")
		c.Count(b.Key(idx), true)
		c.Dist("witness-replayed")
	}

	// ---- C. decisions: decoded from the text of the value, into a fresh and into a reused receiver ----
	decisionTexts := []string{`"allow"`, `"deny"`, ` "allow" `, "\n\t\"deny\"\r\n", `"Allow"`, `"ALLOW"`, `"Deny"`, `"allow "`, `" allow"`, `"\u0061llow"`, `"a\u006clow"`, `"allo\u0077"`, `"\u0064eny"`, `"den\u0079"`, `"\u0041llow"`,
		`"permit"`, `"forbid"`, `"true"`, `""`, `"nosuch"`, `null`, `true`, `false`, `1`, `0`, `1.5`, `{}`, `[]`, `["allow"]`, `{"decision":"allow"}`, `"\"allow\""`, `allow`, `"allow`, ``, `'allow'`, `"allow" "deny"`}
	for i, n := 0, c.N(60, 3000); i < n; i++ {
		s := []string{"allow", "deny", "Allow", "permit", g.UnicodeString()}[g.R.Intn(5)]
		decisionTexts = append(decisionTexts, g.JSONStringTokenC13(s))
	}
	for _, text := range decisionTexts {
		c.Res.OracleChecks++
		out := c13DecodeDecision([]byte(text))
		idx := b.Add("decision-decode", map[string]any{"text": vh.Hex(text)}, out, "")
		c.Count(b.Key(idx), true)
		c.Dist("decision-decode:" + out)
		// strict oracle on the DENOTED string: "allow" / "deny" decode to themselves however they are spelled;
		// every other JSON value is not a Decision and must be refused
		var s string
		tree, gerr := vh.GenericDecode([]byte(text))
		str, isStr := tree.(string)
		if gerr == nil && isStr {
			s = str
		}
		switch {
		case gerr != nil:
			if out != "err" {
				c.Report(vh.Finding{Class: "decision-invalid-json-accepted", What: fmt.Sprintf("invalid JSON %q accepted as a Decision: %s", text, out), Check: "oracle", Op: "decision-decode", Input: text})
			}
		case isStr && (s == "allow" || s == "deny"):
			if out != "ok "+s {
				c.Report(vh.Finding{Class: "decision-escaped-spelling", What: fmt.Sprintf("the JSON string %s denotes %q but Decision.UnmarshalJSON decodes it to %s (two spellings of one datum must decode alike)", text, s, out), Check: "oracle", Op: "decision-decode", Input: text, Expected: "ok " + s, Actual: out})
			}
		case tree == nil:
			// null: encoding/json's convention for Unmarshalers is a no-op (the receiver keeps what it held); an error is fine too
			if outA := c13DecodeDecisionInto(cedar.Allow, []byte(text)); (out != "err" && out != "ok deny") || (outA != "err" && outA != "ok allow") {
				c.Report(vh.Finding{Class: "decision-unknown-accepted", What: "null is not a decision: decoding it into a receiver holding Deny gives " + out + ", into one holding Allow gives " + outA, Check: "oracle", Op: "decision-decode", Input: text, Expected: "err or no-op", Actual: out + " / " + outA})
			}
		default:
			if out != "err" {
				c.Report(vh.Finding{Class: "decision-unknown-accepted", What: fmt.Sprintf("%s is not a decision but Decision.UnmarshalJSON decodes it to %s without an error", trunc(text, 80), out), Check: "oracle", Op: "decision-decode", Input: text, Expected: "err", Actual: out})
			}
		}
		// reused receiver: the same text decoded into a variable that already holds Allow — through the model too; apart
		// from null the outcome must not depend on what the receiver held
		{
			c.Res.OracleChecks++
			outA := c13DecodeDecisionInto(cedar.Allow, []byte(text))
			idx := b.Add("decision-decode", map[string]any{"text": vh.Hex(text), "recv": true}, outA, "reused-receiver")
			c.Count(b.Key(idx), true)
			if gerr == nil && tree != nil && outA != out {
				cls := "decision-receiver-dependent"
				if !(isStr && (s == "allow" || s == "deny")) {
					cls = "decision-unknown-accepted" // only an accepted non-decision can differ: an error leaves the receiver alone
				}
				c.Report(vh.Finding{Class: cls, What: fmt.Sprintf("%s decodes to %s into a fresh Decision but to %s into one holding Allow", trunc(text, 80), out, outA), Check: "oracle", Op: "decision-decode", Input: text, Expected: out, Actual: outA})
			}
		}
		// the model's reading of string tokens (jsonStringToken), tied to encoding/json
		if t := strings.TrimSpace(text); strings.HasPrefix(t, `"`) && !strings.Contains(strings.ToLower(t), `\ud`) {
			want := "none"
			var gs string
			if err := json.Unmarshal([]byte(t), &gs); err == nil {
				want = "ok S" + vh.Hex(gs)
			}
			idx := b.Add("jstr-token", map[string]any{"text": vh.Hex(t)}, want, "")
			c.Count(b.Key(idx), true)
		}
	}
	// regression witnesses of the repaired findings decision-unknown-accepted / decision-escaped-spelling (regression
	// `example`s next to C13_decision_decode_rejects_iff / C13_decision_decode_exact), replayed on the Go code
	for _, w := range []struct{ class, text, want string }{{"decision-unknown-accepted", `"permit"`, "err"}, {"decision-escaped-spelling", `"\u0061llow"`, "ok allow"}} {
		c.Res.OracleChecks++
		if out := c13DecodeDecision([]byte(w.text)); out != w.want {
			c.Report(vh.Finding{Class: w.class, What: fmt.Sprintf("regression witness: Go decodes %s to %s", w.text, out), Check: "oracle", Op: "decision-decode", Input: w.text, Expected: w.want, Actual: out})
		}
		c.Dist("witness-replayed")
	}
	for _, d := range []cedar.Decision{cedar.Allow, cedar.Deny} {
		c.Res.OracleChecks++
		enc, _ := c13Marshal(d)
		idx := b.Add("decision-encode", map[string]any{"allow": bool(d)}, vh.Hex(string(enc)), "")
		c.Count(b.Key(idx), true)
		if out := c13DecodeDecision(enc); out != "ok "+d.String() {
			c.Report(vh.Finding{Class: "decision-json-roundtrip", What: fmt.Sprintf("decision %v -> %s -> %s", d, enc, out), Check: "oracle", Op: "decision-json", Input: string(enc)})
		}
	}

	// ---- D. nested coercion: a spelling chosen at every typed leaf, depth <= 4 ----
	nCo := c.N(1500, 60000)
	for i := 0; i < nCo; i++ {
		c.Res.OracleChecks++
		t := g.DeepTypeC13(4)
		v := g.ValueOfTypeC13(t)
		tree, accepted := g.MixedJSON(v, t)
		tag := "mixed-spellings"
		if i%4 == 3 {
			tree, accepted, tag = mutV.Mutate(tree), false, "near-miss"
		}
		doc := vh.SortedJSON(tree)
		out := ""
		var got types.Value
		if pn := vh.Protect(func() {
			var w types.Value
			if err := types.UnmarshalJSON(doc, &w); err != nil {
				out = "err"
				return
			}
			got = exptypes.VerifCoerceValue(w, t)
			out = "ok " + vh.ShowValue(got)
		}); pn != nil {
			out = "panic"
			c.Report(vh.Finding{Class: "schema-coercion-panic", What: fmt.Sprintf("decode + coerceValue panics: %v on %s", pn, doc), Check: "oracle", Op: "coerce-nested", Input: string(doc)})
			continue
		}
		if accepted && (got == nil || !got.Equal(v) || !v.Equal(got)) {
			c.Report(vh.Finding{Class: "nested-spelling-differs", What: fmt.Sprintf("a mix of accepted spellings of %s in a position typed %v decodes (unguided + coerceValue) to %s", vh.ShowValue(v), vh.EncSchemaTypeC13(t), out), Check: "oracle", Op: "coerce-nested",
				Input: map[string]any{"doc": string(doc), "type": vh.EncSchemaTypeC13(t)}, Expected: "ok " + vh.ShowValue(v), Actual: out})
		}
		c13AddDoc(c, b, "coerce-nested", tree, doc, map[string]any{"type": vh.EncSchemaTypeC13(t)}, out, tag)
		c.Dist(fmt.Sprintf("coerce-nested-depth:%d", c13ValueDepth(v)))
		if i < 1 {
			c.Sample(map[string]any{"op": "coerce-nested", "doc": string(doc), "type": vh.EncSchemaTypeC13(t)})
		}
	}
	nW := c.N(250, 10000)
	for i := 0; i < nW; i++ {
		w := g.SchemaWorldC13()
		for uid, e := range w.Entities {
			c.Res.OracleChecks++
			se := w.Schema.Entities[uid.Type]
			tree, accepted := g.MixedEntityJSON(e, se)
			tag := "mixed-spellings"
			if g.R.Intn(5) == 0 {
				tree, accepted, tag = mutE.Mutate(tree), false, "near-miss"
			}
			doc := vh.SortedJSON(tree)
			out := ""
			var plain types.Entity
			if pn := vh.Protect(func() {
				if err := json.Unmarshal(doc, &plain); err != nil {
					out = "err"
					return
				}
				var x exptypes.Entity
				if err := x.UnmarshalJSONWithSchema(doc, w.Schema); err != nil {
					out = "invalid"
					return
				}
				out = "ok " + vh.ShowEntityC13(types.Entity(x))
				if accepted && !types.Entity(x).Equal(e) {
					c.Report(vh.Finding{Class: "schema-implicit-differs", What: "an entity spelled with a mix of accepted spellings decodes (with schema) to a different entity: " + string(doc), Check: "oracle", Op: "coerce-entity", Input: string(doc), Expected: vh.ShowEntityC13(e), Actual: out})
				}
			}); pn != nil {
				c.Report(vh.Finding{Class: "schema-coercion-panic", What: fmt.Sprintf("Entity.UnmarshalJSONWithSchema panics: %v on %s", pn, doc), Check: "oracle", Op: "coerce-entity", Input: string(doc)})
				continue
			}
			if out == "invalid" {
				if accepted {
					c.Report(vh.Finding{Class: "schema-implicit-rejected", What: "a conforming entity spelled with a mix of accepted spellings is rejected by UnmarshalJSONWithSchema: " + string(doc), Check: "oracle", Op: "coerce-entity", Input: string(doc)})
				}
				c.Dist("coerce-entity:rejected-by-validator (go only)")
				continue
			}
			extra := map[string]any{"declared": true, "shape": vh.EncSchemaTypeC13(se.Shape), "tags": nil}
			if se.Tags != nil {
				extra["tags"] = vh.EncSchemaTypeC13(se.Tags)
			}
			c13AddDoc(c, b, "coerce-entity", tree, doc, extra, out, tag)
		}
	}
}
