package main

// C10 subprocess worker and its driver.
//
// `vh c10-worker` (dispatched from init(), before main parses flags) reads jobs from stdin, one JSON object
// per line, runs decode + consumers on the MAIN goroutine with debug.SetMaxStack(64 MiB), and writes
//   S <id> <stage>      before every stage
//   R <id> <json>       when the job returned
// A fatal stack overflow kills the process; the parent attributes it to the job that was started and not
// finished, classifies it by the dominant recursive function in the runtime's trace, restarts the worker
// and goes on.  The parent also enforces a per-job CPU budget (from /proc/<pid>/stat) and an RSS cap.

import (
	"bufio"
	"bytes"
	"encoding/hex"
	"encoding/json"
	"fmt"
	"os"
	"os/exec"
	"path/filepath"
	"runtime"
	"runtime/debug"
	"sort"
	"strconv"
	"strings"
	"sync"
	"syscall"
	"time"

	"verifharness/vh"
)

const c10MaxStack = 64 << 20

type c10Job struct {
	ID    int      `json:"id"`
	Entry string   `json:"entry"`
	Form  string   `json:"form,omitempty"`
	Depth int      `json:"depth,omitempty"`
	Hex   string   `json:"hex,omitempty"`
	Skip  []string `json:"skip,omitempty"` // stage families not to run
	// JSONEncFactor (parent side only): the CPU budget of the json-encode stages is multiplied by this when > 1.  The
	// budget unit is calibrated on a pipeline WITHOUT the JSON encoders (see c10Calibrate); encoding/json + one nodeJSON
	// per AST node costs ~20x that per node even where it is linear, so the long-run campaign (wide, flat trees of
	// 10^5 nodes) gives those stages their own allowance instead of flagging linear work.
	JSONEncFactor int64 `json:"-"`
}

func init() {
	if len(os.Args) > 1 && os.Args[1] == "c10-worker" {
		c10WorkerMain()
		os.Exit(0)
	}
}

//go:noinline
func c10Pregrow(n int) int {
	var pad [1024]byte
	pad[n%1024] = byte(n)
	if n == 0 {
		return int(pad[0])
	}
	return c10Pregrow(n-1) + int(pad[(n*7)%1024])
}

func c10CPUms() int64 {
	var ru syscall.Rusage
	if syscall.Getrusage(syscall.RUSAGE_SELF, &ru) != nil {
		return 0
	}
	return (ru.Utime.Sec+ru.Stime.Sec)*1000 + int64(ru.Utime.Usec+ru.Stime.Usec)/1000
}

func c10JobInput(j c10Job) ([]byte, error) {
	if j.Form != "" {
		f := vh.C10FindForm(j.Form)
		if f == nil {
			return nil, fmt.Errorf("unknown form %q", j.Form)
		}
		return f.Build(j.Depth), nil
	}
	return hex.DecodeString(j.Hex)
}

func c10WorkerMain() {
	debug.SetMaxStack(c10MaxStack)
	debug.SetGCPercent(200)
	// grow the stack once (the parent sets GODEBUG=gcshrinkstackoff=1) so that later deep recursion does not pay
	// for stack copying and page faults again and again: ~58 MiB of frames (the limit is 64 MiB)
	_ = c10Pregrow(54000)
	entries := c10Entries()
	c10Fx()
	in := bufio.NewReaderSize(os.Stdin, 1<<20)
	out := bufio.NewWriter(os.Stdout)
	fmt.Fprintln(out, "READY")
	out.Flush()
	for {
		line, err := in.ReadBytes('\n')
		if len(bytes.TrimSpace(line)) > 0 {
			var j c10Job
			if json.Unmarshal(line, &j) != nil {
				fmt.Fprintf(out, "R -1 {\"outcome\":\"bad-job\"}\n")
				out.Flush()
			} else {
				e := c10FindEntry(entries, j.Entry)
				input, ierr := c10JobInput(j)
				if e == nil || ierr != nil {
					fmt.Fprintf(out, "R %d {\"outcome\":\"bad-job\"}\n", j.ID)
					out.Flush()
				} else {
					t0 := c10CPUms()
					skip := map[string]bool{}
					for _, k := range j.Skip {
						skip[k] = true
					}
					res := c10RunCase(e, input, func(s string) {
						fmt.Fprintf(out, "S %d %s\n", j.ID, s)
						out.Flush()
					}, skip)
					res.CPUms = c10CPUms() - t0
					res.Len = len(input)
					b, _ := json.Marshal(res)
					fmt.Fprintf(out, "R %d %s\n", j.ID, b)
					out.Flush()
					input = nil
					runtime.GC()
				}
			}
		}
		if err != nil {
			return
		}
	}
}

// ---------------------------------------------------------------------------------------------
// parent side
// ---------------------------------------------------------------------------------------------

type c10Worker struct {
	cmd    *exec.Cmd
	stdin  *bufio.Writer
	lines  chan string
	stderr *bytes.Buffer
	waited chan struct{}
}

func c10StartWorker() (*c10Worker, error) {
	exe, err := os.Executable()
	if err != nil {
		return nil, err
	}
	cmd := exec.Command(exe, "c10-worker")
	cmd.Env = append(os.Environ(), "GODEBUG=gcshrinkstackoff=1", "GOMEMLIMIT=3GiB", "GOTRACEBACK=all")
	stdin, err := cmd.StdinPipe()
	if err != nil {
		return nil, err
	}
	stdout, err := cmd.StdoutPipe()
	if err != nil {
		return nil, err
	}
	w := &c10Worker{cmd: cmd, stdin: bufio.NewWriter(stdin), lines: make(chan string, 64), stderr: &bytes.Buffer{}, waited: make(chan struct{})}
	cmd.Stderr = &c10CapWriter{buf: w.stderr, max: 1 << 20}
	if err := cmd.Start(); err != nil {
		return nil, err
	}
	go func() {
		sc := bufio.NewScanner(stdout)
		sc.Buffer(make([]byte, 1<<16), 1<<24)
		for sc.Scan() {
			w.lines <- sc.Text()
		}
		_ = cmd.Wait()
		close(w.waited)
		close(w.lines)
	}()
	select {
	case l, ok := <-w.lines:
		if !ok || l != "READY" {
			return nil, fmt.Errorf("worker did not start: %q %s", l, w.stderr.String())
		}
	case <-time.After(120 * time.Second):
		_ = cmd.Process.Kill()
		return nil, fmt.Errorf("worker start timed out")
	}
	return w, nil
}

type c10CapWriter struct {
	buf *bytes.Buffer
	max int
	mu  sync.Mutex
}

func (c *c10CapWriter) Write(p []byte) (int, error) {
	c.mu.Lock()
	defer c.mu.Unlock()
	if c.buf.Len() < c.max {
		c.buf.Write(p)
	}
	return len(p), nil
}

func (w *c10Worker) kill() {
	if w != nil && w.cmd.Process != nil {
		_ = w.cmd.Process.Kill()
		<-w.waited
	}
}

// procCPUms / procRSS read /proc/<pid>/stat(m).
func procCPUms(pid int) int64 {
	b, err := os.ReadFile(fmt.Sprintf("/proc/%d/stat", pid))
	if err != nil {
		return -1
	}
	s := string(b)
	i := strings.LastIndex(s, ")")
	if i < 0 {
		return -1
	}
	f := strings.Fields(s[i+1:])
	if len(f) < 13 {
		return -1
	}
	ut, _ := strconv.ParseInt(f[11], 10, 64)
	stt, _ := strconv.ParseInt(f[12], 10, 64)
	return (ut + stt) * 10 // USER_HZ = 100
}

func procRSSMiB(pid int) int64 {
	b, err := os.ReadFile(fmt.Sprintf("/proc/%d/statm", pid))
	if err != nil {
		return -1
	}
	f := strings.Fields(string(b))
	if len(f) < 2 {
		return -1
	}
	pages, _ := strconv.ParseInt(f[1], 10, 64)
	return pages * int64(os.Getpagesize()) >> 20
}

type c10JobResult struct {
	Job     c10Job
	Outcome string // accepted | rejected | panic | stack-overflow | cpu-budget | oom | crash
	Stage   string
	Res     c10Result
	Site    string // dominant recursive function family for stack-overflow / cpu-budget
	Detail  string
	CPUms   int64
	Started []string // stages started, in order
	// the stage that used the most CPU (parent-side measurement, 10 ms granularity) — evidence of how far below the
	// per-stage budget the completed stages stayed
	MaxStage   string
	MaxStageMs int64
}

// c10RunJob runs one job on the worker (restarting it when needed). cpuBudget in ms.
func c10RunJob(wp **c10Worker, j c10Job, cpuBudgetMs int64) c10JobResult {
	out := c10JobResult{Job: j}
	if *wp == nil {
		w, err := c10StartWorker()
		if err != nil {
			out.Outcome, out.Detail = "crash", err.Error()
			return out
		}
		*wp = w
	}
	w := *wp
	b, _ := json.Marshal(j)
	w.stdin.Write(b)
	w.stdin.WriteByte('\n')
	if err := w.stdin.Flush(); err != nil {
		w.kill()
		*wp = nil
		out.Outcome, out.Detail = "crash", "worker stdin: "+err.Error()
		return out
	}
	pid := w.cmd.Process.Pid
	cpu0 := procCPUms(pid)
	wall0 := time.Now()
	stage := "decode"
	tick := time.NewTicker(100 * time.Millisecond)
	defer tick.Stop()
	for {
		select {
		case l, ok := <-w.lines:
			if !ok {
				// the worker died: classify by its stderr
				<-w.waited
				errTxt := w.stderr.String()
				*wp = nil
				out.Stage = stage
				out.CPUms = -1
				switch {
				case strings.Contains(errTxt, "stack overflow") || strings.Contains(errTxt, "goroutine stack exceeds"):
					out.Outcome = "stack-overflow"
					out.Site = c10DominantSite(errTxt)
				case strings.Contains(errTxt, "out of memory") || strings.Contains(errTxt, "cannot allocate"):
					out.Outcome = "oom"
				default:
					out.Outcome = "crash"
				}
				out.Detail = c10Tail(errTxt, 1500)
				return out
			}
			if strings.HasPrefix(l, "S ") {
				f := strings.SplitN(l, " ", 3)
				if len(f) == 3 {
					now := procCPUms(pid)
					if d := now - cpu0; d > out.MaxStageMs {
						out.MaxStage, out.MaxStageMs = stage, d
					}
					stage = f[2]
					out.Started = append(out.Started, stage)
					cpu0 = now // the budget is per stage
					wall0 = time.Now()
				}
				continue
			}
			if strings.HasPrefix(l, "R ") {
				f := strings.SplitN(l, " ", 3)
				if len(f) == 3 {
					_ = json.Unmarshal([]byte(f[2]), &out.Res)
				}
				out.Outcome, out.Stage, out.CPUms = out.Res.Outcome, out.Res.Stage, out.Res.CPUms
				if d := procCPUms(pid) - cpu0; d > out.MaxStageMs {
					out.MaxStage, out.MaxStageMs = stage, d
				}
				return out
			}
		case <-tick.C:
			cpu := procCPUms(pid) - cpu0
			rss := procRSSMiB(pid)
			over := ""
			switch {
			case cpu > cpuBudgetMs && !(j.JSONEncFactor > 1 && c10StageFamily(stage) == "json-encode" && cpu <= cpuBudgetMs*j.JSONEncFactor):
				over = "cpu-budget"
			case rss > 6144:
				over = "oom"
			case time.Since(wall0) > time.Duration(cpuBudgetMs)*time.Millisecond*12+60*time.Second:
				over = "cpu-budget" // wall backstop (a sleeping or blocked worker)
			}
			if over != "" {
				// ask the runtime for the stacks, then kill
				_ = w.cmd.Process.Signal(syscall.SIGQUIT)
				select {
				case <-w.waited:
				case <-time.After(5 * time.Second):
					_ = w.cmd.Process.Kill()
					<-w.waited
				}
				for range w.lines {
				}
				errTxt := w.stderr.String()
				*wp = nil
				out.Outcome, out.Stage, out.CPUms = over, stage, cpu
				out.Site = c10DominantSite(errTxt)
				out.Detail = fmt.Sprintf("cpu=%dms rss=%dMiB wall=%v; %s", cpu, rss, time.Since(wall0).Round(time.Millisecond), c10Tail(errTxt, 600))
				return out
			}
		}
	}
}

func c10Tail(s string, n int) string {
	if len(s) > n {
		return s[:n/2] + " … " + s[len(s)-n/2:]
	}
	return s
}

// c10SiteFamilies maps frames of a runtime trace to the recursion family they belong to.
var c10SiteFamilies = []struct{ sub, name string }{
	{"schema/internal/parser.(*parser).", "schema-text-parser"},
	{"schema/internal/parser.(*marshaler).", "schema-text-marshal"},
	{"schema/internal/json.unmarshal", "schema-json-decode"},
	{"schema/internal/json.marshal", "schema-json-encode"},
	{"schema/internal/json.", "schema-json-codec"},
	{"schema/resolved.", "schema-resolve"},
	{"schema/validate.", "schema-validate"},
	{"x/exp/types.", "exptypes-coerce"},
	{"internal/parser.(*parser).", "text-parser"},
	{"internal/parser.(*scanner).", "text-tokenizer"},
	{"schema/internal/parser.(*lexer).", "schema-text-lexer"},
	{"internal/parser.marshalChildNode", "cedar-marshal"},
	{"marshalCedar", "cedar-marshal"},
	{"internal/parser.astNodeToMarshalNode", "cedar-marshal"},
	{"internal/eval.fold", "eval-compile"},
	{"internal/eval.tryFold", "eval-compile"},
	{"internal/eval.ToEval", "eval-compile"},
	{"internal/eval.partial", "eval-partial"},
	{"internal/eval.(*", "eval-evaluate"},
	{"internal/json.(*nodeJSON).FromNode", "policy-json-encode"},
	{"ToJSON", "policy-json-encode"},
	{"internal/json.(*nodeJSON).MarshalJSON", "policy-json-encode"},
	{"internal/json.(*Policy).MarshalJSON", "policy-json-encode"},
	{"internal/json.(*nodeJSON).UnmarshalJSON", "policy-json-decode"},
	{"cedar-go/internal/json.", "policy-json-decode"},
	{"types.UnmarshalJSON", "value-json-decode"},
	{"types.(*explicitValue).UnmarshalJSON", "value-json-decode"},
	{"types.(*Set).UnmarshalJSON", "value-json-decode"},
	{"types.(*Record).UnmarshalJSON", "value-json-decode"},
	{"types.Set.", "value-encode"},
	{"types.Record.", "value-encode"},
	{"types.NewSet", "value-encode"},
	{"types.NewRecord", "value-encode"},
	{"encoding/json.", "encoding-json"},
}

// c10DominantSite: the recursion family with the most frames among the cedar-go / encoding/json frames of the trace
// (the first goroutine only: the one that overflowed or was running).
func c10DominantSite(trace string) string {
	counts := map[string]int{}
	first := ""
	for _, l := range strings.Split(trace, "\n") {
		if strings.HasPrefix(l, "\t") || l == "" {
			continue
		}
		for _, sf := range c10SiteFamilies {
			if strings.Contains(l, sf.sub) {
				// encoding/json frames only count when nothing of cedar-go matches
				counts[sf.name]++
				if first == "" && sf.name != "encoding-json" {
					first = sf.name
				}
				break
			}
		}
	}
	best, bn := "", 0
	names := make([]string, 0, len(counts))
	for k := range counts {
		names = append(names, k)
	}
	sort.Strings(names)
	for _, k := range names {
		n := counts[k]
		if k == "encoding-json" {
			continue
		}
		if n > bn {
			best, bn = k, n
		}
	}
	if best == "" {
		if counts["encoding-json"] > 0 {
			return "encoding-json"
		}
		return "unknown"
	}
	return best
}

// ---- the deep-nesting campaign ----

type c10DeepReport struct {
	Table    []map[string]any
	Notes    []string
	Jobs     int
	Findings []vh.Finding
}

// which entries each form family is run against (quick: the first `quickN`, thorough: all)
var c10DeepTargets = map[string]struct {
	entries []string
	quickN  int
}{
	"policy-text": {[]string{"Policy.UnmarshalCedar", "Decoder.Decode(stream)", "ast.Policy.UnmarshalCedar", "NewPolicySetFromBytes", "NewPolicyListFromBytes"}, 1},
	"policy-json": {[]string{"Policy.UnmarshalJSON", "ast.Policy.UnmarshalJSON"}, 1},
	"value-json":  {[]string{"types.UnmarshalJSON(Value)", "Entity.UnmarshalJSON", "Set.UnmarshalJSON", "Record.UnmarshalJSON", "Request.UnmarshalJSON"}, 1},
	"schema-text": {[]string{"Schema.UnmarshalCedar"}, 1},
	"schema-json": {[]string{"Schema.UnmarshalJSON"}, 1},
}

// in the thorough tier the entries beyond the first two of a family only get these forms (same decoder underneath)
var c10SecondaryForms = map[string]bool{"paren": true, "not": true, "record": true, "has-chain": true, "j-not": true, "j-record": true,
	"v-array": true, "v-object": true, "v-mixed": true}

// forms run in the quick tier (all of them in thorough)
var c10QuickForms = map[string]bool{
	"paren": true, "set": true, "record": true, "if-else": true, "not": true, "access": true, "add": true, "and": true, "method-arg": true, "extfun": true,
	"has-chain": true,
	"j-not":     true, "j-and-left": true, "j-record": true, "j-set": true, "j-ext": true, "j-value-set": true,
	"v-array": true, "v-object": true, "v-mixed": true, "v-wide": true,
	"s-set": true, "s-record": true, "s-many-entities": true, "s-typeref-chain": true, "sj-set": true, "sj-record": true,
}

// c10KnownSlow: (form family, stage family) → smallest depth at which the stage exceeded its CPU budget; shared between
// the parallel chains so that the quick tier does not pay the same time-out once per form.
var c10KnownSlow = struct {
	sync.Mutex
	m map[string]int
}{m: map[string]int{}}

type c10Chain struct {
	entry  string
	form   *vh.C10DeepForm
	depths []int
	run    bool // a long-run chain (c10_runs.go): linear input, depths = run lengths N
	growth bool // a growth chain (vh/gen_c10c.go): inputs of a few hundred bytes on a short depth ladder
}

// c10TinyInput: a growth chain (depth <= 30) that exhausts its CPU budget (seconds) on an input below this size is not
// slow because the input is large or deep — a decoder that is quadratic or cubic in the depth spends microseconds on
// it: the work multiplies with every level of nesting.
const c10TinyInput = 4096

// c10GrowthDepths: the ladder of the growth forms (inputs of 0.2 .. 1.5 KiB).
var c10GrowthDepths = []int{6, 10, 14, 18, 22, 26, 30}

// wrap a value-json form for the entries that expect an enclosing document
func c10WrapForEntry(entry string, doc []byte) []byte {
	switch entry {
	case "Entity.UnmarshalJSON":
		return []byte(`{"uid":{"type":"User","id":"a"},"parents":[],"attrs":{"v":` + string(doc) + `},"tags":{}}`)
	case "Request.UnmarshalJSON":
		return []byte(`{"principal":{"type":"User","id":"a"},"action":{"type":"Action","id":"a"},"resource":{"type":"Doc","id":"a"},"context":{"v":` + string(doc) + `}}`)
	case "Record.UnmarshalJSON":
		return []byte(`{"v":` + string(doc) + `}`)
	case "Set.UnmarshalJSON":
		return []byte(`[` + string(doc) + `]`)
	}
	return doc
}

// c10Budget: CPU budget of one job.  unitNs = CPU nanoseconds per input byte of a LINEAR full pipeline (decode + all
// consumers) measured on this machine at the start of the campaign; a job may take 25 times that for its size, but
// at least lo and at most hi milliseconds.
type c10Budget struct {
	unitNs float64
	lo, hi int64
}

func (b c10Budget) forBytes(n int) int64 {
	ms := int64(25 * b.unitNs * float64(n) / 1e6)
	if ms < b.lo {
		ms = b.lo
	}
	if ms > b.hi {
		ms = b.hi
	}
	return ms
}

// c10Calibrate measures the linear pipeline: 10^4 nested parentheses (20 KB; every stage walks the tree once;
// the quadratic JSON encoder is skipped), best of three.
func c10Calibrate(thorough bool) (c10Budget, string) {
	b := c10Budget{unitNs: 5000, lo: 4000, hi: 25000}
	if thorough {
		b.lo, b.hi = 8000, 30000
	}
	var w *c10Worker
	defer func() { w.kill() }()
	best := int64(-1)
	n := 0
	for i := 0; i < 3; i++ {
		j := c10Job{ID: i, Entry: "Policy.UnmarshalCedar", Form: "paren", Depth: 10000, Skip: []string{"json-encode"}}
		r := c10RunJob(&w, j, 60000)
		if r.Outcome == "accepted" && r.CPUms >= 0 {
			n = r.Res.Len
			if best < 0 || r.CPUms < best {
				best = r.CPUms
			}
		}
	}
	if best <= 0 || n == 0 {
		return b, "calibration failed: default unit 5 µs/byte"
	}
	if best < 5 {
		best = 5
	}
	b.unitNs = float64(best) * 1e6 / float64(n)
	return b, fmt.Sprintf("calibration: linear pipeline %d ms CPU for %d bytes = %.2f µs/byte; budget = clamp(25 x linear, %d ms, %d ms)", best, n, b.unitNs/1000, b.lo, b.hi)
}

func c10RunDeep(c *vh.Ctx, entries []*c10Entry) *c10DeepReport {
	rep := &c10DeepReport{}
	thorough := c.Thorough()
	budget, calNote := c10Calibrate(thorough)
	rep.Notes = append(rep.Notes, calNote)
	open := map[string]bool{}
	for _, k := range c.Known {
		if k.Property == c.Prop && k.Status == "finding" {
			open[k.Class] = true
		}
	}
	c10OpenClass = func(cls string) bool { return open[cls] }
	depths := []int{10, 1000, 10000, 100000}
	jsonDepths := []int{10, 1000, 2500, 4900, 100000}
	if thorough {
		depths = append(depths, 1000000)
		jsonDepths = []int{10, 1000, 2500, 4900, 9000, 100000, 1000000}
	}
	var chains []c10Chain
	for i := range vh.C10DeepForms {
		f := &vh.C10DeepForms[i]
		tg, ok := c10DeepTargets[f.Family]
		if !ok || (!thorough && !c10QuickForms[f.Name]) {
			continue
		}
		es := tg.entries
		if !thorough && len(es) > tg.quickN {
			es = es[:tg.quickN]
		}
		for ei, en := range es {
			if thorough && ei >= 2 && !c10SecondaryForms[f.Name] {
				continue
			}
			ds := depths
			if strings.HasSuffix(f.Family, "-json") {
				ds = jsonDepths
			}
			if f.Name == "has-chain" || f.Name == "s-many-entities" || f.Name == "s-typeref-chain" || f.Name == "many-policies" {
				ds = []int{10, 1000, 10000, 100000}
				if !thorough && f.Name != "has-chain" {
					ds = []int{10, 1000, 10000} // wide rather than deep: megabytes of input at 10^5
				}
			}
			chains = append(chains, c10Chain{entry: en, form: f, depths: ds})
		}
	}
	// growth forms: every form through the first entry of its family (all entries in the thorough tier)
	nGrowth := 0
	for i := range vh.C10GrowthForms {
		f := &vh.C10GrowthForms[i]
		tg, ok := c10DeepTargets[f.Family]
		if !ok {
			continue
		}
		es := tg.entries
		if !thorough && len(es) > tg.quickN {
			es = es[:tg.quickN]
		}
		for _, en := range es {
			chains = append(chains, c10Chain{entry: en, form: f, depths: c10GrowthDepths, growth: true})
			nGrowth++
		}
	}
	nDeep := len(chains) - nGrowth
	runChains := c10RunChains(thorough)
	chains = append(chains, runChains...)
	nWorkers := 12
	if n := runtime.NumCPU(); n < nWorkers {
		nWorkers = n
	}
	var mu sync.Mutex
	// progress of long campaigns, one line per finished chain (diagnostics only)
	pf, _ := os.Create(filepath.Join(c.VerifDir, "evidence", "C10.deep-progress.jsonl"))
	if pf != nil {
		defer pf.Close()
	}
	ch := make(chan c10Chain)
	var wg sync.WaitGroup
	for k := 0; k < nWorkers; k++ {
		wg.Add(1)
		go func() {
			defer wg.Done()
			var w *c10Worker
			defer func() { w.kill() }()
			for chn := range ch {
				var row map[string]any
				var finds []vh.Finding
				var jobs int
				t0 := time.Now()
				if chn.run {
					row, finds, jobs = c10RunRunChain(&w, chn, budget, thorough)
				} else {
					row, finds, jobs = c10RunChain(&w, chn, budget, thorough)
				}
				row["wall_ms"] = time.Since(t0).Milliseconds()
				mu.Lock()
				if pf != nil {
					pb, _ := json.Marshal(map[string]any{"row": row, "classes": c10Classes(finds)})
					pf.Write(append(pb, '\n'))
				}
				rep.Table = append(rep.Table, row)
				rep.Findings = append(rep.Findings, finds...)
				rep.Jobs += jobs
				mu.Unlock()
			}
		}()
	}
	for _, chn := range chains {
		ch <- chn
	}
	close(ch)
	wg.Wait()
	sort.Slice(rep.Table, func(i, j int) bool {
		return fmt.Sprint(rep.Table[i]["entry"], rep.Table[i]["form"]) < fmt.Sprint(rep.Table[j]["entry"], rep.Table[j]["form"])
	})
	sort.SliceStable(rep.Findings, func(i, j int) bool { return rep.Findings[i].Class < rep.Findings[j].Class })
	rep.Notes = append(rep.Notes, fmt.Sprintf("deep nesting: %d (entry, form) chains + %d growth chains (inputs < %d bytes, depth %v: the CPU budget exhausted on such an input = exponential time) + %d long-run chains (linear input, N up to %d), %d subprocess jobs, stack limit %d MiB", nDeep, nGrowth, c10TinyInput, c10GrowthDepths, len(runChains), c10MaxRunN(runChains), rep.Jobs, c10MaxStack>>20))
	return rep
}

// c10StagePassed: the job got past every stage of the family (it died, if at all, in a later stage).
// c10OpenClass reports whether a class is a recorded OPEN finding of C10 (set by c10RunDeep from known_findings.json).
// A CPU-budget overrun of any other class is confirmed by a second run of the same job in a fresh worker before it is
// reported: CPU time is not free of noise (the process CPU of an allocation-heavy stage that needs 1.4 s on a quiet
// machine was seen above 4 s with four checks running side by side), and an overrun that does not repeat is the load,
// not the decoder — while a stage that really became quadratic or exponential exceeds its budget every time.
var c10OpenClass = func(string) bool { return false }

// c10Confirm: r is the result of run(d).  A cpu-budget overrun whose class (classOf) is not an open finding is run again;
// unless the second run overruns in the same stage family, the second result replaces the first (note != "").
func c10Confirm(r c10JobResult, rerun func() c10JobResult, classOf func(c10JobResult) string) (c10JobResult, string) {
	if r.Outcome != "cpu-budget" || c10OpenClass(classOf(r)) {
		return r, ""
	}
	rr := rerun()
	if rr.Outcome == "cpu-budget" && c10StageFamily(rr.Stage) == c10StageFamily(r.Stage) {
		return r, ""
	}
	return rr, fmt.Sprintf("cpu-budget@%s(%dms)-not-confirmed-by-a-second-run", r.Stage, r.CPUms)
}

func c10StagePassed(r c10JobResult, fam string) bool {
	seen := false
	for i, st := range r.Started {
		if c10StageFamily(st) == fam {
			seen = true
			if i == len(r.Started)-1 {
				return false
			}
		}
	}
	return seen && c10StageFamily(r.Stage) != fam
}

func c10Classes(fs []vh.Finding) []string {
	var out []string
	for _, f := range fs {
		out = append(out, f.Class)
	}
	return out
}

func c10MakeJob(chn c10Chain, depth int, skip map[string]bool) c10Job {
	var sk []string
	for k := range skip {
		sk = append(sk, k)
	}
	sort.Strings(sk)
	// forms are rebuilt inside the worker; entries needing an enclosing document get the bytes in hex
	switch chn.entry {
	case "Entity.UnmarshalJSON", "Request.UnmarshalJSON", "Record.UnmarshalJSON", "Set.UnmarshalJSON":
		return c10Job{Entry: chn.entry, Hex: hex.EncodeToString(c10WrapForEntry(chn.entry, chn.form.Build(depth))), Skip: sk}
	}
	return c10Job{Entry: chn.entry, Form: chn.form.Name, Depth: depth, Skip: sk}
}

// c10RunChain climbs the depth ladder.  A failure in a consumer stage is recorded, the stage's family is skipped
// from then on, and the same depth is retried, so that one slow or overflowing consumer does not hide the others;
// a failure in the decoder ends the chain.  Stack overflows are bisected down to the smallest failing depth.
func c10RunChain(wp **c10Worker, chn c10Chain, budget c10Budget, thorough bool) (map[string]any, []vh.Finding, int) {
	row := map[string]any{"entry": chn.entry, "form": chn.form.Name}
	if chn.growth {
		row["kind"] = "growth"
	}
	var finds []vh.Finding
	jobs := 0
	outcomes := []string{}
	failures := []string{}
	skip := map[string]bool{}
	lastOK := 0
	fam := chn.form.Family
	run := func(d int) c10JobResult {
		j := c10MakeJob(chn, d, skip)
		j.ID = jobs
		jobs++
		return c10RunJob(wp, j, budget.forBytes(len(chn.form.Build(d))))
	}
	maxFailures := 3
	if thorough {
		maxFailures = 6
	}
ladder:
	for _, d := range chn.depths {
		if d > 100000 && len(chn.form.Build(10)) > 0 && (len(chn.form.Build(1000))-len(chn.form.Build(10)))/990*d > 4<<20 {
			outcomes = append(outcomes, fmt.Sprintf("%d:not-run(input would exceed 4 MiB)", d))
			break ladder
		}
		if !thorough {
			c10KnownSlow.Lock()
			if dd, ok := c10KnownSlow.m[fam+":decode"]; ok && d >= dd {
				c10KnownSlow.Unlock()
				outcomes = append(outcomes, fmt.Sprintf("%d:not-run(decode known to exceed the CPU budget from depth %d in this family)", d, dd))
				break ladder
			}
			for k, dd := range c10KnownSlow.m {
				if strings.HasPrefix(k, fam+":") && d >= dd {
					sf := strings.TrimPrefix(k, fam+":")
					if sf != "decode" && !skip[sf] {
						skip[sf] = true
						outcomes = append(outcomes, fmt.Sprintf("%d:skip-%s(known slow from depth %d)", d, sf, dd))
					}
				}
			}
			c10KnownSlow.Unlock()
		}
		for {
			r, unconfirmed := c10Confirm(run(d), func() c10JobResult {
				// the second run is judged by the linear pipeline as it runs NOW (ratios, not absolutes): a machine that got
				// busier since the calibration at the start makes every job slower, the calibration job included
				if nb, _ := c10Calibrate(thorough); nb.unitNs > budget.unitNs {
					budget.unitNs = nb.unitNs
				}
				return run(d)
			}, func(x c10JobResult) string {
				if chn.growth && len(chn.form.Build(d)) < c10TinyInput {
					return "exponential-time:" + fam + ":" + c10StageFamily(x.Stage)
				}
				return "cpu-budget:" + fam + ":" + c10StageFamily(x.Stage)
			})
			if unconfirmed != "" {
				outcomes = append(outcomes, fmt.Sprintf("%d:%s", d, unconfirmed))
			}
			o := r.Outcome
			if o == "accepted" || o == "rejected" {
				if r.MaxStageMs*4 >= budget.forBytes(len(chn.form.Build(d))) {
					// a completed stage that used a quarter of its budget or more: recorded, so that a budget that is too tight for a loaded machine shows in the evidence
					outcomes = append(outcomes, fmt.Sprintf("%d:%s(%dms; %s %dms of %dms)", d, o, r.CPUms, c10StageFamily(r.MaxStage), r.MaxStageMs, budget.forBytes(len(chn.form.Build(d)))))
				} else {
					outcomes = append(outcomes, fmt.Sprintf("%d:%s(%dms)", d, o, r.CPUms))
				}
				lastOK = d
				break
			}
			stFam := c10StageFamily(r.Stage)
			bad, firstBad := r, d
			if o == "stack-overflow" {
				lo, hi := lastOK, d
				probes := 2
				if thorough {
					probes = 7
				} else {
					// quick tier: bisect once per recursion site; the other forms of the same site only record that
					// they fail at this rung of the ladder
					c10KnownSlow.Lock()
					if c10KnownSlow.m["overflow:"+r.Site] > 0 {
						probes = 0
					}
					c10KnownSlow.m["overflow:"+r.Site] = d
					c10KnownSlow.Unlock()
				}
				for p := 0; p < probes && hi-lo > 1 && float64(hi-lo) > 0.03*float64(hi); p++ {
					mid := lo + (hi-lo)/2
					rr := run(mid)
					if rr.Outcome == "stack-overflow" && c10StageFamily(rr.Stage) == stFam {
						hi, bad = mid, rr
					} else if rr.Outcome == "accepted" || rr.Outcome == "rejected" || c10StagePassed(rr, stFam) {
						lo = mid // the stage under search completed at this depth (a later stage may have failed)
					} else {
						break
					}
				}
				firstBad = hi
				failures = append(failures, fmt.Sprintf("%s overflows the %d MiB stack in %s between depth %d and %d (%d input bytes)", bad.Site, c10MaxStack>>20, stFam, lo, hi, len(chn.form.Build(hi))))
			} else {
				failures = append(failures, fmt.Sprintf("%s in %s at depth %d (%d input bytes)", o, stFam, d, len(chn.form.Build(d))))
			}
			outcomes = append(outcomes, fmt.Sprintf("%d:%s@%s[%s]", d, o, r.Stage, r.Site))
			nbytes := len(chn.form.Build(firstBad))
			input := map[string]any{"entry": chn.entry, "form": chn.form.Name, "depth": firstBad, "input_bytes": nbytes, "skip": c10MakeJob(chn, firstBad, skip).Skip}
			switch o {
			case "stack-overflow":
				finds = append(finds, vh.Finding{Class: bad.Site + "-unbounded-recursion",
					What:  fmt.Sprintf("%s: form %s at depth %d (%d input bytes) overflows a %d MiB stack in stage %s, recursion in %s (fatal, not recoverable)", chn.entry, chn.form.Name, firstBad, nbytes, c10MaxStack>>20, bad.Stage, bad.Site),
					Check: "oracle", Op: chn.entry, Input: input, Expected: "a value or an error", Actual: map[string]any{"outcome": o, "stage": bad.Stage, "site": bad.Site, "stderr": bad.Detail}})
			case "cpu-budget":
				if chn.growth && nbytes < c10TinyInput {
					// seconds of CPU on a few hundred bytes nested at most 30 deep: exponential in the nesting depth (quadratic
					// work on 30 levels is microseconds).  A class of its own (and no entry in c10KnownSlow: the other forms of
					// the family are not slow at this depth).
					input["document"] = string(chn.form.Build(firstBad))
					input["cpu_ms_by_depth"] = strings.Join(outcomes[:len(outcomes)-1], " ")
					finds = append(finds, vh.Finding{Class: "exponential-time:" + fam + ":" + stFam,
						What: fmt.Sprintf("%s: form %s at depth %d (an input of %d bytes) did not finish stage %s within %d ms of CPU (running in %s): the time multiplies with every level of nesting (smaller depths: %s)",
							chn.entry, chn.form.Name, firstBad, nbytes, bad.Stage, budget.forBytes(nbytes), bad.Site, strings.Join(outcomes[:len(outcomes)-1], " ")),
						Check: "oracle", Op: chn.entry, Input: input, Expected: "a value or an error in time polynomial in the input", Actual: map[string]any{"outcome": o, "stage": bad.Stage, "site": bad.Site, "detail": bad.Detail}})
					break
				}
				if stFam != "decode" || strings.HasSuffix(fam, "-json") { // a slow text decode is specific to its form (has-chain)
					c10KnownSlow.Lock()
					if dd, ok := c10KnownSlow.m[fam+":"+stFam]; !ok || d < dd {
						c10KnownSlow.m[fam+":"+stFam] = d
					}
					c10KnownSlow.Unlock()
				}
				finds = append(finds, vh.Finding{Class: "cpu-budget:" + fam + ":" + stFam,
					What:  fmt.Sprintf("%s: form %s at depth %d (%d input bytes) did not finish stage %s within %d ms of CPU (running in %s)", chn.entry, chn.form.Name, firstBad, nbytes, bad.Stage, budget.forBytes(nbytes), bad.Site),
					Check: "oracle", Op: chn.entry, Input: input, Expected: "a value or an error in bounded time", Actual: map[string]any{"outcome": o, "stage": bad.Stage, "site": bad.Site, "detail": bad.Detail}})
			case "oom":
				finds = append(finds, vh.Finding{Class: "memory:" + fam + ":" + stFam,
					What:  fmt.Sprintf("%s: form %s at depth %d (%d input bytes) exceeded the memory cap in stage %s", chn.entry, chn.form.Name, firstBad, nbytes, bad.Stage),
					Check: "oracle", Op: chn.entry, Input: input, Actual: map[string]any{"outcome": o, "stage": bad.Stage, "detail": bad.Detail}})
			case "panic":
				e := &c10Entry{Name: chn.entry, Family: fam}
				finds = append(finds, vh.Finding{Class: c10PanicClass(e, bad.Res),
					What:  fmt.Sprintf("%s: form %s at depth %d: panic in stage %s at %s: %s", chn.entry, chn.form.Name, firstBad, bad.Res.Stage, bad.Res.Site, bad.Res.Panic),
					Check: "oracle", Op: chn.entry, Input: input, Actual: bad.Res})
			default:
				finds = append(finds, vh.Finding{Class: "worker-crash:" + fam + ":" + stFam,
					What:  fmt.Sprintf("%s: form %s at depth %d: worker died (%s) in stage %s: %s", chn.entry, chn.form.Name, firstBad, o, bad.Stage, bad.Detail),
					Check: "oracle", Op: chn.entry, Input: input, Actual: map[string]any{"outcome": o, "detail": bad.Detail}})
			}
			if stFam == "decode" || o == "panic" || o == "crash" || len(failures) >= maxFailures {
				break ladder
			}
			skip[stFam] = true
		}
	}
	row["outcomes"] = strings.Join(outcomes, " ")
	if len(failures) > 0 {
		row["failures"] = failures
	}
	return row, finds, jobs
}

// ---- replay ----

// c10Replay re-runs the single case of a replay file in the worker; returns true when it handled the replay.
func c10Replay(c *vh.Ctx) bool {
	b, err := os.ReadFile(c.Replay)
	if err != nil {
		return false
	}
	var rf struct {
		Finding struct {
			Class string         `json:"class"`
			Input map[string]any `json:"input"`
		} `json:"finding"`
	}
	if json.Unmarshal(b, &rf) != nil || rf.Finding.Input == nil {
		return false
	}
	in := rf.Finding.Input
	entry, _ := in["entry"].(string)
	if entry == "" {
		return false
	}
	j := c10Job{Entry: entry}
	if f, ok := in["form"].(string); ok {
		j.Form = f
		if d, ok := in["depth"].(float64); ok {
			j.Depth = int(d)
		}
		if sk, ok := in["skip"].([]any); ok {
			for _, x := range sk {
				if xs, ok := x.(string); ok {
					j.Skip = append(j.Skip, xs)
				}
			}
		}
	} else if im, ok := in["input"].(map[string]any); ok {
		j.Hex, _ = im["hex"].(string)
	} else {
		return false
	}
	var w *c10Worker
	defer func() { w.kill() }()
	replayBudget := int64(60000)
	if strings.HasPrefix(rf.Finding.Class, "exponential-time:") {
		replayBudget = 4000 // the budget the class is defined by (inputs below c10TinyInput get the lower clamp)
	}
	r := c10RunJob(&w, j, replayBudget)
	c.Res.Notes = append(c.Res.Notes, fmt.Sprintf("replay %s: outcome=%s stage=%s site=%s cpu=%dms", entry, r.Outcome, r.Stage, r.Site, r.CPUms))
	c.Count("replay", true)
	if r.Outcome != "accepted" && r.Outcome != "rejected" {
		cls := rf.Finding.Class
		c.Report(vh.Finding{Class: cls, What: fmt.Sprintf("replay: %s still fails: %s in %s [%s] %s", entry, r.Outcome, r.Stage, r.Site, r.Res.Panic), Check: "oracle", Op: entry, Input: in,
			Actual: map[string]any{"outcome": r.Outcome, "stage": r.Stage, "site": r.Site, "detail": r.Detail}})
	}
	return true
}
