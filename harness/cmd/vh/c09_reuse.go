package main

// C09 — "decoding is a function of the document": every JSON / text policy document and every JSON policy-set
// document that the C09 stream decodes into a fresh value is ALSO decoded into a REUSED receiver that already
// holds other content (an ast.Policy / cedar.Policy decoded earlier; a PolicySet holding an earlier set plus
// one more policy under an id of its own). Oracle: the reused receiver ends up exactly like the fresh one —
// same accept / reject, same ids, same policies (canonical rendering), byte-identical MarshalJSON, and the
// same Authorize result on environments of the pool. A decoder that merges into its receiver (a long-lived
// PolicySet into which a service reloads its policies) keeps stale ids and fails here.

import (
	"bytes"
	"encoding/json"
	"fmt"
	"sort"
	"strings"

	cedar "github.com/cedar-policy/cedar-go"
	publicast "github.com/cedar-policy/cedar-go/ast"
	"github.com/cedar-policy/cedar-go/types"
	"github.com/cedar-policy/cedar-go/x/exp/ast"

	"verifharness/vh"
)

type c09ReuseState struct {
	c       *vh.Ctx
	pool    []vh.EnvEnc
	astPrev []*publicast.Policy // earlier decoded policies (ring)
	polPrev []*cedar.Policy
	setPrev []*cedar.PolicySet
	n       int
}

const c09ReuseRing = 4

var c09R *c09ReuseState

func c09ReuseStart(c *vh.Ctx, pool []vh.EnvEnc) {
	c09R = &c09ReuseState{c: c, pool: pool}
}

func c09Push[T any](ring []T, x T) []T {
	if len(ring) >= c09ReuseRing {
		ring = ring[1:]
	}
	return append(ring[:len(ring):len(ring)], x)
}

func (r *c09ReuseState) report(kind, via string, doc []byte, held, fresh, got string) {
	r.c.Report(vh.Finding{Class: "decode-into-reused-receiver-differs", What: fmt.Sprintf("%s of %s into a %s that already held %s gives %s; into a fresh value %s", via, trunc(string(doc), 300), kind, trunc(held, 200), trunc(got, 300), trunc(fresh, 300)),
		Check: "oracle", Op: "decode-reused:" + kind, Input: map[string]any{"doc": string(doc), "receiver_held": held, "via": via}, Expected: fresh, Actual: got})
}

// c09ReusePolicy: freshOut is "err" | "ok <ShowPolicyC09>" of the fresh decode of doc (JSON when isJSON, Cedar text otherwise).
func c09ReusePolicy(doc []byte, isJSON bool, freshOut string, fresh *ast.Policy) {
	r := c09R
	if r == nil || freshOut == "panic" {
		return
	}
	defer func() {
		if fresh != nil {
			q := *(*publicast.Policy)(fresh)
			r.astPrev = c09Push(r.astPrev, &q)
			r.polPrev = c09Push(r.polPrev, cedar.NewPolicyFromAST(&q))
		}
	}()
	if len(r.astPrev) == 0 {
		return
	}
	r.n++
	k := (len(doc) + r.n) % len(r.astPrev)
	decode := func(f func() error, show func() string) string {
		out := ""
		if pn := vh.Protect(func() {
			if err := f(); err != nil {
				out = "err"
				return
			}
			out = "ok " + show()
		}); pn != nil {
			out = "panic"
		}
		return out
	}
	// ast.Policy
	{
		q := *r.astPrev[k] // a receiver holding the earlier policy
		held := vh.ShowPolicyC09((*ast.Policy)(r.astPrev[k]))
		via := "ast.Policy.UnmarshalCedar"
		f := func() error { return q.UnmarshalCedar(doc) }
		if isJSON {
			via = "ast.Policy.UnmarshalJSON"
			f = func() error { return q.UnmarshalJSON(doc) }
			if r.n%2 == 0 {
				via = "json.Unmarshal(*ast.Policy)"
				f = func() error { return json.Unmarshal(doc, &q) }
			}
		}
		got := decode(f, func() string { return vh.ShowPolicyC09((*ast.Policy)(&q)) })
		r.c.Res.OracleChecks++
		r.c.Dist("reused-receiver:ast.Policy")
		if got != freshOut && !(strings.HasPrefix(via, "json.Unmarshal") && freshOut == "err" && got != "panic") {
			r.report("ast.Policy", via, doc, held, freshOut, got)
		}
	}
	// cedar.Policy
	{
		q := *r.polPrev[k]
		held := vh.ShowPolicyC09((*ast.Policy)(r.polPrev[k].AST()))
		via := "cedar.Policy.UnmarshalCedar"
		f := func() error { return q.UnmarshalCedar(doc) }
		if isJSON {
			via = "cedar.Policy.UnmarshalJSON"
			f = func() error { return q.UnmarshalJSON(doc) }
		}
		got := decode(f, func() string { return vh.ShowPolicyC09((*ast.Policy)(q.AST())) })
		r.c.Res.OracleChecks++
		r.c.Dist("reused-receiver:cedar.Policy")
		if got != freshOut {
			r.report("cedar.Policy", via, doc, held, freshOut, got)
		} else if fresh != nil {
			// the compiled form too: the reused receiver authorizes like the fresh decode
			env := r.pool[(len(doc)+r.n)%len(r.pool)]
			if a, b := c09Authz(fresh, env), c09AuthzPolicy(&q, env); a != b {
				r.report("cedar.Policy", via+" + Authorize", doc, held, a, b)
			}
		}
	}
}

func c09AuthzPolicy(p *cedar.Policy, env vh.EnvEnc) string {
	req, ok := vh.RequestOf(env.Env)
	if !ok {
		return "n/a"
	}
	out := ""
	if pn := vh.Protect(func() {
		set := cedar.NewPolicySet()
		set.Add("p", p)
		d, diag := cedar.Authorize(set, env.Env.Entities, req)
		out = fmt.Sprintf("%v reasons=%d errors=%d", d, len(diag.Reasons), len(diag.Errors))
	}); pn != nil {
		return "panic"
	}
	return out
}

func c09ShowSet(s *cedar.PolicySet) string {
	var xs []string
	for id, p := range s.All() {
		xs = append(xs, vh.Hex(string(id))+"="+vh.ShowPolicyC09((*ast.Policy)(p.AST())))
	}
	sort.Strings(xs)
	return strings.Join(xs, ";")
}

func c09AuthzSet(s *cedar.PolicySet, env vh.EnvEnc) string {
	req, ok := vh.RequestOf(env.Env)
	if !ok {
		return "n/a"
	}
	out := ""
	if pn := vh.Protect(func() {
		d, diag := cedar.Authorize(s, env.Env.Entities, req)
		var rs, es []string
		for _, x := range diag.Reasons {
			rs = append(rs, vh.Hex(string(x.PolicyID)))
		}
		for _, x := range diag.Errors {
			es = append(es, vh.Hex(string(x.PolicyID)))
		}
		sort.Strings(rs)
		sort.Strings(es)
		out = fmt.Sprintf("%v reasons=%v errors=%v", d, rs, es)
	}); pn != nil {
		return "panic"
	}
	return out
}

var c09StaleForbid = func() *cedar.Policy {
	var p cedar.Policy
	if err := p.UnmarshalCedar([]byte(`@id("stale") forbid (principal, action, resource);`)); err != nil {
		panic(err)
	}
	return &p
}()

// c09ReuseSet: doc through PolicySet.UnmarshalJSON into a fresh set and into a populated one.
func c09ReuseSet(doc []byte) {
	r := c09R
	if r == nil {
		return
	}
	r.n++
	var fresh cedar.PolicySet
	freshOut := ""
	if pn := vh.Protect(func() {
		if err := fresh.UnmarshalJSON(doc); err != nil {
			freshOut = "err"
			return
		}
		freshOut = "ok " + c09ShowSet(&fresh)
	}); pn != nil {
		return // reported by the caller's own decode
	}
	defer func() {
		if strings.HasPrefix(freshOut, "ok ") {
			r.setPrev = c09Push(r.setPrev, &fresh)
		}
	}()
	// the receiver: an earlier decoded set (if any) plus one policy under an id of its own
	reused := cedar.NewPolicySet()
	if len(r.setPrev) > 0 {
		for id, p := range r.setPrev[(len(doc)+r.n)%len(r.setPrev)].All() {
			reused.Add(id, p)
		}
	}
	reused.Add(cedar.PolicyID(fmt.Sprintf("c09-stale-%d", r.n%3)), c09StaleForbid)
	held := c09ShowSet(reused)
	via := "PolicySet.UnmarshalJSON"
	got := ""
	if pn := vh.Protect(func() {
		var err error
		if r.n%2 == 0 {
			via = "json.Unmarshal(*PolicySet)"
			err = json.Unmarshal(doc, reused)
		} else {
			err = reused.UnmarshalJSON(doc)
		}
		if err != nil {
			got = "err"
			return
		}
		got = "ok " + c09ShowSet(reused)
	}); pn != nil {
		got = "panic"
	}
	r.c.Res.OracleChecks++
	r.c.Dist("reused-receiver:PolicySet")
	if got != freshOut {
		if strings.HasPrefix(via, "json.Unmarshal") && freshOut == "err" && got != "panic" {
			return
		}
		r.report("PolicySet", via, doc, held, freshOut, got)
		return
	}
	if !strings.HasPrefix(freshOut, "ok ") {
		return
	}
	fb, ferr := fresh.MarshalJSON()
	rb, rerr := reused.MarshalJSON()
	if (ferr == nil) != (rerr == nil) || !bytes.Equal(fb, rb) {
		r.report("PolicySet", via+" + MarshalJSON", doc, held, string(fb), string(rb))
	}
	for i := 0; i < 2; i++ {
		env := r.pool[(len(doc)+r.n+i*7)%len(r.pool)]
		if a, b := c09AuthzSet(&fresh, env), c09AuthzSet(reused, env); a != b {
			r.report("PolicySet", via+" + Authorize", doc, held, a, b)
			break
		}
	}
}

var _ = types.String("")
