package main

// C10, part b.
//
//  1. comment passes (in process): comment-rich policy / schema texts are cut at EVERY byte offset (prefix, suffix,
//     one- and two-byte deletions) and mutated at token and byte level, through every decoder entry point that takes
//     policy text / schema text; plus the exhaustive family of all strings of length <= L over {'/','*',' ','\n','a',';'}
//     standing alone and appended to an unfinished and to a finished document (every comment-boundary state of both
//     lexers with every follow-up, at end of input and in the middle).
//  2. long runs (subprocess worker, 64 MiB stack): N consecutive comments / blank lines / annotations / policies /
//     declarations / elements and single tokens of N bytes, N = 10^3 … 10^6.  These inputs are LINEAR (nesting depth
//     <= 2): a fatal stack overflow on one of them is reported as `stack-overflow_<family>_<form>` — a class of its own,
//     never one of the `…-unbounded-recursion` classes that record the missing NESTING limit.

import (
	"fmt"
	"strings"

	"verifharness/vh"
)

// ---------------------------------------------------------------------------------------------
// 1. comment passes
// ---------------------------------------------------------------------------------------------

// unfinished documents the exhaustive family is appended to: a ';' from the family finishes them, so "finished
// document + tail" is covered by the same enumeration
var c10TailPrefixes = map[string][]string{
	"policy-text": {"", "permit(principal,action,resource)when{1<2}", "permit(principal,action,resource);/*"},
	"schema-text": {"", "entity a in[a]{a:a}", "entity a;/*"},
}

func c10CommentTexts(family string) []string {
	switch family {
	case "policy-text":
		return vh.C10CommentPolicyTexts
	case "schema-text":
		return vh.C10CommentSchemaTexts
	}
	return nil
}

// c10CommentPasses runs the comment-oriented streams for every text entry of the policy / schema families.
func (r *c10Run) c10CommentPasses() {
	c := r.c
	maxLen := c.N(5, 6)
	n0 := c.Res.Evaluations
	for ei, e := range r.entries {
		texts := c10CommentTexts(e.Family)
		if texts == nil {
			continue
		}
		// every byte offset of every comment-rich text
		for ti, src := range texts {
			if ti < 2 {
				r.run(e, []byte(src), "valid")
			}
			vh.C10EditsAtEveryByte(src, func(kind, text string) {
				// prefixes and suffixes go through every entry; the deletions (which mostly leave a valid document
				// that then runs all consumers) rotate over the entries of the family in the quick tier
				if !c.Thorough() && strings.HasPrefix(kind, "del") && e.Family == "policy-text" && (ei+ti)%3 != 0 {
					return
				}
				r.run(e, []byte(text), "comment-"+kind)
			})
			toks := vh.C10Tokens(src)
			for i := 0; i < c.N(40, 300); i++ {
				m, kind := vh.C10TokenMutant(c.Rng, toks)
				r.run(e, []byte(m), "comment-"+kind)
				bm, bkind := vh.C10ByteMutant(c.Rng, []byte(src))
				r.run(e, bm, "comment-"+bkind)
			}
		}
		// the exhaustive comment-boundary family
		ml := maxLen
		if !c.Thorough() && (e.Name == "ast.Policy.UnmarshalCedar" || e.Name == "NewPolicySetFromBytes") {
			ml-- // same tokenizer and parser as Policy.UnmarshalCedar / NewPolicyListFromBytes, which get the full length
		}
		for _, prefix := range c10TailPrefixes[e.Family] {
			vh.C10AllStrings(vh.C10CommentAlphabet, ml, func(s string) {
				r.run(e, []byte(prefix+s), "comment-exhaustive")
			})
		}
	}
	c.Res.Notes = append(c.Res.Notes, fmt.Sprintf("comment passes: %d cases (cut/delete at every byte offset of %d+%d comment-rich texts, all strings of length <= %d over %q alone and after 2 prefixes, per policy-text / schema-text entry)",
		c.Res.Evaluations-n0, len(vh.C10CommentPolicyTexts), len(vh.C10CommentSchemaTexts), maxLen, vh.C10CommentAlphabet))
}

// ---------------------------------------------------------------------------------------------
// 2. long runs
// ---------------------------------------------------------------------------------------------

// which entries the run forms go through (quick: the first quickN)
var c10RunTargets = map[string]struct {
	entries []string
	quickN  int
}{
	"policy-text": {[]string{"NewPolicyListFromBytes", "Decoder.Decode(stream)", "Policy.UnmarshalCedar", "NewPolicySetFromBytes", "ast.Policy.UnmarshalCedar"}, 2},
	"schema-text": {[]string{"Schema.UnmarshalCedar"}, 1},
}

// forms whose items are whole declarations or path components (each costs allocation and consumer work): measured on
// the unchanged tree, 10^5 items take 1-15 s of CPU through decode + all consumers even where the code is linear, and
// three of them are quadratic in the decoder itself (run-annotations, long-path, s-long-path: known findings), so the
// quick ladder stops at 10^4 and the thorough one goes to 3*10^5 (where quadratic = minutes, far beyond the budget)
var c10RunHeavy = map[string]bool{
	"run-annotations": true, "run-policies": true, "run-policies-commented": true, "run-conditions": true, "run-set-elems": true, "run-record-attrs": true, "run-call-args": true,
	"long-path": true, "long-string-escapes": true,
	"s-run-entities": true, "s-run-entity-names": true, "s-run-namespaces": true, "s-run-actions": true, "s-run-types": true, "s-run-annotations": true, "s-run-attrs": true,
	"s-run-parents": true, "s-run-enum": true, "s-long-path": true,
}

// forms run in the quick tier through the SECOND entry of the family as well (the streaming decoder has its own
// buffer management; everything else is the same tokenizer + parser underneath)
var c10RunQuickSecond = map[string]bool{
	"run-line-comments": true, "run-block-comments": true, "run-mixed-comments": true, "run-comments-inside": true, "run-comments-unterminated": true,
	"run-whitespace": true, "run-policies-commented": true, "long-ident": true, "long-string-escapes": true, "long-block-comment": true, "long-line-comment": true,
}

// c10RunJSONEncFactor: see c10Job.JSONEncFactor.
const c10RunJSONEncFactor = 8

// c10RunQuickBytes: largest input of the quick tier's long-run campaign.
const c10RunQuickBytes = 6 << 20

// c10RunChains: the (entry, form, ladder) chains of the long-run campaign.
func c10RunChains(thorough bool) []c10Chain {
	var chains []c10Chain
	for i := range vh.C10RunForms {
		f := &vh.C10RunForms[i]
		tg, ok := c10RunTargets[f.Family]
		if !ok {
			continue
		}
		es := tg.entries
		if !thorough && len(es) > tg.quickN {
			es = es[:tg.quickN]
		}
		for ei, en := range es {
			if !thorough && ei > 0 && !c10RunQuickSecond[f.Name] {
				continue
			}
			if en == "Policy.UnmarshalCedar" || en == "ast.Policy.UnmarshalCedar" {
				if strings.HasPrefix(f.Name, "run-policies") {
					continue // single-policy decoders
				}
			}
			ns := []int{1000, 10000, 100000, 1000000}
			if c10RunHeavy[f.Name] {
				ns = []int{1000, 10000}
				if thorough {
					ns = []int{1000, 10000, 100000, 300000}
				}
			} else if thorough {
				ns = append(ns, 4000000)
			} else if per := (len(f.Build(2000)) - len(f.Build(1000))) / 1000; per*ns[3] > c10RunQuickBytes {
				// quick tier: the top rung is the largest N (two significant digits) whose input fits in 6 MiB
				top := c10RunQuickBytes / per
				for m := 10; ; m *= 10 {
					if top/m < 100 {
						top = top / m * m
						break
					}
				}
				ns[3] = top
			}
			chains = append(chains, c10Chain{entry: en, form: f, depths: ns, run: true})
		}
	}
	return chains
}

// c10RunRunChain climbs the ladder of N for one long-run form.  Outcomes other than accepted / rejected are findings
// with classes of their own; consumer stages that fail are skipped from then on (as in the nesting campaign) so that
// the decoder is still exercised at the larger N.
func c10RunRunChain(wp **c10Worker, chn c10Chain, budget c10Budget, thorough bool) (map[string]any, []vh.Finding, int) {
	row := map[string]any{"entry": chn.entry, "form": chn.form.Name, "kind": "long-run"}
	var finds []vh.Finding
	jobs := 0
	outcomes := []string{}
	failures := []string{}
	skip := map[string]bool{}
	lastOK := 0
	fam := chn.form.Family
	// input size without building megabytes in the parent (the worker builds the input itself): the forms are affine
	// in N up to the width of the decimal counters some of them print
	l1, l2 := len(chn.form.Build(1000)), len(chn.form.Build(2000))
	size := func(n int) int {
		if n <= 2000 {
			return len(chn.form.Build(n))
		}
		return l2 + (l2-l1)*(n-2000)/1000
	}
	// the budget of the nesting campaign is clamp(25x the calibrated linear pipeline, lo, hi); for multi-megabyte runs the
	// upper clamp would turn the oracle into "faster than ~2 µs/byte", which memory-heavy but linear work (10^5 policies:
	// 4-7 µs/byte of CPU incl. GC and page faults on this machine) does not meet — so runs keep the full 25x, unclamped
	bud := func(n int) int64 {
		b := budget.forBytes(size(n))
		if alt := int64(25 * budget.unitNs * float64(size(n)) / 1e6); alt > b {
			b = alt
		}
		return b
	}
	run := func(n int) c10JobResult {
		j := c10MakeJob(chn, n, skip)
		j.ID = jobs
		jobs++
		j.JSONEncFactor = c10RunJSONEncFactor
		return c10RunJob(wp, j, bud(n))
	}
ladder:
	for _, n := range chn.depths {
		if limit := c10RunMaxBytes(chn.form.Name); size(n) > limit {
			outcomes = append(outcomes, fmt.Sprintf("%d:not-run(input would exceed %d MiB)", n, limit>>20))
			break
		}
		for {
			r, unconfirmed := c10Confirm(run(n), func() c10JobResult {
				if nb, _ := c10Calibrate(thorough); nb.unitNs > budget.unitNs {
					budget.unitNs = nb.unitNs // see c10RunChain: the second run is judged by the linear pipeline as it runs now
				}
				return run(n)
			}, func(x c10JobResult) string {
				w := fam
				if sf := c10StageFamily(x.Stage); sf != "decode" {
					w = fam + ":" + sf
				}
				return "superlinear_" + w + "_" + chn.form.Name
			})
			if unconfirmed != "" {
				outcomes = append(outcomes, fmt.Sprintf("%d:%s", n, unconfirmed))
			}
			o := r.Outcome
			if o == "accepted" || o == "rejected" {
				lim := bud(n)
				if c10StageFamily(r.MaxStage) == "json-encode" {
					lim *= c10RunJSONEncFactor
				}
				if r.MaxStageMs*4 >= lim {
					// a completed stage that used a quarter of its budget or more (evidence of the margin on this machine)
					outcomes = append(outcomes, fmt.Sprintf("%d:%s(%dms; %s %dms of %dms)", n, o, r.CPUms, c10StageFamily(r.MaxStage), r.MaxStageMs, lim))
				} else {
					outcomes = append(outcomes, fmt.Sprintf("%d:%s(%dms)", n, o, r.CPUms))
				}
				lastOK = n
				break
			}
			stFam := c10StageFamily(r.Stage)
			where := fam
			if stFam != "decode" {
				where = fam + ":" + stFam
			}
			bad, firstBad := r, n
			if o == "stack-overflow" {
				// narrow [lastOK, n] down to the smallest N that overflows (the replay names that N)
				lo, hi := lastOK, n
				probes := 3
				if thorough {
					probes = 7
				}
				for p := 0; p < probes && hi-lo > 1 && float64(hi-lo) > 0.05*float64(hi); p++ {
					mid := lo + (hi-lo)/2
					rr := run(mid)
					if rr.Outcome == "stack-overflow" && c10StageFamily(rr.Stage) == stFam {
						hi, bad = mid, rr
					} else if rr.Outcome == "accepted" || rr.Outcome == "rejected" || c10StagePassed(rr, stFam) {
						lo = mid
					} else {
						break
					}
				}
				firstBad = hi
				failures = append(failures, fmt.Sprintf("%s overflows the %d MiB stack in %s between N=%d and N=%d (~%d input bytes)", bad.Site, c10MaxStack>>20, stFam, lo, hi, size(hi)))
			} else {
				failures = append(failures, fmt.Sprintf("%s in %s at N=%d (~%d input bytes)", o, stFam, n, size(n)))
			}
			outcomes = append(outcomes, fmt.Sprintf("%d:%s@%s[%s]", n, o, r.Stage, r.Site))
			nbytes := len(chn.form.Build(firstBad))
			input := map[string]any{"entry": chn.entry, "form": chn.form.Name, "depth": firstBad, "n": firstBad, "kind": "long-run (linear input, no nesting)",
				"input_bytes": nbytes, "skip": c10MakeJob(chn, firstBad, skip).Skip, "head": c10Head(chn.form.Build(3), 200)}
			switch o {
			case "stack-overflow":
				finds = append(finds, vh.Finding{Class: "stack-overflow_" + where + "_" + chn.form.Name,
					What: fmt.Sprintf("%s: %s with N=%d (%d input bytes, LINEAR input without nesting) overflows a %d MiB stack in stage %s, recursion in %s (fatal, not recoverable): the stack needed grows with the length of a run",
						chn.entry, chn.form.Name, firstBad, nbytes, c10MaxStack>>20, bad.Stage, bad.Site),
					Check: "oracle", Op: chn.entry, Input: input, Expected: "a value or an error, in bounded stack",
					Actual: map[string]any{"outcome": o, "stage": bad.Stage, "site": bad.Site, "largest_n_ok": lastOK, "stderr": bad.Detail}})
			case "cpu-budget":
				limit := bud(firstBad)
				if stFam == "json-encode" {
					limit *= c10RunJSONEncFactor
				}
				finds = append(finds, vh.Finding{Class: "superlinear_" + where + "_" + chn.form.Name,
					What: fmt.Sprintf("%s: %s with N=%d (%d input bytes, linear input) did not finish stage %s within %d ms of CPU (25x the linear pipeline for that size; running in %s)",
						chn.entry, chn.form.Name, firstBad, nbytes, bad.Stage, limit, bad.Site),
					Check: "oracle", Op: chn.entry, Input: input, Expected: "a value or an error in time linear in the input", Actual: map[string]any{"outcome": o, "stage": bad.Stage, "site": bad.Site, "detail": bad.Detail}})
			case "oom":
				finds = append(finds, vh.Finding{Class: "memory_" + where + "_" + chn.form.Name,
					What:  fmt.Sprintf("%s: %s with N=%d (%d input bytes) exceeded the memory cap in stage %s", chn.entry, chn.form.Name, firstBad, nbytes, bad.Stage),
					Check: "oracle", Op: chn.entry, Input: input, Actual: map[string]any{"outcome": o, "stage": bad.Stage, "detail": bad.Detail}})
			case "panic":
				e := &c10Entry{Name: chn.entry, Family: fam}
				finds = append(finds, vh.Finding{Class: c10PanicClass(e, bad.Res),
					What:  fmt.Sprintf("%s: %s with N=%d: panic in stage %s at %s: %s", chn.entry, chn.form.Name, firstBad, bad.Res.Stage, bad.Res.Site, bad.Res.Panic),
					Check: "oracle", Op: chn.entry, Input: input, Actual: bad.Res})
			default:
				finds = append(finds, vh.Finding{Class: "worker-crash_" + where + "_" + chn.form.Name,
					What:  fmt.Sprintf("%s: %s with N=%d: worker died (%s) in stage %s: %s", chn.entry, chn.form.Name, firstBad, o, bad.Stage, bad.Detail),
					Check: "oracle", Op: chn.entry, Input: input, Actual: map[string]any{"outcome": o, "detail": bad.Detail}})
			}
			if stFam == "decode" || o == "panic" || o == "crash" || len(failures) >= 3 {
				break ladder
			}
			skip[stFam] = true
		}
	}
	row["outcomes"] = strings.Join(outcomes, " ")
	if len(failures) > 0 {
		row["failures"] = failures
	}
	return row, finds, jobs
}

func c10Head(b []byte, n int) string {
	if len(b) > n {
		b = b[:n]
	}
	return string(b)
}

// c10RunMaxBytes: largest input built for a form (trivia and single tokens: 48 MiB; declarations: 4 MiB, as in the
// nesting campaign — each item is an allocation-heavy AST node that every consumer walks).
func c10RunMaxBytes(form string) int {
	if c10RunHeavy[form] {
		return 4 << 20
	}
	return 48 << 20
}

func c10MaxRunN(chains []c10Chain) int {
	m := 0
	for _, ch := range chains {
		for _, n := range ch.depths {
			if n > m {
				m = n
			}
		}
	}
	return m
}
