package main

import (
	"bytes"
	"fmt"
	"os"
	"sort"
	"strings"
	"time"

	"github.com/cedar-policy/cedar-go/x/exp/schema"
	sast "github.com/cedar-policy/cedar-go/x/exp/schema/ast"

	"verifharness/vh"
)

func init() { props["C17"] = runC17 }

// resolution outcome of one AST: accepted + canonical dump, rejected, or panicked
type resOut struct {
	ok    bool
	dump  string
	err   string
	panic any
}

func resolveOut(s *sast.Schema) (r resOut) {
	if p := vh.Protect(func() {
		rs, err := schema.NewSchemaFromAST(s).Resolve()
		if err != nil {
			r.err = err.Error()
			return
		}
		r.ok = true
		r.dump = vh.DumpResolved(rs)
	}); p != nil {
		r.panic = p
	}
	return r
}

func sameRes(a, b resOut) bool {
	if a.panic != nil || b.panic != nil {
		return false
	}
	return a.ok == b.ok && (!a.ok || a.dump == b.dump)
}

func (r resOut) String() string {
	switch {
	case r.panic != nil:
		return fmt.Sprintf("panic %v", r.panic)
	case r.ok:
		return "ok " + r.dump
	}
	return "err " + r.err
}

// ---- features of the input AST used to classify failures narrowly ----

var builtinNames = map[string]bool{"String": true, "Long": true, "Bool": true, "Boolean": true, "ipaddr": true, "decimal": true, "datetime": true, "duration": true}
var reservedCommon = map[string]bool{"Bool": true, "Boolean": true, "Entity": true, "Extension": true, "Long": true, "Record": true, "Set": true, "String": true}
var cedarKeywords = map[string]bool{"true": true, "false": true, "if": true, "then": true, "else": true, "in": true, "like": true, "has": true, "is": true, "__cedar": true}

func validIdent(s string) bool {
	if s == "" || cedarKeywords[s] {
		return false
	}
	for i, r := range s {
		if !(r == '_' || r >= 'a' && r <= 'z' || r >= 'A' && r <= 'Z' || i > 0 && r >= '0' && r <= '9') {
			return false
		}
	}
	return true
}

// validPath: IDENT { '::' IDENT } with `__cedar` allowed as first component only for references
func validPath(s string, allowCedarPrefix bool) bool {
	parts := strings.Split(s, "::")
	for i, p := range parts {
		if i == 0 && allowCedarPrefix && p == "__cedar" && len(parts) > 1 {
			continue
		}
		if !validIdent(p) {
			return false
		}
	}
	return true
}

type schemaFeatures struct {
	declared       map[string]bool // basenames of all declared entity/enum/common types
	printedPrims   map[string]bool // names under which primitive/extension NODES are printed
	entityRefNode  bool            // an EntityTypeRef node in a type position (text prints it as a bare, ambiguous name)
	badIdent       bool            // a declared name / reference / annotation key that is not an identifier (path)
	reservedCommon bool            // common type named like a reserved type name
	typeNamedSet   bool            // a type reference printed as exactly `Set`
	setQualified   bool            // a type reference (type position) whose first path component is `Set`: `Set::A`
	emptyEnum      bool
	appliesNoPR    bool // appliesTo without principal or resource types
	unknownExt     bool
	cedarNamespace bool
	dupEntityEnum  bool
	emptyNSKey     bool
	nonRecordShape bool
}

func featuresOf(s *sast.Schema) schemaFeatures {
	f := schemaFeatures{declared: map[string]bool{}, printedPrims: map[string]bool{}}
	var walkT func(t sast.IsType)
	anns := func(a sast.Annotations) {
		for k := range a {
			if k == "" || !validIdentOrKeyword(string(k)) {
				f.badIdent = true
			}
		}
	}
	walkT = func(t sast.IsType) {
		switch t := t.(type) {
		case sast.StringType:
			f.printedPrims["String"] = true
		case sast.LongType:
			f.printedPrims["Long"] = true
		case sast.BoolType:
			f.printedPrims["Bool"] = true
		case sast.ExtensionType:
			f.printedPrims[string(t)] = true
			if !builtinNames[string(t)] || string(t) == "String" || string(t) == "Long" || string(t) == "Bool" || string(t) == "Boolean" {
				f.unknownExt = true
			}
			if string(t) == "Set" {
				f.typeNamedSet = true
			}
		case sast.SetType:
			walkT(t.Element)
		case sast.RecordType:
			for _, a := range t {
				anns(a.Annotations)
				walkT(a.Type)
			}
		case sast.EntityTypeRef:
			f.entityRefNode = true
			if !validPath(string(t), true) {
				f.badIdent = true
			}
			if string(t) == "Set" {
				f.typeNamedSet = true
			}
			if strings.HasPrefix(string(t), "Set::") {
				f.setQualified = true
			}
		case sast.TypeRef:
			if !validPath(string(t), true) {
				f.badIdent = true
			}
			if string(t) == "Set" {
				f.typeNamedSet = true
			}
			if strings.HasPrefix(string(t), "Set::") {
				f.setQualified = true
			}
		}
	}
	body := func(ents sast.Entities, enums sast.Enums, acts sast.Actions, cts sast.CommonTypes) {
		for n, e := range ents {
			f.declared[string(n)] = true
			if !validIdent(string(n)) {
				f.badIdent = true
			}
			if _, ok := enums[n]; ok {
				f.dupEntityEnum = true
			}
			anns(e.Annotations)
			for _, p := range e.ParentTypes {
				if !validPath(string(p), false) {
					f.badIdent = true
				}
			}
			if e.Shape != nil {
				walkT(e.Shape)
			}
			if e.Tags != nil {
				walkT(e.Tags)
			}
		}
		for n, e := range enums {
			f.declared[string(n)] = true
			if !validIdent(string(n)) {
				f.badIdent = true
			}
			anns(e.Annotations)
			if len(e.Values) == 0 {
				f.emptyEnum = true
			}
		}
		for n, c := range cts {
			f.declared[string(n)] = true
			if !validIdent(string(n)) {
				f.badIdent = true
			}
			if reservedCommon[string(n)] {
				f.reservedCommon = true
			}
			anns(c.Annotations)
			walkT(c.Type)
		}
		for _, a := range acts {
			anns(a.Annotations)
			for _, p := range a.Parents {
				if p.Type != "" && !validPath(string(p.Type), false) {
					f.badIdent = true
				}
			}
			if a.AppliesTo != nil {
				if len(a.AppliesTo.Principals) == 0 || len(a.AppliesTo.Resources) == 0 {
					f.appliesNoPR = true
				}
				for _, p := range append(append([]sast.EntityTypeRef{}, a.AppliesTo.Principals...), a.AppliesTo.Resources...) {
					if !validPath(string(p), false) {
						f.badIdent = true
					}
				}
				if a.AppliesTo.Context != nil {
					walkT(a.AppliesTo.Context)
				}
			}
		}
	}
	body(s.Entities, s.Enums, s.Actions, s.CommonTypes)
	for n, ns := range s.Namespaces {
		if n == "" {
			f.emptyNSKey = true
		}
		if !validPath(string(n), false) {
			f.badIdent = true
		}
		for _, p := range strings.Split(string(n), "::") {
			if p == "__cedar" {
				f.cedarNamespace = true
			}
		}
		anns(ns.Annotations)
		body(ns.Entities, ns.Enums, ns.Actions, ns.CommonTypes)
	}
	return f
}

func validIdentOrKeyword(s string) bool {
	if s == "" {
		return false
	}
	for i, r := range s {
		if !(r == '_' || r >= 'a' && r <= 'z' || r >= 'A' && r <= 'Z' || i > 0 && r >= '0' && r <= '9') {
			return false
		}
	}
	return true
}

// illFormed: the AST violates the Cedar schema grammar in a way both parsers check (see notASchema in checkC17)
func (f schemaFeatures) illFormed() bool { return f.emptyEnum || f.badIdent || f.reservedCommon }

func (f schemaFeatures) primitiveShadowed() bool {
	for n := range f.printedPrims {
		if f.declared[n] {
			return true
		}
	}
	return false
}

// Classification of a failing (leg, kind) is by REPAIR, not by the features of the input alone: see c17_attrib.go.
//
//	leg: text | json | t2j | j2t      kind: unparseable | unstable | resolve-differs | panic

type c17Stats struct {
	legsRun map[string]int
}

// checkC17 runs the four round trips on one AST and reports every failing (leg, kind) under the class c17Attribute finds.
func checkC17(c *vh.Ctx, tag string, s0 *sast.Schema, feat schemaFeatures) {
	report := func(leg, kind, what string, exp, act any) {
		var trace func(string)
		if os.Getenv("VH_C17_DEBUG") != "" {
			trace = func(l string) { fmt.Fprintf(os.Stderr, "C17 ATTRIB %s %s/%s: %s\n", tag, leg, kind, l) }
		}
		cls := c17Attribute(s0, leg, kind, trace)
		if cls == "" {
			cls = "unexplained-" + leg + "-" + kind
		}
		c.Dist("fail:" + cls)
		if os.Getenv("VH_C17_DEBUG") != "" {
			t, _ := schema.NewSchemaFromAST(s0).MarshalCedar()
			fmt.Fprintf(os.Stderr, "C17 FAIL [%s] %s %s: %s\n  exp=%v\n  act=%v\n  text=%q\n", cls, tag, leg, what, exp, act, string(t))
		}
		c.Report(vh.Finding{Class: cls, What: fmt.Sprintf("%s leg, %s: %s (case %s)", leg, kind, what, tag), Check: "oracle", Op: "schema-roundtrip-" + leg,
			Input: map[string]any{"schema": vh.EncSchema(s0), "tag": tag}, Expected: exp, Actual: act})
	}
	c17Legs(s0, feat, report, c.Dist, func() { c.Res.OracleChecks++ })
}

// c17Legs: the four round trips of one AST; every failing (leg, kind) goes to report (also used, with a collecting
// report, to re-run the legs on the repaired variants of a failing schema).
func c17Legs(s0 *sast.Schema, feat schemaFeatures, report func(leg, kind, what string, exp, act any), dist func(string), oracle func()) {
	r0 := resolveOut(s0)
	if r0.panic != nil {
		report("resolve", "panic", fmt.Sprint(r0.panic), "a resolved schema or an error", r0.String())
		return
	}
	if r0.ok {
		dist("resolve:ok")
	} else {
		dist("resolve:err")
	}
	var t1, j1 []byte
	var sT, sJ *sast.Schema
	// The generators build ASTs directly, so an AST may be one that NEITHER format can express, i.e. no schema at all: an enum
	// without values (the grammar requires one; both parsers reject it since the repair of `empty-enum-becomes-entity`), a
	// name that is not an identifier / path, a common type with a reserved name (the JSON parser checks names as the text
	// parser does since the repair of `unvalidated-identifier-renders-unparseable` / `reserved-common-type-name-…`).
	// For such an AST a rendering that does not parse is the consistent outcome. The excuse needs BOTH the harness's own
	// predicate on the AST (featuresOf) AND the JSON parser rejecting the AST's JSON rendering: if UnmarshalJSON accepts
	// such a schema again, sJ is set and every leg reports exactly as before.
	notASchema := false
	if feat.illFormed() {
		vh.Protect(func() {
			if j, err := schema.NewSchemaFromAST(s0).MarshalJSON(); err == nil {
				var sc schema.Schema
				notASchema = sc.UnmarshalJSON(j) != nil
			}
		})
	}
	// ---- text -> AST -> text
	if p := vh.Protect(func() { t1, _ = schema.NewSchemaFromAST(s0).MarshalCedar() }); p != nil {
		report("text", "panic", fmt.Sprint("MarshalCedar: ", p), nil, nil)
	} else {
		var sc schema.Schema
		var err error
		if p := vh.Protect(func() { err = sc.UnmarshalCedar(t1) }); p != nil {
			report("text", "panic", fmt.Sprint("UnmarshalCedar: ", p), nil, string(t1))
		} else if err != nil {
			// (parse (print s)).bind resolve = resolve s: a rejected rendering of a schema that does not resolve either is consistent
			oracle()
			if notASchema {
				dist("text:unparseable-and-not-a-schema")
			} else if r0.ok {
				report("text", "unparseable", "rendered Cedar text of a resolvable schema does not parse: "+err.Error(), r0.String(), string(t1))
			} else {
				dist("text:unparseable-and-unresolvable")
			}
		} else {
			sT = sc.AST()
			t2, _ := schema.NewSchemaFromAST(sT).MarshalCedar()
			oracle()
			if !bytes.Equal(t1, t2) {
				report("text", "unstable", "second Cedar rendering differs from the first", string(t1), string(t2))
			}
			oracle()
			if rT := resolveOut(sT); !sameRes(r0, rT) {
				report("text", "resolve-differs", "parse(render(s)) resolves differently from s", r0.String(), rT.String())
			}
		}
	}
	// ---- JSON -> AST -> JSON
	var errJ error
	if p := vh.Protect(func() { j1, errJ = schema.NewSchemaFromAST(s0).MarshalJSON() }); p != nil || errJ != nil {
		report("json", "panic", fmt.Sprint("MarshalJSON: ", p, errJ), nil, nil)
	} else {
		var sc schema.Schema
		var err error
		if p := vh.Protect(func() { err = sc.UnmarshalJSON(j1) }); p != nil {
			report("json", "panic", fmt.Sprint("UnmarshalJSON: ", p), nil, string(j1))
		} else if err != nil {
			oracle()
			if notASchema {
				dist("json:unparseable-and-not-a-schema")
			} else {
				report("json", "unparseable", "rendered JSON does not parse: "+err.Error(), "parses", string(j1))
			}
		} else {
			sJ = sc.AST()
			j2, _ := schema.NewSchemaFromAST(sJ).MarshalJSON()
			oracle()
			if !bytes.Equal(j1, j2) {
				report("json", "unstable", "second JSON rendering differs from the first", string(j1), string(j2))
			}
			oracle()
			if rJ := resolveOut(sJ); !sameRes(r0, rJ) {
				report("json", "resolve-differs", "parse(render(s)) resolves differently from s", r0.String(), rJ.String())
			}
		}
	}
	// ---- text -> JSON -> text (starting from the parsed text)
	if sT != nil {
		rT := resolveOut(sT)
		jT, err := schema.NewSchemaFromAST(sT).MarshalJSON()
		var sc schema.Schema
		if err == nil {
			err = sc.UnmarshalJSON(jT)
		}
		oracle()
		if err != nil {
			report("t2j", "unparseable", "JSON rendering of a parsed text schema does not parse: "+err.Error(), "parses", string(jT))
		} else {
			oracle()
			if rTJ := resolveOut(sc.AST()); !sameRes(rT, rTJ) {
				report("t2j", "resolve-differs", "text->JSON conversion does not commute with resolution", rT.String(), rTJ.String())
			}
			// text->JSON->text: the JSON encoder sorts memberOfTypes, so the text may be reordered; it must be stable from then on
			t2, _ := schema.NewSchemaFromAST(sT).MarshalCedar()
			t3, _ := schema.NewSchemaFromAST(sc.AST()).MarshalCedar()
			if !bytes.Equal(t2, t3) {
				dist("t2j:text-reordered")
			}
			var sc3 schema.Schema
			oracle()
			if err := sc3.UnmarshalCedar(t3); err != nil {
				if rT.ok {
					report("t2j", "unparseable", "text->JSON->text result does not parse: "+err.Error(), "parses", string(t3))
				}
			} else if t4, _ := schema.NewSchemaFromAST(sc3.AST()).MarshalCedar(); !bytes.Equal(t3, t4) {
				report("t2j", "unstable", "text->JSON->text result re-renders differently", string(t3), string(t4))
			}
		}
	}
	// ---- JSON -> text -> JSON (starting from the parsed JSON)
	if sJ != nil {
		rJ := resolveOut(sJ)
		tJ, _ := schema.NewSchemaFromAST(sJ).MarshalCedar()
		var sc schema.Schema
		err := sc.UnmarshalCedar(tJ)
		oracle()
		if err != nil {
			if rJ.ok {
				report("j2t", "unparseable", "Cedar rendering of a parsed, resolvable JSON schema does not parse: "+err.Error(), rJ.String(), string(tJ))
			} else {
				dist("j2t:unparseable-and-unresolvable")
			}
		} else {
			oracle()
			if rJT := resolveOut(sc.AST()); !sameRes(rJ, rJT) {
				report("j2t", "resolve-differs", "JSON->text conversion does not commute with resolution", rJ.String(), rJT.String())
			}
			j3, _ := schema.NewSchemaFromAST(sc.AST()).MarshalJSON()
			var sc2 schema.Schema
			oracle()
			if err := sc2.UnmarshalJSON(j3); err != nil {
				report("j2t", "unparseable", "JSON->text->JSON result does not parse: "+err.Error(), "parses", string(j3))
			} else if j4, _ := schema.NewSchemaFromAST(sc2.AST()).MarshalJSON(); !bytes.Equal(j3, j4) {
				report("j2t", "unstable", "JSON->text->JSON result re-renders differently", string(j3), string(j4))
			}
		}
	}
}

var c17Texts = []string{
	"// comment\nentity A, B in [C] = { \"a b\"?: Long, \"if\": String, };\n/* block */ entity C;\naction \"x y\", view in [\"x y\"] appliesTo { principal: A, resource: [B, C], context: { k: Set<Set<C>> }, } attributes {};",
	"@doc(\"top\") @flag namespace N::M { @a(\"\") type T = { @k(\"v\") x: __cedar::Long, y?: __cedar::ipaddr }; entity E { t: T, u: N::M::T } tags Set<String>; }",
	"entity Color enum [\"red\", \"gre\\nen\", \"\\u{1F600}\", \"\"]; entity X in Color { c: Color }; action a appliesTo { principal: Color, resource: X };",
	"namespace A { entity U; action \"r\" ; action w in [A::Action::\"r\", \"r\"] appliesTo { principal: [U], resource: [U], context: {} }; }\naction g; action h in [Action::\"g\"];",
	"type Ctx = { ip: ipaddr, when: datetime, d: decimal, t: duration, b: Bool, bb: Boolean }; entity P; action act appliesTo { principal: P, resource: P, context: Ctx };",
	"entity __cedar_like; entity type, entity2; type action = Long; action namespace, entity appliesTo { principal: type, resource: entity2 };",
	"namespace X { entity Long; entity Y { a: Long, b: __cedar::Long, c: X::Long }; }",
	"entity E { __cedar: Long, \"in\": String }; action __cedar;",
	"entity Set; namespace Set { entity T; type U = Set<Set>; } entity X in Set { a: Set, b: Set<Set>, c: Set::T, d: Set <Set::U> } tags Set;",
}

// texts the parser must reject (or accept with a specific AST): lexical and grammatical edge cases
var c17BadTexts = []string{
	"entity", "entity A", "entity A;;", "entity in;", "entity A in;", "entity A in [B,];", "entity A in [,];", "entity A { a: };", "entity A { a Long };",
	"entity A {a: Long,, b: Long};", "entity A, ;", "entity A enum;", "entity A enum [a];", "entity A enum [\"a\" \"b\"];", "entity A enum [\"a\",];",
	"action;", "action a in;", "action a in [];", "action a appliesTo {};", "action a appliesTo { principal: [], resource: A };", "action a appliesTo { principal: A };",
	"action a appliesTo { principal: A, principal: A, resource: A };", "action a appliesTo { principal: A resource: A };", "action a attributes {};", "action a attributes { x: Long };",
	"type Long = String;", "type Set = Long;", "type T = Set;", "type T = Set<>;", "type T = Set<Long;", "type T = Set<Set<Long>>;", "type T = {a: Long} ;", "type T = A::;", "type T = ::A;",
	"type T = __cedar::Long;", "type T = __cedar;", "type __cedar = Long;", "namespace __cedar { }", "namespace A::__cedar { }", "namespace A { namespace B { } }", "namespace A { entity X; } namespace A { }",
	"namespace A { entity X; ", "@a entity X;", "@a() entity X;", "@a(\"x\") @a(\"y\") entity X;", "@in(\"x\") entity X;", "@(\"x\") entity X;", "@a(x) entity X;",
	"entity X { \"a\\qb\": Long };", "entity X { \"a\\x41b\": Long };", "entity X { \"a\\u{110000}\": Long };", "entity X { \"a\\u{}\": Long };", "entity X { \"unterminated: Long };", "entity X { \"a\nb\": Long };",
	"/* unterminated", "// only a comment", "/**/", "entity X; /* c */ // d\n", "entity X # c", "entity X { a: Long; };", "entity \"X\";", "entity X = { a: Long };", "entity X = Long;",
	"entity X tags;", "entity X tags Long tags String;", "entity X { a?: Long, a: String };", "entity X, X;", "entity X; entity X;", "entity X enum [\"a\"]; entity X;", "action a, a;", "type T = Long; type T = Long;",
	"entity É;", "entity X { é: Long };", "entity X { \"é\": Long };", "entity X {a:Long}tags Set<X>;", "entity X:: Y;", "action \"\" ;", "action a in b::\"c\";", "action a in b::c;", "action a in \"b\"::\"c\";",
}

func runC17(c *vh.Ctx) {
	c.Res.Rule = "schema ASTs: ALL entity/common-type/action graphs on <=3 names in the primary reference style (the namespaced / qualified styles: all graphs on <=2 names and every 4th on 3 in the quick tier, all in thorough), hand-written specials (undefined refs, RFC-70 shadowing, resolution order, names like primitives, __cedar:: prefixes), random schemas in four profiles (JSON-shaped nodes, text-shaped nodes, hostile names, hostile but grammatical names; in every profile namespace components, entity / enum / common-type / attribute / action names and annotation keys are drawn with probability 0.1-0.15 from a table of identifiers NEAR reserved words: `__cedar` as proper prefix / suffix / infix, keywords with prefixes / suffixes / in another case, suffixed type names, `_`, `__`), one minimal schema per (position, identifier) for 13 positions x (that table, the contextual schema keywords, the reserved words themselves) and the same schema as hand-written Cedar text (the parser must accept it iff the identifier is legal there by the grammar - reserved words are reserved as whole words only - and build the same tree); each through text->AST->text, JSON->AST->JSON, text->JSON->text, JSON->text->JSON with second-rendering byte identity and equality of the canonical dump of Resolve(); plus model/Go correspondence of Resolve (accept/reject + dump), the JSON encoder tree and the Cedar text printer. distinct = distinct schema encodings; non-trivial = schema with at least one declaration"
	var cases []vh.SchemaCase
	for _, sc := range vh.SpecialSchemas() {
		if sc.Tag == "special-colon-name-cycle" {
			continue // Resolve overflows the stack on it (C16 finding, found in a subprocess there); C17 runs in-process
		}
		cases = append(cases, sc)
	}
	cases = append(cases, vh.EntityGraphSchemas(3, false)...)
	cases = append(cases, vh.EntityGraphSchemas(2, true)...)
	// quick tier: the primary reference style on ALL graphs, the other styles on all graphs with <= 2 names and every 4th 3-name graph
	sampled := func(all []vh.SchemaCase, primary bool) []vh.SchemaCase {
		if primary || c.Thorough() {
			return all
		}
		var out []vh.SchemaCase
		for i, sc := range all {
			if i < 18 || i%4 == 0 {
				out = append(out, sc)
			}
		}
		return out
	}
	for st := 0; st <= 2; st++ {
		cases = append(cases, sampled(vh.CommonTypeGraphSchemas(3, st), st == 0)...)
	}
	for st := 0; st <= 4; st++ {
		cases = append(cases, sampled(vh.ActionGraphSchemas(3, st), st == 0)...)
	}
	profiles := []struct {
		name                  string
		fromText, hostile, wf bool
		n                     int
	}{{"rand-json", false, false, false, c.N(1200, 30000)}, {"rand-text", true, false, false, c.N(800, 15000)}, {"rand-hostile", false, true, false, c.N(800, 15000)},
		{"rand-hostilewf", false, true, true, c.N(600, 12000)}}
	for _, p := range profiles {
		g := &vh.SchemaGen{R: c.Rng, FromText: p.fromText, Hostile: p.hostile, WellFormed: p.wf}
		for i := 0; i < p.n; i++ {
			cases = append(cases, vh.SchemaCase{Tag: fmt.Sprintf("%s-%d", p.name, i), S: g.Schema()})
		}
	}
	// hand-written Cedar TEXTS exercising the concrete syntax the printer never emits (comments, multi-name declarations,
	// `=` before a shape, trailing commas, `attributes {}`, `@a` without value, quoted names, `__cedar::` prefixes)
	for i, txt := range c17Texts {
		var sc schema.Schema
		if err := sc.UnmarshalCedar([]byte(txt)); err != nil {
			c.Report(vh.Finding{Class: "text-special-unparseable", What: "hand-written schema text does not parse: " + err.Error(), Check: "oracle", Op: "schema-parse", Input: txt})
			continue
		}
		cases = append(cases, vh.SchemaCase{Tag: fmt.Sprintf("text-special-%d", i), S: sc.AST()})
	}
	b := &vh.Batch{}
	for i, txt := range c17Texts {
		var sc schema.Schema
		if err := sc.UnmarshalCedar([]byte(txt)); err == nil {
			b.Add("schema-parse", map[string]any{"text": vh.Hex(txt)}, "ok "+vh.ShowSchemaAST(sc.AST()), fmt.Sprintf("text-special-%d", i))
		}
	}
	for i, txt := range c17BadTexts {
		var sc schema.Schema
		impl := "err"
		if err := sc.UnmarshalCedar([]byte(txt)); err == nil {
			impl = "ok " + vh.ShowSchemaAST(sc.AST())
		}
		c.Dist("bad-text:" + impl[:2])
		b.Add("schema-parse", map[string]any{"text": vh.Hex(txt)}, impl, fmt.Sprintf("bad-text-%d", i))
	}
	// identifiers near reserved words (vh/gen_c17b.go): one minimal schema and one hand-written text per (position, identifier)
	nOther := len(cases)
	cases = append(cases, c17NearReservedPass(c, b)...)
	var tNear time.Duration
	for i, cs := range cases {
		feat := featuresOf(cs.S)
		c.Dist("gen:" + strings.SplitN(cs.Tag, "-", 3)[0] + "-" + strings.SplitN(cs.Tag+"-", "-", 3)[1])
		t0 := time.Now()
		checkC17(c, cs.Tag, cs.S, feat)
		addSchemaCorrespondence(c, b, cs, true)
		if i >= nOther {
			tNear += time.Since(t0)
		}
	}
	c.Res.Notes = append(c.Res.Notes, fmt.Sprintf("near-reserved pass: %d (position, identifier) pairs, %.1fs in the Go codecs (driver lines excluded)", len(cases)-nOther, tNear.Seconds()))
	c.Sample(map[string]any{"schema": "entity Long; entity X { a: __cedar::Long-as-primitive-node };", "legs": "text, json, t2j, j2t"})
	finishSchemaCorrespondence(c, b)
	keys := make([]string, 0)
	for k := range c.Res.Distribution {
		if strings.HasPrefix(k, "fail:") {
			keys = append(keys, fmt.Sprintf("%s=%d", k, c.Res.Distribution[k]))
		}
	}
	sort.Strings(keys)
	c.Res.Notes = append(c.Res.Notes, "failures by class: "+strings.Join(keys, " "))
}
