package main

// C09 — correspondence for the CROSS-FORMAT theorems (C09_text_json_text, C09_json_text_json,
// C09_all_encodings_authorize_alike, C09_parser_output_json_renderable): the Lean driver op `c09-cross` runs the
// MODEL's pipelines
//
//	chain J:  p →json→ q1 →text→ q2 →json→ q3 →text→ q4        chain T:  p →text→ r1 →json→ r2 →text→ r3
//
// (→json→ = fromJ ∘ toJ, →text→ = parsePolicy ∘ pieceToks ∘ marshalPolicy) and this file runs Go's
// MarshalJSON / UnmarshalJSON / MarshalCedar / UnmarshalCedar through the same stages on the same generated policy.
// Every stage is rendered canonically (vh.ShowPolicyC09 / showPolicyC09); a refused stage is `err` and ends the chain.
// The model answers `skip` when a policy to be written as text lies outside the modelled domain of the marshaller.
// A disagreement is reported by runC09 as json-model-mismatch-c09-cross.

import (
	"fmt"
	"strings"

	publicast "github.com/cedar-policy/cedar-go/ast"
	"github.com/cedar-policy/cedar-go/x/exp/ast"
	"github.com/cedar-policy/cedar-go/x/exp/verifhooks"

	"verifharness/vh"
)

// c09JSONStage: MarshalJSON then UnmarshalJSON into a fresh receiver. out: nil = refused.
func c09JSONStage(p *ast.Policy) (q *ast.Policy, panicked bool) {
	if pn := vh.Protect(func() {
		jb, err := (*publicast.Policy)(p).MarshalJSON()
		if err != nil {
			return
		}
		var r publicast.Policy
		if err := r.UnmarshalJSON(jb); err != nil {
			return
		}
		q = (*ast.Policy)(&r)
	}); pn != nil {
		return nil, true
	}
	return q, false
}

// c09TextStage: MarshalCedar then UnmarshalCedar into a fresh receiver. scannable = Go's scanner accepts Go's own
// text (if it does not, the failure belongs to C08's oracle and the model, which hands tokens to its parser
// directly, has nothing to say about it).
func c09TextStage(p *ast.Policy) (q *ast.Policy, scannable, panicked bool) {
	scannable = true
	if pn := vh.Protect(func() {
		txt := (*publicast.Policy)(p).MarshalCedar()
		if _, err := verifhooks.C0708Tokenize(txt); err != nil {
			scannable = false
			return
		}
		var r publicast.Policy
		if err := r.UnmarshalCedar(txt); err != nil {
			return
		}
		q = (*ast.Policy)(&r)
	}); pn != nil {
		return nil, true, true
	}
	return q, scannable, false
}

// c09CrossImpl runs one chain on the implementation. stages: 'j' / 't'. ok = false: some text was not scannable.
// The second result lists the canonical renderings of the successful stages (for the direct oracle on witnesses).
func c09CrossImpl(p *ast.Policy, stages string) (out string, shows []string, ok bool) {
	var parts []string
	cur := p
	for _, st := range stages {
		var q *ast.Policy
		var panicked bool
		if st == 'j' {
			q, panicked = c09JSONStage(cur)
		} else {
			var scannable bool
			q, scannable, panicked = c09TextStage(cur)
			if !scannable {
				return "", nil, false
			}
		}
		switch {
		case panicked:
			parts = append(parts, string(st)+"=panic")
			return strings.Join(parts, " "), shows, true
		case q == nil:
			parts = append(parts, string(st)+"=err")
			return strings.Join(parts, " "), shows, true
		}
		s := vh.ShowPolicyC09(q)
		shows = append(shows, s)
		parts = append(parts, string(st)+"="+s)
		cur = q
	}
	return strings.Join(parts, " "), shows, true
}

var c09Chains = []struct{ name, stages string }{{"J", "jtjt"}, {"T", "tjt"}}

// c09Cross adds the two chains of one policy to the correspondence batch.
func c09Cross(c *vh.Ctx, b *vh.Batch, p *ast.Policy, tag string) {
	enc := vh.EncPolicy(p)
	for _, ch := range c09Chains {
		impl, shows, ok := c09CrossImpl(p, ch.stages)
		if !ok {
			c.Dist("cross-" + ch.name + ":go-text-not-scannable(left to C08)")
			continue
		}
		c.Dist(fmt.Sprintf("cross-%s:stages-completed=%d/%d", ch.name, len(shows), len(ch.stages)))
		idx := b.Add("c09-cross", map[string]any{"policy": enc, "chain": ch.name}, impl, tag+ch.name)
		c.Count(b.Key(idx), len(p.Conditions) > 0)
	}
}

// the non-vacuity example of the Lean theorems (`c09TextExample`, Properties/C09.lean) as Cedar text, and further
// texts exercising what JSON normalises (annotation / record order) and what it must leave alone.
var c09CrossWitnessTexts = []string{
	`@id("x") @a("b") permit (principal is User in Group::"g", action in [Action::"r", Action::"w"], resource == NS::Doc::"d")
	 when { context.s like "a*" && ip("10.0.0.1").isInRange(ip("10.0.0.0/8")) } unless { {"k": 1 + -2, "a": [1]} == context };`,
	`forbid (principal, action, resource) when { {z: 1, "a b": {y: true, b: decimal("1.5")}, m: [principal, -9223372036854775808]} has "a b" };`,
	`permit (principal in A::B::"x", action == Action::"a", resource is R) when { resource.n like "\*a*b\*" || context has a.b.c }
	 unless { if principal is A::B in A::"g" then -(-1) < 2 * 3 else context["k k"].isEmpty() };`,
	`permit (principal, action, resource) when { datetime("2024-01-01").toDate().durationSince(datetime("1970-01-01")) >= duration("1d2h") };`,
}

// c09CrossWitnesses replays the theorems' example on the Go code: on the text fragment every stage of both chains
// must succeed and give the same policy up to the JSON identifications (which the canonical rendering removes), i.e.
// all renderings of a chain are equal, and chain T starts with the parsed policy itself.
func c09CrossWitnesses(c *vh.Ctx, b *vh.Batch) {
	for i, txt := range c09CrossWitnessTexts {
		c.Res.OracleChecks++
		var p0 publicast.Policy
		var perr error
		if pn := vh.Protect(func() { perr = p0.UnmarshalCedar([]byte(txt)) }); pn != nil || perr != nil {
			c.Report(vh.Finding{Class: "witness-drift", What: fmt.Sprintf("cross-format witness %d does not parse: %v / panic %v", i, perr, pn), Check: "oracle", Op: "c09-cross", Input: txt})
			continue
		}
		p := (*ast.Policy)(&p0)
		want := vh.ShowPolicyC09(p)
		for _, ch := range c09Chains {
			out, shows, ok := c09CrossImpl(p, ch.stages)
			bad := !ok || len(shows) != len(ch.stages)
			for _, s := range shows {
				if s != want {
					bad = true
				}
			}
			if bad {
				c.Report(vh.Finding{Class: "witness-drift", What: fmt.Sprintf("cross-format witness %d, chain %s: C09_text_json_text / C09_json_text_json say every stage succeeds and returns the parsed policy up to the JSON identifications; Go gives %q", i, ch.name, out),
					Check: "oracle", Op: "c09-cross", Input: txt, Expected: want, Actual: out})
			}
		}
		c09Cross(c, b, p, "witness")
	}
}
