package main

// C12 — exact, canonical text forms of scalar and extension values.
//
// Three layers, all on the real Go code:
//   (a) correspondence of the Lean model's parsers / printers / NewDecimal with types.Parse*, String(), NewDecimal
//       (ops parse-*, print-*, new-decimal, civil, days);
//   (b) an independent specification of the documented literal syntax and range (regular expressions + math/big,
//       own calendar and IP recognisers) against types.Parse* on every literal and every string within edit
//       distance 1 of a pool of valid literals;
//   (c) direct oracles: print→parse round trip of every generated value of every type, MarshalCedar → policy
//       parser → evaluator gives an Equal value, constructor exactness against math/big, whole-era calendar sweep.
// Each genuine defect has a narrow class computed next to the oracle that can produce it.

import (
	"fmt"
	"math"
	"math/big"
	"net/netip"
	"regexp"
	"strconv"
	"strings"
	"time"
	"unicode/utf8"

	cedar "github.com/cedar-policy/cedar-go"
	"github.com/cedar-policy/cedar-go/types"
	"github.com/cedar-policy/cedar-go/x/exp/eval"

	"verifharness/vh"
)

func init() { props["C12"] = runC12 }

// ---------------------------------------------------------------------------------------------
// finding classes (each has an entry in known_findings.json; anything else is a VIOLATION)

const (
	clsNewDecimalWrap   = "newdecimal-positive-exponent-wrap"
	clsDecimalPlus      = "parsedecimal-leading-plus"
	clsFloatBoundary    = "decimal-from-float-boundary-wrap"
	clsFloatNaN         = "decimal-from-float-nan"
	clsDurationMin      = "duration-minint64-no-roundtrip"
	clsDateOnlyRange    = "datetime-dateonly-no-range-check"
	clsDatetimeMinConst = "datetime-min-constant-off-by-one-day"
	clsIPZone           = "ip-zone-accepted"
	clsIP4in6           = "ip-4in6-print-unparseable"
	clsStringFFFD       = "string-replacement-char-unparseable"
	clsRecordKeyQuote   = "record-key-go-quote"
	clsGoDurationWrap   = "duration-to-go-duration-wrap"
)

var (
	bigMin = big.NewInt(math.MinInt64)
	bigMax = big.NewInt(math.MaxInt64)
	two63  = new(big.Int).Lsh(big.NewInt(1), 63)
)

func inI64(z *big.Int) bool { return z.Cmp(bigMin) >= 0 && z.Cmp(bigMax) <= 0 }

// ---------------------------------------------------------------------------------------------
// independent specification of the documented literal forms (value as *big.Int, never wrapped)

type specRes struct {
	syntax bool     // matches the documented grammar (incl. calendar validity / field maxima)
	val    *big.Int // exact value when syntax holds
	dateOnly bool
}

func (r specRes) ok() bool { return r.syntax && inI64(r.val) }

var reDecimal = regexp.MustCompile(`^(-?)([0-9]+)\.([0-9]{1,4})$`)

// decimal: -?[0-9]+\.[0-9]{1,4}, value in ten-thousandths
func specDecimal(s string) specRes {
	m := reDecimal.FindStringSubmatch(s)
	if m == nil {
		return specRes{}
	}
	ip, _ := new(big.Int).SetString(m[2], 10)
	fs := m[3] + strings.Repeat("0", 4-len(m[3]))
	fp, _ := new(big.Int).SetString(fs, 10)
	v := new(big.Int).Mul(ip, big.NewInt(10000))
	v.Add(v, fp)
	if m[1] == "-" {
		v.Neg(v)
	}
	return specRes{syntax: true, val: v}
}

var reDuration = regexp.MustCompile(`^(-?)(?:([0-9]+)d)?(?:([0-9]+)h)?(?:([0-9]+)m)?(?:([0-9]+)s)?(?:([0-9]+)ms)?$`)

// duration: -?(Nd)?(Nh)?(Nm)?(Ns)?(Nms)?, at least one component, total milliseconds
func specDuration(s string) specRes {
	m := reDuration.FindStringSubmatch(s)
	if m == nil {
		return specRes{}
	}
	mult := []int64{86400000, 3600000, 60000, 1000, 1}
	total := new(big.Int)
	any := false
	for i := 0; i < 5; i++ {
		if m[2+i] == "" {
			continue
		}
		any = true
		q, _ := new(big.Int).SetString(m[2+i], 10)
		total.Add(total, q.Mul(q, big.NewInt(mult[i])))
	}
	if !any {
		return specRes{}
	}
	if m[1] == "-" {
		total.Neg(total)
	}
	return specRes{syntax: true, val: total}
}

var reDatetime = regexp.MustCompile(`^([+-][0-9]{9}|[0-9]{4})-([0-9]{2})-([0-9]{2})(?:T([0-9]{2}):([0-9]{2}):([0-9]{2})(?:\.([0-9]{3}))?(Z|[+-][0-9]{4}))?$`)

func floorDiv(a, b int64) int64 {
	q := a / b
	if (a%b != 0) && ((a < 0) != (b < 0)) {
		q--
	}
	return q
}

func specLeap(y int64) bool { return (y%4 == 0 && y%100 != 0) || y%400 == 0 }

var cumDays = []int64{0, 31, 59, 90, 120, 151, 181, 212, 243, 273, 304, 334}
var monthLen = []int64{31, 28, 31, 30, 31, 30, 31, 31, 30, 31, 30, 31}

// days since 1970-01-01 by counting leap years directly (not Hinnant's algorithm, which the model uses)
func specDays(y, m, d int64) int64 {
	p := y - 1
	n := 365*p + floorDiv(p, 4) - floorDiv(p, 100) + floorDiv(p, 400) // days from 0001-01-01 to y-01-01
	n += cumDays[m-1]
	if m > 2 && specLeap(y) {
		n++
	}
	return n + d - 1 - 719162
}

func specDatetime(s string) specRes {
	m := reDatetime.FindStringSubmatch(s)
	if m == nil {
		return specRes{}
	}
	atoi := func(x string) int64 { n, _ := strconv.ParseInt(x, 10, 64); return n }
	y := atoi(strings.TrimPrefix(m[1], "+"))
	mo, d := atoi(m[2]), atoi(m[3])
	if mo < 1 || mo > 12 || d < 1 {
		return specRes{}
	}
	ml := monthLen[mo-1]
	if mo == 2 && specLeap(y) {
		ml = 29
	}
	if d > ml {
		return specRes{}
	}
	ms := new(big.Int).Mul(big.NewInt(specDays(y, mo, d)), big.NewInt(86400000))
	if m[4] == "" {
		return specRes{syntax: true, val: ms, dateOnly: true}
	}
	hh, mi, ss := atoi(m[4]), atoi(m[5]), atoi(m[6])
	if hh > 23 || mi > 59 || ss > 59 {
		return specRes{}
	}
	var frac int64
	if m[7] != "" {
		frac = atoi(m[7])
	}
	var off int64
	if m[8] != "Z" {
		oh, om := atoi(m[8][1:3]), atoi(m[8][3:5])
		if oh > 23 || om > 59 {
			return specRes{}
		}
		off = (oh*60 + om) * 60000
		if m[8][0] == '-' {
			off = -off
		}
	}
	ms.Add(ms, big.NewInt(hh*3600000+mi*60000+ss*1000+frac-off))
	return specRes{syntax: true, val: ms}
}

// ip: dotted quad without leading zeros, or RFC 4291 hex groups with at most one "::" (no embedded IPv4,
// no zone), optionally "/" prefix length without leading zeros.  Canonical result "4|6 addr bits".
func specIP(s string) (string, bool) {
	addr, bitsStr, hasPrefix := s, "", false
	if i := strings.LastIndexByte(s, '/'); i >= 0 {
		addr, bitsStr, hasPrefix = s[:i], s[i+1:], true
	}
	var val *big.Int
	fam, maxBits := "4", 32
	if v, ok := specV4(addr); ok {
		val = v
	} else if v, ok := specV6(addr); ok {
		val, fam, maxBits = v, "6", 128
	} else {
		return "", false
	}
	bits := maxBits
	if hasPrefix {
		if bitsStr == "" || len(bitsStr) > 3 || (len(bitsStr) > 1 && bitsStr[0] == '0') {
			return "", false
		}
		for _, ch := range []byte(bitsStr) {
			if ch < '0' || ch > '9' {
				return "", false
			}
		}
		bits, _ = strconv.Atoi(bitsStr)
		if bits > maxBits {
			return "", false
		}
	}
	return fmt.Sprintf("%s %s %d", fam, val.String(), bits), true
}

func specV4(s string) (*big.Int, bool) {
	parts := strings.Split(s, ".")
	if len(parts) != 4 {
		return nil, false
	}
	v := new(big.Int)
	for _, p := range parts {
		if p == "" || len(p) > 3 || (len(p) > 1 && p[0] == '0') {
			return nil, false
		}
		n := 0
		for _, ch := range []byte(p) {
			if ch < '0' || ch > '9' {
				return nil, false
			}
			n = n*10 + int(ch-'0')
		}
		if n > 255 {
			return nil, false
		}
		v.Lsh(v, 8).Add(v, big.NewInt(int64(n)))
	}
	return v, true
}

func specV6(s string) (*big.Int, bool) {
	groupsOf := func(t string) ([]int64, bool) {
		if t == "" {
			return nil, true
		}
		var out []int64
		for _, g := range strings.Split(t, ":") {
			if g == "" || len(g) > 4 {
				return nil, false
			}
			n, err := strconv.ParseUint(g, 16, 32)
			if err != nil || strings.ContainsAny(g, "+-_") {
				return nil, false
			}
			out = append(out, int64(n))
		}
		return out, true
	}
	var gs []int64
	if i := strings.Index(s, "::"); i >= 0 {
		if strings.Contains(s[i+1:], "::") {
			return nil, false
		}
		l, ok1 := groupsOf(s[:i])
		r, ok2 := groupsOf(s[i+2:])
		if !ok1 || !ok2 || len(l)+len(r) > 7 {
			return nil, false
		}
		gs = append(gs, l...)
		for k := 0; k < 8-len(l)-len(r); k++ {
			gs = append(gs, 0)
		}
		gs = append(gs, r...)
	} else {
		g, ok := groupsOf(s)
		if !ok || len(g) != 8 {
			return nil, false
		}
		gs = g
	}
	v := new(big.Int)
	for _, g := range gs {
		v.Lsh(v, 16).Add(v, big.NewInt(g))
	}
	return v, true
}

// ---------------------------------------------------------------------------------------------
// implementation runners (canonical outputs shared with the Lean driver)

func showI(v int64, err error) string {
	if err != nil {
		return "err"
	}
	return "ok " + strconv.FormatInt(v, 10)
}

func implParse(typ, s string) (out string) {
	if p := vh.Protect(func() {
		switch typ {
		case "decimal":
			d, err := types.ParseDecimal(s)
			out = showI(types.VerifDecimalRaw(d), err)
		case "duration":
			d, err := types.ParseDuration(s)
			out = showI(d.ToMilliseconds(), err)
		case "datetime":
			d, err := types.ParseDatetime(s)
			out = showI(d.Milliseconds(), err)
		case "long":
			n, err := strconv.ParseInt(s, 10, 64)
			out = showI(n, err)
		case "ip":
			ip, err := types.ParseIPAddr(s)
			if err != nil {
				out = "err"
			} else {
				is6, addr, bits, _ := vh.IPParts(ip)
				f := "4"
				if is6 {
					f = "6"
				}
				out = fmt.Sprintf("ok %s %s %d", f, addr, bits)
			}
		}
	}); p != nil {
		out = fmt.Sprintf("panic %v", p)
	}
	return out
}

var c12Env = eval.Env{Entities: types.EntityMap{}, Principal: types.NewEntityUID("User", "a"), Action: types.NewEntityUID("Action", "a"),
	Resource: types.NewEntityUID("Doc", "a"), Context: types.NewRecord(nil)}

// evalRendered parses `src` as a Cedar expression through the policy parser and evaluates it.
func evalRendered(src []byte) (v types.Value, err error) {
	if p := vh.Protect(func() {
		var pol cedar.Policy
		text := append(append([]byte("permit(principal,action,resource) when { "), src...), []byte(" };")...)
		if e := pol.UnmarshalCedar(text); e != nil {
			err = fmt.Errorf("parse: %w", e)
			return
		}
		a := pol.AST()
		if len(a.Conditions) != 1 {
			err = fmt.Errorf("parse: %d conditions", len(a.Conditions))
			return
		}
		v, err = eval.Eval(a.Conditions[0].Body, c12Env)
	}); p != nil {
		err = fmt.Errorf("panic: %v", p)
	}
	return v, err
}

// ---------------------------------------------------------------------------------------------

type c12run struct {
	c       *vh.Ctx
	b       *vh.Batch
	seenLit map[string]bool
	// share of generated cases inside the domain of the `_partial` theorems
	durAll, durProved, dtAll, dtProved, ndAll, ndProved int
}

func (x *c12run) report(cls, what, check, op string, input any, expected, actual any) {
	x.c.Report(vh.Finding{Class: cls, What: what, Check: check, Op: op, Input: input, Expected: expected, Actual: actual})
}

// literal runs one string through the Go parser of `typ`, the specification and (as a batch line) the model.
func (x *c12run) literal(typ, s, origin string) {
	key := typ + "\x00" + s
	if x.seenLit[key] {
		return
	}
	x.seenLit[key] = true
	c := x.c
	impl := implParse(typ, s)
	c.Res.OracleChecks++
	c.Dist("lit:" + typ + ":" + origin + ":" + impl[:2])
	// (b) specification oracle
	switch typ {
	case "decimal":
		sp := specDecimal(s)
		want := "err"
		if sp.ok() {
			want = "ok " + sp.val.String()
		}
		if impl != want {
			cls := "decimal-parse-spec-mismatch"
			if strings.HasPrefix(s, "+") && strings.HasPrefix(impl, "ok") {
				if r := specDecimal(s[1:]); r.ok() && !strings.HasPrefix(s[1:], "-") && impl == "ok "+r.val.String() {
					cls = clsDecimalPlus
				}
			}
			x.report(cls, fmt.Sprintf("ParseDecimal(%q) = %s, documented syntax/range gives %s", s, impl, want), "oracle", "parse-decimal", s, want, impl)
		}
	case "duration":
		sp := specDuration(s)
		want := "err"
		if sp.ok() {
			want = "ok " + sp.val.String()
		}
		if impl != want {
			cls := "duration-parse-spec-mismatch"
			if sp.ok() && sp.val.Cmp(bigMin) == 0 && impl == "err" {
				cls = clsDurationMin
			}
			x.report(cls, fmt.Sprintf("ParseDuration(%q) = %s, documented syntax/range gives %s", s, impl, want), "oracle", "parse-duration", s, want, impl)
		}
	case "datetime":
		sp := specDatetime(s)
		want := "err"
		if sp.ok() {
			want = "ok " + sp.val.String()
		}
		if impl != want {
			cls := "datetime-parse-spec-mismatch"
			firstDayEnd := new(big.Int).Add(bigMin, big.NewInt(86400000))
			switch {
			case sp.syntax && sp.dateOnly && !inI64(sp.val) && strings.HasPrefix(impl, "ok"):
				cls = clsDateOnlyRange
			case sp.ok() && !sp.dateOnly && sp.val.Cmp(firstDayEnd) < 0 && impl == "err":
				cls = clsDatetimeMinConst
			}
			x.report(cls, fmt.Sprintf("ParseDatetime(%q) = %s, documented syntax/range gives %s", s, impl, want), "oracle", "parse-datetime", s, want, impl)
		}
	case "ip":
		sp, ok := specIP(s)
		want := "err"
		if ok {
			want = "ok " + sp
		}
		if impl != want {
			cls := "ip-parse-spec-mismatch"
			if strings.Contains(s, "%") && strings.HasPrefix(impl, "ok") {
				cls = clsIPZone
			}
			x.report(cls, fmt.Sprintf("ParseIPAddr(%q) = %s, documented syntax gives %s", s, impl, want), "oracle", "parse-ip", s, want, impl)
		}
	case "long":
		// strconv is the reference here; the model's parseInt64 is tied by correspondence only
	}
	// (a) correspondence line
	if utf8.ValidString(s) {
		idx := x.b.Add("parse-"+typ, map[string]any{"s": vh.Hex(s)}, impl, typ+"|"+s)
		c.Count(x.b.Key(idx), len(s) > 0)
	} else {
		c.Count(key, true)
	}
}

// edits1 yields every string within edit distance 1 of s over alphabet (insert, delete, substitute).
func edits1(s string, alphabet []string, f func(string)) {
	for i := 0; i < len(s); i++ {
		f(s[:i] + s[i+1:])
	}
	for i := 0; i <= len(s); i++ {
		for _, a := range alphabet {
			f(s[:i] + a + s[i:])
		}
	}
	for i := 0; i < len(s); i++ {
		for _, a := range alphabet {
			if a != s[i:i+1] {
				f(s[:i] + a + s[i+1:])
			}
		}
	}
}

func splitAlphabet(s string) []string {
	var out []string
	for _, r := range s {
		out = append(out, string(r))
	}
	return out
}

// ---------------------------------------------------------------------------------------------
// value tables

func pow10(k int) int64 {
	v := int64(1)
	for i := 0; i < k; i++ {
		v *= 10
	}
	return v
}

// int64Table: every power of ten \u00b11 (both signs), the \u00b12^63 neighbourhood, powers of two, unit multiples.
func int64Table() []int64 {
	set := map[int64]bool{}
	add := func(v int64) { set[v] = true }
	for k := 0; k <= 18; k++ {
		p := pow10(k)
		for _, d := range []int64{-2, -1, 0, 1, 2} {
			add(p + d)
			add(-p + d)
		}
		for _, m := range []int64{2, 5, 9} {
			if p <= math.MaxInt64/m {
				add(p * m)
				add(-p * m)
				add(p*m - 1)
				add(-p*m + 1)
			}
		}
	}
	for d := int64(0); d < 6; d++ {
		add(math.MaxInt64 - d)
		add(math.MinInt64 + d)
	}
	for k := uint(0); k < 63; k++ {
		add(1 << k)
		add(-(1 << k))
		add(1<<k - 1)
	}
	for _, u := range []int64{1000, 60000, 3600000, 86400000} {
		for _, q := range []int64{1, 2, 59, 60, 61, 999, 1000, 1001, math.MaxInt64 / u, math.MaxInt64/u - 1} {
			add(q * u)
			add(-q * u)
			add(q*u + 1)
			add(q*u - 1)
			add(-q*u - 1)
		}
	}
	// every fractional digit count
	for _, v := range []int64{10000, 12000, 12300, 12340, 12345, 1, 10, 100, 1000, 9, 90, 900, 9000, 9999, 5000, 500, 50, 5, 10001, 10010, 10100, 11000,
		9223372036854770000, 9223372036854775000, 9223372036854775800, 9223372036854775807} {
		add(v)
		add(-v)
	}
	out := make([]int64, 0, len(set))
	for v := range set {
		out = append(out, v)
	}
	// deterministic order
	sortInt64(out)
	return out
}

func sortInt64(a []int64) {
	for i := 1; i < len(a); i++ { // small tables; insertion sort keeps this dependency-free
		for j := i; j > 0 && a[j] < a[j-1]; j-- {
			a[j], a[j-1] = a[j-1], a[j]
		}
	}
}

func randInt64(c *vh.Ctx) int64 {
	switch c.Rng.Intn(4) {
	case 0:
		return int64(c.Rng.Uint64())
	case 1:
		return int64(c.Rng.Uint64()) >> uint(c.Rng.Intn(64))
	case 2:
		return int64(c.Rng.Intn(2000001)) - 1000000
	default:
		return c.Rng.Int63n(400000000000000) - 200000000000000
	}
}

// datetimeMillisTable: epoch, leap days 1600/1900/2000/2024, year 0/-1/9999/10000, \u00b12922xxxxx edges, first/last days.
func datetimeMillisTable() []int64 {
	var out []int64
	day := int64(86400000)
	addDay := func(y, m, d int64) {
		z := specDays(y, m, d)
		for _, off := range []int64{0, 1, day - 1, day / 2, 43200001, 3723004} {
			out = append(out, z*day+off)
		}
		out = append(out, z*day-1)
	}
	for _, ymd := range [][3]int64{{1970, 1, 1}, {1969, 12, 31}, {1600, 2, 29}, {1600, 3, 1}, {1900, 2, 28}, {1900, 3, 1}, {2000, 2, 29}, {2000, 3, 1}, {2024, 2, 29}, {2024, 3, 1}, {2023, 2, 28},
		{0, 1, 1}, {0, 2, 29}, {0, 12, 31}, {-1, 1, 1}, {-1, 12, 31}, {1, 1, 1}, {9999, 12, 31}, {10000, 1, 1}, {999, 12, 31}, {1000, 1, 1}, {-4, 2, 29}, {-100, 3, 1}, {-400, 2, 29},
		{99999, 12, 31}, {100000, 1, 1}, {-99999, 1, 1}, {292278994, 8, 16}, {292278994, 1, 1}, {292278993, 12, 31}, {-292275055, 5, 18}, {-292275055, 12, 31}, {-292275054, 1, 1},
		{100000000, 1, 1}, {99999999, 12, 31}, {-100000000, 1, 1}, {-99999999, 12, 31}} {
		addDay(ymd[0], ymd[1], ymd[2])
	}
	for d := int64(0); d < 4; d++ {
		out = append(out, math.MaxInt64-d, math.MinInt64+d, math.MinInt64+day-1-d, math.MinInt64+day+d, math.MinInt64+2*day+d, math.MaxInt64-day-d, math.MaxInt64-day+1+d)
	}
	out = append(out, math.MinInt64+day/2, math.MaxInt64-day/2)
	return out
}

// ---------------------------------------------------------------------------------------------
// literal pools (valid literals whose edit-distance-1 neighbourhood is enumerated)

var c12DecimalLits = []string{"0.0", "1.0", "-1.0", "1.5", "-0.5", "0.0001", "-0.0001", "1.2345", "12.34", "123.456", "00.10", "1.0000", "-0.0", "10.01", "99.99", "100.0",
	"922337203685477.5807", "-922337203685477.5808", "922337203685477.5806", "-922337203685477.5807", "922337203685477.0", "922337203685476.9999", "92233720368547.7580",
	"9.9", "0.9999", "-9999.9999", "1234567.89", "0000000000000000000001.5", "-000.000", "5.05", "7.007", "8.0008", "3.1", "3.14", "3.141", "3.1415", "-2.5", "42.42", "1000000.0001", "0.5"}

var c12DecimalExtra = []string{"+1.5", "+0.0", "+922337203685477.5807", "+922337203685477.5808", "1", "1.", ".5", "-.5", "1.-5", "1.+5", "1.23456", "1.00000", "922337203685477.5808", "-922337203685477.5809",
	"922337203685478.0", "-922337203685478.0", "9223372036854775807.0", "9223372036854775808.0", "-9223372036854775809.0", "1e3", "1.5e3", "0x1.8", "١.٥", "1.５", "--1.0", "+-1.0", "-+1.0", "1..5", "1.5.", "", ".", "-", "+", "-.", " 1.5", "1.5 ", "1 .5", "1_0.5", "1.0_1", "NaN", "Inf", "1.65535", "1.65536", "0.99999"}

var c12DurationLits = []string{"0ms", "1ms", "1s", "1m", "1h", "1d", "1d2h3m4s5ms", "-1d", "-1d2h3m4s5ms", "10m5ms", "1h30m", "2d12h", "1d1ms", "1h1s", "90m", "25h", "1000ms", "61s", "3s999ms",
	"9223372036854775807ms", "-9223372036854775807ms", "106751991167d", "106751991167d7h12m55s807ms", "-106751991167d7h12m55s807ms", "2562047788015h", "153722867280912m", "9223372036854775s", "9223372036854775s807ms",
	"0d0h0m0s0ms", "00001d", "1d0ms", "5m5s", "12h", "7d", "365d", "1s1ms", "23h59m59s999ms", "-23h59m59s999ms", "100d", "1m1ms", "0d", "0s", "-0ms", "99h99m", "1d23h"}

var c12DurationExtra = []string{"-9223372036854775808ms", "9223372036854775808ms", "-9223372036854775809ms", "106751991168d", "-106751991168d", "106751991167d7h12m55s808ms", "-106751991167d7h12m55s808ms", "-106751991167d7h12m55s809ms",
	"2562047788016h", "153722867280913m", "9223372036854776s", "9223372036854775s808ms", "1h1d", "1s1s", "1ms1s", "1ms1ms", "1", "ms", "", "-", "d", "1x", "1D", "1 d", "1d ", " 1d", "+1d", "--1d", "1d-1h", "1.5h", "1m s", "１s", "٣s", "1dd", "1msms", "1sm", "1hms", "99999999999999999999d", "18446744073709551616ms", "1w", "1y", "1us", "1ns", "1d2d", "-", "-ms", "-0", "0"}

var c12DatetimeLits = []string{"2024-01-01", "2024-02-29", "2000-02-29", "1600-02-29", "1970-01-01", "1969-12-31", "0000-01-01", "0000-02-29", "9999-12-31", "0001-01-01", "2024-12-31", "2023-02-28",
	"1970-01-01T00:00:00Z", "1969-12-31T23:59:59.999Z", "2024-01-01T12:34:56Z", "2024-01-01T12:34:56.789Z", "2024-02-29T23:59:59.999Z", "2024-01-01T12:34:56+0130", "2024-01-01T12:34:56-2359",
	"2024-01-01T12:34:56.000+0000", "2024-01-01T00:00:00.000-0000", "2024-01-01T23:59:59.999+2359", "9999-12-31T23:59:59.999Z", "0000-01-01T00:00:00.000Z", "9999-12-31T23:59:59-2359", "0000-01-01T00:00:00+2359",
	"+000010000-01-01T00:00:00.000Z", "-000000001-12-31T23:59:59.999Z", "+000002024-01-01", "-000000400-02-29", "+000010000-01-01", "-000000001-01-01", "+292278994-08-17T07:12:55.807Z", "+292278994-08-17",
	"-292275055-05-17T16:47:04.192Z", "-292275055-05-18", "-292275055-05-18T00:00:00Z", "+292278994-08-16T23:59:59.999Z", "+292278994-08-17T08:12:55.807+0100", "-292275055-05-17T15:47:04.192-0100",
	"+100000000-06-15T10:20:30.400Z", "-100000000-06-15T10:20:30.400+0530", "1900-02-28T10:00:00Z", "2100-02-28", "2400-02-29", "1999-12-31T23:59:59Z", "2000-01-01T00:00:00Z", "2024-06-30T12:00:00.500-0700", "2024-10-31", "2024-04-30", "2024-11-30T01:02:03.004Z"}

var c12DatetimeExtra = []string{"2023-02-29", "1900-02-29", "2100-02-29", "2024-13-01", "2024-00-10", "2024-01-00", "2024-01-32", "2024-04-31", "2024-06-31", "2024-09-31", "2024-11-31", "2024-02-30",
	"2024-01-01T24:00:00Z", "2024-01-01T12:60:00Z", "2024-01-01T12:00:60Z", "2024-01-01T12:00:00", "2024-01-01T12:00:00.1Z", "2024-01-01T12:00:00.12Z", "2024-01-01T12:00:00.1234Z", "2024-01-01 12:00:00Z", "2024-1-1", "24-01-01",
	"2024-01-01T12:00:00+2400", "2024-01-01T12:00:00+0060", "2024-01-01T12:00:00ZZ", "", "x", "2024-01-01T", "2024-01-01T12", "2024-01-01T12:00", "2024-01-01T12:00:00+01", "2024-01-01T12:00:00+01:00", "2024-01-01t12:00:00z",
	"+999999999-12-31", "-999999999-01-01", "+999999999-12-31T23:59:59.999Z", "-999999999-01-01T00:00:00.000Z", "+292278994-08-18", "+292278995-01-01", "+292279000-01-01", "+300000000-01-01", "-292275055-05-16", "-292275055-05-15", "-292275056-12-31", "-300000000-01-01",
	"+292278994-08-17T07:12:55.808Z", "+292278994-08-17T07:12:55.807-0001", "+292278994-08-17T08:12:55.808+0100", "-292275055-05-16T16:47:04.192Z", "-292275055-05-16T16:47:04.191Z", "-292275055-05-16T16:47:04.193Z", "-292275055-05-16T23:59:59.999Z",
	"-292275055-05-17T00:00:00.000Z", "-292275055-05-17T16:47:04.191Z", "-292275055-05-17", "-292275055-05-17T00:00:00+0001", "-292275055-05-16T16:47:04.192+0000", "-292275055-05-16T17:47:04.192+0100", "-292275055-05-16T16:46:04.192-0001",
	"+00002024-01-01", "+0000002024-01-01", "-2024-01-01", "+2024-01-01", "02024-01-01", "20240-01-01", "10000-01-01", "٢٠٢٤-01-01", "2024-01-01T00:00:00.000Z ", " 2024-01-01", "2024-01-01Z", "2024-01-01+0000", "-000000000-01-01", "+000000000-01-01"}

var c12IPLits = []string{"127.0.0.1", "10.0.0.1", "0.0.0.0", "255.255.255.255", "1.2.3.4", "192.168.1.0/24", "10.0.0.0/8", "0.0.0.0/0", "1.2.3.4/32", "224.0.0.0/4", "100.200.30.9/31", "9.9.9.9/1",
	"::", "::1", "1::", "::/0", "::1/128", "::1/127", "ff00::/8", "fe80::1", "2001:db8::/32", "2001:db8::1", "1:2:3:4:5:6:7:8", "1:2:3:4:5:6:7:8/64", "::ffff:7f00:1", "::ffff:102:304/120", "1::8", "1:2::7:8", "1:2:3:4:5:6:7::", "::2:3:4:5:6:7:8",
	"abcd:ef01:2345:6789:abcd:ef01:2345:6789", "ABCD:EF01::", "0:0:0:0:0:0:0:0", "0000:0000::0001", "a::b/9", "fe80::/10", "::ffff:0:0/96", "64:ff9b::/96", "1:0:0:2::3", "ffff:ffff:ffff:ffff:ffff:ffff:ffff:ffff/128"}

var c12IPExtra = []string{"fe80::1%eth0", "fe80::1%eth0/64", "::1%1", "fe80::%", "1.2.3.4%eth0", "::ffff:1.2.3.4", "::ffff:127.0.0.1/104", "1:2:3:4:5:6:1.2.3.4", "::1.2.3.4", "1.2.3", "1.2.3.4.5", "01.2.3.4", "1.2.3.04", "256.1.1.1", "1.2.3.4/33", "1.2.3.4/032", "1.2.3.4/+8", "1.2.3.4/",
	"::/129", "::/0128", ":::", "1:::2", "1::2::3", "1:2:3:4:5:6:7:8:9", "1:2:3:4:5:6:7", "12345::", "g::", ":1", "1:", "", "/", "/8", "1.2.3.4/8/8", "1.2.3.4 ", " ::1", "0x1.2.3.4", "1.2.3.-4", "::-1", "1.2.3.4/-1", "::/١", "１.2.3.4", "1::2:3:4:5:6:7:8", "::1:2:3:4:5:6:7:8", "1:2:3:4:5:6:7::8"}

// ---------------------------------------------------------------------------------------------

func runC12(c *vh.Ctx) {
	x := &c12run{c: c, b: &vh.Batch{}, seenLit: map[string]bool{}}
	c.Res.Rule = "(a) correspondence of the Lean model (parse-*/print-*/new-decimal/civil/days) with types.Parse*/String()/NewDecimal; (b) an independent specification (documented grammar as regexps + math/big values, own leap-year calendar, own IP recogniser) against types.Parse* on boundary literals and EVERY string within edit distance 1 (insert/delete/substitute over the type's alphabet) of 40-50 valid literals per type; (c) direct oracles on Go: print->parse round trip of every generated decimal/duration/datetime/ip/long/string/entity UID, MarshalCedar -> policy parser -> Eval gives an Equal value (scalars, sets, records), NewDecimal/NewDecimalFromInt/NewDecimalFromFloat against math/big, one whole 400-year era day by day against Go time. distinct = distinct (op,input) lines; non-trivial = non-empty input"
	x.values()
	x.literals()
	x.constructors()
	x.stringsAndUIDs()
	x.composite()
	x.eraSweep()
	x.replayWitnesses()

	c.Res.Notes = append(c.Res.Notes, fmt.Sprintf("share of generated cases inside the domain of the _partial theorems: duration round trip %d/%d, datetime round trip %d/%d, NewDecimal exactness %d/%d",
		x.durProved, x.durAll, x.dtProved, x.dtAll, x.ndProved, x.ndAll))
	ds, _, err := c.Correspond(x.b)
	if err != nil {
		c.Report(vh.Finding{Class: "driver-failure", What: err.Error(), Check: "correspondence", Op: "c12", NoInput: true})
		return
	}
	for i, d := range ds {
		if i < 3 {
			c.Sample(map[string]any{"disagreement": d.Line.Payload(), "op": d.Line.Op, "impl": d.Line.Impl, "model": d.Model})
		}
		cls := "c12-model-mismatch-" + d.Line.Op
		if d.Line.Op == "parse-ip" && strings.Contains(d.Line.Tag, "%") && strings.HasPrefix(d.Line.Impl, "ok") && d.Model == "err" {
			cls = clsIPZone // the model rejects zones; cedar-go accepts them
		}
		c.Report(vh.Finding{Class: cls, What: fmt.Sprintf("%s disagreement on %q: impl=%q model=%q", d.Line.Op, d.Line.Tag, d.Line.Impl, d.Model),
			Check: "correspondence", Op: d.Line.Op, Input: d.Line.Payload(), Expected: d.Model, Actual: d.Line.Impl})
	}
	// generator self-test: the literal stream must contain a healthy share of accepted strings per type
	for _, typ := range []string{"decimal", "duration", "datetime", "ip"} {
		okN, errN := 0, 0
		for k, v := range c.Res.Distribution {
			if strings.HasPrefix(k, "lit:"+typ+":") {
				if strings.HasSuffix(k, ":ok") {
					okN += v
				} else {
					errN += v
				}
			}
		}
		if okN == 0 || errN == 0 || okN*100 < (okN+errN)*2 {
			c.Report(vh.Finding{Class: "generator-collapse", What: fmt.Sprintf("literal stream for %s collapsed: %d accepted, %d rejected", typ, okN, errN), Check: "self-test", NoInput: true})
		}
	}
}

// values: print→parse round trip, canonical form, MarshalCedar→eval, and model print correspondence.
func (x *c12run) values() {
	c := x.c
	tbl := int64Table()
	nRand := c.N(3000, 200000)

	// ---- decimal ----
	decs := append([]int64{}, tbl...)
	for i := 0; i < nRand; i++ {
		decs = append(decs, randInt64(c))
	}
	for i, raw := range decs {
		d := types.VerifDecimalFromRaw(raw)
		var s string
		if p := vh.Protect(func() { s = d.String() }); p != nil {
			x.report("decimal-print-panic", fmt.Sprintf("Decimal(%d).String() panics: %v", raw, p), "oracle", "print-decimal", raw, nil, nil)
			continue
		}
		idx := x.b.Add("print-decimal", map[string]any{"raw": strconv.FormatInt(raw, 10)}, vh.Hex(s), s)
		c.Count(x.b.Key(idx), true)
		c.Dist("value:decimal")
		c.Res.OracleChecks++
		// canonical: the printed form is a documented literal with the exact value
		if sp := specDecimal(s); !sp.ok() || sp.val.Int64() != raw {
			x.report("decimal-print-not-canonical", fmt.Sprintf("Decimal(%d).String() = %q is not a documented literal of that value", raw, s), "oracle", "print-decimal", raw, nil, s)
		}
		if got := implParse("decimal", s); got != "ok "+strconv.FormatInt(raw, 10) {
			x.report("decimal-roundtrip", fmt.Sprintf("ParseDecimal(Decimal(%d).String()=%q) = %s", raw, s, got), "oracle", "roundtrip-decimal", raw, raw, got)
		}
		x.literal("decimal", s, "printed")
		if i < len(tbl) || i%4 == 0 {
			x.evalEqual(d, "")
		}
	}

	// ---- duration ----
	durs := append([]int64{}, tbl...)
	durs = append(durs, vh.BoundaryMillis...)
	for _, q := range []int64{math.MaxInt64 / 1000000, math.MaxInt64 / 1000} { // Duration() limits: true and as coded
		for dlt := int64(-2); dlt <= 2; dlt++ {
			durs = append(durs, q+dlt, -q+dlt)
		}
	}
	for i := 0; i < nRand; i++ {
		durs = append(durs, randInt64(c))
	}
	for i, ms := range durs {
		d := types.NewDurationFromMillis(ms)
		var s string
		if p := vh.Protect(func() { s = d.String() }); p != nil {
			x.report("duration-print-panic", fmt.Sprintf("Duration(%d).String() panics: %v", ms, p), "oracle", "print-duration", ms, nil, nil)
			continue
		}
		idx := x.b.Add("print-duration", map[string]any{"raw": strconv.FormatInt(ms, 10)}, vh.Hex(s), s)
		c.Count(x.b.Key(idx), true)
		c.Dist("value:duration")
		c.Res.OracleChecks++
		x.durAll++
		x.durProved++ // C12_duration_roundtrip covers every int64 (MinInt64 included since the repair)
		cls := func(base string) string {
			if ms == math.MinInt64 {
				return clsDurationMin
			}
			return base
		}
		if sp := specDuration(s); !sp.ok() || sp.val.Int64() != ms {
			x.report(cls("duration-print-not-canonical"), fmt.Sprintf("Duration(%d).String() = %q is not a documented literal of that value", ms, s), "oracle", "print-duration", ms, nil, s)
		}
		if got := implParse("duration", s); got != "ok "+strconv.FormatInt(ms, 10) {
			x.report(cls("duration-roundtrip"), fmt.Sprintf("ParseDuration(Duration(%d).String()=%q) = %s", ms, s, got), "oracle", "roundtrip-duration", ms, ms, got)
		}
		x.literal("duration", s, "printed")
		if i < len(tbl) || i%4 == 0 {
			x.evalEqual(d, cls(""))
		}
		// converters to and from Go's time.Duration: exact or an error, never wrapped
		c.Res.OracleChecks++
		gd, gerr := d.Duration()
		exactNs := new(big.Int).Mul(big.NewInt(ms), big.NewInt(1000000))
		wantG := "err"
		if inI64(exactNs) {
			wantG = "ok " + exactNs.String()
		}
		if gotG := showI(int64(gd), gerr); gotG != wantG {
			clsG := "duration-to-go-duration-inexact"
			if gerr == nil && !inI64(exactNs) {
				clsG = clsGoDurationWrap
			}
			x.report(clsG, fmt.Sprintf("Duration(%dms).Duration() = %s, exact %s", ms, gotG, wantG), "oracle", "duration-to-go", ms, wantG, gotG)
		}
		if gerr == nil && inI64(exactNs) {
			if back := types.NewDuration(gd); back != d {
				x.report("duration-from-go-duration", fmt.Sprintf("NewDuration(Duration(%dms).Duration()) = %dms", ms, back.ToMilliseconds()), "oracle", "duration-from-go", ms, ms, back.ToMilliseconds())
			}
		}
	}

	// ---- datetime ----
	dts := append([]int64{}, datetimeMillisTable()...)
	dts = append(dts, vh.BoundaryMillis...)
	dts = append(dts, tbl...)
	nTbl := len(dts)
	for i := 0; i < nRand; i++ {
		dts = append(dts, randInt64(c))
	}
	firstDayEnd := int64(math.MinInt64 + 86400000)
	for i, ms := range dts {
		d := types.NewDatetimeFromMillis(ms)
		var s string
		if p := vh.Protect(func() { s = d.String() }); p != nil {
			x.report("datetime-print-panic", fmt.Sprintf("Datetime(%d).String() panics: %v", ms, p), "oracle", "print-datetime", ms, nil, nil)
			continue
		}
		idx := x.b.Add("print-datetime", map[string]any{"raw": strconv.FormatInt(ms, 10)}, vh.Hex(s), s)
		c.Count(x.b.Key(idx), true)
		c.Dist("value:datetime")
		c.Res.OracleChecks++
		x.dtAll++
		if ms >= math.MinInt64+86400000 {
			x.dtProved++
		}
		cls := func(base string) string {
			if ms < firstDayEnd {
				return clsDatetimeMinConst
			}
			return base
		}
		if sp := specDatetime(s); !sp.ok() || sp.val.Int64() != ms {
			x.report("datetime-print-not-canonical", fmt.Sprintf("Datetime(%d).String() = %q is not a documented literal of that value", ms, s), "oracle", "print-datetime", ms, nil, s)
		}
		if got := implParse("datetime", s); got != "ok "+strconv.FormatInt(ms, 10) {
			x.report(cls("datetime-roundtrip"), fmt.Sprintf("ParseDatetime(Datetime(%d).String()=%q) = %s", ms, s, got), "oracle", "roundtrip-datetime", ms, ms, got)
		}
		x.literal("datetime", s, "printed")
		if i < nTbl || i%4 == 0 {
			x.evalEqual(d, cls(""))
		}
		if back := types.NewDatetime(d.Time()); back != d { // Time()/NewDatetime are exact on the whole range
			x.report("datetime-go-time-roundtrip", fmt.Sprintf("NewDatetime(Datetime(%d).Time()) = %d", ms, back.Milliseconds()), "oracle", "datetime-go-time", ms, ms, back.Milliseconds())
		}
	}

	// ---- long ----
	longs := append([]int64{}, tbl...)
	for i := 0; i < nRand; i++ {
		longs = append(longs, randInt64(c))
	}
	for i, n := range longs {
		l := types.Long(n)
		s := l.String()
		idx := x.b.Add("print-long", map[string]any{"raw": strconv.FormatInt(n, 10)}, vh.Hex(s), s)
		c.Count(x.b.Key(idx), true)
		c.Dist("value:long")
		c.Res.OracleChecks++
		if want := new(big.Int).SetInt64(n).String(); s != want || string(l.MarshalCedar()) != want {
			x.report("long-print-not-canonical", fmt.Sprintf("Long(%d).String() = %q", n, s), "oracle", "print-long", n, want, s)
		}
		if back, err := strconv.ParseInt(s, 10, 64); err != nil || back != n {
			x.report("long-roundtrip", fmt.Sprintf("strconv.ParseInt(Long(%d).String()) = %d, %v", n, back, err), "oracle", "roundtrip-long", n, n, back)
		}
		x.literal("long", s, "printed")
		if i < len(tbl) || i%4 == 0 {
			x.evalEqual(l, "")
		}
	}
	for _, s := range []string{"", "-", "+", "+5", "-0", "00", "007", "9223372036854775807", "9223372036854775808", "-9223372036854775808", "-9223372036854775809", "1_000", "0x10", "1e3", " 1", "1 ", "١", "--1", "+-1", "99999999999999999999"} {
		x.literal("long", s, "table")
	}

	// ---- ip ----
	var ips []types.IPAddr
	for _, a4 := range [][4]byte{{0, 0, 0, 0}, {255, 255, 255, 255}, {127, 0, 0, 1}, {10, 1, 2, 3}, {224, 0, 0, 1}, {1, 2, 3, 4}, {100, 10, 1, 0}} {
		for bits := 0; bits <= 32; bits++ {
			ips = append(ips, types.IPAddr(netip.PrefixFrom(netip.AddrFrom4(a4), bits)))
		}
	}
	mk16 := func(s string) netip.Addr { return netip.MustParseAddr(s) }
	for _, a := range []netip.Addr{mk16("::"), mk16("::1"), mk16("ffff:ffff:ffff:ffff:ffff:ffff:ffff:ffff"), mk16("2001:db8::1"), mk16("fe80::1"), mk16("1:0:0:2:0:0:0:3"), mk16("1:2:3:4:5:6:7:8"),
		mk16("0:0:1::"), mk16("1::"), mk16("0:1:0:1:0:1:0:1"), mk16("::ffff:102:304"), mk16("::ffff:0:0"), mk16("::fffe:102:304"), mk16("64:ff9b::102:304"), mk16("ff02::1"), mk16("1:0:0:0:1::")} {
		for bits := 0; bits <= 128; bits++ {
			ips = append(ips, types.IPAddr(netip.PrefixFrom(a, bits)))
		}
	}
	for i := 0; i < c.N(2000, 100000); i++ {
		if c.Rng.Intn(2) == 0 {
			var a [4]byte
			for k := range a {
				a[k] = byte(c.Rng.Intn(256))
			}
			bits := 32
			if c.Rng.Intn(2) == 0 {
				bits = c.Rng.Intn(33)
			}
			ips = append(ips, types.IPAddr(netip.PrefixFrom(netip.AddrFrom4(a), bits)))
		} else {
			var a [16]byte
			for k := 0; k < 16; k += 2 {
				switch c.Rng.Intn(3) {
				case 0: // zero group (exercises "::" compression)
				case 1:
					a[k+1] = byte(c.Rng.Intn(256))
				default:
					a[k], a[k+1] = byte(c.Rng.Intn(256)), byte(c.Rng.Intn(256))
				}
			}
			if c.Rng.Intn(40) == 0 { // IPv4-mapped
				for k := 0; k < 10; k++ {
					a[k] = 0
				}
				a[10], a[11] = 0xff, 0xff
			}
			bits := 128
			if c.Rng.Intn(2) == 0 {
				bits = c.Rng.Intn(129)
			}
			ips = append(ips, types.IPAddr(netip.PrefixFrom(netip.AddrFrom16(a), bits)))
		}
	}
	for i, ip := range ips {
		var s string
		if p := vh.Protect(func() { s = ip.String() }); p != nil {
			x.report("ip-print-panic", fmt.Sprintf("IPAddr.String() panics: %v", p), "oracle", "print-ip", vh.ShowValue(ip), nil, nil)
			continue
		}
		c.Count("ipval|"+vh.ShowValue(ip), true)
		c.Dist("value:ip")
		if is6, addr, bits, zone := vh.IPParts(ip); zone == "" {
			fam := 4
			if is6 {
				fam = 6
			}
			x.b.Add("print-ip", map[string]any{"fam": fam, "addr": addr, "bits": bits}, vh.Hex(s), s)
		}
		c.Res.OracleChecks++
		is4in6 := ip.Addr().Is4In6()
		cls := func(base string) string {
			if is4in6 {
				return clsIP4in6
			}
			return base
		}
		back, err := types.ParseIPAddr(s)
		if err != nil || back != ip {
			x.report(cls("ip-roundtrip"), fmt.Sprintf("ParseIPAddr(%s.String()=%q) = %v, %v", vh.ShowValue(ip), s, back, err), "oracle", "roundtrip-ip", vh.ShowValue(ip), vh.ShowValue(ip), fmt.Sprint(back, err))
		}
		x.literal("ip", s, "printed")
		if i%3 == 0 || is4in6 {
			x.evalEqual(ip, cls(""))
		}
	}
}

// evalEqual: MarshalCedar → policy parser → Eval must give a value Equal to v.
func (x *c12run) evalEqual(v types.Value, knownCls string) {
	c := x.c
	c.Res.OracleChecks++
	var src []byte
	if p := vh.Protect(func() { src = v.MarshalCedar() }); p != nil {
		x.report("marshalcedar-panic", fmt.Sprintf("MarshalCedar of %s panics: %v", vh.ShowValue(v), p), "oracle", "marshal-eval", vh.ShowValue(v), nil, nil)
		return
	}
	got, err := evalRendered(src)
	if err == nil && got != nil && got.Equal(v) && v.Equal(got) {
		return
	}
	cls := knownCls
	if cls == "" {
		// the two repaired classes are attributed by repair: the value with that one feature rewritten away must survive
		// MarshalCedar -> parse -> Eval (a value that merely contains the feature and fails for another reason keeps the generic class)
		cls = "marshalcedar-eval-not-equal"
		survives := func(w types.Value) bool {
			var src2 []byte
			if p := vh.Protect(func() { src2 = w.MarshalCedar() }); p != nil {
				return false
			}
			got2, err2 := evalRendered(src2)
			return err2 == nil && got2 != nil && got2.Equal(w) && w.Equal(got2)
		}
		switch {
		case strings.ContainsRune(string(src), utf8.RuneError) && survives(c12MapStrings(v, func(s string) string { return strings.ReplaceAll(s, string(utf8.RuneError), "X") }, nil)):
			cls = clsStringFFFD
		case hasGoQuotedKey(v) && survives(c12MapStrings(v, nil, func(i int, k string) string {
			if hasGoQuotedKey(types.NewRecord(types.RecordMap{types.String(k): types.Long(0)})) {
				return fmt.Sprintf("k%d", i)
			}
			return k
		})):
			cls = clsRecordKeyQuote
		}
	}
	x.report(cls, fmt.Sprintf("%T %s renders as %s which evaluates to %v (err %v)", v, vh.ShowValue(v), oneLineC12(string(src)), got, err), "oracle", "marshal-eval", vh.ShowValue(v), vh.ShowValue(v), fmt.Sprint(got, err))
}

func oneLineC12(s string) string {
	if len(s) > 120 {
		return strconv.QuoteToASCII(s[:120]) + "…"
	}
	return strconv.QuoteToASCII(s)
}

// hasGoQuotedKey: some record key is rendered by strconv.Quote with an escape that is not Cedar syntax
// (\a \b \f \v \xNN \uNNNN \UNNNNNNNN).
// c12MapStrings rebuilds v with str applied to every string (string values, entity ids, record keys) and key applied to
// every record key (i = index of the key in the sorted key list of its record); nil = identity.
func c12MapStrings(v types.Value, str func(string) string, key func(i int, k string) string) types.Value {
	if str == nil {
		str = func(s string) string { return s }
	}
	switch t := v.(type) {
	case types.String:
		return types.String(str(string(t)))
	case types.EntityUID:
		return types.NewEntityUID(t.Type, types.String(str(string(t.ID))))
	case types.Set:
		var ms []types.Value
		for m := range t.All() {
			ms = append(ms, c12MapStrings(m, str, key))
		}
		return types.NewSet(ms...)
	case types.Record:
		ks := vh.SortedKeys(t)
		m := types.RecordMap{}
		for i, k := range ks {
			val, _ := t.Get(k)
			nk := str(string(k))
			if key != nil {
				nk = key(i, nk)
			}
			for {
				if _, dup := m[types.String(nk)]; !dup {
					break
				}
				nk += "_"
			}
			m[types.String(nk)] = c12MapStrings(val, str, key)
		}
		return types.NewRecord(m)
	}
	return v
}

func hasGoQuotedKey(v types.Value) bool {
	switch t := v.(type) {
	case types.Record:
		for k, m := range t.All() {
			q := strconv.Quote(string(k))
			for i := 0; i+1 < len(q); i++ {
				if q[i] == '\\' {
					switch q[i+1] {
					case 'a', 'b', 'f', 'v', 'x', 'U':
						return true
					case 'u':
						if i+2 < len(q) && q[i+2] != '{' {
							return true
						}
					}
					i++
				}
			}
			if hasGoQuotedKey(m) {
				return true
			}
		}
	case types.Set:
		for m := range t.All() {
			if hasGoQuotedKey(m) {
				return true
			}
		}
	}
	return false
}

// literals: boundary tables and edit-distance-1 neighbourhoods.
func (x *c12run) literals() {
	c := x.c
	type pool struct {
		typ      string
		lits     []string
		extra    []string
		alphabet string
	}
	pools := []pool{
		{"decimal", c12DecimalLits, append(append([]string{}, c12DecimalExtra...), vh.DecimalStrings...), "0123456789.-+ e_５"},
		{"duration", c12DurationLits, append(append([]string{}, c12DurationExtra...), vh.DurationStrings...), "0123456789dhms-+ .D٣"},
		{"datetime", c12DatetimeLits, append(append([]string{}, c12DatetimeExtra...), vh.DatetimeStrings...), "0123456789-+:.TZ tz٣"},
		{"ip", c12IPLits, append(append([]string{}, c12IPExtra...), vh.IPStrings...), "0123456789abcfABF:./%-g x"},
	}
	// offset table: every sign \u00d7 hh \u00d7 mm edge on an ordinary day and at both ends of the range
	for _, base := range []string{"2024-01-01T12:00:00", "2024-01-01T00:00:00.000", "+292278994-08-17T07:12:55.807", "+292278994-08-17T00:00:00", "-292275055-05-17T16:47:04.192", "-292275055-05-16T16:47:04.192", "-292275055-05-18T00:00:00.000", "0000-01-01T00:00:00", "9999-12-31T23:59:59.999"} {
		for _, sg := range []string{"+", "-"} {
			for _, hh := range []string{"00", "01", "09", "12", "23", "24", "99"} {
				for _, mm := range []string{"00", "01", "30", "59", "60", "99"} {
					pools[2].extra = append(pools[2].extra, base+sg+hh+mm)
				}
			}
		}
	}
	// prefix lengths 0\u201332 / 0\u2013128 (+ one beyond)
	for bits := 0; bits <= 129; bits++ {
		if bits <= 33 {
			pools[3].extra = append(pools[3].extra, fmt.Sprintf("10.1.2.3/%d", bits), fmt.Sprintf("255.255.255.255/%d", bits))
		}
		pools[3].extra = append(pools[3].extra, fmt.Sprintf("2001:db8::1/%d", bits), fmt.Sprintf("::/%d", bits))
	}
	// decimal: every fractional digit count \u00d7 sign \u00d7 integer width
	for _, ip := range []string{"0", "1", "12", "922337203685477", "922337203685478", "00"} {
		for _, fp := range []string{"", "0", "5", "05", "50", "005", "500", "0005", "5000", "5807", "5808", "5809", "9999", "00000", "58070", "65535", "65536"} {
			for _, sg := range []string{"", "-", "+"} {
				pools[0].extra = append(pools[0].extra, sg+ip+"."+fp)
			}
		}
	}
	// duration: every unit \u00d7 boundary quantity
	for ui, u := range []string{"d", "h", "m", "s", "ms"} {
		mult := []int64{86400000, 3600000, 60000, 1000, 1}[ui]
		q := math.MaxInt64 / mult
		for _, n := range []int64{0, 1, q - 1, q} {
			for _, sg := range []string{"", "-"} {
				pools[1].extra = append(pools[1].extra, fmt.Sprintf("%s%d%s", sg, n, u))
			}
		}
		pools[1].extra = append(pools[1].extra, new(big.Int).Add(big.NewInt(q), big.NewInt(1)).String()+u, "-"+new(big.Int).Add(big.NewInt(q), big.NewInt(1)).String()+u)
	}
	for _, p := range pools {
		alpha := splitAlphabet(p.alphabet)
		for _, s := range p.lits {
			if out := implParse(p.typ, s); !strings.HasPrefix(out, "ok") {
				x.report("c12-pool-literal-rejected", fmt.Sprintf("pool literal %q of type %s is rejected by cedar-go", s, p.typ), "self-test", "parse-"+p.typ, s, "ok", out)
			}
			x.literal(p.typ, s, "pool")
			edits1(s, alpha, func(t string) { x.literal(p.typ, t, "edit1") })
		}
		for _, s := range p.extra {
			x.literal(p.typ, s, "table")
		}
		// thorough: neighbourhoods of the boundary table as well
		if c.Thorough() {
			for _, s := range p.extra {
				if len(s) > 0 && len(s) < 40 {
					edits1(s, alpha, func(t string) { x.literal(p.typ, t, "edit1") })
				}
			}
		}
	}
}

// constructors: NewDecimal / NewDecimalFromInt / NewDecimalFromFloat against exact arithmetic.
func (x *c12run) constructors() {
	c := x.c
	is := map[int64]bool{}
	for _, v := range int64Table() {
		is[v] = true
	}
	for k := 0; k <= 15; k++ { // the largest admissible mantissa per exponent, \u00b12
		q := int64(922337203685477) / pow10(k)
		for d := int64(-2); d <= 2; d++ {
			is[q+d], is[-q+d] = true, true
		}
		q2 := math.MaxInt64 / pow10(k)
		for d := int64(-2); d <= 2; d++ {
			is[q2+d], is[-q2+d] = true, true
		}
		// first mantissas whose product exceeds 2^64 (wraps back into the positive range)
		w := new(big.Int).Div(new(big.Int).Lsh(big.NewInt(1), 64), big.NewInt(pow10(k)))
		if w.IsInt64() {
			for d := int64(-2); d <= 2; d++ {
				is[w.Int64()+d], is[-w.Int64()+d] = true, true
			}
		}
	}
	is[184468], is[-184468], is[184467], is[184469] = true, true, true, true
	var iv []int64
	for v := range is {
		iv = append(iv, v)
	}
	sortInt64(iv)
	for i := 0; i < c.N(2000, 100000); i++ {
		iv = append(iv, randInt64(c))
	}
	for _, i := range iv {
		for e := -6; e <= 16; e++ {
			x.newDecimal(i, e)
		}
	}
	// NewDecimalFromInt over every signed width
	for _, i := range iv {
		c.Res.OracleChecks++
		want := "err"
		if z := new(big.Int).Mul(big.NewInt(i), big.NewInt(10000)); inI64(z) {
			want = "ok " + z.String()
		}
		d, err := types.NewDecimalFromInt(i)
		if got := showI(types.VerifDecimalRaw(d), err); got != want {
			x.report("newdecimalfromint-inexact", fmt.Sprintf("NewDecimalFromInt(%d) = %s, exact %s", i, got, want), "oracle", "new-decimal-int", i, want, got)
		}
		if i32 := int32(i); int64(i32) == i {
			d2, err2 := types.NewDecimalFromInt(i32)
			if got := showI(types.VerifDecimalRaw(d2), err2); got != want {
				x.report("newdecimalfromint-inexact", fmt.Sprintf("NewDecimalFromInt(int32 %d) = %s, exact %s", i, got, want), "oracle", "new-decimal-int", i, want, got)
			}
		}
	}
	// NewDecimalFromFloat
	var fs []float64
	for _, i := range iv[:min(len(iv), 1500)] {
		for _, sh := range []int{0, 1, 4} {
			fs = append(fs, float64(i%(1<<40))/float64(int64(1)<<uint(sh)))
		}
	}
	for _, f := range []float64{0, 1.5, -1.5, 0.0001, 0.25, 922337203685477.5807, 922337203685477.5808, 922337203685477.6, 922337203685477.4, 922337203685477, 922337203685478, 922337203685477.75, 922337203685477.5, -922337203685477.5808, -922337203685477.75, -922337203685478, 1e15, -1e15, 1e18, 1e19, -1e19, 1e300, -1e300,
		math.MaxFloat64, -math.MaxFloat64, math.SmallestNonzeroFloat64, math.Inf(1), math.Inf(-1), math.NaN(), math.Copysign(0, -1), 0.1, 1.1, 0.00005, 123456.7891} {
		fs = append(fs, f)
	}
	for _, f := range fs {
		x.fromFloat(f)
	}
}

func (x *c12run) newDecimal(i int64, e int) {
	c := x.c
	c.Res.OracleChecks++
	var got string
	if p := vh.Protect(func() {
		d, err := types.NewDecimal(i, e)
		got = showI(types.VerifDecimalRaw(d), err)
	}); p != nil {
		got = fmt.Sprintf("panic %v", p)
	}
	want := "err"
	var exact *big.Int
	if e >= -4 && e <= 14 {
		exact = new(big.Int).Mul(big.NewInt(i), new(big.Int).Exp(big.NewInt(10), big.NewInt(int64(e+4)), nil))
		if inI64(exact) {
			want = "ok " + exact.String()
		}
	}
	idx := x.b.Add("new-decimal", map[string]any{"i": strconv.FormatInt(i, 10), "exp": strconv.Itoa(e)}, got, fmt.Sprintf("%d e%d", i, e))
	c.Count(x.b.Key(idx), i != 0)
	c.Dist("newdecimal:" + got[:2])
	if e >= -4 && e <= 14 {
		x.ndAll++
		x.ndProved++ // C12_newDecimal_exact covers every int64 mantissa and every admissible exponent
	}
	if got != want {
		cls := "newdecimal-inexact"
		if e > 0 && e <= 14 {
			prod := new(big.Int).Mul(big.NewInt(i), new(big.Int).Exp(big.NewInt(10), big.NewInt(int64(e)), nil))
			if !inI64(prod) && strings.HasPrefix(got, "ok") {
				cls = clsNewDecimalWrap // i*10^e overflows int64 and the `intPart < i` test does not notice
			}
		}
		x.report(cls, fmt.Sprintf("NewDecimal(%d, %d) = %s, exact %s", i, e, got, want), "oracle", "new-decimal", []any{i, e}, want, got)
	}
}

func (x *c12run) fromFloat(f float64) {
	c := x.c
	c.Res.OracleChecks++
	c.Dist("fromfloat")
	var got string
	if p := vh.Protect(func() {
		d, err := types.NewDecimalFromFloat(f)
		got = showI(types.VerifDecimalRaw(d), err)
	}); p != nil {
		got = fmt.Sprintf("panic %v", p)
	}
	if math.IsNaN(f) {
		if got != "err" {
			x.report(clsFloatNaN, fmt.Sprintf("NewDecimalFromFloat(NaN) = %s (no error)", got), "oracle", "new-decimal-float", "NaN", "err", got)
		}
		return
	}
	if math.IsInf(f, 0) {
		if got != "err" {
			x.report("decimal-from-float-inf", fmt.Sprintf("NewDecimalFromFloat(%v) = %s", f, got), "oracle", "new-decimal-float", fmt.Sprint(f), "err", got)
		}
		return
	}
	// exact value of f*10000, truncated toward zero
	r := new(big.Rat).SetFloat64(f)
	r.Mul(r, big.NewRat(10000, 1))
	exact := new(big.Int).Quo(r.Num(), r.Denom()) // Quo truncates toward zero
	prodExact := false
	if pr := new(big.Rat).SetFloat64(f * 10000); pr != nil {
		prodExact = pr.Cmp(r) == 0
	}
	want := "err"
	if inI64(exact) {
		want = "ok " + exact.String()
	}
	if got == want {
		return
	}
	boundary := f*10000 >= 9223372036854775808.0 && strings.HasPrefix(got, "ok")
	if !prodExact && !boundary {
		// inexact products are documented as lossy: allow a relative error of 2^-50 (and at least one unit)
		tol := new(big.Int).Rsh(new(big.Int).Abs(exact), 50)
		tol.Add(tol, big.NewInt(1))
		if strings.HasPrefix(got, "ok") {
			g, _ := new(big.Int).SetString(got[3:], 10)
			if diff := new(big.Int).Abs(new(big.Int).Sub(g, exact)); diff.Cmp(tol) <= 0 {
				return
			}
		}
		if got == "err" { // rounding pushed the product over the limit: an error is acceptable at the edge
			lim := new(big.Int).Sub(two63, tol)
			if new(big.Int).Abs(exact).Cmp(lim) >= 0 {
				return
			}
		}
	}
	cls := "decimal-from-float-inexact"
	if boundary {
		cls = clsFloatBoundary
	}
	x.report(cls, fmt.Sprintf("NewDecimalFromFloat(%v) = %s, exact %s", f, got, want), "oracle", "new-decimal-float", strconv.FormatFloat(f, 'g', -1, 64), want, got)
}

// stringsAndUIDs: every Unicode scalar value (stride in the quick tier) through MarshalCedar and back.
func (x *c12run) stringsAndUIDs() {
	c := x.c
	stride := c.N(37, 1)
	var pack []rune
	flush := func() {
		if len(pack) == 0 {
			return
		}
		x.checkString(string(pack))
		pack = pack[:0]
	}
	for r := rune(0); r <= utf8.MaxRune; r++ {
		if r >= 0xD800 && r <= 0xDFFF {
			continue
		}
		single := r < 0x3000 || r%rune(stride) == 0 || (r >= 0xFFF0 && r <= 0x10010) || r >= utf8.MaxRune-16 || (r >= 0xE0000 && r < 0xE0200)
		if single {
			x.checkString(string(r))     // first position (grapheme-extend characters are escaped there)
			x.checkString("a" + string(r)) // continuation position
		}
		pack = append(pack, r)
		if len(pack) == 64 {
			if stride == 1 || (r/64)%rune(stride) == 0 || r < 0x3000 {
				flush()
			} else {
				pack = pack[:0]
			}
		}
	}
	flush()
	for _, s := range vh.Strings {
		x.checkString(s)
	}
	for _, s := range []string{`\`, `\\`, `\n`, `\u{41}`, `"`, `'`, `\"`, "*", `\*`, "a\x00b", "\t\r\n", "\u0301\u0301", "e\u0301", "\u200d", "\ufffd", "x\ufffdy", "\ufffe", "\uffff", "${x}", "//", "/*", "\u2028\u2029", strings.Repeat("ab\"\\", 50)} {
		x.checkString(s)
	}
	for i := 0; i < c.N(500, 50000); i++ {
		n := c.Rng.Intn(6)
		var rs []rune
		for k := 0; k < n; k++ {
			var r rune
			switch c.Rng.Intn(4) {
			case 0:
				r = rune(c.Rng.Intn(128))
			case 1:
				r = rune(c.Rng.Intn(0x3000))
			default:
				r = rune(c.Rng.Intn(utf8.MaxRune + 1))
			}
			if r >= 0xD800 && r <= 0xDFFF {
				r = 0x2603
			}
			rs = append(rs, r)
		}
		x.checkString(string(rs))
	}
	// entity types: identifier paths
	for _, ty := range []types.EntityType{"A", "User", "NS::Folder", "a::b::c", "_x", "A1::B_2", "principal", "Action"} {
		for _, id := range []types.String{"", "a", "a b", "\"", "::\"", "A::\"x\"", "\\", "é", "\u0301", "\n"} {
			x.checkUID(types.NewEntityUID(ty, id))
		}
	}
}

func (x *c12run) checkString(s string) {
	c := x.c
	c.Count("str|"+s, len(s) > 0)
	c.Dist("value:string")
	v := types.String(s)
	cls := ""
	if strings.ContainsRune(s, utf8.RuneError) {
		cls = clsStringFFFD
	}
	x.evalEqual(v, cls)
	x.checkUIDcls(types.NewEntityUID("T::U", v), cls, false)
}

func (x *c12run) checkUID(u types.EntityUID) { x.checkUIDcls(u, "", true) }

func (x *c12run) checkUIDcls(u types.EntityUID, knownCls string, alsoEval bool) {
	c := x.c
	c.Res.OracleChecks++
	if alsoEval {
		c.Count("uid|"+string(u.Type)+"|"+string(u.ID), true)
		c.Dist("value:entityuid")
	}
	var back types.EntityUID
	var err error
	var src []byte
	if p := vh.Protect(func() {
		src = u.MarshalCedar()
		err = back.UnmarshalCedar(src)
	}); p != nil {
		err = fmt.Errorf("panic: %v", p)
	}
	if err != nil || back != u {
		cls := knownCls
		if cls == "" {
			cls = "entityuid-roundtrip"
			if strings.ContainsRune(string(u.ID), utf8.RuneError) {
				cls = clsStringFFFD
			}
		}
		x.report(cls, fmt.Sprintf("EntityUID{%q,%q}.MarshalCedar() = %s; UnmarshalCedar gives {%q,%q}, %v", u.Type, u.ID, oneLineC12(string(src)), back.Type, back.ID, err), "oracle", "roundtrip-entityuid",
			[]string{string(u.Type), string(u.ID)}, nil, fmt.Sprint(err))
	}
	if alsoEval {
		x.evalEqual(u, knownCls)
	}
}

// composite: sets and records of scalars rendered by MarshalCedar evaluate to an Equal value.
func (x *c12run) composite() {
	c := x.c
	g := vh.NewGen(c.Rng)
	keys := []types.String{"a", "b", "key", "", "a b", "if", "true", "principal", "é", "日本", "\"", "\\", "\n", "\t", "\x00", "\a", "\b", "\x7f", "\u0080", "\u00ad", "\u0301", "\u200b", "\U0001F600", "'", "*", "a-b", "0", "_"}
	scalar := func() types.Value {
		switch c.Rng.Intn(8) {
		case 0:
			return types.Boolean(c.Rng.Intn(2) == 0)
		case 1:
			return types.Long(g.Long())
		case 2:
			return types.String(g.Str())
		case 3:
			u := g.UID()
			if u.IsZero() {
				u = types.NewEntityUID("User", "z")
			}
			return u
		case 4:
			return types.VerifDecimalFromRaw(randInt64(c))
		case 5:
			return types.NewDatetimeFromMillis(int64(c.Rng.Intn(2000000000000)) - 1000000000000)
		case 6:
			return types.NewDurationFromMillis(int64(c.Rng.Intn(2000000000)) - 1000000000)
		default:
			for {
				ip := g.IP()
				if !ip.Addr().Is4In6() && ip.Addr().Zone() == "" {
					return ip
				}
			}
		}
	}
	var value func(depth int) types.Value
	value = func(depth int) types.Value {
		if depth == 0 || c.Rng.Intn(3) == 0 {
			return scalar()
		}
		if c.Rng.Intn(2) == 0 {
			n := c.Rng.Intn(4)
			var vs []types.Value
			for i := 0; i < n; i++ {
				vs = append(vs, value(depth-1))
			}
			return types.NewSet(vs...)
		}
		n := c.Rng.Intn(4)
		m := types.RecordMap{}
		for i := 0; i < n; i++ {
			var k types.String
			if c.Rng.Intn(4) == 0 {
				k = keys[c.Rng.Intn(len(keys))]
			} else {
				k = keys[c.Rng.Intn(12)]
			}
			m[k] = value(depth - 1)
		}
		return types.NewRecord(m)
	}
	for _, k := range keys { // every key once, alone
		x.evalEqual(types.NewRecord(types.RecordMap{k: types.Long(1)}), "")
		c.Count("rec|"+string(k), true)
	}
	x.evalEqual(types.NewRecord(nil), "")
	x.evalEqual(types.NewSet(), "")
	x.evalEqual(types.True, "")
	x.evalEqual(types.False, "")
	for i := 0; i < c.N(1500, 60000); i++ {
		v := value(1 + c.Rng.Intn(3))
		c.Count("comp|"+vh.ShowValue(v), true)
		c.Dist("value:composite")
		x.evalEqual(v, "")
	}
}

// eraSweep: all 146097 days of one 400-year cycle (1600-03-01 … 2000-02-29) through Go `time`, the specification
// calendar, ParseDatetime and Datetime.String(); the model's civilFromDays/daysFromCivil on a stride (all days in
// the thorough tier); plus a stride over the whole int64 millisecond range.
func (x *c12run) eraSweep() {
	c := x.c
	start := specDays(1600, 3, 1)
	stride := int64(c.N(37, 1))
	bad := 0
	for z := start; z < start+146097; z++ {
		t := time.Unix(z*86400, 0).UTC()
		y, mo, d := t.Date()
		s := fmt.Sprintf("%04d-%02d-%02d", y, int(mo), d)
		c.Res.OracleChecks++
		dt, err := types.ParseDatetime(s)
		pr := types.NewDatetimeFromMillis(z * 86400000).String()
		okAll := err == nil && dt.Milliseconds() == z*86400000 && pr == s+"T00:00:00.000Z" && specDays(int64(y), int64(mo), int64(d)) == z
		if !okAll && bad < 3 {
			bad++
			x.report("era-sweep-mismatch", fmt.Sprintf("day %d: time=%s ParseDatetime=%d,%v String=%s specDays=%d", z, s, dt.Milliseconds(), err, pr, specDays(int64(y), int64(mo), int64(d))), "oracle", "era-sweep", z, nil, nil)
		}
		// the day after the last day of each month is not a date
		if d >= 28 {
			nx := fmt.Sprintf("%04d-%02d-%02d", y, int(mo), d+1)
			_, e2 := types.ParseDatetime(nx)
			valid := time.Unix((z+1)*86400, 0).UTC().Month() == mo
			if (e2 == nil) != valid && bad < 3 {
				bad++
				x.report("era-sweep-mismatch", fmt.Sprintf("ParseDatetime(%q) err=%v but calendar validity is %v", nx, e2, valid), "oracle", "era-sweep", nx, nil, nil)
			}
		}
		if (z-start)%stride == 0 {
			idx := x.b.Add("civil", map[string]any{"days": strconv.FormatInt(z, 10)}, fmt.Sprintf("%d %d %d", y, int(mo), d), s)
			c.Count(x.b.Key(idx), true)
			x.b.Add("days", map[string]any{"y": strconv.Itoa(y), "m": strconv.Itoa(int(mo)), "d": strconv.Itoa(d)}, strconv.FormatInt(z, 10), s)
			c.Dist("era-sweep:model")
		}
		c.Dist("era-sweep:go")
	}
	// whole-range stride: Go time against the model and the specification calendar
	maxDay := int64(math.MaxInt64 / 86400000)
	n := int64(c.N(4000, 400000))
	for k := int64(0); k <= n; k++ {
		z := -maxDay + (2*maxDay/n)*k + int64(c.Rng.Intn(400))
		if z > maxDay {
			z = maxDay
		}
		t := time.Unix(z*86400, 0).UTC()
		y, mo, d := t.Date()
		c.Res.OracleChecks++
		if specDays(int64(y), int64(mo), int64(d)) != z && bad < 3 {
			bad++
			x.report("era-sweep-mismatch", fmt.Sprintf("day %d: Go time gives %d-%d-%d, specDays=%d", z, y, mo, d, specDays(int64(y), int64(mo), int64(d))), "oracle", "era-sweep", z, nil, nil)
		}
		idx := x.b.Add("civil", map[string]any{"days": strconv.FormatInt(z, 10)}, fmt.Sprintf("%d %d %d", y, int(mo), d), "")
		c.Count(x.b.Key(idx), true)
		x.b.Add("days", map[string]any{"y": strconv.Itoa(y), "m": strconv.Itoa(int(mo)), "d": strconv.Itoa(d)}, strconv.FormatInt(z, 10), "")
	}
}

// replayWitnesses: the witnesses of the `_counterexample` theorems, replayed on the Go code.
func (x *c12run) replayWitnesses() {
	// witnesses of the repaired defects (regression `example`s in Properties/C12.lean): a VIOLATION if one returns
	x.newDecimal(184468, 14)                                   // was C12_newDecimal_counterexample
	x.literal("decimal", "+1.5", "witness")                    // was C12_decimal_plus_counterexample
	x.literal("duration", "-9223372036854775808ms", "witness") // was C12_duration_min_literal_counterexample
	x.literal("datetime", "+999999999-12-31", "witness")       // was C12_datetime_dateonly_counterexample
	x.literal("ip", "fe80::1%eth0", "witness")
	x.literal("ip", "fe80::1%eth0/64", "witness")
	// witness of the remaining counterexample theorem
	x.literal("datetime", "-292275055-05-16T16:47:04.192Z", "witness") // C12_datetime_min_counterexample
	x.fromFloat(922337203685477.5808)
	x.fromFloat(math.NaN())
	if gd, err := types.NewDurationFromMillis(9223372036855).Duration(); err == nil && gd < 0 {
		x.report(clsGoDurationWrap, fmt.Sprintf("Duration(9223372036855ms).Duration() = %v, nil", gd), "oracle", "duration-to-go", int64(9223372036855), "err", fmt.Sprint(int64(gd)))
	}
	x.c.Sample(map[string]any{"op": "new-decimal", "i": 184468, "exp": 14, "impl": implNewDecimal(184468, 14)})
	x.c.Sample(map[string]any{"op": "print-duration", "raw": int64(math.MinInt64), "impl": types.NewDurationFromMillis(math.MinInt64).String()})
	x.c.Sample(map[string]any{"op": "print-datetime", "raw": int64(math.MinInt64), "impl": types.NewDatetimeFromMillis(math.MinInt64).String(), "parse": implParse("datetime", types.NewDatetimeFromMillis(math.MinInt64).String())})
	x.c.Sample(map[string]any{"op": "parse-decimal", "s": "-922337203685477.5808", "impl": implParse("decimal", "-922337203685477.5808")})
}

func implNewDecimal(i int64, e int) string {
	d, err := types.NewDecimal(i, e)
	return showI(types.VerifDecimalRaw(d), err)
}
