package main

import (
	"github.com/cedar-policy/cedar-go/types"
	"github.com/cedar-policy/cedar-go/x/exp/ast"

	"verifharness/vh"
)

// constBool returns a constant-foldable boolean expression with the given value.
func constBool(c *vh.Ctx, v bool) ast.IsNode {
	t, f := lit(types.True), lit(types.False)
	lt := func(a, b int64) ast.IsNode {
		return ast.NodeTypeLessThan{BinaryNode: ast.BinaryNode{Left: lit(types.Long(a)), Right: lit(types.Long(b))}}
	}
	var cands []ast.IsNode
	if v {
		cands = []ast.IsNode{t, ast.NodeTypeNot{UnaryNode: ast.UnaryNode{Arg: f}}, lt(1, 2),
			ast.NodeTypeContains{BinaryNode: ast.BinaryNode{Left: lit(types.NewSet(types.Long(1), types.Long(2))), Right: lit(types.Long(2))}},
			ast.NodeTypeOr{BinaryNode: ast.BinaryNode{Left: f, Right: t}},
			ast.NodeTypeEquals{BinaryNode: ast.BinaryNode{Left: lit(types.String("a")), Right: lit(types.String("a"))}}}
	} else {
		cands = []ast.IsNode{f, ast.NodeTypeNot{UnaryNode: ast.UnaryNode{Arg: t}}, lt(2, 1),
			ast.NodeTypeIsEmpty{UnaryNode: ast.UnaryNode{Arg: lit(types.NewSet(types.Long(1)))}},
			ast.NodeTypeAnd{BinaryNode: ast.BinaryNode{Left: t, Right: f}},
			ast.NodeTypeLike{Arg: lit(types.String("abc")), Value: types.NewPattern("x", types.Wildcard{})}}
	}
	return cands[c.Rng.Intn(len(cands))]
}

// wrapNonChecking puts x under a parent that does not itself require a boolean.
func wrapNonChecking(c *vh.Ctx, g *vh.Gen, x ast.IsNode) ast.IsNode {
	other := g.Expr(vh.Ty(c.Rng.Intn(4)), 1)
	switch c.Rng.Intn(7) {
	case 0:
		return ast.NodeTypeEquals{BinaryNode: ast.BinaryNode{Left: x, Right: other}}
	case 1:
		return ast.NodeTypeNotEquals{BinaryNode: ast.BinaryNode{Left: other, Right: x}}
	case 2:
		return ast.NodeTypeContains{BinaryNode: ast.BinaryNode{Left: ast.NodeTypeSet{Elements: []ast.IsNode{x, other}}, Right: other}}
	case 3:
		return ast.NodeTypeEquals{BinaryNode: ast.BinaryNode{Left: ast.NodeTypeIfThenElse{If: g.Expr(vh.TBool, 1), Then: x, Else: other}, Right: other}}
	case 4:
		return ast.NodeTypeHas{StrOpNode: ast.StrOpNode{Arg: ast.NodeTypeRecord{Elements: []ast.RecordElementNode{{Key: "k", Value: x}}}, Value: "k"}}
	case 5:
		return ast.NodeTypeEquals{BinaryNode: ast.BinaryNode{Left: ast.NodeTypeAccess{StrOpNode: ast.StrOpNode{Arg: ast.NodeTypeRecord{Elements: []ast.RecordElementNode{{Key: "k", Value: x}}}, Value: "k"}}, Right: other}}
	default:
		return x
	}
}

// shortCircuitProbe: `C && X`, `C || X`, `if C then X else Y` with C constant-foldable and X of ANY type
// (often not boolean, sometimes erroring), nested under a parent that does not re-check for boolean.
func shortCircuitProbe(c *vh.Ctx, g *vh.Gen) ast.IsNode {
	x := g.Expr(vh.Ty(c.Rng.Intn(12)), 1+c.Rng.Intn(2))
	cv := c.Rng.Intn(2) == 0
	cond := constBool(c, cv)
	var n ast.IsNode
	switch c.Rng.Intn(5) {
	case 0:
		n = ast.NodeTypeAnd{BinaryNode: ast.BinaryNode{Left: cond, Right: x}}
	case 1:
		n = ast.NodeTypeOr{BinaryNode: ast.BinaryNode{Left: cond, Right: x}}
	case 2:
		n = ast.NodeTypeAnd{BinaryNode: ast.BinaryNode{Left: x, Right: cond}}
	case 3:
		n = ast.NodeTypeOr{BinaryNode: ast.BinaryNode{Left: x, Right: cond}}
	default:
		n = ast.NodeTypeIfThenElse{If: cond, Then: x, Else: g.Expr(vh.Ty(c.Rng.Intn(12)), 1)}
	}
	return wrapNonChecking(c, g, n)
}

// foldsToEntityProbe: `.`/`has`/`in`/tags applied to a CONSTANT expression that folds to an entity
// (record-literal access, constant `if`), against stores where that entity exists with attributes/tags.
func foldsToEntityProbe(c *vh.Ctx, g *vh.Gen) ast.IsNode {
	e1, e2 := g.UID(), g.UID()
	var src ast.IsNode
	switch c.Rng.Intn(4) {
	case 0:
		src = ast.NodeTypeAccess{StrOpNode: ast.StrOpNode{Arg: ast.NodeTypeRecord{Elements: []ast.RecordElementNode{{Key: "who", Value: lit(e1)}}}, Value: "who"}}
	case 1:
		src = ast.NodeTypeIfThenElse{If: constBool(c, c.Rng.Intn(2) == 0), Then: lit(e1), Else: lit(e2)}
	case 2:
		src = ast.NodeTypeAccess{StrOpNode: ast.StrOpNode{Arg: lit(types.NewRecord(types.RecordMap{"who": e1})), Value: "who"}}
	default:
		src = lit(e1)
	}
	f := vh.FieldNames[c.Rng.Intn(len(vh.FieldNames))]
	switch c.Rng.Intn(6) {
	case 0:
		return ast.NodeTypeHas{StrOpNode: ast.StrOpNode{Arg: src, Value: f}}
	case 1:
		return ast.NodeTypeEquals{BinaryNode: ast.BinaryNode{Left: ast.NodeTypeAccess{StrOpNode: ast.StrOpNode{Arg: src, Value: f}}, Right: g.Expr(vh.FieldTypes[f], 0)}}
	case 2:
		return ast.NodeTypeIn{BinaryNode: ast.BinaryNode{Left: src, Right: lit(e2)}}
	case 3:
		return ast.NodeTypeHasTag{BinaryNode: ast.BinaryNode{Left: src, Right: lit(vh.TagNames[c.Rng.Intn(len(vh.TagNames))])}}
	case 4:
		return ast.NodeTypeIsIn{NodeTypeIs: ast.NodeTypeIs{Left: src, EntityType: e1.Type}, Entity: lit(e2)}
	default:
		return ast.NodeTypeEquals{BinaryNode: ast.BinaryNode{Left: ast.NodeTypeGetTag{BinaryNode: ast.BinaryNode{Left: src, Right: lit(vh.TagNames[c.Rng.Intn(len(vh.TagNames))])}}, Right: lit(types.Long(1))}}
	}
}
