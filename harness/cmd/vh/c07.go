package main

// C07 — the Cedar text parser builds exactly the tree the grammar prescribes.
//  (a) DIRECT ORACLE: Go `Policy.UnmarshalCedar` on the MODEL's renderings (renderMin / renderFull, single-space
//      and pseudo-random whitespace/comment layout) of generated ASTs must give back the generating AST.
//  (b) CORRESPONDENCE: the Lean model parser on Go's token list vs Go's parser: same AST (incl. position) or
//      both reject — on those texts and on a malformed stream (token deletions / duplications / swaps /
//      insertions / replacements and every rejected form named in the property).
//  (c) white-box ops for the escape functions (every code point; strings; unquote; patterns).

import (
	"encoding/hex"
	"encoding/json"
	"fmt"
	"strconv"
	"strings"

	cedar "github.com/cedar-policy/cedar-go"
	"github.com/cedar-policy/cedar-go/types"
	"github.com/cedar-policy/cedar-go/x/exp/ast"
	"github.com/cedar-policy/cedar-go/x/exp/verifhooks"

	"verifharness/vh"
)

func init() { props["C07"] = runC07 }

var c07Causes = []vh.Cause{vh.CauseNegatedIntReceiver, vh.CauseReplacementChar}

// encNoPos: vh.EncPolicy JSON with the position cleared (a generated AST has no position).
func encNoPos(p *ast.Policy) string {
	q := *p
	q.Position = ast.Position{}
	b, _ := json.Marshal(vh.EncPolicy(&q))
	return string(b)
}

func hasOperator(p *ast.Policy) bool {
	for _, c := range p.Conditions {
		switch c.Body.(type) {
		case ast.NodeValue, ast.NodeTypeVariable:
		default:
			return true
		}
	}
	return false
}

type c07Rendering struct {
	mode string
	seed int64
}

// goParse runs the implementation's parser: canonical policy (with position) or "err".
func goParse(text []byte) (string, *ast.Policy) {
	var pol cedar.Policy
	var err error
	if pn := vh.Protect(func() { err = pol.UnmarshalCedar(text) }); pn != nil {
		return "panic", nil
	}
	if err != nil {
		return "err", nil
	}
	a := (*ast.Policy)(pol.AST())
	return "ok " + vh.ShowPolicyC07(a, true), a
}

func goParseList(text []byte) string {
	var pl cedar.PolicyList
	var err error
	if pn := vh.Protect(func() { pl, err = cedar.NewPolicyListFromBytes("", text) }); pn != nil {
		return "panic"
	}
	if err != nil {
		return "err"
	}
	var xs []string
	for _, p := range pl {
		xs = append(xs, vh.ShowPolicyC07((*ast.Policy)(p.AST()), true))
	}
	return "ok " + strings.Join(xs, " ## ")
}

// rejected forms named in the property (condition bodies unless they start with '@' or 'permit'/'forbid')
var c07Rejected = []struct{ class, text string }{
	{"chained-relation", `1 < 2 < 3`}, {"chained-relation", `1 == 2 == 3`}, {"chained-relation", `1 < 2 == true`}, {"chained-relation", `1 != 2 >= 3`},
	{"chained-relation", `principal in resource in action`}, {"chained-relation", `context has a has b`}, {"chained-relation", `context has a == true`},
	{"chained-relation", `"a" like "a" like "b"`}, {"chained-relation", `principal is User is Group`}, {"chained-relation", `principal is User in resource in action`},
	{"chained-relation", `principal is User == true`}, {"chained-relation", `1 < 2 like "x"`}, {"chained-relation", `1 <= 2 <= 3 <= 4`},
	{"reserved-word-as-identifier", `if`}, {"reserved-word-as-identifier", `then`}, {"reserved-word-as-identifier", `in`}, {"reserved-word-as-identifier", `__cedar`},
	{"reserved-word-as-identifier", `principal.if`}, {"reserved-word-as-identifier", `principal.true`}, {"reserved-word-as-identifier", `principal.in.x`},
	{"reserved-word-as-identifier", `{if: 1}`}, {"reserved-word-as-identifier", `{a: 1, like: 2}`}, {"reserved-word-as-identifier", `principal has in`},
	{"reserved-word-as-identifier", `principal has a.is`}, {"reserved-word-as-identifier", `if::"a"`}, {"reserved-word-as-identifier", `A::has::"a"`},
	{"reserved-word-as-identifier", `like("1.0")`}, {"reserved-word-as-identifier", `principal is in`}, {"reserved-word-as-identifier", `principal is A::then`},
	{"reserved-word-as-identifier", `principal.then(1)`}, {"reserved-word-as-identifier", `__cedar::x::"a"`}, {"reserved-word-as-identifier", `else`},
	{"reserved-word-as-identifier", `@FULL permit(principal == in::"x", action, resource);`}, {"reserved-word-as-identifier", `@FULL permit(principal is if, action, resource);`},
	{"reserved-word-as-identifier", `@FULL permit(principal, action in [true::"x"], resource);`}, {"reserved-word-as-identifier", `@FULL permit(if, action, resource);`},
	{"duplicate-annotation", `@FULL @a("1") @a("2") permit(principal, action, resource);`}, {"duplicate-annotation", `@FULL @a("1") @b("x") @a("1") permit(principal, action, resource);`},
	{"duplicate-annotation", `@FULL @if("1") @if("2") forbid(principal, action, resource);`},
	{"duplicate-record-key", `{a: 1, a: 2}`}, {"duplicate-record-key", `{a: 1, "a": 2}`}, {"duplicate-record-key", `{"a": 1, b: 2, "\u{61}": 3}`}, {"duplicate-record-key", `{"": 1, "": 1}`},
	{"duplicate-record-key", `[{x: {k: 1, k: 1}}]`},
	{"unknown-function", `foo(1)`}, {"unknown-function", `A::b(1)`}, {"unknown-function", `IP("1.1.1.1")`}, {"unknown-function", `principal(1)`}, {"unknown-function", `contains(1)`},
	{"unknown-function", `context.foo()`}, {"unknown-function", `context.Contains(1)`}, {"unknown-function", `ip::v4("1.1.1.1")`},
	{"function-as-method", `context.ip()`}, {"function-as-method", `"1.0".decimal()`}, {"function-as-method", `context.datetime("2024-01-01")`}, {"function-as-method", `context.duration("1h")`},
	{"method-as-function", `isIpv4(context)`}, {"method-as-function", `lessThan(decimal("1.0"), decimal("2.0"))`}, {"method-as-function", `toDate(context)`}, {"method-as-function", `isInRange(ip("1.1.1.1"), ip("1.0.0.0/8"))`},
	{"method-arity", `[1].contains()`}, {"method-arity", `[1].contains(1, 2)`}, {"method-arity", `[1].isEmpty(1)`}, {"method-arity", `principal.getTag()`}, {"method-arity", `principal.hasTag("a", "b")`},
	{"unterminated-literal", `"abc`}, {"unterminated-literal", "\"abc\ndef\""}, {"unterminated-literal", `"abc\"`}, {"unterminated-literal", `1 /* never closed`}, {"unterminated-literal", `context.s like "a*`},
	{"unterminated-literal", `User::"a`}, {"unterminated-literal", `@FULL @a("x) permit(principal, action, resource);`},
	{"bad-escape", `"\q"`}, {"bad-escape", `"\u{}"`}, {"bad-escape", `"\u{1234567}"`}, {"bad-escape", `"\u{110000}"`}, {"bad-escape", `"\u{d800}"`}, {"bad-escape", `"\xff"`}, {"bad-escape", `"\x4"`},
	{"bad-escape", `"\*"`}, {"bad-escape", `"\u0041"`}, {"bad-escape", `context has "\*"`}, {"bad-escape", `context["\*"]`},
	{"malformed", `1 +`}, {"malformed", `(1`}, {"malformed", `1)`}, {"malformed", `[1, , 2]`}, {"malformed", `{a 1}`}, {"malformed", `principal.`}, {"malformed", `principal[a]`}, {"malformed", `principal["a"`},
	{"malformed", `if true then 1`}, {"malformed", `if true else 1`}, {"malformed", `1 = 2`}, {"malformed", `1 & 2`}, {"malformed", `1 | 2`}, {"malformed", `1 / 2`}, {"malformed", `1 % 2`}, {"malformed", `a`},
	{"malformed", `9223372036854775808`}, {"malformed", `-9223372036854775809`}, {"malformed", `1 2`}, {"malformed", `User::a`}, {"malformed", `User::`}, {"malformed", `::"a"`}, {"malformed", `principal is`},
	{"malformed", `principal like 1`}, {"malformed", `principal has 1`}, {"malformed", `#`}, {"malformed", `1 !2`},
	{"malformed", `@FULL permit(principal, action);`}, {"malformed", `@FULL permit(action, principal, resource);`}, {"malformed", `@FULL permit(principal, action, resource)`},
	{"malformed", `@FULL allow(principal, action, resource);`}, {"malformed", `@FULL permit(principal is User == User::"a", action, resource);`}, {"malformed", `@FULL permit(principal, action is Action, resource);`},
	{"malformed", `@FULL permit(principal in [User::"a"], action, resource);`}, {"malformed", `@FULL permit(principal, action, resource) when { true } when;`}, {"malformed", `@FULL permit(principal, action, resource) when true;`},
	{"malformed", `@FULL @a permit(principal, action, resource);`}, {"malformed", `@FULL @a(1) permit(principal, action, resource);`}, {"malformed", `@FULL @"a"("x") permit(principal, action, resource);`},
	{"malformed", `@FULL permit(principal, action in [Action::"a" Action::"b"], resource);`}, {"malformed", `@FULL permit(principal, action, resource,,);`},
}

var c07InsertPool = []string{"(", ")", "[", "]", "{", "}", ",", ";", ".", "::", ":", "@", "+", "-", "*", "!", "<", "<=", ">", ">=", "==", "!=", "&&", "||", "=", "|", "&", "/",
	"if", "then", "else", "in", "has", "like", "is", "true", "false", "__cedar", "principal", "action", "resource", "context", "permit", "forbid", "when", "unless",
	"a", "foo", "User", "ip", "isIpv4", "contains", "isEmpty", "getTag", "decimal", "lessThan", "0", "1", "42", "9223372036854775807", "9223372036854775808",
	`"s"`, `""`, `"a*b"`, `"\*"`, `"\n"`, `"\u{1F600}"`}

func runC07(c *vh.Ctx) {
	c.Res.Rule = "(a) generated policy ASTs (every (parent kind, operand position, child kind) pairing over 36 node kinds, random trees depth<=5, all scope/annotation forms, negative literals, keyword/empty/non-identifier attribute names, strings over every escape class) x {renderMin, renderFull} x {single-space, pseudo-random whitespace+comments} rendered by the Lean model: Go UnmarshalCedar must return the generating AST (vh.EncPolicy JSON); (a') re-layouts of those texts (whitespace/comments in front of the text or of a token, ASCII filler inside a string token) that put every byte boundary of a 2-/3-/4-byte character of a string literal / entity id / annotation value / like-pattern / record key, and the first/middle/last byte of a token of every kind, on offset 1024k-d (d=0..4, two k): same AST and exact Position as the compact text; (b) Lean model parser on Go's tokens vs Go's parser (AST incl. position, or both reject) on those texts, on token-level mutations of them and on every rejected form named in the property; (b') the composed MODEL pipeline bytes -> model lexer (C18) -> model parser (op parse-bytes; theorems C07_lex_layout, C07_parse_text_roundtrip_partial, C18_stream_parse_eq_bytes_parse) vs Go's UnmarshalCedar / NewPolicyListFromBytes on the same bytes, scanner-rejected texts included; (c) escape classes of all 1,114,112 code points, EscapeString/Unquote/ParsePattern on generated strings; distinct = distinct text; non-trivial = a condition containing an operator / a mutated or rejected text"
	sg := &vh.SynGen{R: c.Rng}

	// ---------- (a) generate ASTs, let the model render them ----------
	type item struct {
		p    *ast.Policy
		tag  string
		want string
	}
	var items []item
	add := func(tag string, p *ast.Policy) {
		if r := vh.ExpressibleC0708(p); r != "" {
			c.Dist("not-expressible:" + r)
			return
		}
		items = append(items, item{p, tag, encNoPos(p)})
	}
	sg.Pairings(c.N(1, 4), func(parent vh.SynKind, slot int, child vh.SynKind, n ast.IsNode) {
		add(fmt.Sprintf("pair:%v/%d/%v", parent, slot, child), sg.PolicyWith(n))
	})
	for i, n := 0, c.N(1600, 100000); i < n; i++ {
		add("random", sg.Policy(1+c.Rng.Intn(5)))
	}
	// deep left / right spines of every binary operator pair (associativity)
	binKinds := []vh.SynKind{vh.KAnd, vh.KOr, vh.KEq, vh.KLt, vh.KIn, vh.KAdd, vh.KSub, vh.KMul, vh.KContains, vh.KGetTag}
	for _, k1 := range binKinds {
		for _, k2 := range binKinds {
			for side := 0; side < 2; side++ {
				n := sg.Build(k1, func(i int) ast.IsNode {
					if i == side {
						return sg.Build(k2, func(j int) ast.IsNode {
							if j == side {
								return sg.Build(k1, func(int) ast.IsNode { return sg.RandLeaf() })
							}
							return sg.RandLeaf()
						})
					}
					return sg.RandLeaf()
				})
				add("spine", sg.PolicyWith(n))
			}
		}
	}
	// unary stacks over every literal / receiver form
	for _, ops := range [][]vh.SynKind{{vh.KNeg}, {vh.KNeg, vh.KNeg}, {vh.KNot, vh.KNeg}, {vh.KNeg, vh.KNot}, {vh.KNot, vh.KNot, vh.KNot, vh.KNot, vh.KNot}, {vh.KNeg, vh.KNeg, vh.KNeg, vh.KNeg, vh.KNeg}} {
		for _, inner := range []vh.SynKind{vh.KLong, vh.KNegLong, vh.KVar, vh.KAccess, vh.KIsEmpty, vh.KCallMethod, vh.KMul, vh.KStr} {
			var n ast.IsNode
			if vh.SynSlots(inner) == 0 {
				n = sg.Leaf(inner)
			} else {
				first := sg.Leaf([]vh.SynKind{vh.KLong, vh.KNegLong, vh.KVar}[c.Rng.Intn(3)])
				n = sg.Build(inner, func(i int) ast.IsNode {
					if i == 0 {
						return first
					}
					return sg.RandLeaf()
				})
			}
			for i := len(ops) - 1; i >= 0; i-- {
				arg := n
				n = sg.Build(ops[i], func(int) ast.IsNode { return arg })
			}
			add("unary-stack", sg.PolicyWith(n))
		}
	}

	// policies with 2-, 3-, 4-byte characters in every kind of string token (seeds of the layout check, c07_layout.go)
	for _, p := range c07LayoutItems(sg) {
		add("layout-seed", p)
	}

	renderings := []c07Rendering{{"min", 0}, {"full", 0}, {"min", -1}, {"full", -1}}
	type rjob struct {
		item int
		r    c07Rendering
		line int
	}
	b1 := &vh.Batch{}
	var jobs []rjob
	for i, it := range items {
		enc := vh.EncPolicy(it.p)
		for k, r := range renderings {
			if k >= 2 && c.Rng.Intn(2) == 0 && !strings.HasPrefix(it.tag, "pair") {
				continue
			}
			seed := r.seed
			if seed < 0 {
				seed = 1 + c.Rng.Int63n(1<<40)
			}
			line := b1.Add("render", map[string]any{"policy": enc, "mode": r.mode, "seed": seed}, "", it.tag)
			jobs = append(jobs, rjob{i, c07Rendering{r.mode, seed}, line})
		}
	}
	texts, err := c.RunDriver(b1)
	if err != nil {
		c.Report(vh.Finding{Class: "driver-failure", What: err.Error(), Check: "correspondence", NoInput: true})
		return
	}
	decodeText := func(s string) ([]byte, bool) {
		if !strings.HasPrefix(s, "ok ") {
			return nil, false
		}
		t, err := hex.DecodeString(s[3:])
		return t, err == nil
	}

	b2 := &vh.Batch{} // (b): parse-tokens lines
	addParse := func(text []byte, tag string, list bool) {
		// composed model pipeline on the BYTES (model lexer + model parser): C07_parse_text_roundtrip_partial,
		// C18_stream_parse_eq_bytes_parse; also exercised on texts the scanner rejects (both sides "err")
		{
			implB, _ := goParse(text)
			if list {
				implB = goParseList(text)
			}
			b2.Add("parse-bytes", map[string]any{"text": hex.EncodeToString(text), "list": list}, implB, tag+"/bytes")
		}
		toks, err := verifhooks.C0708Tokenize(text)
		if err != nil {
			c.Dist("scanner-rejects:" + tag)
			return
		}
		impl, _ := goParse(text)
		payload := map[string]any{"tokens": vh.EncTokensC07(toks)}
		if list {
			payload["list"] = true
			impl = goParseList(text)
		}
		b2.Add("parse-tokens", payload, impl, tag)
		if strings.HasPrefix(impl, "ok") {
			c.Dist("parse:" + tag + ":accepted")
		} else {
			c.Dist("parse:" + tag + ":rejected")
		}
	}

	failed := map[int][]string{} // item → failing renderings
	var validTexts [][]byte
	var layoutSeeds, layoutTexts [][]byte // renderings whose parse is the generating AST (input of the layout check)
	for _, j := range jobs {
		it := items[j.item]
		text, ok := decodeText(texts[j.line])
		if !ok {
			c.Dist("render-skipped")
			continue
		}
		c.Res.OracleChecks++
		c.Count(string(text), hasOperator(it.p))
		c.Dist("render:" + j.r.mode + map[bool]string{true: "/space", false: "/layout"}[j.r.seed == 0])
		_, got := goParse(text)
		if got == nil || encNoPos(got) != it.want {
			failed[j.item] = append(failed[j.item], fmt.Sprintf("%s/%d: %q", j.r.mode, j.r.seed, text))
		} else {
			if it.tag == "layout-seed" && j.r.mode == "min" && j.r.seed == 0 {
				layoutSeeds = append(layoutSeeds, text)
			} else {
				layoutTexts = append(layoutTexts, text)
			}
			if j.item%30 == 0 && j.r.seed != 0 {
				c.Sample(map[string]any{"mode": j.r.mode, "text": string(text)})
			}
		}
		if len(validTexts) < c.N(9000, 200000) {
			validTexts = append(validTexts, text)
		}
	}

	// layout invariance across the scanner's buffer boundaries (c07_layout.go)
	c07RunLayout(c, layoutSeeds, layoutTexts)

	// classification of (a)-failures by repair: render the repaired variants in a second round
	if len(failed) > 0 {
		type variant struct {
			item  int
			cause string
			p     *ast.Policy
			lines []int
		}
		var vs []variant
		b3 := &vh.Batch{}
		for idx := range items {
			if _, bad := failed[idx]; !bad {
				continue
			}
			cur := items[idx].p
			for _, cause := range c07Causes {
				q, changed := cause.Repair(cur)
				if !changed {
					continue
				}
				cur = q
				v := variant{item: idx, cause: cause.Name, p: q}
				enc := vh.EncPolicy(q)
				for _, r := range []c07Rendering{{"min", 0}, {"full", 0}, {"min", 77}, {"full", 99}} {
					v.lines = append(v.lines, b3.Add("render", map[string]any{"policy": enc, "mode": r.mode, "seed": r.seed}, "", ""))
				}
				vs = append(vs, v)
			}
		}
		out3, err := c.RunDriver(b3)
		if err != nil {
			c.Report(vh.Finding{Class: "driver-failure", What: err.Error(), Check: "correspondence", NoInput: true})
			return
		}
		class := map[int]string{}
		for _, v := range vs {
			if _, done := class[v.item]; done {
				continue
			}
			want := encNoPos(v.p)
			pass := true
			for _, l := range v.lines {
				text, ok := decodeText(out3[l])
				if !ok {
					pass = false
					break
				}
				_, got := goParse(text)
				if got == nil || encNoPos(got) != want {
					pass = false
					break
				}
			}
			if pass {
				class[v.item] = v.cause
			}
		}
		for idx, fs := range failed {
			cl, ok := class[idx]
			if !ok {
				cl = "unexplained:parse-of-rendering-differs"
			}
			c.Dist("oracle-a:" + cl)
			c.Report(vh.Finding{Class: cl, What: fmt.Sprintf("%s: Go parser does not return the generating AST for the model's rendering %s", cl, fs[0]),
				Check: "oracle", Op: "render→UnmarshalCedar", Input: json.RawMessage(items[idx].want), Expected: "the generating AST", Actual: fs})
		}
	}

	// ---------- (b) model parser vs Go parser ----------
	for i, t := range validTexts {
		if i%2 == 0 || i < 2000 {
			addParse(t, "rendered", false)
		}
	}
	// lists of policies
	for i, n := 0, c.N(300, 8000); i < n && len(validTexts) > 0; i++ {
		k := c.Rng.Intn(5)
		var parts []string
		for j := 0; j < k; j++ {
			parts = append(parts, string(validTexts[c.Rng.Intn(len(validTexts))]))
		}
		doc := strings.Join(parts, []string{"\n", " ", "\n\n// next\n", ""}[c.Rng.Intn(4)])
		addParse([]byte(doc), "list", true)
		c.Count("list:"+doc, k > 1)
	}
	// token-level mutations
	tokText := func(toks []verifhooks.C0708Token) []byte {
		var sb strings.Builder
		for i, t := range toks {
			if t.Type == 0 {
				continue
			}
			if i > 0 {
				sb.WriteByte(' ')
			}
			sb.WriteString(t.Text)
		}
		return []byte(sb.String())
	}
	nMut := c.N(7000, 300000)
	for i := 0; i < nMut && len(validTexts) > 0; i++ {
		base := validTexts[c.Rng.Intn(len(validTexts))]
		toks, err := verifhooks.C0708Tokenize(base)
		if err != nil || len(toks) < 3 {
			continue
		}
		toks = append([]verifhooks.C0708Token(nil), toks[:len(toks)-1]...) // drop EOF
		nm := 1 + c.Rng.Intn(2)
		kind := ""
		for m := 0; m < nm; m++ {
			pos := c.Rng.Intn(len(toks))
			switch c.Rng.Intn(5) {
			case 0:
				kind = "delete"
				toks = append(toks[:pos:pos], toks[pos+1:]...)
			case 1:
				kind = "duplicate"
				toks = append(toks[:pos+1:pos+1], toks[pos:]...)
			case 2:
				kind = "swap"
				if pos+1 < len(toks) {
					toks[pos], toks[pos+1] = toks[pos+1], toks[pos]
				}
			case 3:
				kind = "insert"
				ins := verifhooks.C0708Token{Type: 5, Text: c07InsertPool[c.Rng.Intn(len(c07InsertPool))]}
				toks = append(toks[:pos:pos], append([]verifhooks.C0708Token{ins}, toks[pos:]...)...)
			default:
				kind = "replace"
				toks[pos] = verifhooks.C0708Token{Type: 5, Text: c07InsertPool[c.Rng.Intn(len(c07InsertPool))]}
			}
			if len(toks) == 0 {
				break
			}
		}
		text := tokText(toks)
		c.Count("mut:"+string(text), true)
		addParse(text, "mutated-"+kind, false)
	}
	// rejected forms named in the property: Go must reject (direct oracle) and the model must agree
	for _, rf := range c07Rejected {
		text := rf.text
		if strings.HasPrefix(text, "@FULL ") {
			text = text[6:]
		} else {
			text = "permit(principal, action, resource) when { " + text + " };"
		}
		c.Res.OracleChecks++
		c.Count("rej:"+text, true)
		impl, _ := goParse([]byte(text))
		c.Dist("rejected-form:" + rf.class)
		if impl != "err" {
			c.Report(vh.Finding{Class: "accepts-ungrammatical:" + rf.class, What: fmt.Sprintf("text outside the grammar (%s) is not rejected: %s → %s", rf.class, text, impl),
				Check: "oracle", Op: "UnmarshalCedar", Input: text, Expected: "error", Actual: impl})
		}
		addParse([]byte(text), "rejected-form", false)
		// the same body embedded in a valid larger expression
		if !strings.HasPrefix(rf.text, "@FULL ") && rf.class != "unterminated-literal" {
			t2 := "permit(principal, action, resource) when { [1, (" + rf.text + ")].isEmpty() || true };"
			if impl2, _ := goParse([]byte(t2)); impl2 != "err" {
				c.Report(vh.Finding{Class: "accepts-ungrammatical:" + rf.class, What: fmt.Sprintf("text outside the grammar (%s) is not rejected: %s → %s", rf.class, t2, impl2),
					Check: "oracle", Op: "UnmarshalCedar", Input: t2, Expected: "error", Actual: impl2})
			}
			addParse([]byte(t2), "rejected-form", false)
		}
	}

	// ---------- (b'') integer literal spellings: the grammar's INT is a decimal digit string; leading zeros do not
	// change the value, in every context (bare, under unary minus / not, before a member access, at the int64 limits).
	// Direct oracle: the text with the literal written canonically must parse to the same tree (or both are rejected);
	// correspondence: model parser vs Go parser on the same texts.
	{
		vals := []string{"0", "1", "7", "8", "9", "10", "17", "64", "77", "100", "511", "777", "1000", "9223372036854775807", "9223372036854775808", "9223372036854775809"}
		for i := 0; i < c.N(12, 200); i++ {
			vals = append(vals, strconv.FormatUint(c.Rng.Uint64()>>uint(c.Rng.Intn(64)), 10))
		}
		ctxs := []string{"%s == 1", "-%s == 1", "- %s == 1", "--%s == 1", "!(-%s < 2)", "[-%s, %s].contains(-%s)", "1 - -%s > 0", "-%s * -%s == 4",
			"(-%s) == 1", "-%s.foo", "-%s[\"k\"]", "context.n + -%s == 0", "if -%s < 0 then -%s else %s", "{k: -%s}.k == -%s", "-(%s) == 1", "!-%s"}
		for _, v := range vals {
			for _, z := range []string{"0", "00", "00000"} {
				for _, cx := range ctxs {
					n := strings.Count(cx, "%s")
					sp, cn := make([]any, n), make([]any, n)
					for k := range sp {
						sp[k], cn[k] = z+v, v
					}
					spelled := "permit(principal, action, resource) when { " + fmt.Sprintf(cx, sp...) + " };"
					canon := "permit(principal, action, resource) when { " + fmt.Sprintf(cx, cn...) + " };"
					c.Res.OracleChecks++
					c.Count("intlit:"+spelled, true)
					c.Dist("int-literal-spelling")
					si, sp1 := goParse([]byte(spelled))
					ci, cp1 := goParse([]byte(canon))
					same := (sp1 == nil) == (cp1 == nil)
					if same && sp1 != nil {
						same = encNoPos(sp1) == encNoPos(cp1)
					}
					if !same {
						c.Report(vh.Finding{Class: "int-literal-leading-zeros", What: fmt.Sprintf("an integer literal with leading zeros does not denote its decimal value: %s parses to %s but %s parses to %s", spelled, si, canon, ci),
							Check: "oracle", Op: "UnmarshalCedar", Input: spelled, Expected: ci, Actual: si})
					}
					addParse([]byte(spelled), "int-literal", false)
				}
			}
		}
	}

	// ---------- (c) white-box: escape functions ----------
	for from := 0; from < 0x110000; from += 8192 {
		var sb strings.Builder
		for r := from; r < from+8192; r++ {
			if r >= 0xD800 && r <= 0xDFFF {
				sb.WriteByte('x')
				continue
			}
			cls := 0
			if verifhooks.C0708IsPrintable(rune(r)) {
				cls |= 1
			}
			if verifhooks.C0708IsGraphemeExtended(rune(r)) {
				cls |= 2
			}
			sb.WriteByte(byte('0' + cls))
		}
		b2.Add("escape-class", map[string]any{"from": from, "to": from + 8192}, sb.String(), "escape-class")
	}
	strs := append([]string(nil), vh.FixedStrings...)
	for i, n := 0, c.N(1200, 60000); i < n; i++ {
		strs = append(strs, sg.Str())
	}
	for _, s := range strs {
		es := verifhooks.C0708EscapeString(s)
		b2.Add("escape", map[string]any{"s": vh.Hex(s), "mode": "string"}, vh.Hex(es), "escape")
		b2.Add("escape", map[string]any{"s": vh.Hex(s), "mode": "charall"}, vh.Hex(verifhooks.C0708EscapeCharAll(s)), "escape")
		// direct oracle for the escape functions: Unquote(EscapeString(s)) = s unless s contains U+FFFD
		c.Res.OracleChecks++
		u, rest, err := verifhooks.C0708Unquote([]byte(es), false)
		if err != nil || u != s || len(rest) != 0 {
			cl := "unexplained:unquote-escape"
			if strings.ContainsRune(s, 0xFFFD) {
				// attribution by repair: the same string with U+FFFD replaced survives Unquote∘EscapeString
				s2 := strings.ReplaceAll(s, "\uFFFD", "X")
				if u2, rest2, err2 := verifhooks.C0708Unquote([]byte(verifhooks.C0708EscapeString(s2)), false); err2 == nil && u2 == s2 && len(rest2) == 0 {
					cl = vh.CauseReplacementChar.Name
				}
			}
			c.Report(vh.Finding{Class: cl, What: fmt.Sprintf("%s: Unquote(EscapeString(%q)) = %q, %v", cl, s, u, err), Check: "oracle", Op: "Unquote∘EscapeString", Input: vh.Hex(s)})
		}
		for _, raw := range []string{es, s, mutateEscape(c, es)} {
			for _, star := range []bool{false, true} {
				u, rest, err := verifhooks.C0708Unquote([]byte(raw), star)
				impl := "err"
				if err == nil {
					impl = "ok " + vh.Hex(u) + " " + vh.Hex(string(rest))
				}
				b2.Add("unquote", map[string]any{"s": vh.Hex(raw), "star": star}, impl, "unquote")
			}
			pat, err := verifhooks.C0708ParsePattern(raw)
			impl := "err"
			if err == nil {
				m := string(pat.MarshalCedar())
				impl = "ok " + vh.ShowPatternC07(pat) + " " + vh.Hex(m[1:len(m)-1])
			}
			b2.Add("pattern", map[string]any{"raw": vh.Hex(raw)}, impl, "pattern")
		}
	}

	var fragLines []int
	for _, it := range items {
		fragLines = append(fragLines, b2.Add("fragment", map[string]any{"policy": vh.EncPolicy(it.p)}, "", "fragment"))
	}
	ds, model, err := c.Correspond(b2)
	for _, l := range fragLines {
		if err == nil && l < len(model) {
			for _, f := range strings.Fields(model[l]) {
				c.Dist("proved-domain:" + f)
			}
		}
	}
	if err != nil {
		c.Report(vh.Finding{Class: "driver-failure", What: err.Error(), Check: "correspondence", NoInput: true})
		return
	}
	for _, d := range ds {
		c.Report(vh.Finding{Class: "model-mismatch:" + d.Line.Op, What: fmt.Sprintf("%s (%s): model %.300q vs implementation %.300q", d.Line.Op, d.Line.Tag, d.Model, d.Line.Impl),
			Check: "correspondence", Op: d.Line.Op, Input: d.Line.Payload(), Expected: d.Model, Actual: d.Line.Impl, NoInput: true})
	}
	_ = types.String("")
}

// mutateEscape damages / extends escape sequences of an escaped string.
func mutateEscape(c *vh.Ctx, s string) string {
	frags := []string{`\`, `\q`, `\x`, `\x4`, `\x7f`, `\x80`, `\xZZ`, `\u`, `\u{`, `\u{}`, `\u{41}`, `\u{110000}`, `\u{d800}`, `\u{dfff}`, `\u{e000}`, `\u{0000041}`, `\u{00041}`, `\u{FFFD}`, `\u{fffd}`,
		`\u{4G}`, `\u{41`, `\*`, `*`, `**`, `\0`, `\'`, `\"`, `"`, "�", `\n`, `\\`, `\\*`, `\u{10FFFF}`, `\U0001F600`, `\a`}
	f := frags[c.Rng.Intn(len(frags))]
	if len(s) == 0 {
		return f
	}
	pos := c.Rng.Intn(len(s) + 1)
	for pos < len(s) && pos > 0 && (s[pos]&0xC0) == 0x80 {
		pos++
	}
	return s[:pos] + f + s[pos:]
}
