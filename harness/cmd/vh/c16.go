package main

// C16: schema resolution and validation terminate without crashing.
// Every call into the code under test runs in a subprocess worker (worker_c16.go): 64 MiB stack cap, 5 s per
// operation; a crashed operation is re-run alone in a fresh worker to attribute it.

import (
	"bufio"
	"bytes"
	"encoding/json"
	"fmt"
	"io"
	"os"
	"os/exec"
	"runtime"
	"sort"
	"strconv"
	"strings"
	"sync"
	"time"

	"github.com/cedar-policy/cedar-go/types"
	"github.com/cedar-policy/cedar-go/x/exp/schema"
	sast "github.com/cedar-policy/cedar-go/x/exp/schema/ast"
	"github.com/cedar-policy/cedar-go/x/exp/schema/resolved"

	"verifharness/vh"
)

func init() { props["C16"] = runC16 }

// ---- subprocess pool ----

type c16Crash struct {
	Kind      string // stack-overflow | timeout | fatal
	Funcs     string // cedar-go functions on top of the fatal stack trace
	Confirmed bool   // crashed again when re-run alone
	Head      string // first lines of the worker's stderr
}

type c16Case struct {
	ID     int
	Tag    string
	S      *sast.Schema
	Enc    any
	Ops    []c16Op
	Res    map[int]string // op index -> result line
	Crash  map[int]c16Crash
	RS     *resolved.Schema // filled by the parent after phase 1 showed that resolution terminates
	Divers map[string]bool
	Budget *c16CrashBudget // shared by the cases of one family of tiny schemas (c16_xns.go); nil = none
}

type capBuf struct {
	mu sync.Mutex
	b  bytes.Buffer
}

func (c *capBuf) Write(p []byte) (int, error) {
	c.mu.Lock()
	defer c.mu.Unlock()
	if c.b.Len() < 1<<16 {
		c.b.Write(p)
	}
	return len(p), nil
}
func (c *capBuf) String() string { c.mu.Lock(); defer c.mu.Unlock(); return c.b.String() }

type c16Proc struct {
	cmd   *exec.Cmd
	in    io.WriteCloser
	lines chan string
	errb  *capBuf
}

// c16ConfirmSmallStack: re-run crashed operations with an 8 MiB cap (quick tier: a 64 MiB overflow costs seconds of CPU)
var c16ConfirmSmallStack = false

// c16WorkerExe is a private copy of the running binary (another check may rebuild harness/bin/vh while this one runs)
var c16WorkerExe string

func c16PrepareWorkerExe() (cleanup func(), err error) {
	src, err := os.Open("/proc/self/exe")
	if err != nil {
		exe, e2 := os.Executable()
		if e2 != nil {
			return func() {}, e2
		}
		c16WorkerExe = exe
		return func() {}, nil
	}
	defer src.Close()
	dst, err := os.CreateTemp("", "vh-c16worker-*")
	if err != nil {
		return func() {}, err
	}
	if _, err := io.Copy(dst, src); err != nil {
		dst.Close()
		os.Remove(dst.Name())
		return func() {}, err
	}
	dst.Close()
	if err := os.Chmod(dst.Name(), 0o755); err != nil {
		os.Remove(dst.Name())
		return func() {}, err
	}
	c16WorkerExe = dst.Name()
	return func() { os.Remove(dst.Name()) }, nil
}

func c16Start(smallStack bool) (*c16Proc, error) {
	exe := c16WorkerExe
	if exe == "" {
		var err error
		if exe, err = os.Executable(); err != nil {
			return nil, err
		}
	}
	cmd := exec.Command(exe, "-c16worker")
	cmd.Env = append(os.Environ(), "GOTRACEBACK=single", "GOMEMLIMIT=2GiB", "GOMAXPROCS=2")
	if smallStack {
		cmd.Env = append(cmd.Env, "VH_C16_MAXSTACK=8388608")
	}
	in, err := cmd.StdinPipe()
	if err != nil {
		return nil, err
	}
	out, err := cmd.StdoutPipe()
	if err != nil {
		return nil, err
	}
	p := &c16Proc{cmd: cmd, in: in, lines: make(chan string, 256), errb: &capBuf{}}
	cmd.Stderr = p.errb
	if err := cmd.Start(); err != nil {
		return nil, err
	}
	go func() {
		sc := bufio.NewScanner(out)
		sc.Buffer(make([]byte, 1<<20), 1<<28)
		for sc.Scan() {
			p.lines <- sc.Text()
		}
		close(p.lines)
	}()
	return p, nil
}

func (p *c16Proc) kill() {
	if p == nil {
		return
	}
	p.in.Close()
	_ = p.cmd.Process.Kill()
	_ = p.cmd.Wait()
}

// An operation is declared hung when the worker has burnt c16OpTimeout of CPU time on it (checked every wall second;
// wall time alone is meaningless on a loaded machine), or after c16WallLimit of wall time whatever the load.
const c16OpTimeout = 5 * time.Second
const c16WallLimit = 120 * time.Second

// procCPU returns the user+system CPU time consumed so far by a process (Linux /proc; 100 ticks per second).
// c16MaxOpCPU: evidence of the margin below c16OpTimeout on this machine (reported in the notes).
var (
	c16MaxOpMu  sync.Mutex
	c16MaxOpCPU time.Duration
)

func procCPU(pid int) time.Duration {
	b, err := os.ReadFile(fmt.Sprintf("/proc/%d/stat", pid))
	if err != nil {
		return 0
	}
	s := string(b)
	if i := strings.LastIndexByte(s, ')'); i >= 0 {
		s = s[i+1:]
	}
	f := strings.Fields(s)
	if len(f) < 13 {
		return 0
	}
	ut, _ := strconv.ParseInt(f[11], 10, 64)
	st, _ := strconv.ParseInt(f[12], 10, 64)
	return time.Duration(ut+st) * 10 * time.Millisecond
}

// c16RunOps runs ops of one case, restarting the worker after every crash; attribute = re-run a crashed op alone.
func c16RunOps(proc **c16Proc, cs *c16Case, ops []c16Op, attribute bool) error {
	return c16RunOpsStack(proc, cs, ops, attribute, false)
}

// c16Global: crash budget of the whole run (families with a budget of their own excepted). On the unchanged tree a
// run sees one or two operations that do not return (the known exponential-inlining schemas). When a defect makes a
// whole class of operations overflow the stack (every `in` scope over a cyclic entity hierarchy, say), each costs a
// worker process and seconds of CPU at the 64 MiB cap, thousands of them would outlast the check's time limit and the
// run would end as `harness-crash` WITHOUT a failing input. So: after c16GlobalSmall operations did not return, workers
// start with the 8 MiB cap and the attribution re-run is tried once; after c16GlobalDrop, the remaining operations of a
// case whose operation just crashed are not executed (reported in the distribution as skip:dropped-after-crash-budget).
// By then the run has that many findings with schema + operation as replay; it fails either way.
var c16Global = &c16CrashBudget{limit: c16GlobalSmall}

const (
	c16GlobalSmall = 6
	c16GlobalDrop  = 24
)

func c16RunOpsStack(proc **c16Proc, cs *c16Case, ops []c16Op, attribute, smallStack bool) error {
	for len(ops) > 0 {
		if *proc == nil {
			p, err := c16Start(smallStack || cs.Budget.spent() || c16Global.spent())
			if err != nil {
				return err
			}
			*proc = p
		}
		p := *proc
		msg, err := json.Marshal(c16Msg{ID: cs.ID, Schema: cs.Enc, Ops: ops})
		if err != nil {
			return err
		}
		if d := os.Getenv("VH_C16_DUMP"); d != "" {
			if f, err := os.OpenFile(d, os.O_APPEND|os.O_CREATE|os.O_WRONLY, 0o644); err == nil {
				f.Write(append(msg, '\n'))
				f.Close()
			}
		}
		if _, err := p.in.Write(append(msg, '\n')); err != nil {
			// worker already dead
		}
		next := 0
		done := false
		crashKind := ""
		timer := time.NewTicker(time.Second)
		cpu0, wall0 := procCPU(p.cmd.Process.Pid), time.Now()
	read:
		for {
			select {
			case line, ok := <-p.lines:
				if !ok {
					crashKind = "fatal"
					break read
				}
				parts := strings.SplitN(line, "\t", 3)
				if len(parts) < 3 {
					continue
				}
				id, _ := strconv.Atoi(parts[0])
				idx, _ := strconv.Atoi(parts[1])
				if id != cs.ID {
					continue
				}
				if now := procCPU(p.cmd.Process.Pid); true {
					c16MaxOpMu.Lock()
					if d := now - cpu0; d > c16MaxOpCPU {
						c16MaxOpCPU = d // the most CPU any RETURNING operation (or batch of operations between two result lines) used
					}
					c16MaxOpMu.Unlock()
					cpu0, wall0 = now, time.Now()
				}
				switch {
				case idx == -2:
				case idx == -1:
					done = true
					break read
				default:
					cs.Res[idx] = parts[2]
					next++
				}
			case <-timer.C:
				if procCPU(p.cmd.Process.Pid)-cpu0 >= c16OpTimeout || time.Since(wall0) >= c16WallLimit {
					crashKind = "timeout"
					break read
				}
			}
		}
		timer.Stop()
		if done {
			return nil
		}
		// crash or hang while running ops[next]
		p.kill()
		*proc = nil
		stderr := p.errb.String()
		if crashKind == "fatal" && (strings.Contains(stderr, "stack overflow") || strings.Contains(stderr, "goroutine stack exceeds")) {
			crashKind = "stack-overflow"
		}
		if next >= len(ops) {
			return fmt.Errorf("worker died after the last operation of case %s: %s", cs.Tag, firstLines(stderr, 3))
		}
		k := ops[next]
		cr := c16Crash{Kind: crashKind, Funcs: stackFuncs(stderr), Head: firstLines(stderr, 4)}
		rerunResult := ""
		if attribute {
			// attribution: the operation alone in a fresh worker. A time-out is re-run with a small stack cap: unbounded
			// recursion that needs more than the CPU budget to fill 64 MiB (loaded machine) then shows as the overflow it is.
			// up to three attempts: a crash that is a property of the input reproduces at once; a worker lost to the
			// environment (OOM killer on a loaded machine) must not turn into an unattributed crash
			attempts := 3
			if c16Global.spent() {
				attempts = 1
			}
			for attempt := 0; attempt < attempts && !cr.Confirmed; attempt++ {
				sub := &c16Case{ID: cs.ID, Tag: cs.Tag, Enc: cs.Enc, Res: map[int]string{}, Crash: map[int]c16Crash{}}
				var sp *c16Proc
				if err := c16RunOpsStack(&sp, sub, []c16Op{k}, false, c16ConfirmSmallStack || crashKind == "timeout"); err != nil {
					return err
				}
				sp.kill()
				if c2, ok := sub.Crash[k.I]; ok {
					if c2.Kind == cr.Kind {
						cr.Confirmed = true
					} else if cr.Kind == "timeout" && c2.Kind == "stack-overflow" {
						cr = c2
						cr.Confirmed = true
					} else if cr.Kind == "fatal" && c2.Kind != "fatal" {
						// the first worker died without a trace, the re-run shows what the operation really does
						cr = c2
						cr.Confirmed = true
					} else {
						cr.Head += fmt.Sprintf(" | re-run %d: %s %s", attempt+1, c2.Kind, c2.Head)
					}
				} else {
					cr.Head += fmt.Sprintf(" | re-run %d: returned %q", attempt+1, sub.Res[k.I])
					rerunResult = sub.Res[k.I]
				}
			}
		}
		if !cr.Confirmed && cr.Kind == "fatal" && strings.TrimSpace(stderr) == "" && rerunResult != "" {
			// the worker vanished without any Go fatal message (killed from outside) and the operation alone returns: not a crash
			cs.Res[k.I] = rerunResult
			ops = ops[next+1:]
			continue
		}
		cs.Crash[k.I] = cr
		cs.Budget.note()
		ops = ops[next+1:]
		if cs.Budget == nil && attribute {
			c16Global.note()
			if c16Global.count() >= c16GlobalDrop {
				for _, o := range ops {
					cs.Res[o.I] = "skip\tdropped-after-crash-budget"
				}
				ops = nil
			}
		}
	}
	return nil
}

func firstLines(s string, n int) string {
	ls := strings.SplitN(s, "\n", n+1)
	if len(ls) > n {
		ls = ls[:n]
	}
	return strings.Join(ls, " | ")
}

// c16RunAll distributes cases over a pool of workers.
func c16RunAll(cases []*c16Case) error {
	nw := runtime.NumCPU()
	if nw > 8 {
		nw = 8
	}
	if nw < 2 {
		nw = 2
	}
	jobs := make(chan *c16Case)
	var wg sync.WaitGroup
	var mu sync.Mutex
	var firstErr error
	for w := 0; w < nw; w++ {
		wg.Add(1)
		go func() {
			defer wg.Done()
			var proc *c16Proc
			for cs := range jobs {
				if len(cs.Ops) == 0 {
					continue
				}
				if err := c16RunOps(&proc, cs, cs.Ops, true); err != nil {
					mu.Lock()
					if firstErr == nil {
						firstErr = err
					}
					mu.Unlock()
				}
			}
			proc.kill()
		}()
	}
	for _, cs := range cases {
		jobs <- cs
	}
	close(jobs)
	wg.Wait()
	return firstErr
}

// ---- independent predictors of the three hierarchy walks (harness-side oracles) ----

// predictEntDesc is the independent oracle of isEntityDescendant(child, anc): `value` = anc is reachable from child by
// ONE OR MORE ParentTypes steps (breadth-first closure, no recursion). `reenters` tells whether a depth-first descent
// WITHOUT a visited set (in ParentTypes order, stopping at the first `true`) would re-enter a type that is still on its
// recursion stack, i.e. would never return: that is how isEntityDescendant was written before the repair of the finding
// `entity-descendant-unbounded-recursion`; such operations are still singled out (and sampled, each used to cost a
// process and seconds of CPU) — they must now return the verdict `value`.
func predictEntDesc(rs *resolved.Schema, child, anc types.EntityType) (value, reenters bool) {
	seen := map[types.EntityType]bool{}
	queue := append([]types.EntityType{}, rs.Entities[child].ParentTypes...)
	for len(queue) > 0 {
		p := queue[0]
		queue = queue[1:]
		if seen[p] {
			continue
		}
		seen[p] = true
		queue = append(queue, rs.Entities[p].ParentTypes...)
	}
	value = seen[anc]
	on := map[types.EntityType]bool{}
	var walk func(c types.EntityType) (bool, bool)
	walk = func(c types.EntityType) (bool, bool) {
		if on[c] {
			return false, true
		}
		on[c] = true
		defer func() { on[c] = false }()
		for _, p := range rs.Entities[c].ParentTypes {
			if p == anc {
				return true, false
			}
			v, d := walk(p)
			if d {
				return false, true
			}
			if v {
				return true, false
			}
		}
		return false, false
	}
	_, reenters = walk(child)
	return value, reenters
}

func predictActDesc(rs *resolved.Schema, a, anc types.EntityUID) (value, diverges bool) {
	on := map[types.EntityUID]bool{}
	var walk func(c types.EntityUID) (bool, bool)
	walk = func(c types.EntityUID) (bool, bool) {
		if on[c] {
			return false, true
		}
		on[c] = true
		defer func() { on[c] = false }()
		var ps []types.EntityUID
		for p := range rs.Actions[c].Entity.Parents.All() {
			ps = append(ps, p)
		}
		// the set iterates in an unspecified order: a `true` anywhere wins only if no earlier branch diverges;
		// on resolved (acyclic) schemas nothing diverges, so the order is immaterial
		anyDiv, anyTrue := false, false
		for _, p := range ps {
			if p == anc {
				anyTrue = true
				continue
			}
			v, d := walk(p)
			anyDiv = anyDiv || d
			anyTrue = anyTrue || v
		}
		if anyDiv {
			return false, true
		}
		return anyTrue, false
	}
	return walk(a)
}

// predictTypesIn: target + every entity type from which target is reachable through ParentTypes (independent closure).
func predictTypesIn(rs *resolved.Schema, target types.EntityType) []string {
	in := map[types.EntityType]bool{target: true}
	for changed := true; changed; {
		changed = false
		for n, e := range rs.Entities {
			if in[n] {
				continue
			}
			for _, p := range e.ParentTypes {
				if in[p] {
					in[n] = true
					changed = true
				}
			}
		}
	}
	var out []string
	for n := range in {
		out = append(out, vh.Hex(string(n)))
	}
	sort.Strings(out)
	return out
}

// ---- operation generators ----

func okPath(s string) bool { return validPath(s, false) }

func entityTypeNames(rs *resolved.Schema, max int) []string {
	var ns []string
	for n := range rs.Entities {
		ns = append(ns, string(n))
	}
	for n := range rs.Enums {
		ns = append(ns, string(n))
	}
	sort.Strings(ns)
	if len(ns) > max {
		ns = ns[:max]
	}
	return ns
}

func actionUIDs(rs *resolved.Schema, max int) []types.EntityUID {
	var us []types.EntityUID
	for u := range rs.Actions {
		us = append(us, u)
	}
	sort.Slice(us, func(i, j int) bool {
		if us[i].Type != us[j].Type {
			return us[i].Type < us[j].Type
		}
		return us[i].ID < us[j].ID
	})
	if len(us) > max {
		us = us[:max]
	}
	return us
}

func quoteID(s string) string {
	b, _ := json.Marshal(s) // ASCII ids only in generated policies
	return string(b)
}

func uidText(u types.EntityUID) string { return string(u.Type) + "::" + quoteID(string(u.ID)) }

var jsonLiterals = []struct{ name, lit string }{
	{"set", `[1,2]`}, {"empty-set", `[]`}, {"record", `{"a":1}`}, {"nested", `[{"a":[1]}]`},
	{"decimal", `{"__extn":{"fn":"decimal","arg":"1.5"}}`}, {"ip", `{"__extn":{"fn":"ip","arg":"10.0.0.1"}}`},
	{"datetime", `{"__extn":{"fn":"datetime","arg":"2024-01-01"}}`}, {"duration", `{"__extn":{"fn":"duration","arg":"1h"}}`},
	{"long", `1`}, {"bool", `true`}, {"string", `"s"`},
}

func jsonPolicy(body string) string {
	return `{"effect":"permit","principal":{"op":"All"},"action":{"op":"All"},"resource":{"op":"All"},"conditions":[{"kind":"when","body":` + body + `}]}`
}

// policyOps builds the validator operations for one resolved schema.
// level 2: every template on every ordered type pair in both modes, all JSON literal kinds;
// level 1: the core `in` / `is..in` / `==` templates on every ordered type pair (modes alternate), the others rotate;
// level 0: like 1 on at most 3 types, JSON literal kinds rotate.
func (g *c16Gen) policyOps(cs *c16Case, level int) {
	rs := cs.RS
	full := level >= 2
	maxT := 4
	if level == 0 {
		maxT = 2
	}
	tys := entityTypeNames(rs, maxT)
	var okTys []string
	for _, t := range tys {
		if okPath(t) {
			okTys = append(okTys, t)
		}
	}
	all := append(append([]string{}, okTys...), "Zz")
	acts := actionUIDs(rs, 2+level/2)
	var okActs []types.EntityUID
	for _, a := range acts {
		if okPath(string(a.Type)) {
			okActs = append(okActs, a)
		}
	}
	modes := []string{"strict", "permissive"}
	n := 0
	add := func(flag bool, src string) {
		n++
		for mi, m := range modes {
			if !full && (n+mi+cs.ID)%2 == 1 {
				continue
			}
			cs.Ops = append(cs.Ops, c16Op{K: "policy", Mode: m, Fmt: "cedar", Src: src, Flag: flag})
		}
	}
	rot := 0
	rotate := func(k int) bool { // extra templates: all at level 2, one in k otherwise
		rot++
		return full || (rot+cs.ID)%k == 0
	}
	div := func(x, y string) bool {
		if x == y {
			return false
		}
		k := x + "\x00" + y
		if d, ok := cs.Divers[k]; ok {
			return d
		}
		_, d := predictEntDesc(rs, types.EntityType(x), types.EntityType(y))
		cs.Divers[k] = d
		return d
	}
	allTys := entityTypeNames(rs, 1000)
	anyDiv := func(y string) bool { // some principal/resource type diverges against y
		for _, x := range allTys {
			if div(x, y) {
				return true
			}
		}
		return false
	}
	for _, y := range all {
		add(false, fmt.Sprintf(`permit(principal in %s::"g", action, resource);`, y))
		if rotate(2) {
			add(false, fmt.Sprintf(`permit(principal, action, resource in %s::"g");`, y))
		}
		if rotate(2) {
			add(false, fmt.Sprintf(`permit(principal == %s::"x", action, resource is %s);`, y, y))
		}
		add(anyDiv(y), fmt.Sprintf(`permit(principal, action, resource) when { principal in %s::"g" };`, y))
		if rotate(2) {
			add(anyDiv(y), fmt.Sprintf(`permit(principal, action, resource) unless { resource in [%s::"g"] };`, y))
		}
		for _, x := range all {
			add(div(x, y), fmt.Sprintf(`permit(principal is %s, action, resource) when { principal in %s::"g" };`, x, y))
			add(div(x, y), fmt.Sprintf(`permit(principal, action, resource) when { %s::"a" in %s::"b" };`, x, y))
			if rotate(2) {
				add(false, fmt.Sprintf(`permit(principal is %s in %s::"g", action, resource);`, x, y))
			}
			if rotate(2) {
				add(false, fmt.Sprintf(`permit(principal, action, resource) when { %s::"a" == %s::"b" };`, x, y))
			}
			if rotate(4) {
				add(false, fmt.Sprintf(`forbid(principal, action, resource is %s in %s::"g");`, x, y))
			}
			if rotate(4) {
				add(div(x, y) || div(x, x), fmt.Sprintf(`permit(principal, action, resource) when { %s::"a" in [%s::"b", %s::"c"] };`, x, y, y))
			}
			if rotate(4) {
				add(false, fmt.Sprintf(`permit(principal, action, resource) when { principal is %s in %s::"b" };`, x, y))
			}
			if rotate(4) {
				add(div(x, y), fmt.Sprintf(`permit(principal, action, resource) when { if %s::"a" in %s::"b" then true else principal == resource };`, x, y))
			}
		}
	}
	unk := types.NewEntityUID("Action", "zz-unknown")
	aa := append(append([]types.EntityUID{}, okActs...), unk)
	for _, a := range aa {
		add(false, fmt.Sprintf(`permit(principal, action == %s, resource);`, uidText(a)))
		add(false, fmt.Sprintf(`permit(principal, action in %s, resource);`, uidText(a)))
		add(false, fmt.Sprintf(`permit(principal, action, resource) when { action in %s };`, uidText(a)))
		for _, b2 := range aa {
			add(false, fmt.Sprintf(`permit(principal, action in [%s, %s], resource);`, uidText(a), uidText(b2)))
			add(false, fmt.Sprintf(`permit(principal, action, resource) when { %s in %s || action in [%s, %s] };`, uidText(a), uidText(b2), uidText(a), uidText(b2)))
		}
	}
	add(false, `permit(principal, action in [], resource);`)
	add(false, `permit(principal, action, resource) when { context has k && context.k == 1 };`)
	add(false, `permit(principal, action, resource) when { principal has x && principal.x has k };`)
	add(false, `permit(principal, action, resource) when { principal.hasTag("t") && principal.getTag("t") == resource.getTag("t") };`)
	add(anyDivAny(cs, allTys, div), `permit(principal, action, resource) when { principal in resource || resource in principal };`)
	add(false, `permit(principal, action, resource) when { [principal, resource].contains(principal) };`)
	// JSON-decoded policies whose literals are sets, records or extension values (the text parser never produces them)
	for li, l := range jsonLiterals {
		if !full && (li+cs.ID)%4 != 0 {
			continue
		}
		v := `{"Value":` + l.lit + `}`
		bodies := []string{
			`{"==":{"left":` + v + `,"right":` + v + `}}`,
			`{"contains":{"left":{"Set":[` + v + `]},"right":` + v + `}}`,
			`{"if-then-else":{"if":{"Value":true},"then":{"==":{"left":{"Var":"principal"},"right":` + v + `}},"else":{"Value":false}}}`,
			`{"in":{"left":{"Var":"principal"},"right":` + v + `}}`,
			`{"has":{"left":` + v + `,"attr":"a"}}`,
		}
		for bi, body := range bodies {
			if !full && (bi+cs.ID/4)%5 != 0 {
				continue
			}
			for mi, m := range modes {
				if !full && (mi+cs.ID/20)%2 != 0 {
					continue
				}
				cs.Ops = append(cs.Ops, c16Op{K: "policy", Mode: m, Fmt: "json", Src: jsonPolicy(body), A: l.name})
			}
		}
	}
	for ki, k := range []string{"ip", "datetime", "duration", "set-value", "record-value", "long"} {
		if full || (ki+cs.ID)%3 == 0 {
			cs.Ops = append(cs.Ops, c16Op{K: "policy-built", Mode: "strict", Src: k})
		}
	}
}

func anyDivAny(cs *c16Case, tys []string, div func(x, y string) bool) bool {
	for _, x := range tys {
		for _, y := range tys {
			if div(x, y) {
				return true
			}
		}
	}
	return false
}

type c16Gen struct{ c *vh.Ctx }

func (g *c16Gen) value(t resolved.IsType, conform bool, depth int) types.Value {
	r := g.c.Rng
	if !conform && r.Intn(3) == 0 {
		junk := []types.Value{types.Long(7), types.String("s"), types.True, types.NewSet(types.Long(1), types.String("x")), types.NewRecord(types.RecordMap{"zz": types.Long(1)}),
			types.NewEntityUID("Zz", "q"), mustDecimal("1.5")}
		return junk[r.Intn(len(junk))]
	}
	switch t := t.(type) {
	case resolved.StringType:
		return types.String("s")
	case resolved.LongType:
		return types.Long(r.Intn(5))
	case resolved.BoolType:
		return types.Boolean(r.Intn(2) == 0)
	case resolved.ExtensionType:
		switch string(t) {
		case "ipaddr":
			ip, _ := types.ParseIPAddr("10.0.0.1")
			return ip
		case "decimal":
			return mustDecimal("1.5")
		case "datetime":
			return types.NewDatetimeFromMillis(0)
		case "duration":
			return types.NewDurationFromMillis(1000)
		}
		return types.String("ext")
	case resolved.SetType:
		if depth <= 0 {
			return types.NewSet()
		}
		var vs []types.Value
		for i := 0; i < r.Intn(3); i++ {
			vs = append(vs, g.value(t.Element, conform, depth-1))
		}
		return types.NewSet(vs...)
	case resolved.RecordType:
		return g.record(t, conform, depth-1)
	case resolved.EntityType:
		return types.NewEntityUID(types.EntityType(t), "x")
	}
	return types.Long(0)
}

func mustDecimal(s string) types.Value {
	d, _ := types.ParseDecimal(s)
	return d
}

func (g *c16Gen) record(t resolved.RecordType, conform bool, depth int) types.Record {
	m := types.RecordMap{}
	keys := make([]string, 0, len(t))
	for k := range t {
		keys = append(keys, string(k))
	}
	sort.Strings(keys)
	for _, k := range keys {
		a := t[types.String(k)]
		if a.Optional && g.c.Rng.Intn(2) == 0 {
			continue
		}
		if !conform && g.c.Rng.Intn(6) == 0 {
			continue
		}
		if depth < -3 {
			continue
		}
		m[types.String(k)] = g.value(a.Type, conform, depth)
	}
	if !conform && g.c.Rng.Intn(4) == 0 {
		m["extra"] = types.Long(1)
	}
	return types.NewRecord(m)
}

// dataOps: Entity / Entities / Request operations on generated data.
func (g *c16Gen) dataOps(cs *c16Case) {
	rs := cs.RS
	tys := entityTypeNames(rs, 4)
	em := types.EntityMap{}
	addEnt := func(e types.Entity) {
		b, err := json.Marshal(e)
		if err != nil {
			return
		}
		cs.Ops = append(cs.Ops, c16Op{K: "entity", Mode: "strict", Src: string(b)})
		em[e.UID] = e
	}
	for _, tn := range tys {
		et := types.EntityType(tn)
		if se, ok := rs.Entities[et]; ok {
			for variant := 0; variant < 3; variant++ {
				conform := variant == 0
				e := types.Entity{UID: types.NewEntityUID(et, types.String(fmt.Sprintf("e%d", variant)))}
				var ps []types.EntityUID
				for _, p := range se.ParentTypes {
					ps = append(ps, types.NewEntityUID(p, "e0"))
				}
				if variant == 2 {
					ps = append(ps, types.NewEntityUID(types.EntityType(tys[g.c.Rng.Intn(len(tys))]), "e1"), types.NewEntityUID("Zz", "q"))
				}
				e.Parents = types.NewEntityUIDSet(ps...)
				e.Attributes = g.record(se.Shape, conform, 3)
				if se.Tags != nil || variant == 2 {
					tm := types.RecordMap{}
					if se.Tags != nil {
						tm["t"] = g.value(se.Tags, conform, 3)
					} else {
						tm["t"] = types.Long(1)
					}
					e.Tags = types.NewRecord(tm)
				}
				addEnt(e)
			}
		} else if en, ok := rs.Enums[et]; ok {
			if len(en.Values) > 0 {
				addEnt(types.Entity{UID: en.Values[0]})
			}
			addEnt(types.Entity{UID: types.NewEntityUID(et, "not-a-member"), Attributes: types.NewRecord(types.RecordMap{"a": types.Long(1)})})
		}
	}
	addEnt(types.Entity{UID: types.NewEntityUID("Zz", "q")})
	acts := actionUIDs(rs, 3)
	for _, a := range acts {
		// correct transitive closure of parents (independent computation), then a wrong one
		clo := map[types.EntityUID]bool{}
		var walk func(u types.EntityUID, depth int)
		walk = func(u types.EntityUID, depth int) {
			if clo[u] || depth > 50 {
				return
			}
			clo[u] = true
			for p := range rs.Actions[u].Entity.Parents.All() {
				walk(p, depth+1)
			}
		}
		for p := range rs.Actions[a].Entity.Parents.All() {
			walk(p, 0)
		}
		var ps []types.EntityUID
		for u := range clo {
			ps = append(ps, u)
		}
		addEnt(types.Entity{UID: a, Parents: types.NewEntityUIDSet(ps...)})
		cs.Ops = append(cs.Ops, c16Op{K: "entity", Mode: "strict", Src: mustJSON(types.Entity{UID: a, Parents: types.NewEntityUIDSet(a), Attributes: types.NewRecord(types.RecordMap{"a": types.Long(1)})})})
	}
	cs.Ops = append(cs.Ops, c16Op{K: "entity", Mode: "strict", Src: mustJSON(types.Entity{UID: types.NewEntityUID("Action", "zz-unknown")})})
	cs.Ops = append(cs.Ops, c16Op{K: "entities", Mode: "strict", Src: mustJSON(em)})
	cs.Ops = append(cs.Ops, c16Op{K: "entities", Mode: "permissive", Src: mustJSON(types.EntityMap{})})
	// requests
	nreq := 0
	for _, a := range append(append([]types.EntityUID{}, acts...), types.NewEntityUID("Action", "zz-unknown")) {
		act := rs.Actions[a]
		ptys := []types.EntityType{"Zz"}
		rtys := []types.EntityType{"Zz"}
		var ctx resolved.RecordType
		if act.AppliesTo != nil {
			ptys = append(ptys, act.AppliesTo.Principals...)
			rtys = append(rtys, act.AppliesTo.Resources...)
			ctx = act.AppliesTo.Context
		}
		if len(tys) > 0 {
			ptys = append(ptys, types.EntityType(tys[0]))
		}
		for _, p := range ptys {
			for _, r := range rtys {
				if nreq > 40 {
					break
				}
				nreq++
				req := c16Request{P: types.NewEntityUID(p, "x"), A: a, R: types.NewEntityUID(r, "y"), C: g.record(ctx, nreq%2 == 0, 3)}
				cs.Ops = append(cs.Ops, c16Op{K: "request", Mode: []string{"strict", "permissive"}[nreq%2], Src: mustJSON(req)})
			}
		}
	}
}

func mustJSON(v any) string {
	b, err := json.Marshal(v)
	if err != nil {
		return "null"
	}
	return string(b)
}

// walkOps: the three hierarchy walks through the white-box hooks, on every pair of a small type/action universe.
func (g *c16Gen) walkOps(cs *c16Case) {
	rs := cs.RS
	tys := append(entityTypeNames(rs, 4), "Zz")
	for _, x := range tys {
		cs.Ops = append(cs.Ops, c16Op{K: "typesin", A: x})
		for _, y := range tys {
			_, d := predictEntDesc(rs, types.EntityType(x), types.EntityType(y))
			cs.Ops = append(cs.Ops, c16Op{K: "entdesc", A: x, B: y, Flag: d})
		}
	}
	acts := append(actionUIDs(rs, 3), types.NewEntityUID("Action", "zz-unknown"))
	for _, a := range acts {
		for _, b2 := range acts {
			cs.Ops = append(cs.Ops, c16Op{K: "actdesc", A: string(a.Type), AID: string(a.ID), B: string(b2.Type), BID: string(b2.ID)})
		}
	}
}

// ---- classification ----

func c16ClassOfCrash(op c16Op, cr c16Crash) string {
	switch {
	case !cr.Confirmed:
		return "unattributed-crash-" + cr.Kind
	case cr.Kind == "stack-overflow" && cr.Funcs == "isEntityDescendant" && op.K != "resolve":
		return "entity-descendant-unbounded-recursion"
	case cr.Kind == "stack-overflow" && op.K == "resolve" && strings.Contains(cr.Funcs, "resolveTypeRef") && strings.Contains(cr.Funcs, "resolveType"):
		return "resolve-common-type-cycle-undetected"
	case cr.Kind == "stack-overflow":
		return "stack-overflow-in-" + op.K + "-" + strings.ReplaceAll(cr.Funcs, ">", "-")
	case cr.Kind == "timeout":
		return "timeout-in-" + op.K
	}
	return "fatal-in-" + op.K
}

func c16ClassOfPanic(op c16Op, res string) string {
	parts := strings.SplitN(res, "\t", 3) // panic, message, funcs
	msg, funcs := "", ""
	if len(parts) > 1 {
		msg = parts[1]
	}
	if len(parts) > 2 {
		funcs = parts[2]
	}
	if strings.HasPrefix(funcs, "typeOfValue") && strings.Contains(msg, "interface conversion") && strings.Contains(msg, "not types.EntityUID") {
		return "typeofvalue-non-entity-literal-panic"
	}
	first := funcs
	if i := strings.Index(first, ">"); i >= 0 {
		first = first[:i]
	}
	return "panic-in-" + op.K + "-" + first
}

// ---- shared with C17: model/Go correspondence lines about one schema ----

func resolveImpl(r resOut) string {
	if r.ok {
		return "ok " + r.dump
	}
	return "err"
}

// addSchemaCorrespondence adds the `resolve` line (and, for C17, the codec lines) for a schema resolved in-process.
func addSchemaCorrespondence(c *vh.Ctx, b *vh.Batch, cs vh.SchemaCase, codecs bool) {
	enc := vh.EncSchema(cs.S)
	r := resolveOut(cs.S)
	if r.panic != nil {
		return
	}
	idx := b.Add("schema-resolve", map[string]any{"schema": enc}, resolveImpl(r), cs.Tag)
	c.Count(b.Key(idx), len(cs.S.Entities)+len(cs.S.Enums)+len(cs.S.Actions)+len(cs.S.CommonTypes)+len(cs.S.Namespaces) > 0)
	if codecs {
		if t, err := schema.NewSchemaFromAST(cs.S).MarshalCedar(); err == nil {
			b.Add("schema-print", map[string]any{"schema": enc}, vh.Hex(string(t)), cs.Tag)
			// the text parser on the rendered text, and the whole text leg inside the model
			var back schema.Schema
			if err := back.UnmarshalCedar(t); err != nil {
				b.Add("schema-parse", map[string]any{"text": vh.Hex(string(t))}, "err", cs.Tag)
				rr := "unresolvable"
				if r.ok {
					rr = "resolvable"
				}
				b.Add("schema-text-roundtrip", map[string]any{"schema": enc}, "unparseable "+rr, cs.Tag)
			} else {
				b.Add("schema-parse", map[string]any{"text": vh.Hex(string(t))}, "ok "+vh.ShowSchemaAST(back.AST()), cs.Tag)
				t2, _ := schema.NewSchemaFromAST(back.AST()).MarshalCedar()
				st, sm := "unstable", "differs"
				if bytes.Equal(t, t2) {
					st = "stable"
				}
				if rb := resolveOut(back.AST()); rb.panic == nil && resolveImpl(rb) == resolveImpl(r) {
					sm = "same"
				}
				b.Add("schema-text-roundtrip", map[string]any{"schema": enc}, st+" "+sm, cs.Tag)
				// a mutated text (one rune deleted or duplicated at a pseudo-random position): accept/reject + AST
				if len(t) > 0 {
					rs := []rune(string(t))
					h := 0
					for _, x := range t {
						h = h*31 + int(x)
					}
					if h < 0 {
						h = -h
					}
					pos := h % len(rs)
					var mut []rune
					if h%2 == 0 {
						mut = append(append(mut, rs[:pos]...), rs[pos+1:]...)
					} else {
						mut = append(append(append(mut, rs[:pos+1]...), rs[pos]), rs[pos+1:]...)
					}
					var ms schema.Schema
					impl := "err"
					if p := vh.Protect(func() {
						if err := ms.UnmarshalCedar([]byte(string(mut))); err == nil {
							impl = "ok " + vh.ShowSchemaAST(ms.AST())
						}
					}); p == nil {
						b.Add("schema-parse", map[string]any{"text": vh.Hex(string(mut))}, impl, cs.Tag+"-mutated")
						c.Dist("parse-mutated:" + impl[:2])
					}
				}
			}
		}
		if j, err := schema.NewSchemaFromAST(cs.S).MarshalJSON(); err == nil {
			b.Add("schema-json", map[string]any{"schema": enc}, vh.Hex(string(j)), cs.Tag)
			var back schema.Schema
			rt := "error"
			if err := back.UnmarshalJSON(j); err == nil {
				e1, _ := json.Marshal(enc)
				e2, _ := json.Marshal(vh.EncSchema(back.AST()))
				rt = "differs"
				if bytes.Equal(e1, e2) {
					rt = "same"
				}
			}
			c.Dist("json-ast-roundtrip:" + rt)
			b.Add("schema-json-roundtrip", map[string]any{"schema": enc}, rt, cs.Tag)
		}
	}
}

func finishSchemaCorrespondence(c *vh.Ctx, b *vh.Batch) {
	ds, _, err := c.Correspond(b)
	if err != nil {
		c.Report(vh.Finding{Class: "driver-failure", What: err.Error(), Check: "correspondence", Op: "schema-resolve", NoInput: true})
		return
	}
	for _, d := range ds {
		c.Report(vh.Finding{Class: "schema-model-mismatch-" + d.Line.Op, What: fmt.Sprintf("%s disagreement (%s): impl=%q model=%q", d.Line.Op, d.Line.Tag, truncC16(d.Line.Impl, 400), truncC16(d.Model, 400)),
			Check: "correspondence", Op: d.Line.Op, Input: d.Line.Payload(), Expected: d.Model, Actual: d.Line.Impl})
	}
}

func truncC16(s string, n int) string {
	if len(s) > n {
		return s[:n] + "…"
	}
	return s
}

// ---- the check ----

func runC16(c *vh.Ctx) {
	c.Res.Rule = "schemas: ALL memberOf graphs on <=3 entity types (bare; <=2 namespaced), ALL common-type reference graphs on <=3 names (bare; namespaced unqualified / qualified: all on <=2 names, every 4th on 3 in the quick tier, all in thorough), ALL action-parent graphs on <=3 actions (unqualified bare; 4 more reference styles sampled likewise), ALL cross-namespace common-type graphs (<=3 names, each undeclared / a common type of the empty namespace, of NS or of both / an entity type of either; bodies Long or a reference X / NS::X, bare, Set<..> or {f: ..}; use site in NS or outside, unqualified or qualified: all on <=2 names, every 13th 3-name graph in the quick tier, all in thorough) with accept/reject and the inlined types decided by an independent reference resolver, a schema matching the world of the typed random policy generator; hand-written specials (undefined references, RFC-70 shadowing, resolution order, primitive-like names, deep nesting, 300-long chains), random schemas; Resolve of each in a subprocess worker (64 MiB stack, 5 s); for each resolved schema: validate.Policy (strict+permissive) on scope/condition forms using in / is..in / == between every ordered type pair and every action pair, JSON-decoded policies whose literals are sets/records/extension values, typed random policies (all node kinds) against the world schema, builder-made literal extension values; Entity/Entities/Request on conforming and junk data; the three hierarchy walks through hooks on every pair, compared with independent predictors and with the Lean model. distinct = distinct (schema, operation); non-trivial = operation on a schema with at least one cycle-free or cyclic edge"
	var scs []vh.SchemaCase
	scs = append(scs, vh.SpecialSchemas()...)
	scs = append(scs, vh.EntityGraphSchemas(3, false)...)
	scs = append(scs, vh.EntityGraphSchemas(2, true)...)
	// quick tier: the primary reference style on ALL graphs, the other styles on all graphs with <= 2 names and every 4th 3-name graph
	sampled := func(all []vh.SchemaCase, primary bool) []vh.SchemaCase {
		if primary || c.Thorough() {
			return all
		}
		var out []vh.SchemaCase
		for i, sc := range all {
			if i < 18 || i%4 == 0 {
				out = append(out, sc)
			}
		}
		return out
	}
	for st := 0; st <= 2; st++ {
		scs = append(scs, sampled(vh.CommonTypeGraphSchemas(3, st), st == 0)...)
	}
	for st := 0; st <= 4; st++ {
		scs = append(scs, sampled(vh.ActionGraphSchemas(3, st), st == 0)...)
	}
	for _, p := range []struct {
		name              string
		fromText, hostile bool
		n                 int
	}{{"rand-json", false, false, c.N(300, 6000)}, {"rand-text", true, false, c.N(150, 2000)}, {"rand-hostile", false, true, c.N(150, 2000)}} {
		g := &vh.SchemaGen{R: c.Rng, FromText: p.fromText, Hostile: p.hostile}
		for i := 0; i < p.n; i++ {
			scs = append(scs, vh.SchemaCase{Tag: fmt.Sprintf("%s-%d", p.name, i), S: g.Schema()})
		}
	}
	nFuzzCases := c.N(30, 800)
	if v := os.Getenv("VH_C16_FUZZ"); v != "" {
		fmt.Sscan(v, &nFuzzCases)
	}
	for i := 0; i < nFuzzCases; i++ {
		scs = append(scs, vh.SchemaCase{Tag: fmt.Sprintf("world-%d", i), S: vh.WorldSchema()})
	}
	scs = append(scs, vh.SchemaCase{Tag: "doubling-12", S: vh.DoublingSchema(12)})
	// 26 chained record types, each mentioning the next twice: Resolve inlines 2^26 records (minutes, gigabytes)
	scs = append(scs, vh.SchemaCase{Tag: "doubling-26", S: vh.DoublingSchema(26)})
	// cross-namespace common-type reference graphs (vh/gen_c16b.go): all on <= 2 names; on 3 names every 13th in the quick
	// tier (13 is coprime to the 4 use sites; the offset comes from the seed), all in thorough
	xnsStride := c.N(13, 1)
	xnsOffset := 0
	if xnsStride > 1 {
		xnsOffset = c.Rng.Intn(xnsStride)
	}
	if os.Getenv("VH_C16_NOXNS") == "" { // measurement knob only: the cost of the family = run with and without
		scs = append(scs, vh.C16XnsSchemas(xnsStride, xnsOffset)...)
	}

	cleanup, err := c16PrepareWorkerExe()
	defer cleanup()
	if err != nil {
		c.Report(vh.Finding{Class: "worker-failure", What: "cannot prepare the worker executable: " + err.Error(), Check: "oracle", Op: "resolve", NoInput: true})
		return
	}
	// phase 1: Resolve of every schema, in workers
	t0 := time.Now()
	c16ConfirmSmallStack = true // the first run of every operation uses the 64 MiB cap; the attribution re-run of a crashed one uses 8 MiB
	cases := make([]*c16Case, len(scs))
	var batches, xnsBatches []*c16Case
	batchOf := map[*c16Case][]*c16Case{} // batch -> its cases, in operation order
	// the tiny schemas of the cross-namespace family travel in batches of their own, run after the others with a crash
	// budget: should Resolve overflow the stack on many of them, the first few overflows fill the 64 MiB cap (seconds of
	// CPU each), later workers get the 8 MiB cap (these schemas need a few dozen frames)
	xnsBudget := &c16CrashBudget{limit: 4}
	for i, sc := range scs {
		cases[i] = &c16Case{ID: i, Tag: sc.Tag, S: sc.S, Enc: vh.EncSchema(sc.S), Ops: []c16Op{{I: 0, K: "resolve"}}, Res: map[int]string{}, Crash: map[int]c16Crash{}, Divers: map[string]bool{}}
		list := &batches
		var budget *c16CrashBudget
		if strings.HasPrefix(sc.Tag, "xns-") {
			list, budget = &xnsBatches, xnsBudget
		}
		if n := len(*list); n == 0 || len((*list)[n-1].Ops) >= 64 { // many schemas per message: a round trip per schema is slow on a loaded machine
			nb := len(batches) + len(xnsBatches)
			*list = append(*list, &c16Case{ID: 1_000_000 + nb, Tag: fmt.Sprintf("resolve-batch-%d", nb), Res: map[int]string{}, Crash: map[int]c16Crash{}, Budget: budget})
		}
		bt := (*list)[len(*list)-1]
		bt.Ops = append(bt.Ops, c16Op{I: len(bt.Ops), K: "resolve", S: cases[i].Enc})
		batchOf[bt] = append(batchOf[bt], cases[i])
	}
	for gi, group := range [][]*c16Case{batches, xnsBatches} {
		tg := time.Now()
		if err := c16RunAll(group); err != nil {
			c.Report(vh.Finding{Class: "worker-failure", What: err.Error(), Check: "oracle", Op: "resolve", NoInput: true})
			return
		}
		for _, bt := range group {
			for k, cs := range batchOf[bt] {
				if r, ok := bt.Res[k]; ok {
					cs.Res[0] = r
				}
				if cr, ok := bt.Crash[k]; ok {
					cs.Crash[0] = cr
				}
			}
		}
		if gi == 1 {
			n := 0
			for _, bt := range group {
				n += len(bt.Ops)
			}
			c.Res.Notes = append(c.Res.Notes, fmt.Sprintf("phase 1, cross-namespace family alone (%d schemas, %d batches): %.1fs", n, len(group), time.Since(tg).Seconds()))
		}
	}
	if xnsBudget.spent() {
		c.Res.Notes = append(c.Res.Notes, fmt.Sprintf("cross-namespace family: %d operations did not return; after the first %d the workers ran with an 8 MiB stack cap", xnsBudget.count(), xnsBudget.limit))
	}
	c.Res.Notes = append(c.Res.Notes, fmt.Sprintf("phase 1 (resolve, %d schemas): %.1fs", len(cases), time.Since(t0).Seconds()))
	b := &vh.Batch{}
	gen := &c16Gen{c: c}
	var phase2 []*c16Case
	for _, cs := range cases {
		c.Res.OracleChecks++
		kind := strings.SplitN(cs.Tag, "-", 2)[0]
		if cr, ok := cs.Crash[0]; ok {
			cls := c16ClassOfResolveCrash(cs, cr)
			if cr.Kind == "timeout" && cr.Confirmed && strings.HasPrefix(cs.Tag, "doubling-") {
				cls = "common-type-exponential-inlining" // narrow: the generated doubling chain only
			}
			if cr.Kind == "stack-overflow" {
				b.Add("schema-resolve", map[string]any{"schema": cs.Enc}, "diverges", cs.Tag)
			}
			c.Dist("resolve-crash:" + cls)
			crashIn := map[string]any{"schema": cs.Enc, "tag": cs.Tag}
			expected := "a resolved schema or an error"
			if kind == "xns" { // tiny schemas: the replay carries the Cedar text and the reference's answer
				if t, err := schema.NewSchemaFromAST(cs.S).MarshalCedar(); err == nil {
					crashIn["schema_text"] = string(t)
				}
				if ref := c16RefResolve(cs.S); ref.OK {
					expected = "ok " + ref.Dump
				} else {
					expected = "err (" + ref.Why + ")"
				}
			}
			c.Report(vh.Finding{Class: cls, What: fmt.Sprintf("Resolve did not return on schema %s: %s %s", cs.Tag, cr.Kind, cr.Head), Check: "oracle", Op: "resolve",
				Input: crashIn, Expected: expected, Actual: cr.Kind})
			continue
		}
		res := cs.Res[0]
		if kind == "xns" && strings.HasPrefix(res, "resolve\t") {
			// the independent reference resolver decides accept/reject and the inlined types
			c.Res.OracleChecks++
			ref := c16RefResolve(cs.S)
			c.Dist("xns-reference:" + map[bool]string{true: "ok", false: "reject-" + ref.Why}[ref.OK])
			if ref.UnusedUndefined {
				c.Dist("xns:undefined-but-unused")
			}
			if cls, what := c16CheckXns(ref, strings.TrimPrefix(res, "resolve\t")); cls != "" {
				in := map[string]any{"schema": cs.Enc, "tag": cs.Tag}
				if t, err := schema.NewSchemaFromAST(cs.S).MarshalCedar(); err == nil {
					in["schema_text"] = string(t)
				}
				c.Report(vh.Finding{Class: cls, What: fmt.Sprintf("schema %s: %s", cs.Tag, what), Check: "oracle", Op: "resolve", Input: in,
					Expected: map[bool]string{true: "ok " + ref.Dump, false: "err (" + ref.Why + ")"}[ref.OK], Actual: strings.TrimPrefix(res, "resolve\t")})
			}
		}
		switch {
		case strings.HasPrefix(res, "panic"):
			c.Report(vh.Finding{Class: c16ClassOfPanic(cs.Ops[0], res), What: fmt.Sprintf("Resolve panicked on schema %s: %s", cs.Tag, res), Check: "oracle", Op: "resolve",
				Input: map[string]any{"schema": cs.Enc, "tag": cs.Tag}, Expected: "a resolved schema or an error", Actual: res})
			continue
		case strings.HasPrefix(res, "resolve\tok "):
			c.Dist("resolve-ok:" + kind)
			idx := b.Add("schema-resolve", map[string]any{"schema": cs.Enc}, strings.TrimPrefix(res, "resolve\t"), cs.Tag)
			c.Count(b.Key(idx), true)
			// resolution terminated in the worker, so it is safe to resolve in-process to build the phase-2 operations
			rs, err := schema.NewSchemaFromAST(cs.S).Resolve()
			if err != nil {
				continue
			}
			cs.RS = rs
			phase2 = append(phase2, cs)
		case res == "resolve\terr":
			c.Dist("resolve-err:" + kind)
			idx := b.Add("schema-resolve", map[string]any{"schema": cs.Enc}, "err", cs.Tag)
			c.Count(b.Key(idx), true)
		default:
			c.Report(vh.Finding{Class: "worker-protocol", What: "unexpected resolve result: " + res, Check: "oracle", Op: "resolve", NoInput: true})
		}
	}

	// phase 2: validator operations on every resolved schema
	for _, cs := range phase2 {
		cs.Ops = nil
		switch strings.SplitN(cs.Tag, "-", 2)[0] {
		case "entgraph":
			gen.walkOps(cs)
			if len(cs.RS.Entities) <= 2 || c.Thorough() {
				gen.policyOps(cs, 2)
			} else {
				gen.policyOps(cs, 1)
			}
			gen.dataOps(cs)
		case "actgraph":
			gen.walkOps(cs)
			gen.policyOps(cs, 1)
			gen.dataOps(cs)
		case "ctgraph":
			if cs.ID%4 == 0 || c.Thorough() {
				gen.policyOps(cs, 0)
			}
			gen.dataOps(cs)
		case "world":
			// typed random policies (vh.Gen: ~45 node kinds, extension calls, literal sets/records/extension values) as JSON
			pg := vh.NewGen(c.Rng)
			for k := 0; k < 50; k++ {
				pol := vh.MkPolicy("p", pg.Policy(1+k%3))
				mode := []string{"strict", "permissive"}[k%2]
				if k%4 < 2 {
					// as Cedar text: literal sets/records/extension values become Set/Record nodes and extension calls,
					// so the type checker is not cut short by the typeOfValue panic
					cs.Ops = append(cs.Ops, c16Op{K: "policy", Mode: mode, Fmt: "cedar", Src: string(pol.P.MarshalCedar()), A: "fuzz"})
					continue
				}
				js, err := pol.P.MarshalJSON()
				if err != nil {
					continue
				}
				cs.Ops = append(cs.Ops, c16Op{K: "policy", Mode: mode, Fmt: "json", Src: string(js), A: "fuzz"})
			}
			if cs.ID%10 == 0 {
				gen.dataOps(cs)
			}
		case "xns":
			// resolution only: the family has no actions, and its entity hierarchies are covered by the entgraph family
		case "special":
			gen.walkOps(cs)
			gen.policyOps(cs, 2)
			gen.dataOps(cs)
		default:
			gen.walkOps(cs)
			gen.policyOps(cs, 0)
			gen.dataOps(cs)
		}
	}
	// operations on which a descent without visited set would recurse forever (the repaired defect) are sampled
	// (quick: 12, thorough: 300) — if the defect returns each costs seconds of CPU and a process; they must return a verdict
	flagged := 0
	for _, cs := range phase2 {
		for _, op := range cs.Ops {
			if op.Flag {
				flagged++
			}
		}
	}
	budget := c.N(12, 300)
	stride := 1
	if flagged > budget {
		stride = (flagged + budget - 1) / budget
	}
	seen, executedFlagged, totalOps := 0, 0, 0
	var deferred []*c16Case // the flagged operations not in the sample, per schema
	for _, cs := range phase2 {
		var keep, later []c16Op
		for _, op := range cs.Ops {
			if op.Flag {
				seen++
				if seen%stride != 0 {
					op.I = len(later)
					later = append(later, op)
					continue
				}
				executedFlagged++
			}
			op.I = len(keep)
			keep = append(keep, op)
		}
		cs.Ops = keep
		totalOps += len(keep)
		if len(later) > 0 {
			deferred = append(deferred, &c16Case{ID: 2_000_000 + cs.ID, Tag: cs.Tag, S: cs.S, Enc: cs.Enc, Ops: later, Res: map[int]string{}, Crash: map[int]c16Crash{}, RS: cs.RS, Divers: cs.Divers})
		}
	}
	t1 := time.Now()
	if err := c16RunAll(phase2); err != nil {
		c.Report(vh.Finding{Class: "worker-failure", What: err.Error(), Check: "oracle", Op: "validate", NoInput: true})
		return
	}
	c.Res.Notes = append(c.Res.Notes, fmt.Sprintf("phase 2 (%d resolved schemas, %d operations, %d/%d possibly-divergent executed, stride %d): %.1fs", len(phase2), totalOps, executedFlagged, flagged, stride, time.Since(t1).Seconds()))
	if c16Global.spent() {
		c.Res.Notes = append(c.Res.Notes, fmt.Sprintf("crash budget: %d operations did not return; after the first %d the workers ran with an 8 MiB stack cap, after %d the remaining operations of a case were dropped once one of them crashed", c16Global.count(), c16GlobalSmall, c16GlobalDrop))
	}
	// when every sampled flagged operation returned (the visited set is in place) the remaining ones are cheap: run them all.
	// When one of them crashed (the defect is back) the rest stays unexecuted: each would cost a process and seconds of CPU.
	sampleCrashed := false
	for _, cs := range phase2 {
		for _, op := range cs.Ops {
			if _, crashed := cs.Crash[op.I]; crashed && op.Flag {
				sampleCrashed = true
			}
		}
	}
	if sampleCrashed {
		for _, cs := range deferred {
			for _, op := range cs.Ops {
				c.Dist("flagged-not-executed:" + op.K)
			}
		}
	} else if len(deferred) > 0 {
		t2, nDef := time.Now(), 0
		if err := c16RunAll(deferred); err != nil {
			c.Report(vh.Finding{Class: "worker-failure", What: err.Error(), Check: "oracle", Op: "validate", NoInput: true})
			return
		}
		for _, cs := range deferred {
			nDef += len(cs.Ops)
		}
		phase2 = append(phase2, deferred...)
		c.Res.Notes = append(c.Res.Notes, fmt.Sprintf("phase 2b (no sampled possibly-divergent operation crashed: the other %d executed as well): %.1fs", nDef, time.Since(t2).Seconds()))
	}

	crashes := 0
	for _, cs := range phase2 {
		for _, op := range cs.Ops {
			c.Res.OracleChecks++
			key := fmt.Sprintf("%d/%d", cs.ID, op.I)
			c.Count(key, true)
			c.Dist("op:" + op.K)
			input := map[string]any{"schema": cs.Enc, "tag": cs.Tag, "op": op}
			if t, err := schema.NewSchemaFromAST(cs.S).MarshalCedar(); err == nil && len(t) < 2000 {
				input["schema_text"] = string(t)
			}
			cr, crashed := cs.Crash[op.I]
			res := cs.Res[op.I]
			if !crashed && res == "skip\tdropped-after-crash-budget" { // not executed (c16Global): no observation to compare
				c.Dist("skip:dropped-after-crash-budget")
				continue
			}
			what := func() string {
				return fmt.Sprintf("%s %s %s%s on schema %s", op.K, op.Mode, truncC16(op.Src, 200), op.A+" "+op.B, cs.Tag)
			}
			switch {
			case crashed:
				crashes++
				cls := c16ClassOfCrash(op, cr)
				c.Dist("crash:" + cls)
				if !op.Flag {
					c.Dist("crash-not-predicted:" + op.K)
				}
				c.Report(vh.Finding{Class: cls, What: fmt.Sprintf("%s: %s (%s) %s", what(), cr.Kind, cr.Funcs, truncC16(cr.Head, 160)), Check: "oracle", Op: op.K, Input: input,
					Expected: "a verdict", Actual: cr.Kind + " in " + cr.Funcs})
			case strings.HasPrefix(res, "panic"):
				cls := c16ClassOfPanic(op, res)
				c.Dist("panic:" + cls)
				c.Report(vh.Finding{Class: cls, What: fmt.Sprintf("%s: %s", what(), truncC16(res, 300)), Check: "oracle", Op: op.K, Input: input, Expected: "a verdict", Actual: res})
			case res == "":
				c.Report(vh.Finding{Class: "worker-protocol", What: "no result for " + what(), Check: "oracle", Op: op.K, NoInput: true})
			case strings.HasPrefix(res, "skip"):
				c.Dist("skip:" + firstField(strings.TrimPrefix(res, "skip\t")))
			default:
				c.Dist("result:" + strings.SplitN(res, "\t", 2)[0])
			}
			// the walks: independent predictor + Lean model
			switch op.K {
			case "entdesc":
				v, _ := predictEntDesc(cs.RS, types.EntityType(op.A), types.EntityType(op.B))
				want := fmt.Sprintf("value\t%v", v) // also where a descent without visited set would not return
				impl := strings.TrimPrefix(res, "value\t")
				got := res
				if crashed && cr.Kind == "stack-overflow" {
					got, impl = "diverges", "diverges"
				}
				if got != want {
					c.Report(vh.Finding{Class: "entity-descendant-predictor-mismatch", What: fmt.Sprintf("isEntityDescendant(%s,%s) on %s: predicted %q, observed %q", op.A, op.B, cs.Tag, want, got), Check: "oracle", Op: op.K, Input: input, Expected: want, Actual: got})
				}
				b.Add("schema-entdesc", map[string]any{"schema": cs.Enc, "a": vh.Hex(op.A), "b": vh.Hex(op.B)}, impl, cs.Tag)
			case "actdesc":
				v, d := predictActDesc(cs.RS, types.NewEntityUID(types.EntityType(op.A), types.String(op.AID)), types.NewEntityUID(types.EntityType(op.B), types.String(op.BID)))
				want := fmt.Sprintf("value\t%v", v)
				if d {
					want = "diverges"
				}
				if res != want && !crashed {
					c.Report(vh.Finding{Class: "action-descendant-predictor-mismatch", What: fmt.Sprintf("isActionDescendant on %s: predicted %q, observed %q", cs.Tag, want, res), Check: "oracle", Op: op.K, Input: input, Expected: want, Actual: res})
				}
				if strings.HasPrefix(res, "value\t") {
					b.Add("schema-actdesc", map[string]any{"schema": cs.Enc, "a": []string{vh.Hex(op.A), vh.Hex(op.AID)}, "b": []string{vh.Hex(op.B), vh.Hex(op.BID)}}, strings.TrimPrefix(res, "value\t"), cs.Tag)
				}
			case "typesin":
				want := "value\t" + strings.Join(predictTypesIn(cs.RS, types.EntityType(op.A)), ",")
				if res != want && !crashed {
					c.Report(vh.Finding{Class: "types-in-predictor-mismatch", What: fmt.Sprintf("getEntityTypesIn(%s) on %s: predicted %q, observed %q", op.A, cs.Tag, want, res), Check: "oracle", Op: op.K, Input: input, Expected: want, Actual: res})
				}
				if strings.HasPrefix(res, "value\t") {
					b.Add("schema-typesin", map[string]any{"schema": cs.Enc, "a": vh.Hex(op.A)}, strings.TrimPrefix(res, "value\t"), cs.Tag)
				}
			}
		}
	}
	c.Res.Notes = append(c.Res.Notes, fmt.Sprintf("worker crashes attributed: %d", crashes))
	c.Res.Notes = append(c.Res.Notes, fmt.Sprintf("most CPU between two result lines of a worker (operations that returned): %v; an operation is declared hung after %v of CPU", c16MaxOpCPU, c16OpTimeout))
	c.Sample(map[string]any{"schema": "entity A in [A]; entity B; action view appliesTo {principal: [A,B], resource: [A,B]};", "op": `policy strict: permit(principal is A, action, resource) when { principal in B::"g" };`})
	c.Sample(map[string]any{"schema": "any schema with an action that applies", "op": `policy (JSON): when {"==":{"left":{"Value":[1,2]},"right":{"Value":[1,2]}}}`})
	finishSchemaCorrespondence(c, b)
}

func firstField(s string) string {
	if i := strings.IndexAny(s, " "); i >= 0 {
		return s[:i]
	}
	return s
}
