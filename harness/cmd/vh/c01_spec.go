package main

// C01 direct oracle for the one place where the Go evaluator was found to leave the Cedar
// specification: `toDate` / `toTime` (internal/eval/evalers.go, toDateEval / toTimeEval) used to compute
// `ms - ms % MillisPerDay` and `ms % MillisPerDay` with Go's truncated `%`; the specification
// (Cedar.Spec.Ext.Datetime.toDate / toTime, and `Spec.floorDate` in lean/CedarGo/Spec/Evaluator.lean)
// uses FLOOR semantics and reports an error when flooring leaves the int64 range.
// The defect (class todate-totime-negative-truncation) is repaired (known_findings: status "fixed");
// the oracle is unchanged, so a return of the truncation is reported as a VIOLATION.
// The expected values are computed here with math/big, independently of both the Go code and the Lean model.

import (
	"fmt"
	"math/big"

	"github.com/cedar-policy/cedar-go/types"
	"github.com/cedar-policy/cedar-go/x/exp/ast"
	"github.com/cedar-policy/cedar-go/x/exp/eval"

	"verifharness/vh"
)

const classToDateTrunc = "todate-totime-negative-truncation"

var bigMillisPerDay = big.NewInt(86400000)

// specToDate / specToTime: floor semantics of the Cedar specification, canonical result strings of the
// harness (`ok datetime(ms)` … as printed by vh.ShowRes) are produced by going through the same printer.
func specToDate(ms int64) (int64, bool) {
	q, _ := new(big.Int).DivMod(big.NewInt(ms), bigMillisPerDay, new(big.Int)) // Euclidean = floor for a positive divisor
	d := q.Mul(q, bigMillisPerDay)
	if !d.IsInt64() {
		return 0, false // specification: overflow error
	}
	return d.Int64(), true
}

func specToTime(ms int64) int64 {
	_, m := new(big.Int).DivMod(big.NewInt(ms), bigMillisPerDay, new(big.Int))
	return m.Int64() // always in [0, 86399999]
}

func checkToDateToTime(c *vh.Ctx) {
	env := eval.Env{Entities: types.EntityMap{}, Principal: types.NewEntityUID("User", "a"), Action: types.NewEntityUID("Action", "a"),
		Resource: types.NewEntityUID("Doc", "a"), Context: types.NewRecord(nil)}
	var inputs []int64
	inputs = append(inputs, vh.BoundaryMillis...)
	// neighbours of the day grid around the epoch and at both ends of the range
	for _, base := range []int64{0, -86400000, 86400000, -9223372036854775808 + 86400000, 9223372036854775807 - 86400000, -9223372036800000000, 9223372036800000000} {
		for d := int64(-2); d <= 2; d++ {
			inputs = append(inputs, base+d)
		}
	}
	inputs = append(inputs, -9223372036854775808, -9223372036854775807, -9223372036854775808+86399999, 9223372036854775807)
	n := c.N(4000, 200000)
	for i := 0; i < n; i++ {
		switch c.Rng.Intn(4) {
		case 0:
			inputs = append(inputs, c.Rng.Int63()-c.Rng.Int63())
		case 1:
			inputs = append(inputs, -c.Rng.Int63n(86400000*400))
		case 2:
			inputs = append(inputs, (c.Rng.Int63n(200000)-100000)*86400000+c.Rng.Int63n(3)-1)
		default:
			inputs = append(inputs, c.Rng.Int63n(86400000*40000)-86400000*20000)
		}
	}
	call := func(fn string, ms int64) string {
		var s string
		if p := vh.Protect(func() {
			v, err := eval.Eval(ast.NodeTypeExtensionCall{Name: types.Path(fn), Args: []ast.IsNode{ast.NodeValue{Value: types.NewDatetimeFromMillis(ms)}}}, env)
			s = vh.ShowRes(v, err)
		}); p != nil {
			s = "err panic"
		}
		return s
	}
	for _, ms := range inputs {
		c.Res.OracleChecks += 2
		aligned := ms >= 0 || specToTime(ms) == 0
		if aligned {
			c.Dist("todate-oracle:nonneg-or-day-aligned")
		} else {
			c.Dist("todate-oracle:negative-unaligned")
		}
		// toDate
		wantD := "err overflow"
		if d, ok := specToDate(ms); ok {
			wantD = vh.ShowRes(types.NewDatetimeFromMillis(d), nil)
		}
		if got := call("toDate", ms); got != wantD {
			cls := "todate-mismatch"
			if !aligned {
				cls = classToDateTrunc
			}
			c.Report(vh.Finding{Class: cls, What: fmt.Sprintf("datetime(%dms).toDate(): cedar-go %q, Cedar specification (floor) %q", ms, got, wantD),
				Check: "oracle", Op: "toDate", Input: map[string]any{"fn": "toDate", "datetime_ms": ms}, Expected: wantD, Actual: got})
		}
		// toTime
		wantT := vh.ShowRes(types.NewDurationFromMillis(specToTime(ms)), nil)
		if got := call("toTime", ms); got != wantT {
			cls := "totime-mismatch"
			if !aligned {
				cls = classToDateTrunc
			}
			c.Report(vh.Finding{Class: cls, What: fmt.Sprintf("datetime(%dms).toTime(): cedar-go %q, Cedar specification (floor) %q", ms, got, wantT),
				Check: "oracle", Op: "toTime", Input: map[string]any{"fn": "toTime", "datetime_ms": ms}, Expected: wantT, Actual: got})
		}
	}
	c.Res.Notes = append(c.Res.Notes, fmt.Sprintf("toDate/toTime floor oracle: %d datetimes", len(inputs)))
}
