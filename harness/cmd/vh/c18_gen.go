package main

import (
	"bytes"
	"math/rand"
	"strings"
	"unicode/utf8"
)

// polPos is the independently computed position of a policy's first token.
type polPos struct{ Off, Line, Col int }

// span marks an interesting token (focus candidate for boundary padding).
type span struct {
	Start, End int
	Class      string
}

type c18Doc struct {
	Bytes []byte
	Pols  []polPos // for valid documents: expected Position of each policy
	Spans []span
	Valid bool // assembled from well-formed policies only
	Kind  string
}

type docBuilder struct {
	rng   *rand.Rand
	buf   []byte
	pols  []polPos
	spans []span
}

// here computes (offset, line, column) of the next byte to be appended, from the bytes alone.
func (b *docBuilder) here() polPos {
	nl := bytes.LastIndexByte(b.buf, '\n')
	return polPos{Off: len(b.buf), Line: 1 + bytes.Count(b.buf, []byte{'\n'}), Col: 1 + utf8.RuneCount(b.buf[nl+1:])}
}

var c18Trivia = []string{" ", " ", "\t", "\n", "\r", "\r\n", "  ", "\n\n", "// c é€😀\n", "// \ufffd\n", "//\n", "/* b\n é */", "/**/", "// x\r\n", "/* ** / */", " \n\t"}

func (b *docBuilder) trivia() {
	t := c18Trivia[b.rng.Intn(len(c18Trivia))]
	if strings.HasPrefix(t, "/") {
		b.spans = append(b.spans, span{len(b.buf), len(b.buf) + len(t), "comment"})
	} else if len(t) > 1 {
		b.spans = append(b.spans, span{len(b.buf), len(b.buf) + len(t), "ws"})
	}
	b.buf = append(b.buf, t...)
}

func isOpTok(t string) bool {
	c := t[0]
	return !(c == '"' || c == '_' || c >= '0' && c <= '9' || c >= 'a' && c <= 'z' || c >= 'A' && c <= 'Z')
}

func tokClass(t string) string {
	switch {
	case t[0] == '"':
		return "string"
	case isOpTok(t):
		if len(t) > 1 {
			return "op2"
		}
		return "op1"
	case t[0] >= '0' && t[0] <= '9':
		return "int"
	}
	return "ident"
}

// emit appends tokens separated by random trivia ("" only next to a one-character-safe operator).
func (b *docBuilder) emit(toks []string) {
	for i, t := range toks {
		if i > 0 {
			prev := toks[i-1]
			tight := (isOpTok(prev) != isOpTok(t)) && b.rng.Intn(2) == 0
			if !tight {
				b.trivia()
				for b.rng.Intn(4) == 0 {
					b.trivia()
				}
			}
		}
		b.spans = append(b.spans, span{len(b.buf), len(b.buf) + len(t), tokClass(t)})
		b.buf = append(b.buf, t...)
	}
}

var c18StrPieces = []string{"a", "Z", " ", "é", "ß", "€", "한", "😀", "𝄞", `\n`, `\r`, `\t`, `\\`, `\0`, `\'`, `\"`, `\u{e9}`, `\u{1F600}`, `\u{0041}`, `\x41`, "//", "/*", "*/", "'"}

func (b *docBuilder) str(pattern bool) string {
	var sb strings.Builder
	sb.WriteByte('"')
	n := b.rng.Intn(6)
	if b.rng.Intn(8) == 0 {
		n = 20 + b.rng.Intn(60)
	}
	for i := 0; i < n; i++ {
		if pattern && b.rng.Intn(3) == 0 {
			sb.WriteString([]string{`\*`, "*"}[b.rng.Intn(2)])
			continue
		}
		sb.WriteString(c18StrPieces[b.rng.Intn(len(c18StrPieces))])
	}
	sb.WriteByte('"')
	return sb.String()
}

var c18Idents = []string{"id", "a", "_x9", "reason", "if", "in", "like", "true", "__cedar", "LongAnnotationName_0123456789"}

// policyTokens builds one well-formed policy as a token list.
func (b *docBuilder) policyTokens() []string {
	r := b.rng
	var t []string
	seen := map[string]bool{}
	for r.Intn(2) == 0 {
		id := c18Idents[r.Intn(len(c18Idents))]
		if seen[id] {
			break
		}
		seen[id] = true
		t = append(t, "@", id, "(", b.str(false), ")")
	}
	t = append(t, []string{"permit", "forbid"}[r.Intn(2)], "(", "principal")
	switch r.Intn(4) {
	case 0:
		t = append(t, "==", "User", "::", `"a"`)
	case 1:
		t = append(t, "in", "Group", "::", b.str(false))
	case 2:
		t = append(t, "is", "User")
	}
	t = append(t, ",", "action")
	switch r.Intn(3) {
	case 0:
		t = append(t, "==", "Action", "::", `"a"`)
	case 1:
		t = append(t, "in", "[", "Action", "::", `"a"`, ",", "NS", "::", "Action", "::", b.str(false), "]")
	}
	t = append(t, ",", "resource")
	if r.Intn(3) == 0 {
		t = append(t, "is", "Doc", "in", "Folder", "::", b.str(false))
	}
	if r.Intn(5) == 0 {
		t = append(t, ",")
	}
	t = append(t, ")")
	for r.Intn(3) != 0 {
		t = append(t, []string{"when", "unless"}[r.Intn(5)/4], "{")
		switch r.Intn(10) {
		case 0:
			t = append(t, "true")
		case 1:
			t = append(t, "context", ".", "s", "==", b.str(false))
		case 2:
			t = append(t, "context", ".", "s", "like", b.str(true))
		case 3:
			t = append(t, "1", "<", "2", "||", "resource", "has", b.str(false))
		case 4:
			t = append(t, "context", "has", "x", "&&", "context", ".", "x", ">=", "-", "9223372036854775808")
		case 5:
			t = append(t, "[", "1", ",", "2", "]", ".", "contains", "(", "1", ")")
		case 6:
			t = append(t, "context", ".", "missing")
		case 7:
			t = append(t, "if", "true", "then", "1", "!=", "2", "else", "false")
		case 8:
			t = append(t, "ip", "(", `"1.2.3.4"`, ")", ".", "isIpv4", "(", ")")
		case 9:
			t = append(t, "!", "(", "context", "[", b.str(false), "]", "<=", "7", "*", "3", "+", "1", ")")
		}
		t = append(t, "}")
	}
	return append(t, ";")
}

// makePad returns trivia of exactly n bytes.
func makePad(rng *rand.Rand, n int) []byte {
	if n < 6 {
		return bytes.Repeat([]byte{' '}, n)
	}
	fill := func(m int) []byte {
		var f []byte
		for len(f) < m {
			p := []string{"x", "x", "y ", "é", "€", "😀", "\r", "pad"}[rng.Intn(8)]
			if len(f)+len(p) <= m {
				f = append(f, p...)
			}
		}
		return f
	}
	if rng.Intn(2) == 0 {
		return append(append([]byte("//"), fill(n-3)...), '\n')
	}
	body := fill(n - 4)
	for i := 0; i+3 < len(body); i += 37 {
		if body[i] == 'x' {
			body[i] = '\n'
		}
	}
	return append(append([]byte("/*"), body...), "*/"...)
}

// buildValidDoc assembles nPol policies; deterministic in seed; pad bytes of trivia are put in front.
func buildValidDoc(seed int64, nPol int, pad int) c18Doc {
	b := &docBuilder{rng: rand.New(rand.NewSource(seed))}
	padRng := rand.New(rand.NewSource(seed ^ 0x5eed))
	b.buf = append(b.buf, makePad(padRng, pad)...)
	for i := 0; i < nPol; i++ {
		for b.rng.Intn(2) == 0 {
			b.trivia()
		}
		toks := b.policyTokens()
		b.pols = append(b.pols, b.here())
		b.emit(toks)
	}
	for b.rng.Intn(2) == 0 {
		b.trivia()
	}
	return c18Doc{Bytes: b.buf, Pols: b.pols, Spans: b.spans, Valid: true, Kind: "valid"}
}

var c18Garbage = []string{"\x00", "\x80", "\xbf", "\xc3", "\xc0\x80", "\xe2\x82", "\xe2", "\xf0\x9f\x98", "\xf0\x9f", "\xf0", "\xed\xa0\x80", "\xf4\x90\x80\x80", "\xff", "\xfe\xff",
	"\"abc", "\"a\nb\"", "\"\\q\"", "\"\\u{110000000}\"", "\"\\u{}\"", "\"\\x4\"", "\"\\u{12\"", "\"\\", "/* open", "/*/", "/", "//", "~", "=", "|", "&", "#", "'x'", "=>", "<==", ":::", "\r", "\xef\xbf\xbd", "\"\xef\xbf\xbd\"", "\"\xc3\"", "// \xff\n", "/* \x00 */"}

// buildMalformedDoc derives a (probably) ill-formed document.
func buildMalformedDoc(rng *rand.Rand, base c18Doc) c18Doc {
	d := c18Doc{Kind: "malformed"}
	b := append([]byte{}, base.Bytes...)
	switch k := rng.Intn(6); k {
	case 0: // truncate
		if len(b) > 0 {
			b = b[:rng.Intn(len(b))]
		}
		d.Kind = "truncated"
	case 1: // mutate one byte
		if len(b) > 0 {
			b[rng.Intn(len(b))] = byte(rng.Intn(256))
		}
		d.Kind = "mutated"
	case 2, 3: // insert garbage
		g := c18Garbage[rng.Intn(len(c18Garbage))]
		at := rng.Intn(len(b) + 1)
		b = append(b[:at:at], append([]byte(g), b[at:]...)...)
		d.Kind = "garbage-inserted"
	case 4: // garbage at the end (unterminated literal / partial character at EOF)
		b = append(b, c18Garbage[rng.Intn(len(c18Garbage))]...)
		d.Kind = "garbage-at-eof"
	case 5: // token soup
		b = b[:0]
		n := 1 + rng.Intn(30)
		soup := []string{"permit", "(", ")", ";", "when", "{", "}", "\"s\"", "42", "==", "::", " ", "\n", "principal", ",", "@", "é", "😀"}
		for i := 0; i < n; i++ {
			if rng.Intn(5) == 0 {
				b = append(b, c18Garbage[rng.Intn(len(c18Garbage))]...)
			} else {
				b = append(b, soup[rng.Intn(len(soup))]...)
			}
		}
		d.Kind = "soup"
	}
	d.Bytes = b
	return d
}
