package main

// C05, strengthening round 3: batch.Authorize over the lazy matrix (vh/gen_partial3.go) and the rich templates
// (vh/gen_partial2.go).
//
// What staged partial evaluation adds to C06's matrix is TIME: the residual built at one level is partially evaluated
// again at the next, after a variable has been substituted in the request but not in the literals the residual carries.
// A value holding a variable that is embedded in a residual (instead of the original sub-expression) is therefore never
// substituted.  The cases here put such values at every operand position of every lazily evaluated construct, use the
// result whole, and bind the variable of the condition before / after / together with the variable of the operand
// (the binding order is: fewest values first, then by name).

import (
	"fmt"
	"math/rand"
	"sort"
	"strings"

	"github.com/cedar-policy/cedar-go/types"
	"github.com/cedar-policy/cedar-go/x/exp/ast"
	"github.com/cedar-policy/cedar-go/x/exp/batch"
	"github.com/cedar-policy/cedar-go/x/exp/eval"

	"verifharness/vh"
)

// c05LazyTable enumerates: container shape x whole use x construct / operand position x what the condition depends
// on x binding order x effect.  Every policy is built from text.
func c05LazyTable() []c05Case {
	V := vh.MkVar
	L := func(xs ...types.Value) []types.Value { return xs }
	ua, ub, uc := types.NewEntityUID("User", "a"), types.NewEntityUID("User", "b"), types.NewEntityUID("User", "c")
	es := tableStore()
	type shape struct {
		name, e, alt string   // the operand (a position of the template holding ?x inside), a known alternative of the same kind
		uses         []string // whole uses of $E, true for x = 3 (entity shapes: for e = User::"b")
	}
	longShapes := []shape{
		{"set", "context.tls", "[7]", []string{"$E.contains(3)", "$E.containsAll([3, 1])", "$E.containsAny([3, 9])", "$E == [1, 2, 3]", "[1, 2, 3].containsAll($E)", "!$E.contains(3)"}},
		{"record", "context.tr", "{n: 7, s: \"a\"}", []string{"$E == {n: 3, s: \"a\"}", "$E != {n: 3, s: \"a\"}", "[$E].contains({n: 3, s: \"a\"})", "{a: $E} == {a: {n: 3, s: \"a\"}}"}},
		{"record-depth2", "context.td.r", "{n: 7}", []string{"$E == {n: 3}", "[{n: 3}, {n: 8}].contains($E)"}},
		{"record-depth3-whole", "context.td", "{r: {n: 7}, ls: [7]}", []string{"$E == {r: {n: 3}, ls: [3]}", "$E.ls.contains(3)"}},
		{"set-of-records", "context.trs", "[{n: 7}]", []string{"$E.contains({n: 3})", "$E.containsAny([{n: 3}, {n: 9}])"}},
		{"context-itself", "context", "{n: 7}", nil}, // uses filled in below (the whole context has to be spelled out)
	}
	longCtx := rec("k", V("k"), "vn", V("x"), "tls", types.NewSet(V("x"), types.Long(1), types.Long(2)), "tr", rec("n", V("x"), "s", types.String("a")),
		"td", rec("r", rec("n", V("x")), "ls", types.NewSet(V("x"))), "trs", types.NewSet(rec("n", V("x"))))
	longShapes[5].uses = []string{"$E == {k: false, vn: 3, tls: [1, 2, 3], tr: {n: 3, s: \"a\"}, td: {r: {n: 3}, ls: [3]}, trs: [{n: 3}]}",
		"$E != {k: true, vn: 3, tls: [1, 2, 3], tr: {n: 3, s: \"a\"}, td: {r: {n: 3}, ls: [3]}, trs: [{n: 3}]}"}
	entShapes := []shape{
		{"entity-set", "context.tes", "[User::\"c\"]", []string{"$E.contains(User::\"b\")", "User::\"b\" in $E", "principal is User in $E", "$E == [User::\"a\", User::\"b\"]"}},
		{"entity-record", "context.ter", "{e: User::\"c\"}", []string{"$E == {e: User::\"b\"}", "[$E].contains({e: User::\"b\"})"}},
	}
	entCtx := rec("k", V("k"), "ve", V("x"), "tes", types.NewSet(V("x"), ua), "ter", rec("e", V("x")))
	// constructs: $U = the whole use of the operand $E; $C = a condition that is unknown at the first stage
	constructs := []struct{ name, body string }{
		{"if-val-else", "$U"}, // $E = (if $C then $ALT else $OP)
		{"if-val-then", "$U"}, // $E = (if $C then $OP else $ALT)
		{"if-val-both", "$U"}, // $E = (if $C then $OP else $OP)
		{"and-right", "$C && $U"},
		{"and-left", "$U && $C"},
		{"or-right", "$C || $U"},
		{"or-left", "$U || $C"},
		{"if-bool-then", "if $C then $U else false"},
		{"if-bool-else", "if $C then true else $U"},
		{"if-bool-cond", "if $U then $C else !$C"},
		{"nested", "if $C then ($C || $U) else ($U && !$C)"},
	}
	var out []c05Case
	var pvar types.Value // principal of the family being emitted (nil: the known User::"a")
	emit := func(name string, ctx types.Record, vars batch.Variables, texts ...string) {
		var ps []*ast.Policy
		for _, tx := range texts {
			ps = append(ps, mustPolicy(tx))
		}
		kinds := map[types.String]vh.Ty{"k": vh.TBool, "x": vh.TLong}
		if _, isEnt := vars["x"][0].(types.EntityUID); isEnt {
			kinds["x"] = vh.TEntity
		}
		if pvar != nil {
			kinds["p"] = vh.TEntity
			v2 := batch.Variables{"p": L(ua, ub)}
			for k, l := range vars {
				v2[k] = l
			}
			vars = v2
		}
		out = append(out, c05Case{name: "lazy-table/" + name, t: tableTemplate(pvar, nil, nil, ctx, kinds), es: es, ps: c05Policies(ps...), vars: vars, rich: true})
	}
	family := func(fam string, ctx types.Record, shapes []shape, condX string, xs [][]types.Value) {
		for _, sh := range shapes {
			for ui, use := range sh.uses {
				for _, cn := range constructs {
					for ci, cond := range []string{"context.k", condX} {
						op := sh.e
						switch cn.name {
						case "if-val-else":
							op = "(if " + cond + " then " + sh.alt + " else " + sh.e + ")"
						case "if-val-then":
							op = "(if " + cond + " then " + sh.e + " else " + sh.alt + ")"
						case "if-val-both":
							op = "(if " + cond + " then " + sh.e + " else " + sh.e + ")"
						}
						u := strings.ReplaceAll(use, "$E", op)
						body := strings.NewReplacer("$U", u, "$C", cond).Replace(cn.body)
						// binding orders: k and x together (name order), k first, x first
						for vi, vars := range []batch.Variables{
							{"k": L(types.True, types.False), "x": xs[0]},
							{"k": L(types.False), "x": xs[0]},
							{"k": L(types.True, types.False), "x": xs[1]},
						} {
							if (ui+ci+vi)%2 == 1 && vi > 0 {
								continue // thin out: every other order variant
							}
							name := fmt.Sprintf("%s/%s/%d/%s/c%d/v%d", fam, sh.name, ui, cn.name, ci, vi)
							if (ui+vi)%2 == 0 {
								emit(name+"/permit", ctx, vars, "permit(principal, action, resource) when { "+body+" };")
							} else {
								emit(name+"/forbid", ctx, vars, "permit(principal, action, resource);", "forbid(principal, action, resource) when { "+body+" };")
							}
						}
					}
				}
			}
		}
	}
	family("long", longCtx, longShapes, "context.vn == 9", [][]types.Value{L(types.Long(3), types.Long(4)), L(types.Long(3))})
	family("entity", entCtx, entShapes, "context.ve == User::\"zz\"", [][]types.Value{L(ub, uc), L(ub)})
	// the tested entity of `is .. in` unknown as well (the lazy right-hand side is then looked at while the type test is open)
	pvar = V("p")
	family("entity-unknown-principal", entCtx, []shape{{"entity-set", "context.tes", "[User::\"c\"]",
		[]string{"principal is User in $E", "!(principal is User in $E)", "principal is User in $E || principal == User::\"zz\"", "principal in $E"}}},
		"context.ve == User::\"zz\"", [][]types.Value{L(ub, uc), L(ub)})
	return out
}

// c05Lits: the literals of all policies of the case, by kind.
func c05Lits(cs c05Case) map[vh.Ty][]types.Value {
	merged := map[vh.Ty][]types.Value{}
	for _, ip := range cs.ps {
		for ty, vs := range vh.Literals(ip.AST) {
			merged[ty] = append(merged[ty], vs...)
		}
	}
	return merged
}

// c05KindChoices: a few values of the kind (no randomness): the base value, the policies' literals and their
// neighbours, defaults.
func c05KindChoices(g *vh.Gen, kind vh.Ty, lits map[vh.Ty][]types.Value, base types.Value) []types.Value {
	var vs []types.Value
	if base != nil && !vh.ContainsVar(base) && !vh.ContainsIgn(base) {
		vs = append(vs, base)
	}
	own := lits[kind]
	if len(own) > 3 {
		own = own[:3]
	}
	vs = append(vs, own...)
	switch kind {
	case vh.TBool:
		vs = append(vs, types.True, types.False)
	case vh.TLong:
		for _, l := range own {
			if n, ok := l.(types.Long); ok && n > -1<<62 && n < 1<<62 {
				vs = append(vs, n+1)
			}
		}
		vs = append(vs, types.Long(0), types.Long(1))
	case vh.TString:
		vs = append(vs, types.String(""), types.String("a"))
	case vh.TEntity:
		vs = append(vs, g.World.UIDs[0], g.World.UIDs[3], g.World.UIDs[6])
	case vh.TSetLong:
		vs = append(vs, types.NewSet(), types.NewSet(types.Long(1), types.Long(2)))
	case vh.TSetString:
		vs = append(vs, types.NewSet(), types.NewSet(types.String("a")))
	case vh.TSetEntity:
		vs = append(vs, types.NewSet(), types.NewSet(g.World.UIDs[0]))
	case vh.TRecord:
		vs = append(vs, types.NewRecord(nil))
	}
	seen := map[string]bool{}
	var out []types.Value
	for _, v := range vs {
		k := vh.ShowValue(v)
		if !seen[k] && len(out) < 6 {
			seen[k] = true
			out = append(out, v)
		}
	}
	return out
}

// c05NestedCombos extends the value combinations of the ignored parts by values for the nested ignore markers
// (at most 240 combinations, taken at a fixed stride).
func c05NestedCombos(g *vh.Gen, cs c05Case, parts []map[string]types.Value, nested []vh.NestedIgn) []map[string]types.Value {
	lits := c05Lits(cs)
	out := parts
	for _, n := range nested {
		ch := c05KindChoices(g, n.Kind, lits, n.Base)
		var next []map[string]types.Value
		for _, m := range out {
			for _, v := range ch {
				m2 := map[string]types.Value{n.Path: v}
				for k, x := range m {
					m2[k] = x
				}
				next = append(next, m2)
			}
		}
		out = next
		if len(out) > 240 {
			stride := len(out)/240 + 1
			var thin []map[string]types.Value
			for i := 0; i < len(out); i += stride {
				thin = append(thin, out[i])
			}
			out = thin
		}
	}
	return out
}

// c05LazyCases: random cases of the lazy matrix over rich templates; 1-3 policies, value lists of 1-3 values whose
// lengths decide the binding order.
func c05LazyCases(c *vh.Ctx, pool []eval.Env, intens int) []c05Case {
	g := vh.NewGen(rand.New(rand.NewSource(c.Seed*2654435761 + 505)))
	g.PWrong = 0.02
	var out []c05Case
	var cells []vh.LazyCell
	for _, cell := range vh.AllLazyCells() {
		if _, ign, _, tign := cell.Needs(); ign || tign {
			// ignored operands: batch only promises the weak direction (permit-only sets); a quarter of those cells
			if g.R.Intn(4) != 0 {
				continue
			}
		}
		cells = append(cells, cell)
	}
	g.R.Shuffle(len(cells), func(i, j int) { cells[i], cells[j] = cells[j], cells[i] })
	n := c.N(3000, 30000) * intens
	for i := 0; i < n; i++ {
		cell := cells[i%len(cells)]
		o := vh.RichOpts{PVarPart: 0.25, PCtxVar: 0.02, MaxVars: 2, PFeature: 0.5}
		_, ign, _, tign := cell.Needs()
		permitOnly := ign || tign
		t := g.RichTemplateFor(func() eval.Env {
			base := pool[g.R.Intn(len(pool))]
			base.Principal, base.Action, base.Resource = g.UID(), g.UID(), g.UID()
			return base
		}, cell, o)
		if len(t.VarKind) == 0 {
			continue
		}
		es, _ := t.Base.Entities.(types.EntityMap)
		np := 1 + g.R.Intn(3)
		var pols []*ast.Policy
		var labels []string
		merged := map[vh.Ty][]types.Value{}
		for k := 0; k < np; k++ {
			var first *vh.LazyCell
			if k == 0 {
				first = &cell
			}
			p, ls := g.LazyPolicyFor(t, first)
			if permitOnly && g.R.Intn(10) < 8 {
				p.Effect = ast.EffectPermit
			}
			pols = append(pols, p)
			labels = append(labels, ls...)
			for ty, vs := range vh.Literals(p) {
				merged[ty] = append(merged[ty], vs...)
			}
		}
		partOf := map[types.String]types.Value{}
		for _, pr := range []struct{ v, base types.Value }{{t.Env.Principal, t.Base.Principal}, {t.Env.Action, t.Base.Action}, {t.Env.Resource, t.Base.Resource}, {t.Env.Context, t.Base.Context}} {
			if n, ok := vh.IsVar(pr.v); ok {
				partOf[n] = pr.base
			}
		}
		vars := batch.Variables{}
		names := t.VarNames()
		size := 1
		for _, vn := range names {
			b, isPart := partOf[vn]
			univ := g.Universe(t.VarKind[vn], merged, b, 6, !isPart && g.R.Intn(8) == 0)
			k := 1 + g.R.Intn(3)
			if size*k > 24 {
				k = 1
			}
			size *= k
			// distinct values first (a list of two equal values teaches nothing about the order)
			g.R.Shuffle(len(univ), func(a, b int) { univ[a], univ[b] = univ[b], univ[a] })
			var l []types.Value
			for j := 0; j < k; j++ {
				l = append(l, univ[j%len(univ)])
			}
			vars[vn] = l
		}
		out = append(out, c05Case{name: fmt.Sprintf("lazy/%d", i), t: t, es: es, ps: c05Policies(pols...), vars: vars, rich: true, labels: labels})
	}
	return out
}

var _ = sort.Strings
