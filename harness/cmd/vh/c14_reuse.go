package main

// C14 — "decoding the same bytes always gives the same result", also when the destination is not fresh.
// Every decode case decodes its fixed bytes on even repetitions into a zero value and on odd repetitions into
// a REUSED destination that already holds other content (a PolicySet with two policies, a Policy, an entity
// map with two entities, a Value variable holding a record, a Schema). All observations of the case
// (re-encoded bytes, Cedar text, Authorize result) must still have ONE variant: a decoder that merges into
// its receiver makes the result depend on the receiver's history and shows up as an unexplained variation.
//
// Also here: entity-map / entity encoder cases over generated look-alike UID groups (vh.AmbiguousUIDGroups),
// observing Entity.MarshalJSON of EVERY entity (parents order), not only of the first.

import (
	"fmt"
	"math/rand"

	cedar "github.com/cedar-policy/cedar-go"
	"github.com/cedar-policy/cedar-go/types"
	"github.com/cedar-policy/cedar-go/x/exp/schema"

	"verifharness/vh"
)

func c14MustPolicy(text string) *cedar.Policy {
	var p cedar.Policy
	if err := p.UnmarshalCedar([]byte(text)); err != nil {
		panic(err)
	}
	return &p
}

var (
	c14StaleForbid = c14MustPolicy(`@id("c14-stale") forbid (principal, action, resource);`)
	c14StalePermit = c14MustPolicy(`@id("c14-stale") @zz("1") permit (principal, action, resource) when { {b: 1, a: 2}.a == 2 } unless { false };`)
)

// reused(rep): odd repetitions decode into a populated destination.
func c14Reused(rep int) bool { return rep%2 == 1 }

func c14DestPolicySet(rep int) cedar.PolicySet {
	if !c14Reused(rep) {
		return cedar.PolicySet{}
	}
	s := cedar.NewPolicySet()
	s.Add(cedar.PolicyID(fmt.Sprintf("c14-stale-%d", rep%4)), c14StaleForbid)
	s.Add("policy0", c14StalePermit) // an id that documents are likely to contain as well
	return *s
}

func c14DestPolicy(rep int) cedar.Policy {
	if !c14Reused(rep) {
		return cedar.Policy{}
	}
	if rep%4 == 1 {
		return *c14StalePermit
	}
	return *c14StaleForbid
}

func c14DestEntityMap(rep int) types.EntityMap {
	if !c14Reused(rep) {
		return nil
	}
	u := types.NewEntityUID("C14Stale", types.String(fmt.Sprintf("e%d", rep%4)))
	v := types.NewEntityUID("User", "u0")
	return types.EntityMap{
		u: {UID: u, Parents: types.NewEntityUIDSet(v), Attributes: types.NewRecord(types.RecordMap{"stale": types.True}), Tags: types.NewRecord(nil)},
		v: {UID: v, Parents: types.NewEntityUIDSet(u), Attributes: types.NewRecord(types.RecordMap{"stale": types.Long(rep)}), Tags: types.NewRecord(types.RecordMap{"t": types.String("stale")})},
	}
}

func c14DestValue(rep int) types.Value {
	if !c14Reused(rep) {
		return nil
	}
	if rep%4 == 1 {
		return types.NewRecord(types.RecordMap{"stale": types.NewSet(types.Long(1), types.String("x")), "a": types.Long(rep)})
	}
	return types.NewSet(types.String("stale"), types.NewEntityUID("C14Stale", "v"))
}

var c14StaleSchemaText = "namespace C14Stale { entity Stale in [Stale] { a: Long }; type T = { x: String }; action act appliesTo { principal: [Stale], resource: [Stale] }; }\nentity Stale2;\n"

func c14DestSchema(rep int) schema.Schema {
	var s schema.Schema
	if c14Reused(rep) {
		if err := s.UnmarshalCedar([]byte(c14StaleSchemaText)); err != nil {
			panic(err)
		}
	}
	return s
}

// c14EntityAllMarshalCase: like c14EntityMapMarshalCase, observing the encoding of every entity.
func c14EntityAllMarshalCase(key string, es []c14Ent) *c14Case {
	return &c14Case{Key: key, Kind: "marshal-entities", Nontrivial: len(es) > 1, Input: c14EncEnts(es),
		Run: func(rep int, sh *rand.Rand) map[string]string {
			obs := map[string]string{}
			em := c14BuildEntityMap(es, rep != 0, sh)
			c14Protect(obs, "entitymap.json", func() string {
				b, err := em.MarshalJSON()
				if err != nil {
					return "error"
				}
				return string(b)
			})
			for i := range es {
				e := es[i].build(rep != 0, sh)
				c14Protect(obs, fmt.Sprintf("entity.json/%d", i), func() string {
					b, err := e.MarshalJSON()
					if err != nil {
						return "error"
					}
					return string(b)
				})
			}
			return obs
		}}
}

// c14AmbiguousCases: generated look-alike UID groups; every member is an entity whose parents are the other members.
func c14AmbiguousCases(g *vh.Gen, n int) []*c14Case {
	var cases []*c14Case
	for i := 0; i < n; i++ {
		for gi, grp := range g.AmbiguousUIDGroups() {
			if len(grp) > 12 {
				grp = grp[:12]
			}
			var es []c14Ent
			for k, u := range grp {
				var ps []types.EntityUID
				for j, p := range grp {
					if j != k {
						ps = append(ps, p)
					}
				}
				es = append(es, c14Ent{UID: u, Parents: ps, Attrs: types.NewRecord(types.RecordMap{"k": types.Long(k)}), Tags: types.NewRecord(nil)})
			}
			cases = append(cases, c14EntityAllMarshalCase(fmt.Sprintf("mentities-lookalike-%d-%d", i, gi), es))
		}
	}
	return cases
}
