// vh: verification harness entry point.  vh -prop C01 -tier quick -seed 1 -driver <path> -verif /verif -out <result.json>
package main

import (
	"flag"
	"runtime/debug"
	"runtime/pprof"
	"fmt"
	"os"
	"strconv"

	"verifharness/vh"
)

var props = map[string]func(*vh.Ctx){}

func main() {
	prop := flag.String("prop", "", "property id")
	tier := flag.String("tier", "quick", "quick|thorough")
	seed := flag.Int64("seed", 1, "PRNG seed")
	driver := flag.String("driver", "", "path to Lean driver")
	verif := flag.String("verif", "/verif", "verif dir")
	out := flag.String("out", "", "result json path")
	replay := flag.String("replay", "", "replay file")
	flag.Parse()
	if s := os.Getenv("VERIF_SEED"); s != "" && !isFlagSet("seed") {
		if n, err := strconv.ParseInt(s, 10, 64); err == nil {
			*seed = n
		}
	}
	f, ok := props[*prop]
	if !ok {
		fmt.Fprintf(os.Stderr, "unknown property %q\n", *prop)
		os.Exit(2)
	}
	if pf := os.Getenv("VH_CPUPROFILE"); pf != "" {
		f, _ := os.Create(pf)
		pprof.StartCPUProfile(f)
		defer pprof.StopCPUProfile()
	}
	debug.SetGCPercent(400)
	ctx := vh.NewCtx(*prop, *tier, *seed, *driver, *verif)
	ctx.Replay = *replay
	ctx.OutPath = *out
	f(ctx)
	for _, l := range ctx.Res.KnownHits {
		fmt.Println(l)
	}
	for _, l := range ctx.Res.Violations {
		fmt.Println(l)
	}
	if *out != "" {
		if err := ctx.WriteResult(*out); err != nil {
			fmt.Fprintln(os.Stderr, err)
			os.Exit(2)
		}
	}
	if len(ctx.Res.Violations) > 0 {
		os.Exit(1)
	}
}

func isFlagSet(name string) bool {
	set := false
	flag.Visit(func(f *flag.Flag) {
		if f.Name == name {
			set = true
		}
	})
	return set
}
