package main

import (
	"bytes"
	"encoding/json"
	"fmt"

	cedar "github.com/cedar-policy/cedar-go"
	publicast "github.com/cedar-policy/cedar-go/ast"
	"github.com/cedar-policy/cedar-go/types"
	"github.com/cedar-policy/cedar-go/x/exp/ast"
	"github.com/cedar-policy/cedar-go/x/exp/eval"
	"github.com/cedar-policy/cedar-go/x/exp/verifhooks"

	"verifharness/vh"
)

func init() { props["C04"] = runC04 }

func showBoolRes(v types.Value, err error) string {
	if err != nil {
		return "err " + verifhooks.ErrKind(err)
	}
	b, ok := v.(types.Boolean)
	if !ok {
		return "err type"
	}
	if b {
		return "ok true"
	}
	return "ok false"
}

// evalPolicyBoth: unfolded = Eval(PolicyToNode(ast)); folded = Eval(PolicyToNode(FoldPolicy(ast))) (what Compile builds)
func evalPolicyBoth(p *ast.Policy, env eval.Env) (unf, fol string, stable bool) {
	stable = true
	for i := 0; i < 3; i++ {
		var u, f string
		if pn := vh.Protect(func() { v, err := eval.Eval(eval.PolicyToNode(p).AsIsNode(), env); u = showBoolRes(v, err) }); pn != nil {
			u = "err panic"
		}
		if pn := vh.Protect(func() {
			v, err := eval.Eval(eval.PolicyToNode(verifhooks.FoldPolicy(p)).AsIsNode(), env)
			f = showBoolRes(v, err)
		}); pn != nil {
			f = "err panic"
		}
		if i == 0 {
			unf, fol = u, f
		} else if u != unf || f != fol {
			stable = false
		}
	}
	return
}

func class(s string) string {
	switch s {
	case "ok true":
		return "sat"
	case "ok false":
		return "unsat"
	}
	return "err"
}

// constantHeavy generates conditions with many all-constant / partly constant sub-expressions.
func constantHeavy(g *vh.Gen, c *vh.Ctx, depth int) ast.IsNode {
	save := g.PWrong
	defer func() { g.PWrong = save }()
	g.PWrong = 0.15
	n := g.Expr(vh.TBool, depth)
	return n
}

func runC04(c *vh.Ctx) {
	g := vh.NewGen(c.Rng)
	b := &vh.Batch{}
	c.Res.Rule = "policies whose conditions mix all-constant, partly constant and non-constant operands for every operator (incl. constant sub-expressions that error, short-circuit operators with an ill-typed skipped operand, entity literals under ./has/in/tags, nested constant sets/records, extension calls on literals), each x 6-8 environments; checks: unfolded Eval(PolicyToNode(ast)) vs folded (FoldPolicy hook) vs cedar.Authorize class, AST/text/JSON snapshot before/after compilation; distinct = distinct (policy,env); non-trivial = policy has a condition containing an operator"
	pool := g.EnvPool(c.N(60, 600))
	// closed-world variant of the generator: make variables rare so that constant folding happens often
	nPol := c.N(6000, 400000)
	nonconst, folded := 0, 0
	for i := 0; i < nPol; i++ {
		p := g.Policy(0)
		p.Conditions = nil
		nc := 1 + c.Rng.Intn(3)
		for k := 0; k < nc; k++ {
			body := constantHeavy(g, c, 1+c.Rng.Intn(4))
			switch c.Rng.Intn(8) {
			case 0, 1:
				body = closedExpr(g, c, 1+c.Rng.Intn(3))
			case 2, 3:
				body = shortCircuitProbe(c, g)
			case 4:
				body = foldsToEntityProbe(c, g)
			}
			p.Conditions = append(p.Conditions, ast.ConditionType{Condition: ast.Condition(c.Rng.Intn(4) != 0), Body: body})
		}
		if c.Rng.Intn(3) == 0 {
			p.Principal, p.Action, p.Resource = ast.ScopeTypeAll{}, ast.ScopeTypeAll{}, ast.ScopeTypeAll{}
		}
		// snapshot before compilation
		before, _ := json.Marshal(vh.EncPolicy(p))
		pol := cedar.NewPolicyFromAST((*publicast.Policy)(p))
		textBefore := pol.MarshalCedar()
		jsonBefore, _ := pol.MarshalJSON()
		fp := verifhooks.FoldPolicy(p)
		fenc, _ := json.Marshal(vh.EncPolicy(fp))
		if !bytes.Equal(fenc, before) {
			folded++
		}
		nenv := 6 + c.Rng.Intn(3)
		for e := 0; e < nenv; e++ {
			env := pool[c.Rng.Intn(len(pool))]
			unf, fol, stable := evalPolicyBoth(p, env.Env)
			c.Res.OracleChecks++
			payload := map[string]any{"policy": vh.EncPolicy(p), "envref": b.EnvRef(env)}
			if !stable {
				// three evaluations of the same (policy, environment) must agree (see c01.go: the record-literal
				// multi-error cases that used to be stepped around here are deterministic since the repair)
				c.Dist("impl-nondeterministic")
				cls := "impl-nondeterministic"
				if vh.PolicyOrderSensitive(p, env.Env) {
					cls = "record-literal-multi-error-order"
				}
				c.Report(vh.Finding{Class: cls, What: fmt.Sprintf("repeated evaluation of the same policy in the same environment gave different results (first: unfolded %q, folded %q)", unf, fol),
					Check: "oracle", Op: "policy-eval", Input: payload})
			} else {
				if unf != fol {
					c.Report(vh.Finding{Class: "fold-changes-meaning", What: fmt.Sprintf("folded evaluation %q differs from unfolded %q", fol, unf), Check: "oracle", Op: "policy-eval", Input: payload, Expected: unf, Actual: fol})
				}
				// what Authorize actually runs
				if req, ok := vh.RequestOf(env.Env); ok {
					set := cedar.NewPolicySet()
					set.Add("p", pol)
					d, diag := cedar.Authorize(set, env.Env.Entities, req)
					ac := "unsat"
					if len(diag.Errors) > 0 {
						ac = "err"
					} else if len(diag.Reasons) > 0 {
						ac = "sat"
					}
					_ = d
					if ac != class(unf) {
						c.Report(vh.Finding{Class: "authorize-vs-unfolded", What: fmt.Sprintf("Authorize class %s, unfolded evaluation %q", ac, unf), Check: "oracle", Op: "policy-eval", Input: payload, Expected: class(unf), Actual: ac})
					}
				}
				idx := b.Add("policy-eval", payload, unf+" | "+fol, "")
				c.Count(b.Key(idx)+env.Name, len(p.Conditions) > 0)
				c.Dist("class:" + class(unf))
			}
		}
		// visible AST/text/JSON unchanged by compilation and authorization
		after, _ := json.Marshal(vh.EncPolicy(p))
		textAfter := pol.MarshalCedar()
		jsonAfter, _ := pol.MarshalJSON()
		astAfter, _ := json.Marshal(vh.EncPolicy((*ast.Policy)(pol.AST())))
		if !bytes.Equal(before, after) || !bytes.Equal(before, astAfter) || !bytes.Equal(textBefore, textAfter) || !bytes.Equal(jsonBefore, jsonAfter) {
			c.Report(vh.Finding{Class: "compile-mutates-ast", What: "policy AST/text/JSON changed by compilation or authorization", Check: "oracle", Op: "snapshot", Input: json.RawMessage(before), Actual: json.RawMessage(after)})
		}
		if i < 2 {
			c.Sample(map[string]any{"op": "policy-eval", "policy": json.RawMessage(before)})
		}
		_ = nonconst
	}
	c.Res.Notes = append(c.Res.Notes, fmt.Sprintf("policies=%d of which folding changed the tree=%d", nPol, folded))
	if folded*10 < nPol {
		c.Report(vh.Finding{Class: "generator-collapse", What: fmt.Sprintf("only %d of %d policies had anything to fold", folded, nPol), Check: "self-test", NoInput: true})
	}
	ds, _, err := c.Correspond(b)
	if err != nil {
		c.Report(vh.Finding{Class: "driver-failure", What: err.Error(), Check: "correspondence", Op: "policy-eval", NoInput: true})
		return
	}
	for _, d := range ds {
		c.Report(vh.Finding{Class: "fold-model-mismatch", What: fmt.Sprintf("policy-eval disagreement: impl=%q model=%q", d.Line.Impl, d.Model),
			Check: "correspondence", Op: "policy-eval", Input: d.Line.Payload(), Expected: d.Model, Actual: d.Line.Impl})
	}
}

// closedExpr builds an expression with no variables at all (everything foldable or erroring).
func closedExpr(g *vh.Gen, c *vh.Ctx, depth int) ast.IsNode {
	n := g.Expr(vh.TBool, depth)
	return substVars(n, g)
}

// substVars replaces variables by literals of the matching kind.
func substVars(n ast.IsNode, g *vh.Gen) ast.IsNode {
	s := func(x ast.IsNode) ast.IsNode { return substVars(x, g) }
	sb := func(b ast.BinaryNode) ast.BinaryNode { return ast.BinaryNode{Left: s(b.Left), Right: s(b.Right)} }
	switch v := n.(type) {
	case ast.NodeTypeVariable:
		if v.Name == "context" {
			return ast.NodeValue{Value: g.Record(1)}
		}
		return ast.NodeValue{Value: g.UID()}
	case ast.NodeValue:
		return v
	case ast.NodeTypeAnd:
		return ast.NodeTypeAnd{BinaryNode: sb(v.BinaryNode)}
	case ast.NodeTypeOr:
		return ast.NodeTypeOr{BinaryNode: sb(v.BinaryNode)}
	case ast.NodeTypeEquals:
		return ast.NodeTypeEquals{BinaryNode: sb(v.BinaryNode)}
	case ast.NodeTypeNotEquals:
		return ast.NodeTypeNotEquals{BinaryNode: sb(v.BinaryNode)}
	case ast.NodeTypeLessThan:
		return ast.NodeTypeLessThan{BinaryNode: sb(v.BinaryNode)}
	case ast.NodeTypeLessThanOrEqual:
		return ast.NodeTypeLessThanOrEqual{BinaryNode: sb(v.BinaryNode)}
	case ast.NodeTypeGreaterThan:
		return ast.NodeTypeGreaterThan{BinaryNode: sb(v.BinaryNode)}
	case ast.NodeTypeGreaterThanOrEqual:
		return ast.NodeTypeGreaterThanOrEqual{BinaryNode: sb(v.BinaryNode)}
	case ast.NodeTypeAdd:
		return ast.NodeTypeAdd{BinaryNode: sb(v.BinaryNode)}
	case ast.NodeTypeSub:
		return ast.NodeTypeSub{BinaryNode: sb(v.BinaryNode)}
	case ast.NodeTypeMult:
		return ast.NodeTypeMult{BinaryNode: sb(v.BinaryNode)}
	case ast.NodeTypeIn:
		return ast.NodeTypeIn{BinaryNode: sb(v.BinaryNode)}
	case ast.NodeTypeContains:
		return ast.NodeTypeContains{BinaryNode: sb(v.BinaryNode)}
	case ast.NodeTypeContainsAll:
		return ast.NodeTypeContainsAll{BinaryNode: sb(v.BinaryNode)}
	case ast.NodeTypeContainsAny:
		return ast.NodeTypeContainsAny{BinaryNode: sb(v.BinaryNode)}
	case ast.NodeTypeGetTag:
		return ast.NodeTypeGetTag{BinaryNode: sb(v.BinaryNode)}
	case ast.NodeTypeHasTag:
		return ast.NodeTypeHasTag{BinaryNode: sb(v.BinaryNode)}
	case ast.NodeTypeNot:
		return ast.NodeTypeNot{UnaryNode: ast.UnaryNode{Arg: s(v.Arg)}}
	case ast.NodeTypeNegate:
		return ast.NodeTypeNegate{UnaryNode: ast.UnaryNode{Arg: s(v.Arg)}}
	case ast.NodeTypeIsEmpty:
		return ast.NodeTypeIsEmpty{UnaryNode: ast.UnaryNode{Arg: s(v.Arg)}}
	case ast.NodeTypeIfThenElse:
		return ast.NodeTypeIfThenElse{If: s(v.If), Then: s(v.Then), Else: s(v.Else)}
	case ast.NodeTypeAccess:
		return ast.NodeTypeAccess{StrOpNode: ast.StrOpNode{Arg: s(v.Arg), Value: v.Value}}
	case ast.NodeTypeHas:
		return ast.NodeTypeHas{StrOpNode: ast.StrOpNode{Arg: s(v.Arg), Value: v.Value}}
	case ast.NodeTypeLike:
		return ast.NodeTypeLike{Arg: s(v.Arg), Value: v.Value}
	case ast.NodeTypeIs:
		return ast.NodeTypeIs{Left: s(v.Left), EntityType: v.EntityType}
	case ast.NodeTypeIsIn:
		return ast.NodeTypeIsIn{NodeTypeIs: ast.NodeTypeIs{Left: s(v.Left), EntityType: v.EntityType}, Entity: s(v.Entity)}
	case ast.NodeTypeSet:
		es := make([]ast.IsNode, len(v.Elements))
		for i, e := range v.Elements {
			es[i] = s(e)
		}
		return ast.NodeTypeSet{Elements: es}
	case ast.NodeTypeRecord:
		es := make([]ast.RecordElementNode, len(v.Elements))
		for i, e := range v.Elements {
			es[i] = ast.RecordElementNode{Key: e.Key, Value: s(e.Value)}
		}
		return ast.NodeTypeRecord{Elements: es}
	case ast.NodeTypeExtensionCall:
		es := make([]ast.IsNode, len(v.Args))
		for i, e := range v.Args {
			es[i] = s(e)
		}
		return ast.NodeTypeExtensionCall{Name: v.Name, Args: es}
	}
	return n
}
