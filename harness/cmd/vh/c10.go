package main

// C10 — decoders and encoders are total: no panic, crash or hang on any input.
//
// For every decoder entry point a structure-aware malformed stream (valid documents produced by the
// generators + the real encoders, with null/[]/{}/missing/extra fields/wrong kinds substituted at EVERY
// position of the generic JSON tree; token-level and byte-level mutations of valid text; random bytes;
// deep nesting in a subprocess worker with a 64 MiB stack) is decoded under recover; every ACCEPTED
// value is pushed through every applicable encoder, the compiler and the authorizer.  A second stream
// (raw nodeJSON trees) is corresponded with the Lean well-formedness model (op c10-raw).

import (
	"bytes"
	"encoding/hex"
	"encoding/json"
	"errors"
	"fmt"
	"hash/fnv"
	"io"
	"math/rand"
	"os"
	"path/filepath"
	"runtime/debug"
	"sort"
	"strings"
	"sync"
	"time"

	cedar "github.com/cedar-policy/cedar-go"
	publicast "github.com/cedar-policy/cedar-go/ast"
	"github.com/cedar-policy/cedar-go/types"
	xast "github.com/cedar-policy/cedar-go/x/exp/ast"
	"github.com/cedar-policy/cedar-go/x/exp/eval"
	"github.com/cedar-policy/cedar-go/x/exp/schema"
	"github.com/cedar-policy/cedar-go/x/exp/schema/resolved"
	exptypes "github.com/cedar-policy/cedar-go/x/exp/types"

	"verifharness/vh"
)

func init() { props["C10"] = runC10 }

// ---------------------------------------------------------------------------------------------
// entry points
// ---------------------------------------------------------------------------------------------

type c10Entry struct {
	Name     string
	Family   string // policy-text | policy-json | policyset-json | value-json | entity-json | euid-text | request-json | diag-json | pattern-json | scalar-json | schema-text | schema-json | exptypes-json
	Kind     string // "json" | "text": which structure-aware mutations apply
	Decode   func(b []byte) (any, error)
	Consume  func(v any, st stager)
	Alphabet string
}

type c10Result struct {
	Outcome string `json:"outcome"` // accepted | rejected | panic
	Stage   string `json:"stage"`   // "decode" or the consumer stage that panicked
	Panic   string `json:"panic,omitempty"`
	Site    string `json:"site,omitempty"` // first cedar-go frame below the panic
	CPUms   int64  `json:"cpu_ms,omitempty"`
	Len     int    `json:"len,omitempty"`
}

const c10Module = "github.com/cedar-policy/cedar-go"

// c10PanicSite extracts the first cedar-go function below the runtime panic frames from a debug.Stack() dump.
func c10PanicSite(stack string) string {
	lines := strings.Split(stack, "\n")
	seenPanic := false
	for _, l := range lines {
		if strings.HasPrefix(l, "\t") || l == "" {
			continue
		}
		if strings.HasPrefix(l, "panic(") || strings.HasPrefix(l, "runtime.") {
			if strings.HasPrefix(l, "panic(") || strings.Contains(l, "runtime.gopanic") || strings.Contains(l, "runtime.panic") || strings.Contains(l, "runtime.sigpanic") {
				seenPanic = true
			}
			continue
		}
		if !seenPanic {
			continue
		}
		if i := strings.Index(l, c10Module); i >= 0 {
			f := l[i+len(c10Module):]
			f = strings.TrimPrefix(f, "/")
			if j := strings.LastIndex(f, "("); j > 0 {
				f = f[:j]
			}
			f = strings.TrimSuffix(f, "...")
			if strings.HasPrefix(f, ".") {
				f = "cedar" + f
			}
			return f
		}
	}
	return "?"
}

// c10RunCase decodes and, when accepted, runs every consumer; panics are recovered and attributed to a stage.
// skip lists the stage families not to run (used by the deep-nesting campaign to get past a stage that is already
// known to fail at this depth).
func c10RunCase(e *c10Entry, in []byte, onStage func(string), skip map[string]bool) (res c10Result) {
	stage := "decode"
	var st stager
	st = func(name string, f func()) {
		if skip[c10StageFamily(name)] {
			return
		}
		prev := stage
		stage = name
		if onStage != nil {
			onStage(name)
		}
		f()
		_ = prev
	}
	defer func() {
		if r := recover(); r != nil {
			stack := string(debug.Stack())
			res = c10Result{Outcome: "panic", Stage: stage, Panic: fmt.Sprint(r), Site: c10PanicSite(stack)}
		}
	}()
	if onStage != nil {
		onStage("decode")
	}
	v, err := e.Decode(in)
	if err != nil {
		return c10Result{Outcome: "rejected", Stage: "decode"}
	}
	if e.Consume != nil {
		e.Consume(v, st)
	}
	return c10Result{Outcome: "accepted", Stage: stage}
}

// c10PanicClass: narrow class per (panic site, failure family).
func c10PanicClass(e *c10Entry, r c10Result) string {
	switch {
	case strings.Contains(r.Site, "internal/json.recordJSON.ToNode"):
		return "policy-json-null-node"
	case strings.Contains(r.Site, "internal/parser.NodeTypeExtensionCall.marshalCedar") && strings.Contains(r.Panic, "index out of range"):
		return "policy-json-call-arity-then-marshal-panic"
	case e.Family == "policyset-json" && r.Stage == "decode" && strings.Contains(r.Panic, "nil pointer") &&
		(strings.Contains(r.Site, "internal/eval.") || strings.Contains(r.Site, "cedar.newPolicy") || strings.Contains(r.Site, "cedar.(*PolicySet).UnmarshalJSON")):
		return "policyset-json-null-policy"
	}
	return "panic:" + e.Family + ":" + r.Stage + ":" + r.Site
}

// ---- shared fixtures for the consumers ----

type c10Fixtures struct {
	envs      []eval.Env
	reqs      []cedar.Request
	valuePols *cedar.PolicySet // policies probing context.v / principal attributes with every operator family
	entPols   *cedar.PolicySet
	schema    *resolved.Schema
}

var c10fx *c10Fixtures
var c10fxOnce sync.Once

const c10ValuePolicies = `
permit(principal, action, resource) when { context.v == context.v };
permit(principal, action, resource) when { context.v has a };
permit(principal, action, resource) when { context.v.a == 1 };
permit(principal, action, resource) when { context.v.contains(1) };
permit(principal, action, resource) when { [context.v].containsAll([context.v, 1]) };
permit(principal, action, resource) when { context.v like "*a*" };
permit(principal, action, resource) when { context.v < 1 || context.v >= context.v };
permit(principal, action, resource) when { context.v in principal || principal in context.v };
permit(principal, action, resource) when { context.v.isIpv4() || context.v.lessThan(decimal("1.0")) };
permit(principal, action, resource) when { context.v.toDate() == context.v || context.v.toDays() == 1 };
permit(principal, action, resource) when { context.v is User in context.v };
permit(principal, action, resource) when { context.v.isEmpty() || -context.v == 1 || !context.v };
permit(principal, action, resource) when { context.v.hasTag("t") || context.v.getTag("t") == 1 };
forbid(principal, action, resource) when { if context.v then context.v + 1 == 2 else context.v * 2 == 2 };
permit(principal, action, resource) when { {a: context.v, b: [context.v]}.a == principal.v };
`

const c10EntityPolicies = `
permit(principal, action, resource) when { principal in resource || resource in principal };
permit(principal in Group::"a", action in [Action::"a", Action::"b"], resource is Doc in Group::"b");
permit(principal, action, resource) when { principal has n && principal.n == 1 };
permit(principal, action, resource) when { principal.hasTag("t1") && principal.getTag("t1") == resource.getTag("t1") };
permit(principal, action, resource) when { principal.r.e in resource && principal.es.contains(resource) };
forbid(principal, action, resource) unless { principal.ip.isLoopback() || principal.dec.lessThan(decimal("1.0")) || principal.dt < principal.dt.offset(principal.dur) };
permit(principal == User::"a", action == Action::"a", resource == Doc::"a");
`

const c10SchemaForExp = `
entity User in [Group] { n?: Long, s?: String, e?: User, r?: { e?: User, n?: Long }, ip?: ipaddr, dec?: decimal, es?: Set<User> } tags String;
entity Group in [Group];
entity Doc in [Group] { owner?: User };
action a, b appliesTo { principal: [User], resource: [Doc], context: { v?: Long } };
`

func c10Fx() *c10Fixtures {
	c10fxOnce.Do(func() {
		g := vh.NewGen(rand.New(rand.NewSource(7)))
		fx := &c10Fixtures{}
		e1 := g.Env()
		e2 := eval.Env{Entities: types.EntityMap{}, Principal: types.EntityUID{}, Action: types.EntityUID{}, Resource: types.EntityUID{}, Context: types.Record{}}
		fx.envs = []eval.Env{e1, e2}
		for _, e := range fx.envs {
			r, _ := vh.RequestOf(e)
			fx.reqs = append(fx.reqs, r)
		}
		var err error
		fx.valuePols, err = cedar.NewPolicySetFromBytes("v", []byte(c10ValuePolicies))
		if err != nil {
			panic("c10 fixture: " + err.Error())
		}
		fx.entPols, err = cedar.NewPolicySetFromBytes("e", []byte(c10EntityPolicies))
		if err != nil {
			panic("c10 fixture: " + err.Error())
		}
		var s schema.Schema
		if err := s.UnmarshalCedar([]byte(c10SchemaForExp)); err == nil {
			fx.schema, _ = s.Resolve()
		}
		c10fx = fx
	})
	return c10fx
}

// ---- consumers ----

// stager runs one named stage (or skips it when its family is in the job's skip list)
type stager func(name string, f func())

func c10StageFamily(name string) string {
	switch {
	case name == "decode":
		return "decode"
	case strings.Contains(name, "MarshalJSON"):
		return "json-encode"
	case strings.Contains(name, "MarshalCedar") || strings.Contains(name, "Encoder") || strings.Contains(name, "String"):
		return "cedar-encode"
	case strings.Contains(name, "NewPolicyFromAST") || strings.Contains(name, "AsLiteral") || strings.Contains(name, "Like") || strings.Contains(name, "Scope"):
		return "compile"
	case strings.Contains(name, "Authorize"):
		return "authorize"
	case strings.Contains(name, "Eval"):
		return "eval"
	}
	return name
}

func c10ConsumePolicy(p *cedar.Policy, st stager) {
	fx := c10Fx()
	st("Policy.MarshalCedar", func() { _ = p.MarshalCedar() })
	st("Policy.MarshalJSON", func() { _, _ = p.MarshalJSON() })
	var a *publicast.Policy
	st("Policy.AST", func() { a = p.AST() })
	if a == nil {
		a = p.AST()
	}
	st("ast.Policy.MarshalCedar", func() { _ = a.MarshalCedar() })
	st("ast.Policy.MarshalJSON", func() { _, _ = a.MarshalJSON() })
	p2 := p
	st("NewPolicyFromAST", func() { p2 = cedar.NewPolicyFromAST(a) })
	st("Encoder.Encode", func() {
		var buf bytes.Buffer
		_ = cedar.NewEncoder(&buf).Encode(p)
	})
	ps := cedar.NewPolicySet()
	ps.Add("p", p)
	ps.Add("q", p2)
	st("PolicySet.MarshalCedar", func() {
		_ = ps.MarshalCedar()
		_ = cedar.PolicyList{p, p2}.MarshalCedar()
	})
	st("PolicySet.MarshalJSON", func() { _, _ = ps.MarshalJSON() })
	st("accessors", func() {
		_ = p.Annotations()
		_ = p.Effect()
		_ = p.Position()
	})
	st("Authorize", func() {
		for i, env := range fx.envs {
			_, _ = cedar.Authorize(ps, env.Entities, fx.reqs[i])
		}
	})
	st("Eval(PolicyToNode)", func() {
		n := eval.PolicyToNode((*xast.Policy)(a)).AsIsNode()
		for _, env := range fx.envs {
			_, _ = eval.Eval(n, env)
		}
	})
}

func c10ConsumePolicySet(ps *cedar.PolicySet, st stager) {
	fx := c10Fx()
	st("PolicySet.MarshalCedar", func() { _ = ps.MarshalCedar() })
	st("PolicySet.MarshalJSON", func() { _, _ = ps.MarshalJSON() })
	st("PolicySet.Authorize", func() {
		for i, env := range fx.envs {
			_, _ = cedar.Authorize(ps, env.Entities, fx.reqs[i])
			_, _ = ps.IsAuthorized(env.Entities, fx.reqs[i])
		}
	})
	n := 0
	for _, p := range ps.Map() {
		if n >= 3 {
			break
		}
		n++
		c10ConsumePolicy(p, st)
	}
}

func c10ConsumeValue(v types.Value, st stager) {
	fx := c10Fx()
	if v == nil {
		st("nil-value", func() { panic("decoder returned a nil Value without an error") })
		return
	}
	st("Value.String", func() { _ = v.String() })
	st("Value.MarshalCedar", func() { _ = v.MarshalCedar() })
	st("Value.MarshalJSON", func() { _, _ = json.Marshal(v) })
	st("Value.Equal", func() { _ = v.Equal(v) })
	r := types.NewRecord(types.RecordMap{"v": v, "a": types.Long(1)})
	st("NewSet/NewRecord", func() {
		s := types.NewSet(v, v, types.Long(1))
		_ = s.Contains(v)
		_ = r.Equal(r)
	})
	st("Container.MarshalCedar", func() {
		_ = types.NewSet(v, types.Long(1)).MarshalCedar()
		_ = r.MarshalCedar()
	})
	st("Container.MarshalJSON", func() {
		_, _ = json.Marshal(types.NewSet(v, types.Long(1)))
		_, _ = json.Marshal(r)
	})
	uid := types.NewEntityUID("User", "a")
	em := types.EntityMap{uid: types.Entity{UID: uid, Attributes: r, Tags: types.NewRecord(types.RecordMap{"t": v})}}
	req := cedar.Request{Principal: uid, Action: types.NewEntityUID("Action", "a"), Resource: types.NewEntityUID("Doc", "a"), Context: r}
	st("Value.Authorize", func() { _, _ = cedar.Authorize(fx.valuePols, em, req) })
	st("Value.AsLiteral", func() {
		pol := cedar.NewPolicyFromAST(publicast.Permit().When(publicast.Value(v).Equal(publicast.Value(v))))
		ps := cedar.NewPolicySet()
		ps.Add("l", pol)
		_, _ = cedar.Authorize(ps, em, req)
		st("Literal.MarshalCedar", func() { _ = pol.MarshalCedar() })
		st("Literal.MarshalJSON", func() { _, _ = pol.MarshalJSON() })
	})
}

func c10ConsumeEntities(em types.EntityMap, st stager) {
	fx := c10Fx()
	st("EntityMap.MarshalJSON", func() { _, _ = json.Marshal(em) })
	var uids []types.EntityUID
	st("Entity.accessors", func() {
		_ = em.Clone()
		for u, e := range em {
			uids = append(uids, u)
			_ = e.Equal(e)
			_, _ = em.Get(u)
			if len(uids) > 4 {
				break
			}
		}
	})
	st("Entity.MarshalJSON", func() {
		for _, u := range uids {
			_, _ = json.Marshal(em[u])
		}
	})
	st("Entity.MarshalCedar", func() {
		for _, u := range uids {
			_ = em[u].Attributes.MarshalCedar()
			_ = em[u].Tags.MarshalCedar()
		}
	})
	uids = append(uids, types.NewEntityUID("User", "a"), types.EntityUID{})
	st("Entities.Authorize", func() {
		for i, p := range uids {
			r := uids[(i+1)%len(uids)]
			req := cedar.Request{Principal: p, Action: types.NewEntityUID("Action", "a"), Resource: r, Context: types.Record{}}
			_, _ = cedar.Authorize(fx.entPols, em, req)
			_, _ = cedar.Authorize(fx.valuePols, em, req)
		}
	})
}

func c10ConsumeUID(u types.EntityUID, st stager) {
	st("EntityUID.String", func() {
		_ = u.String()
		_ = u.MarshalCedar()
		_, _ = u.MarshalBinary()
		_ = u.IsZero()
	})
	st("EntityUID.MarshalJSON", func() {
		_, _ = u.MarshalJSON()
		_, _ = json.Marshal(types.ImplicitlyMarshaledEntityUID(u))
	})
	c10ConsumeValue(u, st)
	st("EntityUID.Scope", func() {
		pol := cedar.NewPolicyFromAST(publicast.Permit().PrincipalEq(u).ActionInSet(u, u).ResourceIsIn(u.Type, u))
		_ = pol.MarshalCedar()
		_, _ = pol.MarshalJSON()
		ps := cedar.NewPolicySet()
		ps.Add("s", pol)
		_, _ = cedar.Authorize(ps, types.EntityMap{u: types.Entity{UID: u, Parents: types.NewEntityUIDSet(u)}}, cedar.Request{Principal: u, Action: u, Resource: u})
	})
}

func c10ConsumeSchema(s *schema.Schema, st stager) {
	st("Schema.MarshalCedar", func() { _, _ = s.MarshalCedar() })
	st("Schema.MarshalJSON", func() { _, _ = s.MarshalJSON() })
	st("Schema.AST", func() { _ = s.AST() })
	st("Schema.Resolve", func() { _, _ = s.Resolve() })
}

func c10ConsumePattern(p types.Pattern, st stager) {
	st("Pattern.MarshalCedar", func() { _ = p.MarshalCedar() })
	st("Pattern.MarshalJSON", func() { _, _ = p.MarshalJSON() })
	st("Pattern.Match", func() {
		for _, s := range []types.String{"", "a", "aaa", "a*b", "\xff"} {
			_ = p.Match(s)
		}
	})
	var pol *cedar.Policy
	st("Pattern.Like", func() {
		pol = cedar.NewPolicyFromAST(publicast.Permit().When(publicast.Context().Access("s").Like(p)))
	})
	if pol != nil {
		c10ConsumePolicy(pol, st)
	}
}

// ---- the entry table ----

var c10JSONAlphabet = `{}[]":,0123456789.-+eEtruefalsn \\u"__entity""__extn""type""id""fn""arg"`
var c10TextAlphabet = `(){}[],;:.!-+*<>=&|"\ @permitforbdwhnulsacxy_0123456789 ` + "\n"

func c10Entries() []*c10Entry {
	polC := func(v any, st stager) { c10ConsumePolicy(v.(*cedar.Policy), st) }
	return []*c10Entry{
		{Name: "Policy.UnmarshalCedar", Family: "policy-text", Kind: "text", Alphabet: c10TextAlphabet,
			Decode:  func(b []byte) (any, error) { var p cedar.Policy; err := p.UnmarshalCedar(b); return &p, err },
			Consume: polC},
		{Name: "ast.Policy.UnmarshalCedar", Family: "policy-text", Kind: "text", Alphabet: c10TextAlphabet,
			Decode: func(b []byte) (any, error) { var p publicast.Policy; err := p.UnmarshalCedar(b); return &p, err },
			Consume: func(v any, st stager) {
				a := v.(*publicast.Policy)
				st("ast.Policy.MarshalCedar", func() { _ = a.MarshalCedar() })
				st("ast.Policy.MarshalJSON", func() { _, _ = a.MarshalJSON() })
				var p *cedar.Policy
				st("NewPolicyFromAST", func() { p = cedar.NewPolicyFromAST(a) })
				if p != nil {
					c10ConsumePolicy(p, st)
				}
			}},
		{Name: "NewPolicyListFromBytes", Family: "policy-text", Kind: "text", Alphabet: c10TextAlphabet,
			Decode: func(b []byte) (any, error) { return cedar.NewPolicyListFromBytes("f.cedar", b) },
			Consume: func(v any, st stager) {
				l := v.(cedar.PolicyList)
				st("PolicyList.MarshalCedar", func() { _ = l.MarshalCedar() })
				for i, p := range l {
					if i >= 3 {
						break
					}
					c10ConsumePolicy(p, st)
				}
			}},
		{Name: "NewPolicySetFromBytes", Family: "policy-text", Kind: "text", Alphabet: c10TextAlphabet,
			Decode:  func(b []byte) (any, error) { return cedar.NewPolicySetFromBytes("f.cedar", b) },
			Consume: func(v any, st stager) { c10ConsumePolicySet(v.(*cedar.PolicySet), st) }},
		{Name: "Decoder.Decode(stream)", Family: "policy-text", Kind: "text", Alphabet: c10TextAlphabet,
			Decode: func(b []byte) (any, error) {
				// small reads so that token boundaries fall on buffer boundaries
				dec := cedar.NewDecoder(&c10ChunkReader{b: b, n: 7})
				var out cedar.PolicyList
				for i := 0; ; i++ {
					var p cedar.Policy
					err := dec.Decode(&p)
					if errors.Is(err, io.EOF) {
						break
					}
					if err != nil {
						// a decoder that failed must keep failing, not panic, when called again
						var q cedar.Policy
						_ = dec.Decode(&q)
						return nil, err
					}
					out = append(out, &p)
					if i > 1<<22 {
						panic("stream decoder does not terminate")
					}
				}
				return out, nil
			},
			Consume: func(v any, st stager) {
				for i, p := range v.(cedar.PolicyList) {
					if i >= 3 {
						break
					}
					c10ConsumePolicy(p, st)
				}
			}},
		{Name: "Policy.UnmarshalJSON", Family: "policy-json", Kind: "json", Alphabet: c10JSONAlphabet,
			Decode:  func(b []byte) (any, error) { var p cedar.Policy; err := p.UnmarshalJSON(b); return &p, err },
			Consume: polC},
		{Name: "ast.Policy.UnmarshalJSON", Family: "policy-json", Kind: "json", Alphabet: c10JSONAlphabet,
			Decode: func(b []byte) (any, error) { var p publicast.Policy; err := p.UnmarshalJSON(b); return &p, err },
			Consume: func(v any, st stager) {
				a := v.(*publicast.Policy)
				st("ast.Policy.MarshalJSON", func() { _, _ = a.MarshalJSON() })
				st("ast.Policy.MarshalCedar", func() { _ = a.MarshalCedar() })
				var p *cedar.Policy
				st("NewPolicyFromAST", func() { p = cedar.NewPolicyFromAST(a) })
				if p != nil {
					c10ConsumePolicy(p, st)
				}
			}},
		{Name: "PolicySet.UnmarshalJSON", Family: "policyset-json", Kind: "json", Alphabet: c10JSONAlphabet,
			Decode:  func(b []byte) (any, error) { var ps cedar.PolicySet; err := json.Unmarshal(b, &ps); return &ps, err },
			Consume: func(v any, st stager) { c10ConsumePolicySet(v.(*cedar.PolicySet), st) }},
		{Name: "types.UnmarshalJSON(Value)", Family: "value-json", Kind: "json", Alphabet: c10JSONAlphabet,
			Decode:  func(b []byte) (any, error) { var v types.Value; err := types.UnmarshalJSON(b, &v); return v, err },
			Consume: func(v any, st stager) { c10ConsumeValue(v.(types.Value), st) }},
		{Name: "Record.UnmarshalJSON", Family: "value-json", Kind: "json", Alphabet: c10JSONAlphabet,
			Decode:  func(b []byte) (any, error) { var v types.Record; err := json.Unmarshal(b, &v); return v, err },
			Consume: func(v any, st stager) { c10ConsumeValue(v.(types.Record), st) }},
		{Name: "Set.UnmarshalJSON", Family: "value-json", Kind: "json", Alphabet: c10JSONAlphabet,
			Decode:  func(b []byte) (any, error) { var v types.Set; err := json.Unmarshal(b, &v); return v, err },
			Consume: func(v any, st stager) { c10ConsumeValue(v.(types.Set), st) }},
		{Name: "EntityUID.UnmarshalJSON", Family: "value-json", Kind: "json", Alphabet: c10JSONAlphabet,
			Decode:  func(b []byte) (any, error) { var v types.EntityUID; err := json.Unmarshal(b, &v); return v, err },
			Consume: func(v any, st stager) { c10ConsumeUID(v.(types.EntityUID), st) }},
		{Name: "Decimal.UnmarshalJSON", Family: "scalar-json", Kind: "json", Alphabet: c10JSONAlphabet,
			Decode:  func(b []byte) (any, error) { var v types.Decimal; err := json.Unmarshal(b, &v); return v, err },
			Consume: func(v any, st stager) { c10ConsumeValue(v.(types.Decimal), st) }},
		{Name: "Datetime.UnmarshalJSON", Family: "scalar-json", Kind: "json", Alphabet: c10JSONAlphabet,
			Decode:  func(b []byte) (any, error) { var v types.Datetime; err := json.Unmarshal(b, &v); return v, err },
			Consume: func(v any, st stager) { c10ConsumeValue(v.(types.Datetime), st) }},
		{Name: "Duration.UnmarshalJSON", Family: "scalar-json", Kind: "json", Alphabet: c10JSONAlphabet,
			Decode:  func(b []byte) (any, error) { var v types.Duration; err := json.Unmarshal(b, &v); return v, err },
			Consume: func(v any, st stager) { c10ConsumeValue(v.(types.Duration), st) }},
		{Name: "IPAddr.UnmarshalJSON", Family: "scalar-json", Kind: "json", Alphabet: c10JSONAlphabet,
			Decode:  func(b []byte) (any, error) { var v types.IPAddr; err := json.Unmarshal(b, &v); return v, err },
			Consume: func(v any, st stager) { c10ConsumeValue(v.(types.IPAddr), st) }},
		{Name: "Pattern.UnmarshalJSON", Family: "pattern-json", Kind: "json", Alphabet: c10JSONAlphabet,
			Decode:  func(b []byte) (any, error) { var v types.Pattern; err := json.Unmarshal(b, &v); return v, err },
			Consume: func(v any, st stager) { c10ConsumePattern(v.(types.Pattern), st) }},
		{Name: "Entity.UnmarshalJSON", Family: "entity-json", Kind: "json", Alphabet: c10JSONAlphabet,
			Decode: func(b []byte) (any, error) { var v types.Entity; err := json.Unmarshal(b, &v); return v, err },
			Consume: func(v any, st stager) {
				e := v.(types.Entity)
				c10ConsumeEntities(types.EntityMap{e.UID: e}, st)
			}},
		{Name: "EntityMap.UnmarshalJSON", Family: "entity-json", Kind: "json", Alphabet: c10JSONAlphabet,
			Decode:  func(b []byte) (any, error) { var v types.EntityMap; err := json.Unmarshal(b, &v); return v, err },
			Consume: func(v any, st stager) { c10ConsumeEntities(v.(types.EntityMap), st) }},
		{Name: "EntityUID.UnmarshalCedar", Family: "euid-text", Kind: "text", Alphabet: `ABab:_"\u{}0 *`,
			Decode: func(b []byte) (any, error) {
				var v, w types.EntityUID
				err := v.UnmarshalCedar(b)
				err2 := w.UnmarshalBinary(b)
				if (err == nil) != (err2 == nil) {
					panic("UnmarshalCedar and UnmarshalBinary disagree")
				}
				return v, err
			},
			Consume: func(v any, st stager) { c10ConsumeUID(v.(types.EntityUID), st) }},
		{Name: "Request.UnmarshalJSON", Family: "request-json", Kind: "json", Alphabet: c10JSONAlphabet,
			Decode: func(b []byte) (any, error) { var v cedar.Request; err := json.Unmarshal(b, &v); return v, err },
			Consume: func(v any, st stager) {
				fx := c10Fx()
				r := v.(cedar.Request)
				st("Request.MarshalJSON", func() { _, _ = json.Marshal(r) })
				st("Request.Authorize", func() {
					_ = r.Equal(r)
					_, _ = cedar.Authorize(fx.entPols, fx.envs[0].Entities, r)
					_, _ = cedar.Authorize(fx.valuePols, nil, r)
				})
				c10ConsumeValue(r.Context, st)
			}},
		{Name: "Decision/Diagnostic.UnmarshalJSON", Family: "diag-json", Kind: "json", Alphabet: c10JSONAlphabet,
			Decode: func(b []byte) (any, error) {
				var d cedar.Decision
				var g cedar.Diagnostic
				err1 := json.Unmarshal(b, &d)
				err2 := json.Unmarshal(b, &g)
				if err1 != nil && err2 != nil {
					return nil, err2
				}
				return [2]any{d, g}, nil
			},
			Consume: func(v any, st stager) {
				x := v.([2]any)
				st("Decision.MarshalJSON", func() {
					_, _ = json.Marshal(x[0].(cedar.Decision))
					_ = x[0].(cedar.Decision).String()
				})
				st("Diagnostic.MarshalJSON", func() {
					g := x[1].(cedar.Diagnostic)
					_, _ = json.Marshal(g)
					for _, e := range g.Errors {
						_ = e.String()
					}
				})
			}},
		{Name: "Schema.UnmarshalCedar", Family: "schema-text", Kind: "text", Alphabet: `{}[]<>,;:?=@"() entiyacoypsRLgBlSm_` + "\n/*",
			Decode:  func(b []byte) (any, error) { var s schema.Schema; s.SetFilename("s"); err := s.UnmarshalCedar(b); return &s, err },
			Consume: func(v any, st stager) { c10ConsumeSchema(v.(*schema.Schema), st) }},
		{Name: "Schema.UnmarshalJSON", Family: "schema-json", Kind: "json", Alphabet: c10JSONAlphabet,
			Decode:  func(b []byte) (any, error) { var s schema.Schema; err := s.UnmarshalJSON(b); return &s, err },
			Consume: func(v any, st stager) { c10ConsumeSchema(v.(*schema.Schema), st) }},
		{Name: "exptypes.UnmarshalJSONWithSchema", Family: "exptypes-json", Kind: "json", Alphabet: c10JSONAlphabet,
			Decode: func(b []byte) (any, error) {
				fx := c10Fx()
				if fx.schema == nil {
					return nil, errors.New("no schema")
				}
				var em exptypes.EntityMap
				err := em.UnmarshalJSONWithSchema(b, fx.schema)
				if err != nil {
					var e exptypes.Entity
					if err2 := e.UnmarshalJSONWithSchema(b, fx.schema); err2 == nil {
						return types.EntityMap{e.UID: types.Entity(e)}, nil
					}
					return nil, err
				}
				return types.EntityMap(em), nil
			},
			Consume: func(v any, st stager) { c10ConsumeEntities(v.(types.EntityMap), st) }},
	}
}

type c10ChunkReader struct {
	b []byte
	n int
}

func (r *c10ChunkReader) Read(p []byte) (int, error) {
	if len(r.b) == 0 {
		return 0, io.EOF
	}
	n := r.n
	if n > len(p) {
		n = len(p)
	}
	if n > len(r.b) {
		n = len(r.b)
	}
	copy(p, r.b[:n])
	r.b = r.b[n:]
	return n, nil
}

func c10FindEntry(es []*c10Entry, name string) *c10Entry {
	for _, e := range es {
		if e.Name == name {
			return e
		}
	}
	return nil
}

// ---------------------------------------------------------------------------------------------
// valid sources (generators + the real encoders)
// ---------------------------------------------------------------------------------------------

var c10SchemaTexts = []string{
	c10SchemaForExp,
	`namespace NS { entity A, B in [C] { "a b"?: Set<{x: Long, y?: NS::T}>, b: Bool } tags Set<String>; entity C enum ["x", "y"]; type T = { s: String, e: A };
  @doc("d") action "view", edit in [Action::"all", "all2"] appliesTo { principal: [A, B], resource: C, context: T } ; action all, all2; }
  @id("x") entity Top; type U = __cedar::Long; action "a b" appliesTo { principal: Top, resource: [Top, NS::A] };`,
	`entity E; action a;`,
	``,
}

func c10ReadRepoFiles(glob string, max int, r *rand.Rand) [][]byte {
	repo := os.Getenv("VERIF_REPO")
	if repo == "" {
		repo = "/repo"
	}
	files, _ := filepath.Glob(filepath.Join(repo, glob))
	sort.Strings(files)
	r.Shuffle(len(files), func(i, j int) { files[i], files[j] = files[j], files[i] })
	var out [][]byte
	for _, f := range files {
		if len(out) >= max {
			break
		}
		b, err := os.ReadFile(f)
		if err == nil && len(b) < 6000 {
			out = append(out, b)
		}
	}
	return out
}

func c10Sources(c *vh.Ctx, g *vh.Gen) map[string][][]byte {
	src := map[string][][]byte{}
	add := func(k string, b []byte) { src[k] = append(src[k], b) }
	nPol := c.N(10, 32)
	set := cedar.NewPolicySet()
	var list cedar.PolicyList
	for i := 0; i < nPol; i++ {
		p := g.Policy(1 + c.Rng.Intn(3))
		pol := cedar.NewPolicyFromAST((*publicast.Policy)(p))
		add("policy-text", pol.MarshalCedar())
		if j, err := pol.MarshalJSON(); err == nil {
			add("policy-json", j)
		}
		set.Add(cedar.PolicyID(fmt.Sprintf("p%d", i%4)), pol)
		list = append(list, pol)
		if i%4 == 3 {
			add("policy-list-text", set.MarshalCedar())
			if j, err := set.MarshalJSON(); err == nil {
				add("policyset-json", j)
			}
			set = cedar.NewPolicySet()
		}
	}
	// hand-written policies covering syntax the generator's renderer never emits
	for _, s := range []string{
		`@id("a") @if("kw") permit(principal == User::"a", action in [Action::"a", Action::"b"], resource is NS::Doc in Group::"g") when { principal has "a b" && context["a b"].c like "a\*b*" } unless { if 1 < 2 then [1, {a: -9223372036854775808}].isEmpty() else ip("::1").isInRange(ip("::/0")) };`,
		`forbid(principal is User, action, resource,) when { context has a.b.c && !(-(-1) == 1) || decimal("1.0").lessThan(decimal("2.0")) && principal.hasTag("t") };`,
		`permit(principal, action, resource);`,
		vh.C10CommentPolicyTexts[0], vh.C10CommentPolicyTexts[1], // comments in every position (c10_runs.go has the exhaustive passes)
	} {
		add("policy-text", []byte(s))
		var p cedar.Policy
		if err := p.UnmarshalCedar([]byte(s)); err == nil {
			if j, err := p.MarshalJSON(); err == nil {
				add("policy-json", j)
			}
		}
	}
	for _, b := range c10ReadRepoFiles("x/exp/schema/validate/testdata/*.cedar", c.N(4, 30), c.Rng) {
		add("policy-list-text", b)
	}
	// values
	for t := vh.Ty(0); t < 12; t++ {
		for k := 0; k < c.N(2, 8); k++ {
			v := g.Value(t, 2)
			if j, err := json.Marshal(v); err == nil {
				add("value-json", j)
				switch t {
				case vh.TRecord:
					add("record-json", j)
				case vh.TSetLong, vh.TSetString, vh.TSetEntity:
					add("set-json", j)
				case vh.TEntity:
					add("euid-json", j)
					add("euid-text", []byte(v.String()))
					ij, _ := json.Marshal(types.ImplicitlyMarshaledEntityUID(v.(types.EntityUID)))
					add("euid-json", ij)
				case vh.TDecimal:
					add("decimal-json", j)
				case vh.TDatetime:
					add("datetime-json", j)
				case vh.TDuration:
					add("duration-json", j)
				case vh.TIP:
					add("ip-json", j)
				}
			}
		}
	}
	scal := func(key, fn string, pool []string) {
		for _, s := range pool {
			q, _ := json.Marshal(s)
			add(key, q)
			add(key, []byte(`{"__extn":{"fn":"`+fn+`","arg":`+string(q)+`}}`))
			add(key, []byte(`{"fn":"`+fn+`","arg":`+string(q)+`}`))
			add("value-json", []byte(`{"__extn":{"fn":"`+fn+`","arg":`+string(q)+`}}`))
		}
	}
	scal("decimal-json", "decimal", vh.DecimalStrings)
	scal("datetime-json", "datetime", vh.DatetimeStrings)
	scal("duration-json", "duration", vh.DurationStrings)
	scal("ip-json", "ip", vh.IPStrings)
	for _, s := range []string{`A::"b"`, `A::B::"\u{1F600}\"\\"`, `::"x"`, `A::""`, `A::"\0"`, `A::"a"::"b"`, `A"b"`, `A::"\*"`, `A::"\u{110000}"`} {
		add("euid-text", []byte(s))
	}
	// entities
	for k := 0; k < c.N(3, 12); k++ {
		em := g.Entities()
		if j, err := json.Marshal(em); err == nil && len(j) < 20000 {
			add("entitymap-json", j)
		}
		n := 0
		for _, e := range em {
			if j, err := json.Marshal(e); err == nil {
				add("entity-json", j)
			}
			n++
			if n >= 2 {
				break
			}
		}
		env := g.Env()
		if r, ok := vh.RequestOf(env); ok {
			if j, err := json.Marshal(r); err == nil {
				add("request-json", j)
			}
		}
	}
	add("exptypes-json", []byte(`[{"uid":{"type":"User","id":"a"},"parents":[{"type":"Group","id":"g"}],"attrs":{"n":1,"s":"x","e":{"type":"User","id":"b"},"r":{"e":{"__entity":{"type":"User","id":"c"}},"n":2},"ip":"10.0.0.1","dec":"1.5","es":[{"type":"User","id":"a"}]},"tags":{"t":"v"}},{"uid":{"type":"Group","id":"g"},"parents":[],"attrs":{},"tags":{}},{"uid":{"type":"User","id":"b"},"parents":[],"attrs":{},"tags":{}},{"uid":{"type":"User","id":"c"},"parents":[],"attrs":{},"tags":{}}]`))
	add("exptypes-json", []byte(`{"uid":{"type":"Doc","id":"d"},"parents":[],"attrs":{"owner":{"type":"User","id":"a"}},"tags":{}}`))
	for _, b := range c10ReadRepoFiles("x/exp/schema/validate/testdata/*.entities.json", c.N(2, 15), c.Rng) {
		add("entitymap-json", b)
	}
	// diagnostics
	d := cedar.Diagnostic{Reasons: []cedar.DiagnosticReason{{PolicyID: "p", Position: cedar.Position{Filename: "f", Offset: 1, Line: 2, Column: 3}}},
		Errors: []cedar.DiagnosticError{{PolicyID: "q", Message: "m"}}}
	j, _ := json.Marshal(d)
	add("diag-json", j)
	add("diag-json", []byte(`"allow"`))
	add("diag-json", []byte(`"deny"`))
	add("diag-json", []byte(`{}`))
	// patterns
	for k := 0; k < c.N(4, 20); k++ {
		if j, err := g.Pattern().MarshalJSON(); err == nil {
			add("pattern-json", j)
		}
	}
	add("pattern-json", []byte(`["Wildcard",{"Literal":"a"},"Wildcard","Wildcard",{"Literal":"\u0000*"}]`))
	// schemas: text from the hand-written corpus and the repo's test data, JSON through the real encoder
	texts := [][]byte{}
	for _, s := range c10SchemaTexts {
		texts = append(texts, []byte(s))
	}
	texts = append(texts, []byte(vh.C10CommentSchemaTexts[0]), []byte(vh.C10CommentSchemaTexts[1]))
	texts = append(texts, c10ReadRepoFiles("x/exp/schema/validate/testdata/*.cedarschema", c.N(5, 40), c.Rng)...)
	for _, t := range texts {
		add("schema-text", t)
		var s schema.Schema
		if err := s.UnmarshalCedar(t); err == nil {
			if j, err := s.MarshalJSON(); err == nil {
				add("schema-json", j)
			}
		}
	}
	return src
}

// which sources feed which entry
var c10EntrySources = map[string][]string{
	"Policy.UnmarshalCedar":               {"policy-text"},
	"ast.Policy.UnmarshalCedar":           {"policy-text"},
	"NewPolicyListFromBytes":              {"policy-list-text", "policy-text"},
	"NewPolicySetFromBytes":               {"policy-list-text", "policy-text"},
	"Decoder.Decode(stream)":              {"policy-list-text", "policy-text"},
	"Policy.UnmarshalJSON":                {"policy-json"},
	"ast.Policy.UnmarshalJSON":            {"policy-json"},
	"PolicySet.UnmarshalJSON":             {"policyset-json"},
	"types.UnmarshalJSON(Value)":          {"value-json"},
	"Record.UnmarshalJSON":                {"record-json"},
	"Set.UnmarshalJSON":                   {"set-json"},
	"EntityUID.UnmarshalJSON":             {"euid-json"},
	"Decimal.UnmarshalJSON":               {"decimal-json"},
	"Datetime.UnmarshalJSON":              {"datetime-json"},
	"Duration.UnmarshalJSON":              {"duration-json"},
	"IPAddr.UnmarshalJSON":                {"ip-json"},
	"Pattern.UnmarshalJSON":               {"pattern-json"},
	"Entity.UnmarshalJSON":                {"entity-json"},
	"EntityMap.UnmarshalJSON":             {"entitymap-json"},
	"EntityUID.UnmarshalCedar":            {"euid-text"},
	"Request.UnmarshalJSON":               {"request-json"},
	"Decision/Diagnostic.UnmarshalJSON":   {"diag-json"},
	"Schema.UnmarshalCedar":               {"schema-text"},
	"Schema.UnmarshalJSON":                {"schema-json"},
	"exptypes.UnmarshalJSONWithSchema":    {"exptypes-json", "entitymap-json"},
}

// ---------------------------------------------------------------------------------------------
// the check
// ---------------------------------------------------------------------------------------------

type c10Stats struct {
	Accepted, Rejected, Panicked int
	Valid, ValidAccepted         int
	FirstValidReject             string
	Muts                         map[string]int
}

type c10Run struct {
	c       *vh.Ctx
	entries []*c10Entry
	stats   map[string]*c10Stats
	watch   *c10Watch
	seen    map[uint64]bool
}

// c10Watch: a watchdog that attributes an in-process hang to the case that is running.
type c10Watch struct {
	mu    sync.Mutex
	entry string
	input []byte
	since time.Time
	busy  bool
}

func (w *c10Watch) start(entry string, in []byte) {
	w.mu.Lock()
	w.entry, w.input, w.since, w.busy = entry, in, time.Now(), true
	w.mu.Unlock()
}
func (w *c10Watch) done() { w.mu.Lock(); w.busy = false; w.mu.Unlock() }

func (r *c10Run) st(e *c10Entry) *c10Stats {
	s := r.stats[e.Name]
	if s == nil {
		s = &c10Stats{Muts: map[string]int{}}
		r.stats[e.Name] = s
	}
	return s
}

func c10Hash(entry string, in []byte) uint64 {
	h := fnv.New64a()
	h.Write([]byte(entry))
	h.Write([]byte{0})
	h.Write(in)
	return h.Sum64()
}

func c10InputRepr(in []byte) map[string]any {
	m := map[string]any{"hex": hex.EncodeToString(in), "len": len(in)}
	if len(in) <= 2000 {
		m["text"] = string(in)
	}
	return m
}

// one in-process case
func (r *c10Run) run(e *c10Entry, in []byte, mut string) c10Result {
	c := r.c
	h := c10Hash(e.Name, in)
	if r.seen[h] {
		return c10Result{Outcome: "dup"}
	}
	r.seen[h] = true
	r.watch.start(e.Name, in)
	t0, cpu0 := time.Now(), c10CPUms()
	res := c10RunCase(e, in, nil, nil)
	el, elCPU := time.Since(t0), c10CPUms()-cpu0
	r.watch.done()
	s := r.st(e)
	s.Muts[mut]++
	c.Dist("mut:" + mut)
	switch res.Outcome {
	case "accepted":
		s.Accepted++
	case "rejected":
		s.Rejected++
	case "panic":
		s.Panicked++
	}
	if mut == "valid" {
		s.Valid++
		if res.Outcome == "accepted" {
			s.ValidAccepted++
		} else {
			_, derr := e.Decode(in)
			if msg := fmt.Sprint(derr); strings.Contains(msg, "IPv4 addresses embedded in IPv6") || strings.Contains(msg, "timestamp out of range") {
				// the source was written by the real encoder from a value that hits one of the two open round-trip
				// defects (C12/C13 ip-v4-mapped-ipv6, datetime-first-day): not evidence of a collapsed generator
				s.Valid--
				c.Dist("valid-source-hits-known-roundtrip-defect")
			} else if s.FirstValidReject == "" {
				s.FirstValidReject = fmt.Sprintf("%v on %.300q", derr, in)
			}
		}
	}
	c.Count(fmt.Sprintf("%x", h), mut != "valid")
	if res.Outcome == "panic" {
		cls := c10PanicClass(e, res)
		c.Report(vh.Finding{Class: cls, What: fmt.Sprintf("%s: panic in stage %s at %s: %s (mutation %s)", e.Name, res.Stage, res.Site, res.Panic, mut),
			Check: "oracle", Op: e.Name, Input: map[string]any{"entry": e.Name, "input": c10InputRepr(in), "mutation": mut},
			Expected: "a value or an error", Actual: map[string]any{"stage": res.Stage, "panic": res.Panic, "site": res.Site}})
	}
	// wall time alone is meaningless on a loaded machine (a descheduled process is not a slow decoder): the process must
	// also have burnt at least half of that in CPU time while the case ran
	if el > 20*time.Second && elCPU > 10000 {
		c.Report(vh.Finding{Class: "slow:" + e.Family + ":in-process", What: fmt.Sprintf("%s: %d-byte input took %v (%d ms of CPU) in process", e.Name, len(in), el, elCPU),
			Check: "oracle", Op: e.Name, Input: map[string]any{"entry": e.Name, "input": c10InputRepr(in), "mutation": mut}})
	}
	return res
}

// nPrimary: the first nPrimary sources were produced for this entry by the generators + real encoders ("valid");
// the rest are documents of a neighbouring entry (still good mutation seeds, but not necessarily acceptable here).
func (r *c10Run) stream(e *c10Entry, sources [][]byte, nPrimary int) {
	c := r.c
	if len(sources) == 0 {
		c.Report(vh.Finding{Class: "generator-collapse", What: "no valid sources for " + e.Name, Check: "self-test", NoInput: true})
		return
	}
	for i, s := range sources {
		if i < nPrimary {
			r.run(e, s, "valid")
		} else {
			r.run(e, s, "neighbour-valid")
		}
	}
	// a few degenerate inputs for everybody
	for _, s := range []string{"", " ", "null", "[]", "{}", "\"\"", "0", "true", "[null]", "{\"a\":null}", "\x00", "\xff\xfe", "\xef\xbb\xbf", "//", "/*", "\"", "'", "@", "(", "[[", "{{", "-", "9223372036854775808",
		`{"__extn":null}`, `{"__entity":null}`, `{"__extn":{}}`, `{"__entity":{}}`, `{"__extn":{"fn":"ip"}}`, `{"__entity":{"type":null,"id":null}}`, `{"type":"A"}`, `{"uid":null}`, `{"staticPolicies":null}`,
		`{"staticPolicies":{"a":null}}`, `{"staticPolicies":{"a":{}}}`, `{"":null}`, `{"":{"entityTypes":null,"actions":null}}`, `{"":{"entityTypes":{"A":null},"actions":{"a":null},"commonTypes":{"T":null}}}`} {
		r.run(e, []byte(s), "degenerate")
	}
	nSrc := c.N(4, 10)
	if nSrc > len(sources) {
		nSrc = len(sources)
	}
	perm := c.Rng.Perm(len(sources))
	if e.Kind == "json" {
		maxPos := c.N(150, 700)
		for k := 0; k < nSrc; k++ {
			src := sources[perm[k]]
			tree, err := vh.C10ParseJSON(src)
			if err != nil {
				continue
			}
			n := vh.C10CountPositions(tree)
			step := 1
			if n > maxPos {
				step = (n + maxPos - 1) / maxPos
			}
			for pos := c.Rng.Intn(step); pos < n; pos += step {
				vh.C10JSONMutantsAt(tree, pos, func(kind string, doc []byte) { r.run(e, doc, "json-"+kind) })
			}
		}
	} else {
		for k := 0; k < nSrc; k++ {
			src := string(sources[perm[k]])
			toks := vh.C10Tokens(src)
			if k < c.N(2, 8) {
				vh.C10TruncationsAtTokens(toks, func(s string) { r.run(e, []byte(s), "tok-truncate-every") })
			}
			for i := 0; i < c.N(60, 400); i++ {
				m, kind := vh.C10TokenMutant(c.Rng, toks)
				if c.Rng.Intn(4) == 0 { // second-order
					m2, k2 := vh.C10TokenMutant(c.Rng, vh.C10Tokens(m))
					m, kind = m2, kind+"+"+k2
					if len(kind) > 24 {
						kind = "tok-double"
					}
				}
				r.run(e, []byte(m), kind)
			}
		}
	}
	// byte level
	for k := 0; k < nSrc; k++ {
		src := sources[perm[k]]
		for i := 0; i < c.N(40, 250); i++ {
			m, kind := vh.C10ByteMutant(c.Rng, src)
			r.run(e, m, kind)
		}
		if len(src) < c.N(200, 1500) {
			for i := 0; i < len(src); i++ {
				r.run(e, src[:i], "byte-truncate-every")
			}
		}
	}
	for i := 0; i < c.N(150, 2000); i++ {
		r.run(e, vh.C10RandomBytes(c.Rng, e.Alphabet), "random-bytes")
	}
}

func runC10(c *vh.Ctx) {
	c.Res.Rule = "per decoder entry point (25: Cedar policy text x5 incl. the streaming decoder, policy/policy-set JSON x3, value/record/set/entity-uid/decimal/datetime/duration/ip/pattern JSON, entity and entity-map JSON, EntityUID text+binary, request, decision/diagnostic, schema text, schema JSON, exptypes with schema): valid documents from the generators + real encoders; null/[]/{}/scalars/dropped/extra/duplicated/upper-cased members substituted at EVERY position of the generic JSON tree; token-level mutants and truncation at every token boundary; byte-level mutants, truncation at every byte, random bytes incl. invalid UTF-8 and NUL; 45 nesting forms at depth 10..10^5 (10^6 thorough) in a subprocess with a 64 MiB stack and a CPU budget, with binary search for the overflow depth; 17 growth forms of a few hundred bytes (an unknown key next to a known key at every level of a nested policy-JSON expression, for every kind of known key) at depth 6..30: the CPU budget exhausted on an input below 4 KiB is exponential time (class exponential-time:…); comment-rich policy and schema texts cut at EVERY byte offset (prefix, suffix, 1- and 2-byte deletions) + all strings of length <= 5 over {/,*,space,newline,a,;} alone and after an unfinished document, through all 5 policy-text and the schema-text entry points; long runs (N = 10^3..10^6 consecutive line / block comments, blank lines, annotations, policies, conditions, set elements, record attributes, declarations, namespaces; single identifiers / strings / integers / comments of N bytes) in the same subprocess worker: linear input must neither overflow the 64 MiB stack nor exceed 25x the linear CPU budget; every accepted value goes through every encoder, NewPolicyFromAST, Authorize and Eval(PolicyToNode) on two environments; raw nodeJSON trees corresponded with the Lean WF model (op c10-raw). distinct = distinct (entry, input bytes); non-trivial = the input is a mutant / deep / random document, not a plain valid one"
	if c.Replay != "" {
		if c10Replay(c) {
			return
		}
	}
	g := vh.NewGen(c.Rng)
	r := &c10Run{c: c, entries: c10Entries(), stats: map[string]*c10Stats{}, watch: &c10Watch{}, seen: map[uint64]bool{}}
	c10Fx()
	// watchdog for in-process hangs
	hung := make(chan struct{})
	go func() {
		for {
			time.Sleep(2 * time.Second)
			r.watch.mu.Lock()
			if r.watch.busy && time.Since(r.watch.since) > 120*time.Second {
				entry, in := r.watch.entry, r.watch.input
				r.watch.mu.Unlock()
				c.Report(vh.Finding{Class: "hang:in-process", What: fmt.Sprintf("%s did not return within 120 s on a %d-byte input", entry, len(in)), Check: "oracle", Op: entry,
					Input: map[string]any{"entry": entry, "input": c10InputRepr(in)}})
				close(hung)
				return
			}
			r.watch.mu.Unlock()
		}
	}()

	// deep-nesting jobs run in parallel subprocess workers while the in-process streams run here
	deepDone := make(chan *c10DeepReport, 1)
	go func() { deepDone <- c10RunDeep(c, r.entries) }()

	finished := make(chan struct{})
	go func() {
		src := c10Sources(c, g)
		for _, e := range r.entries {
			var ss [][]byte
			nPrimary := 0
			for i, k := range c10EntrySources[e.Name] {
				ss = append(ss, src[k]...)
				if i == 0 {
					nPrimary = len(ss)
				}
			}
			r.stream(e, ss, nPrimary)
		}
		tc := time.Now()
		r.c10CommentPasses()
		c.Res.Notes = append(c.Res.Notes, fmt.Sprintf("comment passes took %.1fs", time.Since(tc).Seconds()))
		tStreams := time.Since(c.Start)
		c10Correspond(c, r)
		c.Res.Notes = append(c.Res.Notes, fmt.Sprintf("in-process streams done after %.1fs, correspondence after %.1fs", tStreams.Seconds(), time.Since(c.Start).Seconds()))
		close(finished)
	}()
	select {
	case <-finished:
	case <-hung:
		fmt.Fprintln(os.Stderr, "C10: in-process hang; aborting the in-process streams")
	}
	deep := <-deepDone
	c.Res.Notes = append(c.Res.Notes, fmt.Sprintf("deep-nesting campaign done after %.1fs", time.Since(c.Start).Seconds()))

	// ---- evidence ----
	names := make([]string, 0, len(r.stats))
	for n := range r.stats {
		names = append(names, n)
	}
	sort.Strings(names)
	totalAcc, totalRej := 0, 0
	for _, n := range names {
		s := r.stats[n]
		c.Res.Distribution["entry:"+n+":accepted"] = s.Accepted
		c.Res.Distribution["entry:"+n+":rejected"] = s.Rejected
		c.Res.Distribution["entry:"+n+":panicked"] = s.Panicked
		totalAcc += s.Accepted
		totalRej += s.Rejected
		note := fmt.Sprintf("%s: accepted=%d rejected=%d panicked=%d valid-sources=%d/%d", n, s.Accepted, s.Rejected, s.Panicked, s.ValidAccepted, s.Valid)
		if s.ValidAccepted < s.Valid {
			note += " (first rejection: " + trunc(s.FirstValidReject, 260) + ")"
		}
		c.Res.Notes = append(c.Res.Notes, note)
		// the share of accepted "valid" sources is a statistic: the generators deliberately mix in sources no decoder accepts
		// (the zero entity `::""`, calls of unknown functions; ~13% of the policies, ~20% of the multi-policy documents), so
		// with the 1-6 sources some entries get in the quick tier "fewer than 30% accepted" happens by chance (about 1 run in
		// 100).  Below 10 sources the ratio is not tested, only "none of >= 4 sources accepted" (chance: below 1 in 1000 for
		// such an entry); a collapsed stream also shows below (nothing accepted at all).
		if (s.Valid >= 10 && s.ValidAccepted*10 < s.Valid*3) || (s.Valid >= 4 && s.ValidAccepted == 0) {
			c.Report(vh.Finding{Class: "generator-collapse", What: fmt.Sprintf("%s accepts only %d of its %d valid source documents (first rejection: %s)", n, s.ValidAccepted, s.Valid, s.FirstValidReject), Check: "self-test", NoInput: true})
		}
		if s.Accepted+s.Rejected+s.Panicked > 200 && (s.Accepted == 0 || s.Rejected == 0) {
			c.Report(vh.Finding{Class: "generator-collapse", What: fmt.Sprintf("%s: accepted=%d rejected=%d — the malformed stream does not straddle the accept/reject boundary", n, s.Accepted, s.Rejected), Check: "self-test", NoInput: true})
		}
	}
	c.Sample(map[string]any{"entries": len(names), "accepted": totalAcc, "rejected": totalRej})
	if deep != nil {
		for _, f := range deep.Findings {
			c.Report(f)
		}
		for i := 0; i < deep.Jobs; i++ {
			c.Count(fmt.Sprintf("deep-job-%d", i), true)
		}
		c.Sample(map[string]any{"deep_nesting": deep.Table})
		c.Res.Notes = append(c.Res.Notes, deep.Notes...)
		c.Res.OracleChecks += deep.Jobs
	}
	c10CheckPanicSites(c)
}

// ---------------------------------------------------------------------------------------------
// correspondence with the Lean WF model
// ---------------------------------------------------------------------------------------------

func c10Correspond(c *vh.Ctx, r *c10Run) {
	b := &vh.Batch{}
	fx := c10Fx()
	n := c.N(4000, 30000)
	type rec struct {
		doc  string
		impl string
	}
	var recs []rec
	fixed := []vh.C10RawNode{
		{Enc: []any{"rec", []any{[]any{vh.HexS("a"), []any{"nil"}}}}, JSON: `{"Record":{"a":null}}`},
		{Enc: []any{"call", vh.HexS("lessThan"), []any{}}, JSON: `{"lessThan":[]}`},
		{Enc: []any{"call", vh.HexS("decimal"), []any{}}, JSON: `{"decimal":[]}`},
		{Enc: []any{"var", vh.HexS("foo")}, JSON: `{"Var":"foo"}`},
		{Enc: []any{"zero"}, JSON: `null`},
		{Enc: []any{"zero"}, JSON: `{}`},
		{Enc: []any{"set", []any{[]any{"zero"}}}, JSON: `{"Set":[null]}`},
		{Enc: []any{"call", vh.HexS("isIpv4"), []any{[]any{"lit"}, []any{"lit"}, []any{"lit"}}}, JSON: `{"isIpv4":[{"Value":1},{"Value":2},{"Value":3}]}`},
	}
	for i := 0; i < n+len(fixed); i++ {
		var raw vh.C10RawNode
		if i < len(fixed) {
			raw = fixed[i]
		} else {
			defects := []int{0, 0, 1, 1, 2, 3}[c.Rng.Intn(6)]
			raw = vh.C10GenRaw(c.Rng, 1+c.Rng.Intn(4), &defects)
		}
		kind := "when"
		if c.Rng.Intn(4) == 0 {
			kind = "unless"
		}
		doc := `{"effect":"permit","principal":{"op":"All"},"action":{"op":"All"},"resource":{"op":"All"},"conditions":[{"kind":"` + kind + `","body":` + raw.JSON + `}]}`
		impl := c10Stages([]byte(doc), fx)
		idx := b.Add("c10-raw", map[string]any{"raw": raw.Enc}, "", "")
		recs = append(recs, rec{doc, impl})
		c.Count("raw:"+b.Key(idx), true)
		c.Dist("raw:" + strings.SplitN(impl, " ", 2)[0])
		if i < 3 {
			c.Sample(map[string]any{"op": "c10-raw", "doc": doc, "impl": impl})
		}
		// known findings are reported through the entry streams too; here the stage outcome is the oracle
		if strings.HasPrefix(impl, "dec=panic") {
			c.Report(vh.Finding{Class: "policy-json-null-node", What: "ast.Policy.UnmarshalJSON panics on " + raw.JSON, Check: "oracle", Op: "c10-raw", Input: map[string]any{"doc": doc}})
		} else if strings.Contains(impl, "cedar=panic") {
			c.Report(vh.Finding{Class: "policy-json-call-arity-then-marshal-panic", What: "MarshalCedar panics on the decoded " + raw.JSON, Check: "oracle", Op: "c10-raw", Input: map[string]any{"doc": doc}})
		} else if strings.Contains(impl, "panic") {
			c.Report(vh.Finding{Class: "panic:policy-json:raw:" + impl, What: "consumer panic on the decoded " + raw.JSON + ": " + impl, Check: "oracle", Op: "c10-raw", Input: map[string]any{"doc": doc}})
		}
	}
	model, err := c.RunDriver(b)
	if err != nil {
		c.Report(vh.Finding{Class: "driver-failure", What: err.Error(), Check: "correspondence", Op: "c10-raw", NoInput: true})
		return
	}
	// every tree the (repaired) decoder returns is WF and has its receivers (C10_json_decoder_wf): the model line
	// ends with wf=… recv=…, which the implementation has no notion of
	decOK, decReject, notwf := 0, 0, 0
	for i, rc := range recs {
		m := model[i]
		if strings.HasPrefix(m, "skip ") {
			c.Res.Skipped++
			continue
		}
		c.Res.Corresponded++
		mm := m
		if j := strings.Index(m, " wf="); j >= 0 {
			mm = m[:j]
			switch {
			case strings.HasPrefix(m, "dec=reject"):
				decReject++
			case strings.HasSuffix(m, "wf=true recv=true"):
				decOK++
			case strings.HasPrefix(m, "dec=ok"):
				notwf++
				c.Report(vh.Finding{Class: "wf-model-contradicts-theorem", What: "the model decoder returned a tree that is not WF / lacks a receiver: " + m, Check: "correspondence", Op: "c10-raw",
					Input: map[string]any{"doc": rc.doc, "raw": b.Line(i).Payload()}})
			}
		}
		if mm != rc.impl {
			c.Report(vh.Finding{Class: "wf-model-mismatch", What: fmt.Sprintf("stage outcomes differ: impl=%q model=%q", rc.impl, mm), Check: "correspondence", Op: "c10-raw",
				Input: map[string]any{"doc": rc.doc, "raw": b.Line(i).Payload()}, Expected: mm, Actual: rc.impl})
		}
	}
	c.Res.Notes = append(c.Res.Notes, fmt.Sprintf("c10-raw: %d trees, decoder accepts %d (all WF with receivers), rejects %d", len(recs), decOK, decReject))
	if decOK == 0 || decReject == 0 {
		c.Report(vh.Finding{Class: "generator-collapse", What: fmt.Sprintf("raw tree stream: accepted=%d rejected=%d", decOK, decReject), Check: "self-test", NoInput: true})
	}
}

// c10Stages observes the Go code stage by stage, in the model's vocabulary.
func c10Stages(doc []byte, fx *c10Fixtures) string {
	var a publicast.Policy
	var derr error
	if pn := vh.Protect(func() { derr = a.UnmarshalJSON(doc) }); pn != nil {
		return "dec=panic eval=- cedar=- json=-"
	}
	if derr != nil {
		return "dec=reject eval=- cedar=- json=-"
	}
	ev, ce, js := "ok", "ok", "ok"
	if pn := vh.Protect(func() {
		p := cedar.NewPolicyFromAST(&a)
		ps := cedar.NewPolicySet()
		ps.Add("p", p)
		for i, env := range fx.envs {
			_, _ = cedar.Authorize(ps, env.Entities, fx.reqs[i])
			_, _ = eval.Eval(eval.PolicyToNode((*xast.Policy)(&a)).AsIsNode(), env)
		}
	}); pn != nil {
		ev = "panic"
	}
	if pn := vh.Protect(func() { _ = a.MarshalCedar() }); pn != nil {
		ce = "panic"
	}
	if pn := vh.Protect(func() { _, _ = a.MarshalJSON() }); pn != nil {
		js = "panic"
	}
	return "dec=ok eval=" + ev + " cedar=" + ce + " json=" + js
}

// ---------------------------------------------------------------------------------------------
// tie (a): panic sites regenerated from the source vs. the hand classification
// ---------------------------------------------------------------------------------------------

func c10CheckPanicSites(c *vh.Ctx) {
	gb, err := os.ReadFile(filepath.Join(c.VerifDir, ".facts.C10.json"))
	if err != nil {
		c.Res.Notes = append(c.Res.Notes, "panic-site facts not regenerated in this run (.facts.C10.json missing)")
		return
	}
	eb, err := os.ReadFile(filepath.Join(c.VerifDir, "facts", "panic_sites.expected.json"))
	if err != nil {
		c.Report(vh.Finding{Class: "panic-site-expectations-missing", What: err.Error(), Check: "proof", NoInput: true})
		return
	}
	type site struct{ File, Func, Kind, Expr, Guard, Class string }
	var got struct {
		PanicSites []site   `json:"panicSites"`
		Parser     []string `json:"parserConstructionSites"`
		Ptr        []string `json:"jsonDecoderPointerContainers"`
		NilGuards  []string `json:"jsonDecoderNilGuards"`
	}
	var exp struct {
		PanicSites []site `json:"panicSites"`
		Parser     struct {
			Value []string `json:"value"`
		} `json:"parserConstructionSites"`
		Ptr struct {
			Value []string `json:"value"`
		} `json:"jsonDecoderPointerContainers"`
		NilGuards struct {
			Value []string `json:"value"`
		} `json:"jsonDecoderNilGuards"`
	}
	if json.Unmarshal(gb, &got) != nil || json.Unmarshal(eb, &exp) != nil {
		c.Report(vh.Finding{Class: "panic-site-facts-unreadable", What: "cannot parse panic site facts", Check: "proof", NoInput: true})
		return
	}
	// the guard (enclosing len(...) test of an index site) is part of the identity: a site that loses its guard is new
	key := func(s site) string {
		k := s.File + "|" + s.Func + "|" + s.Kind + "|" + s.Expr
		if s.Guard != "" {
			k += "|if " + s.Guard
		}
		return k
	}
	known := map[string]bool{}
	for _, s := range exp.PanicSites {
		known[key(s)] = true
	}
	var problems []string
	for _, s := range got.PanicSites {
		if !known[key(s)] {
			problems = append(problems, "unclassified panic site "+key(s))
		}
	}
	diff := func(name string, got, want []string) {
		w := map[string]bool{}
		for _, x := range want {
			w[x] = true
		}
		for _, x := range got {
			if !w[x] {
				problems = append(problems, "new "+name+": "+x)
			}
		}
	}
	diff("text-parser construction site", got.Parser, exp.Parser.Value)
	diff("nil-able pointer container in the JSON policy codec", got.Ptr, exp.Ptr.Value)
	// the nil guards of the decoder loops must all still be there (the reverse direction: expected ⊆ regenerated)
	haveGuard := map[string]bool{}
	for _, g := range got.NilGuards {
		haveGuard[g] = true
	}
	for _, g := range exp.NilGuards.Value {
		if !haveGuard[g] {
			problems = append(problems, "missing nil guard in a JSON policy decoder loop: "+g)
		}
	}
	c.Res.Notes = append(c.Res.Notes, fmt.Sprintf("panic sites: %d regenerated, %d classified; parser construction sites %d; pointer containers %d; nil guards %d", len(got.PanicSites), len(exp.PanicSites), len(got.Parser), len(got.Ptr), len(got.NilGuards)))
	if len(problems) > 0 {
		c.Report(vh.Finding{Class: "panic-site-unclassified", What: strings.Join(problems, "; "), Check: "proof", Op: "facts", NoInput: true,
			Input: map[string]any{"problems": problems}})
	}
}
