package main

// C07 — layout invariance across the scanner's buffer boundaries.
//
// The property says that a text inside the grammar yields its AST whatever its layout. The scanner reads its
// input through a 1024-byte buffer and treats a token (and a UTF-8 sequence) that straddles the end of that
// buffer specially; none of the model's renderings is long enough to get there. This file takes texts whose
// parse has already been checked against the generating AST and, for a byte offset `off` inside a token,
// produces the family of re-layouts that put that byte at offset 1024·k − d (d = 0..4, the first two k that
// leave room), by
//
//	front         whitespace / comments (also with multi-byte characters) in front of the text,
//	before-token  whitespace / comments immediately before the token that contains the byte,
//	in-token      lengthening the ASCII part of the string token itself, directly before a non-ASCII character
//	              (string literal, entity id, annotation value, like-pattern, record key, attribute name alike),
//
// and requires that the parse of every variant is the parse of the compact text: same canonical AST (for
// in-token: the same AST except for the inserted filler in that one string), Position = position of the first
// token computed from the bytes. Offsets: every non-ASCII character of every string token (so that each internal
// byte boundary of a 2-, 3-, 4-byte character falls on 1024·k) and the first / middle / last byte of a token of
// every kind (identifier, integer, keyword, string, 1- and 2-character operator).

import (
	"bytes"
	"crypto/sha256"
	"encoding/hex"
	"fmt"
	"math/rand"
	"sort"
	"strings"
	"time"
	"unicode/utf8"

	"github.com/cedar-policy/cedar-go/types"
	"github.com/cedar-policy/cedar-go/x/exp/ast"
	"github.com/cedar-policy/cedar-go/x/exp/verifhooks"

	"verifharness/vh"
)

const c07BufLen = 1024 // internal/parser bufLen (fact `bufLen`, tied by C18_go_bufLen_admissible)

// c07MinFiller: an in-token filler is longer than any string the generators produce, so that it can neither
// collide with another record key / annotation nor be mistaken for part of the original string.
const c07MinFiller = 24

// c07LayoutItems: policies that carry a 2-, 3- and 4-byte character in each kind of string token.
func c07LayoutItems(sg *vh.SynGen) []*ast.Policy {
	ctxS := ast.NodeTypeAccess{StrOpNode: ast.StrOpNode{Arg: ast.NodeTypeVariable{Name: "context"}, Value: "s"}}
	byWidth := map[int][]rune{2: {0xe9, 0xdf, 0x80, 0x7ff}, 3: {0x20ac, 0xd55c, 0x800, 0xfffc}, 4: {0x1f600, 0x1d11e, 0x10000, 0x10fffd}}
	for i := 0; i < 400; i++ {
		r := sg.Rune()
		if w := utf8.RuneLen(r); w >= 2 && r != 0xFFFD && len(byWidth[w]) < 6 {
			byWidth[w] = append(byWidth[w], r)
		}
	}
	var out []*ast.Policy
	for w := 2; w <= 4; w++ {
		for i, r := range byWidth[w] {
			ch := string(r)
			s := types.String([]string{"", "a", "ab", "abc"}[i%4] + ch + []string{"", "z", ch}[i%3])
			base := func() *ast.Policy {
				return &ast.Policy{Effect: ast.Effect(i%2 == 0), Principal: ast.ScopeTypeAll{}, Action: ast.ScopeTypeAll{}, Resource: ast.ScopeTypeAll{}}
			}
			when := func(p *ast.Policy, n ast.IsNode) *ast.Policy {
				p.Conditions = append(p.Conditions, ast.ConditionType{Condition: ast.ConditionWhen, Body: n})
				return p
			}
			// string literal
			out = append(out, when(base(), ast.NodeTypeEquals{BinaryNode: ast.BinaryNode{Left: ctxS, Right: ast.NodeValue{Value: s}}}))
			// entity id (scope and expression)
			p := base()
			p.Principal = ast.ScopeTypeEq{Entity: types.NewEntityUID("User", s)}
			out = append(out, when(p, ast.NodeTypeIn{BinaryNode: ast.BinaryNode{Left: ast.NodeTypeVariable{Name: "resource"}, Right: ast.NodeValue{Value: types.NewEntityUID("NS::Folder", s)}}}))
			// annotation value
			p = base()
			p.Annotations = []ast.AnnotationType{{Key: "id", Value: s}}
			out = append(out, p)
			// like-pattern: the character in the first literal, after a wildcard, after an escaped star
			out = append(out, when(base(), ast.NodeTypeLike{Arg: ctxS, Value: types.NewPattern(s, types.Wildcard{}, types.String(ch), types.Wildcard{}, types.String("*"+ch))}))
			// record key, `has` attribute, index
			p = when(base(), ast.NodeTypeRecord{Elements: []ast.RecordElementNode{{Key: s, Value: ast.NodeValue{Value: types.Long(1)}}}})
			p = when(p, ast.NodeTypeHas{StrOpNode: ast.StrOpNode{Arg: ast.NodeTypeVariable{Name: "context"}, Value: s}})
			out = append(out, when(p, ast.NodeTypeAccess{StrOpNode: ast.StrOpNode{Arg: ast.NodeTypeVariable{Name: "context"}, Value: s}}))
		}
	}
	return out
}

// c07Pad: exactly n bytes of trivia.
func c07Pad(rng *rand.Rand, n int) []byte {
	ws := func(m int) []byte {
		b := make([]byte, 0, m)
		for len(b) < m {
			t := []string{" ", " ", " ", "\t", "\n", "\r\n", "\r"}[rng.Intn(7)]
			if len(b)+len(t) <= m {
				b = append(b, t...)
			}
		}
		return b
	}
	fill := func(m int, multibyte bool) []byte {
		b := make([]byte, 0, m)
		for len(b) < m {
			t := []string{"x", "pad ", "0", ";", "\"", "é", "€", "😀"}[rng.Intn(map[bool]int{false: 5, true: 8}[multibyte])]
			if len(b)+len(t) <= m {
				b = append(b, t...)
			}
		}
		return b
	}
	style := rng.Intn(6)
	switch {
	case n == 0:
		return nil
	case style == 0 || n < 6:
		return bytes.Repeat([]byte{' '}, n)
	case style == 1:
		return ws(n)
	case style == 2:
		return append(append([]byte("//"), fill(n-3, rng.Intn(2) == 0)...), '\n')
	case style == 3:
		return append(append([]byte("/*"), fill(n-4, rng.Intn(2) == 0)...), "*/"...)
	case style == 4: // comment, then whitespace
		m := 4 + rng.Intn(n-5)
		return append(append(append([]byte("/*"), fill(m-4, true)...), "*/"...), ws(n-m)...)
	default: // whitespace, then a line comment that ends right before the token
		m := 3 + rng.Intn(n-4)
		return append(ws(n-m), append(append([]byte("//"), fill(m-3, false)...), '\n')...)
	}
}

type c07Variant struct {
	Text  []byte
	How   string // front | before-token | in-token
	K, D  int    // the byte lands on 1024·K − D
	N     int    // bytes inserted
	InsAt int    // offset of the insertion in the compact text
}

// c07PadVariants is the generic mechanism: the re-layouts of text that place byte offset off at 1024·k − d for
// d = 0..4 and the first two k ≥ 1 that leave room. tokStart = offset of the token containing off; fillAt ≥ 0
// allows in-token lengthening by inserting ASCII filler at that offset (tokStart < fillAt ≤ off).
func c07PadVariants(rng *rand.Rand, text []byte, tokStart, off, fillAt int, hows []string) []c07Variant {
	var out []c07Variant
	ins := func(at int, b []byte) []byte {
		t := make([]byte, 0, len(text)+len(b))
		t = append(append(append(t, text[:at]...), b...), text[at:]...)
		return t
	}
	for d := 0; d <= 4; d++ {
		for _, how := range hows {
			min := 0
			if how == "in-token" {
				if fillAt < 0 {
					continue
				}
				min = c07MinFiller
			}
			done := 0
			for k := 1; done < 2 && k < 8; k++ {
				n := c07BufLen*k - d - off
				if n < min {
					continue
				}
				done++
				v := c07Variant{How: how, K: k, D: d, N: n}
				switch how {
				case "front":
					v.Text = ins(0, c07Pad(rng, n))
				case "before-token":
					v.InsAt = tokStart
					v.Text = ins(tokStart, c07Pad(rng, n))
				case "in-token":
					v.InsAt = fillAt
					v.Text = ins(fillAt, bytes.Repeat([]byte{'k'}, n))
				}
				out = append(out, v)
			}
		}
	}
	return out
}

// c07PosAt: (line, column) of byte offset off, from the bytes alone.
func c07PosAt(text []byte, off int) (int, int) {
	nl := bytes.LastIndexByte(text[:off], '\n')
	return 1 + bytes.Count(text[:off], []byte{'\n'}), 1 + utf8.RuneCount(text[nl+1:off])
}

// c07SameButFiller: got is want with hex(filler) inserted at exactly one place.
func c07SameButFiller(got, want string, n int) bool {
	f := strings.Repeat(hex.EncodeToString([]byte{'k'}), n)
	if len(got) != len(want)+len(f) {
		return false
	}
	for from := 0; ; {
		i := strings.Index(got[from:], f)
		if i < 0 {
			return false
		}
		i += from
		if got[:i] == want[:i] && got[i+len(f):] == want[i:] {
			return true
		}
		from = i + 1
	}
}

// c07StringContext names the syntactic role of the string token toks[i].
func c07StringContext(toks []verifhooks.C0708Token, i int) string {
	prev := func(k int) string {
		if i-k >= 0 {
			return toks[i-k].Text
		}
		return ""
	}
	switch {
	case prev(1) == "::":
		return "entity-id"
	case prev(1) == "like":
		return "like-pattern"
	case prev(1) == "(" && prev(3) == "@":
		return "annotation-value"
	case prev(1) == "has":
		return "has-attribute"
	case prev(1) == "[":
		return "index"
	case i+1 < len(toks) && toks[i+1].Text == ":":
		return "record-key"
	}
	return "string-literal"
}

func c07LayoutKey(text []byte) string {
	h := sha256.Sum256(text)
	return "layout:" + string(h[:12])
}

type c07Layout struct {
	c        *vh.Ctx
	variants int
	straddle map[string]bool // context/width of non-ASCII characters placed across a buffer boundary
}

// check parses one variant and compares with the compact parse.
func (l *c07Layout) check(compact []byte, wantShow string, firstTok int, v c07Variant, what string) {
	c := l.c
	l.variants++
	c.Res.OracleChecks++
	c.Dist("layout:" + v.How)
	_, got := goParse(v.Text)
	fail := func(msg string, actual any) {
		c.Report(vh.Finding{Class: "layout-dependent-parse", What: fmt.Sprintf("re-layout (%s, %d bytes inserted at offset %d) that puts %s at offset %d·%d−%d changes the parse: %s", v.How, v.N, v.InsAt, what, c07BufLen, v.K, v.D, msg),
			Check: "oracle", Op: "UnmarshalCedar", Input: map[string]any{"text_hex": hex.EncodeToString(v.Text), "compact_text": string(compact), "how": v.How, "inserted_bytes": v.N, "inserted_at": v.InsAt, "k": v.K, "d": v.D},
			Expected: wantShow, Actual: actual})
	}
	if got == nil {
		fail("the compact text parses, the re-layout is rejected", "err")
		return
	}
	show := vh.ShowPolicyC07(got, false)
	if v.How == "in-token" {
		if !c07SameButFiller(show, wantShow, v.N) {
			fail("AST differs by more than the filler", show)
			return
		}
	} else if show != wantShow {
		fail("different AST", show)
		return
	}
	at := firstTok
	if v.InsAt <= firstTok {
		at += v.N
	}
	line, col := c07PosAt(v.Text, at)
	if p := got.Position; p.Offset != at || p.Line != line || p.Column != col {
		fail(fmt.Sprintf("Position %d:%d:%d, first token is at %d:%d:%d", p.Offset, p.Line, p.Column, at, line, col), fmt.Sprintf("%d:%d:%d", p.Offset, p.Line, p.Column))
		return
	}
	if c.Rng.Intn(4) == 0 { // the list parser and the single-policy parser share the scanner: same answer
		single := "ok " + vh.ShowPolicyC07(got, true)
		if lst := goParseList(v.Text); lst != single {
			fail("NewPolicyListFromBytes disagrees with UnmarshalCedar", lst)
		}
	}
}

// c07RunLayout: seeds = compact renderings of c07LayoutItems (all of them are used), texts = the other renderings
// (a random sample is used); only renderings whose parse equals their generating AST are passed in.
func c07RunLayout(c *vh.Ctx, seeds, texts [][]byte) {
	l := &c07Layout{c: c, straddle: map[string]bool{}}
	t0 := time.Now()
	nonASCIIBudget, asciiBudget := len(seeds)*2+c.N(150, 12000), c.N(60, 3000)
	all := append([][]byte{}, seeds...)
	for _, ti := range c.Rng.Perm(len(texts)) {
		all = append(all, texts[ti])
	}
	seenText := map[string]bool{}
	for _, text := range all {
		if nonASCIIBudget <= 0 && asciiBudget <= 0 {
			break
		}
		if seenText[string(text)] {
			continue
		}
		seenText[string(text)] = true
		hasHigh := false
		for _, b := range text {
			if b >= 0x80 {
				hasHigh = true
				break
			}
		}
		if !hasHigh && asciiBudget <= 0 {
			continue
		}
		toks, err := verifhooks.C0708Tokenize(text)
		_, ast0 := goParse(text)
		if err != nil || ast0 == nil || len(toks) < 2 {
			continue
		}
		want := vh.ShowPolicyC07(ast0, false)
		first := toks[0].Offset
		// (A) every kind of string token: up to two non-ASCII characters per text
		type target struct {
			tok, off, width int
			ctx             string
		}
		var ts []target
		for i, t := range toks {
			if t.Type != 4 {
				continue
			}
			for j := 0; j < len(t.Text); {
				_, w := utf8.DecodeRuneInString(t.Text[j:])
				if w >= 2 { // (an invalid sequence decodes with width 1; a validly encoded U+FFFD has width 3)
					ts = append(ts, target{i, t.Offset + j, w, c07StringContext(toks, i)})
				}
				j += w
			}
		}
		c.Rng.Shuffle(len(ts), func(a, b int) { ts[a], ts[b] = ts[b], ts[a] })
		for n, tg := range ts {
			if n >= 2 || nonASCIIBudget <= 0 {
				break
			}
			nonASCIIBudget--
			what := fmt.Sprintf("the %d-byte character at offset %d of the %s %s", tg.width, tg.off, tg.ctx, toks[tg.tok].Text)
			for _, v := range c07PadVariants(c.Rng, text, toks[tg.tok].Offset, tg.off, tg.off, []string{"front", "before-token", "in-token"}) {
				if v.D >= 1 && v.D < tg.width {
					l.straddle[fmt.Sprintf("%s/%d-byte/%s", tg.ctx, tg.width, v.How)] = true
					c.Dist(fmt.Sprintf("layout-straddle:%s/%d-byte", tg.ctx, tg.width))
				}
				c.Count(c07LayoutKey(v.Text), true)
				l.check(text, want, first, v, what)
			}
		}
		// (B) first / middle / last byte of one token of every kind
		if asciiBudget <= 0 {
			continue
		}
		asciiBudget--
		byKind := map[string][]int{}
		for i, t := range toks {
			kind := [...]string{"eof", "ident", "int", "keyword", "string", "operator", "unknown"}[t.Type]
			if t.Type == 5 {
				kind = fmt.Sprintf("operator%d", len(t.Text))
			}
			if t.Type != 0 {
				byKind[kind] = append(byKind[kind], i)
			}
		}
		kinds := make([]string, 0, len(byKind))
		for kind := range byKind {
			kinds = append(kinds, kind)
		}
		sort.Strings(kinds)
		for _, kind := range kinds {
			is := byKind[kind]
			t := toks[is[c.Rng.Intn(len(is))]]
			offs := []int{t.Offset, t.Offset + len(t.Text)/2, t.Offset + len(t.Text) - 1}
			for oi, off := range offs {
				if oi > 0 && off == offs[oi-1] {
					continue
				}
				how := []string{"front", "before-token"}[c.Rng.Intn(2)]
				c.Dist("layout-token:" + kind)
				what := fmt.Sprintf("the %s byte (offset %d) of the %s token %s", [...]string{"first", "middle", "last"}[oi], off, kind, t.Text)
				for _, v := range c07PadVariants(c.Rng, text, t.Offset, off, -1, []string{how}) {
					c.Count(c07LayoutKey(v.Text), true)
					l.check(text, want, first, v, what)
				}
			}
		}
	}
	// self-test: each string-token role must have been exercised with each character width across a boundary
	for _, ctx := range []string{"string-literal", "entity-id", "annotation-value", "like-pattern"} {
		for w := 2; w <= 4; w++ {
			for _, how := range []string{"front", "before-token", "in-token"} {
				if !l.straddle[fmt.Sprintf("%s/%d-byte/%s", ctx, w, how)] {
					c.Report(vh.Finding{Class: "self-test", What: fmt.Sprintf("layout check: no %d-byte character of a %s was placed across a buffer boundary (%s)", w, ctx, how), Check: "oracle", NoInput: true})
				}
			}
		}
	}
	c.Res.Notes = append(c.Res.Notes, fmt.Sprintf("layout variants parsed=%d (%.1fs)", l.variants, time.Since(t0).Seconds()))
}
