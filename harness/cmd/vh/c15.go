package main

// C15 — validated policies cannot fail with type errors.
//
// Direct oracle on the whole validator: random schema -> type-directed policies (well-typed by
// construction + near-miss mutations) -> keep what validate.New(schema, mode).Policy accepts (strict and
// permissive) -> for every (action, principal type, resource type) environment of the schema: conforming
// requests x conforming stores (asserted through Validator.Request / Validator.Entities) -> evaluate
// Eval(PolicyToNode(policy)) -> any error kind outside {overflow, entity, ext-*} is the failure.
// Plus the `validate` correspondence of the Lean fragment model against the Go validator.

import (
	"encoding/json"
	"fmt"
	"sort"
	"strings"

	cedar "github.com/cedar-policy/cedar-go"
	publicast "github.com/cedar-policy/cedar-go/ast"
	"github.com/cedar-policy/cedar-go/types"
	"github.com/cedar-policy/cedar-go/x/exp/ast"
	"github.com/cedar-policy/cedar-go/x/exp/eval"
	"github.com/cedar-policy/cedar-go/x/exp/schema"
	"github.com/cedar-policy/cedar-go/x/exp/schema/validate"
	"github.com/cedar-policy/cedar-go/x/exp/verifhooks"

	"verifharness/vh"
)

func init() { props["C15"] = runC15 }

var c15Allowed = map[string]bool{"overflow": true, "entity": true, "ext-decimal": true, "ext-ip": true, "ext-datetime": true, "ext-duration": true}

// ---- AST helpers --------------------------------------------------------------------------

func c15Children(n ast.IsNode) []ast.IsNode {
	b := func(x ast.BinaryNode) []ast.IsNode { return []ast.IsNode{x.Left, x.Right} }
	switch v := n.(type) {
	case ast.NodeTypeAnd:
		return b(v.BinaryNode)
	case ast.NodeTypeOr:
		return b(v.BinaryNode)
	case ast.NodeTypeEquals:
		return b(v.BinaryNode)
	case ast.NodeTypeNotEquals:
		return b(v.BinaryNode)
	case ast.NodeTypeLessThan:
		return b(v.BinaryNode)
	case ast.NodeTypeLessThanOrEqual:
		return b(v.BinaryNode)
	case ast.NodeTypeGreaterThan:
		return b(v.BinaryNode)
	case ast.NodeTypeGreaterThanOrEqual:
		return b(v.BinaryNode)
	case ast.NodeTypeAdd:
		return b(v.BinaryNode)
	case ast.NodeTypeSub:
		return b(v.BinaryNode)
	case ast.NodeTypeMult:
		return b(v.BinaryNode)
	case ast.NodeTypeIn:
		return b(v.BinaryNode)
	case ast.NodeTypeContains:
		return b(v.BinaryNode)
	case ast.NodeTypeContainsAll:
		return b(v.BinaryNode)
	case ast.NodeTypeContainsAny:
		return b(v.BinaryNode)
	case ast.NodeTypeGetTag:
		return b(v.BinaryNode)
	case ast.NodeTypeHasTag:
		return b(v.BinaryNode)
	case ast.NodeTypeNot:
		return []ast.IsNode{v.Arg}
	case ast.NodeTypeNegate:
		return []ast.IsNode{v.Arg}
	case ast.NodeTypeIsEmpty:
		return []ast.IsNode{v.Arg}
	case ast.NodeTypeIfThenElse:
		return []ast.IsNode{v.If, v.Then, v.Else}
	case ast.NodeTypeAccess:
		return []ast.IsNode{v.Arg}
	case ast.NodeTypeHas:
		return []ast.IsNode{v.Arg}
	case ast.NodeTypeLike:
		return []ast.IsNode{v.Arg}
	case ast.NodeTypeIs:
		return []ast.IsNode{v.Left}
	case ast.NodeTypeIsIn:
		return []ast.IsNode{v.Left, v.Entity}
	case ast.NodeTypeSet:
		return v.Elements
	case ast.NodeTypeRecord:
		var out []ast.IsNode
		for _, e := range v.Elements {
			out = append(out, e.Value)
		}
		return out
	case ast.NodeTypeExtensionCall:
		return v.Args
	}
	return nil
}

func c15OpName(n ast.IsNode) string {
	switch v := n.(type) {
	case ast.NodeValue:
		return ""
	case ast.NodeTypeVariable:
		return ""
	case ast.NodeTypeAnd:
		return "and"
	case ast.NodeTypeOr:
		return "or"
	case ast.NodeTypeNot:
		return "not"
	case ast.NodeTypeIfThenElse:
		return "if"
	case ast.NodeTypeEquals:
		return "eq"
	case ast.NodeTypeNotEquals:
		return "ne"
	case ast.NodeTypeLessThan:
		return "lt"
	case ast.NodeTypeLessThanOrEqual:
		return "le"
	case ast.NodeTypeGreaterThan:
		return "gt"
	case ast.NodeTypeGreaterThanOrEqual:
		return "ge"
	case ast.NodeTypeAdd:
		return "add"
	case ast.NodeTypeSub:
		return "sub"
	case ast.NodeTypeMult:
		return "mul"
	case ast.NodeTypeNegate:
		return "neg"
	case ast.NodeTypeIn:
		return "in"
	case ast.NodeTypeIs:
		return "is"
	case ast.NodeTypeIsIn:
		return "isIn"
	case ast.NodeTypeContains:
		return "contains"
	case ast.NodeTypeContainsAll:
		return "containsAll"
	case ast.NodeTypeContainsAny:
		return "containsAny"
	case ast.NodeTypeIsEmpty:
		return "isEmpty"
	case ast.NodeTypeLike:
		return "like"
	case ast.NodeTypeHas:
		return "has"
	case ast.NodeTypeAccess:
		return "access"
	case ast.NodeTypeGetTag:
		return "getTag"
	case ast.NodeTypeHasTag:
		return "hasTag"
	case ast.NodeTypeSet:
		return "set"
	case ast.NodeTypeRecord:
		return "record"
	case ast.NodeTypeExtensionCall:
		return "call:" + string(v.Name)
	}
	return "?"
}

// the operators every run must accept policies with AND reach at run time
var c15RequiredOps = []string{"and", "or", "not", "if", "eq", "ne", "lt", "le", "gt", "ge", "add", "sub", "mul", "neg", "in", "is", "isIn",
	"contains", "containsAll", "containsAny", "isEmpty", "like", "has", "access", "getTag", "hasTag", "set", "record",
	"call:ip", "call:decimal", "call:datetime", "call:duration", "call:lessThan", "call:lessThanOrEqual", "call:greaterThan", "call:greaterThanOrEqual",
	"call:isIpv4", "call:isIpv6", "call:isLoopback", "call:isMulticast", "call:isInRange", "call:toDate", "call:toTime", "call:offset", "call:durationSince",
	"call:toDays", "call:toHours", "call:toMinutes", "call:toSeconds", "call:toMilliseconds"}

func c15Walk(n ast.IsNode, f func(ast.IsNode)) {
	f(n)
	for _, ch := range c15Children(n) {
		c15Walk(ch, f)
	}
}

func c15PolicyOps(p *ast.Policy) map[string]bool {
	ops := map[string]bool{}
	for _, cd := range p.Conditions {
		c15Walk(cd.Body, func(n ast.IsNode) {
			if o := c15OpName(n); o != "" {
				ops[o] = true
			}
		})
	}
	return ops
}

func c15Eval(n ast.IsNode, env eval.Env) (v types.Value, kind string) {
	if pn := vh.Protect(func() {
		var err error
		v, err = eval.Eval(n, env)
		if err != nil {
			kind = verifhooks.ErrKind(err)
			v = nil
		}
	}); pn != nil {
		return nil, "panic"
	}
	return v, kind
}

// c15Reach marks the operators that are actually evaluated (mimics the evaluator's short-circuiting).
func c15Reach(n ast.IsNode, env eval.Env, mark map[string]bool) {
	if o := c15OpName(n); o != "" {
		mark[o] = true
	}
	evalTrue := func(x ast.IsNode) (bool, bool) { // (value, ok)
		v, k := c15Eval(x, env)
		if k != "" {
			return false, false
		}
		b, ok := v.(types.Boolean)
		return bool(b), ok
	}
	switch v := n.(type) {
	case ast.NodeTypeAnd:
		c15Reach(v.Left, env, mark)
		if b, ok := evalTrue(v.Left); ok && b {
			c15Reach(v.Right, env, mark)
		}
	case ast.NodeTypeOr:
		c15Reach(v.Left, env, mark)
		if b, ok := evalTrue(v.Left); ok && !b {
			c15Reach(v.Right, env, mark)
		}
	case ast.NodeTypeIfThenElse:
		c15Reach(v.If, env, mark)
		if b, ok := evalTrue(v.If); ok {
			if b {
				c15Reach(v.Then, env, mark)
			} else {
				c15Reach(v.Else, env, mark)
			}
		}
	default:
		for _, ch := range c15Children(n) {
			c15Reach(ch, env, mark)
			if _, k := c15Eval(ch, env); k != "" {
				break
			}
		}
	}
}

// c15Origin descends to the smallest evaluated sub-expression that raises the error (none of its evaluated children does).
func c15Origin(n ast.IsNode, env eval.Env) ast.IsNode {
	errs := func(x ast.IsNode) bool { _, k := c15Eval(x, env); return k != "" }
	isTrue := func(x ast.IsNode) bool { v, k := c15Eval(x, env); return k == "" && v == types.Value(types.True) }
	switch v := n.(type) {
	case ast.NodeTypeAnd:
		if errs(v.Left) {
			return c15Origin(v.Left, env)
		}
		if _, k := c15Eval(v.Left, env); k == "" {
			if b, ok := mustBool(v.Left, env); ok && b && errs(v.Right) {
				return c15Origin(v.Right, env)
			}
		}
		return n
	case ast.NodeTypeOr:
		if errs(v.Left) {
			return c15Origin(v.Left, env)
		}
		if b, ok := mustBool(v.Left, env); ok && !b && errs(v.Right) {
			return c15Origin(v.Right, env)
		}
		return n
	case ast.NodeTypeIfThenElse:
		if errs(v.If) {
			return c15Origin(v.If, env)
		}
		if b, ok := mustBool(v.If, env); ok {
			br := v.Else
			if b {
				br = v.Then
			}
			if errs(br) {
				return c15Origin(br, env)
			}
		}
		return n
	}
	_ = isTrue
	for _, ch := range c15Children(n) {
		if errs(ch) {
			return c15Origin(ch, env)
		}
	}
	return n
}

func mustBool(x ast.IsNode, env eval.Env) (bool, bool) {
	v, k := c15Eval(x, env)
	if k != "" {
		return false, false
	}
	b, ok := v.(types.Boolean)
	return bool(b), ok
}

// c15VarPath: root variable and attribute segments of a variable-rooted access chain.
func c15VarPath(n ast.IsNode) (string, []string, bool) {
	switch v := n.(type) {
	case ast.NodeTypeVariable:
		return string(v.Name), nil, true
	case ast.NodeTypeAccess:
		r, s, ok := c15VarPath(v.Arg)
		if !ok {
			return "", nil, false
		}
		return r, append(append([]string{}, s...), string(v.Value)), true
	}
	return "", nil, false
}

func c15Joined(root string, segs []string) string {
	return strings.Join(append([]string{root}, segs...), ".")
}

func c15ComparableKind(v types.Value) string {
	switch v.(type) {
	case types.Long:
		return "long"
	case types.Datetime:
		return "datetime"
	case types.Duration:
		return "duration"
	}
	return ""
}

func c15ValueKind(v types.Value) string { return fmt.Sprintf("%T", v) }

// c15Variants resolves every if-then-else on the access spine of n both ways.
func c15Variants(n ast.IsNode) []ast.IsNode {
	switch v := n.(type) {
	case ast.NodeTypeIfThenElse:
		return append(c15Variants(v.Then), c15Variants(v.Else)...)
	case ast.NodeTypeAccess:
		var out []ast.IsNode
		for _, a := range c15Variants(v.Arg) {
			out = append(out, ast.NodeTypeAccess{StrOpNode: ast.StrOpNode{Arg: a, Value: v.Value}})
		}
		return out
	}
	return []ast.IsNode{n}
}

var c15KnownFns = map[string]bool{"ip": true, "decimal": true, "datetime": true, "duration": true, "lessThan": true, "lessThanOrEqual": true, "greaterThan": true,
	"greaterThanOrEqual": true, "isIpv4": true, "isIpv6": true, "isLoopback": true, "isMulticast": true, "isInRange": true, "toDate": true, "toTime": true,
	"offset": true, "durationSince": true, "toDays": true, "toHours": true, "toMinutes": true, "toSeconds": true, "toMilliseconds": true}

// c15Classify computes the narrow class of an accepted policy's run-time failure from the input alone.
func c15Classify(sch *vh.C15Schema, strict bool, p *ast.Policy, whole ast.IsNode, env eval.Env, kind string) string {
	origin := c15Origin(whole, env)
	// (1) `<` family on two *different* comparable types: each side alone passes the validator's "comparable" test
	var cl, cr ast.IsNode
	switch v := origin.(type) {
	case ast.NodeTypeLessThan:
		cl, cr = v.Left, v.Right
	case ast.NodeTypeLessThanOrEqual:
		cl, cr = v.Left, v.Right
	case ast.NodeTypeGreaterThan:
		cl, cr = v.Left, v.Right
	case ast.NodeTypeGreaterThanOrEqual:
		cl, cr = v.Left, v.Right
	}
	if cl != nil && kind == "type" {
		lv, lk := c15Eval(cl, env)
		rv, rk := c15Eval(cr, env)
		if lk == "" && rk == "" && c15ComparableKind(lv) != "" && c15ComparableKind(rv) != "" && c15ComparableKind(lv) != c15ComparableKind(rv) {
			return "comparison-mixed-comparable-types"
		}
	}
	// (2) call of an unknown function with ZERO arguments (typed as "no type, no error")
	if ec, ok := origin.(ast.NodeTypeExtensionCall); ok && kind == "unknownfn" && len(ec.Args) == 0 && !c15KnownFns[string(ec.Name)] {
		return "unknown-function-zero-args"
	}
	// (3) capability key collision: two different attribute paths with the same dotted rendering
	if ac, ok := origin.(ast.NodeTypeAccess); ok && kind == "attr" {
		if r, segs, ok := c15VarPath(ac.Arg); ok {
			j := c15Joined(r, segs)
			hit := false
			for _, cd := range p.Conditions {
				c15Walk(cd.Body, func(n ast.IsNode) {
					if h, ok := n.(ast.NodeTypeHas); ok && h.Value == ac.Value {
						if r2, segs2, ok := c15VarPath(h.Arg); ok && c15Joined(r2, segs2) == j && (r2 != r || strings.Join(segs2, "\x00") != strings.Join(segs, "\x00")) {
							hit = true
						}
					}
				})
			}
			if hit {
				return "capability-path-collision"
			}
		}
	}
	// (4) `e has "__tag:k"` counted as the capability for e.getTag("k")
	if gt, ok := origin.(ast.NodeTypeGetTag); ok && kind == "tag" {
		if kv, ok := gt.Right.(ast.NodeValue); ok {
			if ks, ok := kv.Value.(types.String); ok {
				if r, segs, ok := c15VarPath(gt.Left); ok {
					hit := false
					for _, cd := range p.Conditions {
						c15Walk(cd.Body, func(n ast.IsNode) {
							if h, ok := n.(ast.NodeTypeHas); ok && string(h.Value) == "__tag:"+string(ks) {
								if r2, segs2, ok := c15VarPath(h.Arg); ok && c15Joined(r2, segs2) == c15Joined(r, segs) {
									hit = true
								}
							}
						})
					}
					if hit {
						return "tag-capability-attr-collision"
					}
				}
			}
		}
	}
	// (5)-(8): the validator types a test False (and skips what the test guards) although the test is true at run time.
	// The two REPAIRED classes (6), (7) are reported only with positive evidence: the validator demonstrably types THAT
	// node False in live code of the policy (c15FoldedFalse) — a policy that merely contains the shape next to the shape
	// of an open finding is not evidence that the repaired defect is back.  The two OPEN classes (5), (8) are tried with
	// the same evidence first (before the repaired ones) and, as before, by the shape alone at the very end.
	walk := func(f func(ast.IsNode)) {
		for _, cd := range p.Conditions {
			c15Walk(cd.Body, f)
		}
	}
	folded := c15FoldedFalse(sch, strict, p, env)
	for _, n := range folded {
		if !strict && c15LubHas(n, env) {
			c15Via["evidence:permissive-record-lub-drops-attr"]++
			return "permissive-record-lub-drops-attr"
		}
		if c15InBelowDeclaredAction(n, env) {
			c15Via["evidence:in-entity-below-declared-action-type"]++
			return "in-entity-below-declared-action-type"
		}
	}
	for _, n := range folded {
		if !strict && c15MixedTagHasTag(n, sch, env) {
			c15Via["evidence:hastag-lub-mixed-tags"]++
			return "hastag-lub-mixed-tags"
		}
		if c15InCrossActionType(n, env) {
			c15Via["evidence:in-action-type-cross-namespace"]++
			return "in-action-type-cross-namespace"
		}
	}
	hit := ""
	walk(func(n ast.IsNode) {
		if hit == "" && !strict && c15LubHas(n, env) {
			hit = "permissive-record-lub-drops-attr"
		}
	})
	walk(func(n ast.IsNode) {
		if hit == "" && c15InBelowDeclaredAction(n, env) {
			hit = "in-entity-below-declared-action-type"
		}
	})
	if hit != "" {
		c15Via["shape-only:"+hit]++
		return hit
	}
	return "accepted-policy-fails-" + kind
}

// c15Via counts how the "test typed False" classes were attributed (evidence from the validator / shape alone); reported in the notes.
var c15Via = map[string]int{}

// ---- shapes of the four "test typed False" classes, one node at a time ----

// (5) permissive LUB of two record types silently drops an attribute whose types disagree => `has` typed False
func c15LubHas(n ast.IsNode, env eval.Env) bool {
	h, ok := n.(ast.NodeTypeHas)
	if !ok {
		return false
	}
	vs := c15Variants(h.Arg)
	if len(vs) < 2 {
		return false
	}
	kinds := map[string]bool{}
	for _, a := range vs {
		if v, k := c15Eval(a, env); k == "" {
			if rec, ok := v.(types.Record); ok {
				if x, ok := rec.Get(h.Value); ok {
					kinds[c15ValueKind(x)] = true
				}
			}
		}
	}
	return len(kinds) >= 2
}

// (6) permissive: `hasTag` on an entity LUB of which only SOME elements declare tags is typed False
func c15MixedTagHasTag(n ast.IsNode, sch *vh.C15Schema, env eval.Env) bool {
	h, ok := n.(ast.NodeTypeHasTag)
	if !ok || sch == nil || sch.RS == nil {
		return false
	}
	vs := c15Variants(h.Left)
	if len(vs) < 2 {
		return false
	}
	with, without := false, false
	for _, a := range vs {
		if v, k := c15Eval(a, env); k == "" {
			if uid, ok := v.(types.EntityUID); ok {
				if e, ok := sch.RS.Entities[uid.Type]; ok && e.Tags != nil {
					with = true
				} else {
					without = true
				}
			}
		}
	}
	return with && without
}

func c15IsActionType(t types.EntityType) bool {
	return t == "Action" || strings.HasSuffix(string(t), "::Action")
}

// c15InOperands: `l in r` that evaluates to true in env, with the entity on the left and the entities on the right
func c15InOperands(n ast.IsNode, env eval.Env) (in ast.NodeTypeIn, luid types.EntityUID, targets []types.EntityUID, ok bool) {
	in, isIn := n.(ast.NodeTypeIn)
	if !isIn {
		return in, luid, nil, false
	}
	lv, lk := c15Eval(in.Left, env)
	rv, rk := c15Eval(in.Right, env)
	res, k := c15Eval(in, env)
	luid, isUID := lv.(types.EntityUID)
	if lk != "" || rk != "" || k != "" || !isUID || res != types.Value(types.True) {
		return in, luid, nil, false
	}
	switch r := rv.(type) {
	case types.EntityUID:
		targets = append(targets, r)
	case types.Set:
		for e := range r.All() {
			if u, ok := e.(types.EntityUID); ok {
				targets = append(targets, u)
			}
		}
	}
	return in, luid, targets, true
}

// (7) `in` whose left operand is an action entity but not syntactically `action` / an action literal, and whose right
// operand holds an action of ANOTHER action entity type the left one is a member of: the ENTITY-type hierarchy
// (where action types have no parents) folds the test to False
func c15InCrossActionType(n ast.IsNode, env eval.Env) bool {
	in, luid, targets, ok := c15InOperands(n, env)
	if !ok || !c15IsActionType(luid.Type) {
		return false
	}
	if v, ok := in.Left.(ast.NodeTypeVariable); ok && v.Name == "action" {
		return false
	}
	if _, ok := in.Left.(ast.NodeValue); ok {
		return false
	}
	same, other := false, false
	for _, t := range targets {
		if t.Type == luid.Type {
			same = true
		} else if c15IsActionType(t.Type) {
			other = true
		}
	}
	return other && !same
}

// (8) `in` whose left operand is a NON-action entity that is a member of an action entity (possible only when the
// schema declares an entity type NAMED `Action` and lists it under memberOf) and whose right operand holds an action
// of another action entity type: the entity-type hierarchy (the declared `Action` type has no parents) folds it to False
func c15InBelowDeclaredAction(n ast.IsNode, env eval.Env) bool {
	_, luid, targets, ok := c15InOperands(n, env)
	if !ok || c15IsActionType(luid.Type) {
		return false
	}
	for _, t := range targets {
		if c15IsActionType(t.Type) {
			return true
		}
	}
	return false
}

// c15FoldedFalse: the nodes of the policy's conditions for which there is positive evidence that the validator types
// them False in live code although they evaluate to true in env.  The policy is narrowed to the one request environment
// of env (`principal is P, action == A, resource is R`: the scope was satisfied, the error came from a condition); for
// a node n of the narrowed policy q
//   - q[n := (n && 1)] is accepted: `&&` skips its right operand only behind a left operand typed False (a Bool-typed n
//     makes `n && 1` a type error; the capabilities n grants are kept), and
//   - q[n := 1] is rejected: n stands in checked code (a node inside a skipped branch passes the first test vacuously).
func c15FoldedFalse(sch *vh.C15Schema, strict bool, p *ast.Policy, env eval.Env) (out []ast.IsNode) {
	if sch == nil || sch.RS == nil {
		return nil
	}
	vs, vp := c15Validators(sch)
	v := vp
	if strict {
		v = vs
	}
	pu, ok1 := env.Principal.(types.EntityUID)
	au, ok2 := env.Action.(types.EntityUID)
	ru, ok3 := env.Resource.(types.EntityUID)
	if !ok1 || !ok2 || !ok3 {
		return nil
	}
	q := *p
	q.Principal = ast.ScopeTypeIs{Type: pu.Type}
	q.Action = ast.ScopeTypeEq{Entity: au}
	q.Resource = ast.ScopeTypeIs{Type: ru.Type}
	if ok, pn := c15Accepts(v, &q); !ok || pn != nil {
		return nil
	}
	var nodes []ast.IsNode
	vh.MapPolicy(&q, func(n ast.IsNode) ast.IsNode { nodes = append(nodes, n); return n })
	one := ast.NodeValue{Value: types.Long(1)}
	subst := func(idx int, repl func(ast.IsNode) ast.IsNode) *ast.Policy {
		i := -1
		return vh.MapPolicy(&q, func(n ast.IsNode) ast.IsNode {
			i++
			if i == idx {
				return repl(n)
			}
			return n
		})
	}
	for idx, n := range nodes {
		switch n.(type) {
		case ast.NodeValue, ast.NodeTypeVariable:
			continue
		}
		if val, k := c15Eval(n, env); k != "" || val != types.Value(types.True) {
			continue
		}
		okAnd, pn1 := c15Accepts(v, subst(idx, func(n ast.IsNode) ast.IsNode { return ast.NodeTypeAnd{BinaryNode: ast.BinaryNode{Left: n, Right: one}} }))
		if !okAnd || pn1 != nil {
			continue
		}
		okOne, pn2 := c15Accepts(v, subst(idx, func(ast.IsNode) ast.IsNode { return one }))
		if okOne || pn2 != nil {
			continue
		}
		out = append(out, n)
	}
	return out
}

// ---- rendering for reports ---------------------------------------------------------------------

func c15PolicyText(p *ast.Policy) string {
	var s string
	if pn := vh.Protect(func() { s = string(cedar.NewPolicyFromAST((*publicast.Policy)(p)).MarshalCedar()) }); pn != nil {
		return fmt.Sprintf("<MarshalCedar panicked: %v>", pn)
	}
	return s
}

func c15Input(s *vh.C15Schema, strict bool, p *ast.Policy, req types.Request, ents types.EntityMap) map[string]any {
	ej, _ := json.Marshal(ents)
	rj, _ := json.Marshal(req)
	mode := "permissive"
	if strict {
		mode = "strict"
	}
	return map[string]any{"schema": s.Text, "mode": mode, "policy": c15PolicyText(p), "policy_enc": vh.EncPolicy(p), "request": json.RawMessage(rj), "entities": json.RawMessage(ej)}
}

// ---- the oracle --------------------------------------------------------------------------------------

type c15Stats struct {
	gen, acc, rej, reach                              map[string]int
	mutGen, mutHit, mutAcc                            map[string]int
	accepted, acceptedStrict, acceptedPerm, generated int
	evals, scopeSat, failures                         int
	envsPerPolicy, storesPerPolicy                    int
	results                                           map[string]int
}

func newC15Stats() *c15Stats {
	return &c15Stats{gen: map[string]int{}, acc: map[string]int{}, rej: map[string]int{}, reach: map[string]int{},
		mutGen: map[string]int{}, mutHit: map[string]int{}, mutAcc: map[string]int{}, results: map[string]int{}}
}

type c15Case struct {
	req   types.Request
	store vh.C15Store
}

func c15Validators(s *vh.C15Schema) (strict, perm *validate.Validator) {
	return validate.New(s.RS, validate.WithStrict()), validate.New(s.RS, validate.WithPermissive())
}

// c15Cases builds, for every environment of the schema, conforming requests and stores; asserts conformance.
func c15Cases(c *vh.Ctx, g *vh.Gen, s *vh.C15Schema, perEnv int) map[int][]c15Case {
	vs, vp := c15Validators(s)
	out := map[int][]c15Case{}
	for i, env := range s.Envs {
		for k := 0; k < perEnv; k++ {
			optMode, tagMode, pp := 0, 0, 0.85
			switch k {
			case 0:
				optMode, tagMode, pp = 1, 1, 1.0 // every optional attribute and tag present, every entity present
			case 1:
				optMode, tagMode, pp = 2, 2, 1.0 // every optional attribute and tag absent
			case 2:
				pp = 1.0
			}
			cs := c15Case{req: g.C15Request(s, env, optMode, k < 3), store: g.C15GenStore(s, optMode, tagMode, pp)}
			for _, v := range []*validate.Validator{vs, vp} {
				var e1, e2 error
				if pn := vh.Protect(func() { e1 = v.Entities(cs.store.Entities); e2 = v.Request(cs.req) }); pn != nil || e1 != nil || e2 != nil {
					c.Report(vh.Finding{Class: "generator-nonconforming", What: fmt.Sprintf("generated store/request rejected by Validator.Entities/Request: %v / %v / panic=%v", e1, e2, pn),
						Check: "self-test", Input: c15Input(s, true, &ast.Policy{Principal: ast.ScopeTypeAll{}, Action: ast.ScopeTypeAll{}, Resource: ast.ScopeTypeAll{}}, cs.req, cs.store.Entities), NoInput: true})
				}
			}
			out[i] = append(out[i], cs)
		}
	}
	return out
}

func c15Accepts(v *validate.Validator, p *ast.Policy) (ok bool, panicked any) {
	panicked = vh.Protect(func() { ok = v.Policy("p", p) == nil })
	return
}

// c15RunPolicy evaluates an accepted policy on all cases; returns number of failures reported.
func c15RunPolicy(c *vh.Ctx, st *c15Stats, s *vh.C15Schema, strict bool, pol vh.C15Policy, cases map[int][]c15Case, polKey string) {
	p := pol.AST
	whole := eval.PolicyToNode(p).AsIsNode()
	scopeOnly := *p
	scopeOnly.Conditions = nil
	scopeNode := eval.PolicyToNode(&scopeOnly).AsIsNode()
	reached := map[string]bool{}
	nStores := 0
	for ei := range s.Envs {
		for ci, cs := range cases[ei] {
			env := eval.Env{Principal: cs.req.Principal, Action: cs.req.Action, Resource: cs.req.Resource, Context: cs.req.Context, Entities: cs.store.Entities}
			nStores++
			st.evals++
			c.Res.OracleChecks++
			v, kind := c15Eval(whole, env)
			res := "err:" + kind
			if kind == "" {
				res = "ok:" + vh.ShowValue(v)
			}
			st.results[res]++
			c.Count(fmt.Sprintf("%s|%v|%d|%d", polKey, strict, ei, ci), len(p.Conditions) > 0)
			// which operators were reached
			if sv, sk := c15Eval(scopeNode, env); sk == "" && sv == types.Value(types.True) {
				st.scopeSat++
				for _, cd := range p.Conditions {
					c15Reach(cd.Body, env, reached)
					b, ok := mustBool(cd.Body, env)
					if !ok || b != bool(cd.Condition) {
						break
					}
				}
			}
			if kind != "" && !c15Allowed[kind] {
				st.failures++
				class := c15Classify(s, strict, p, whole, env, kind)
				c.Dist("failure:" + class)
				// cross-check with what Authorize reports
				azErr := false
				vh.Protect(func() {
					set := cedar.NewPolicySet()
					set.Add("p", cedar.NewPolicyFromAST((*publicast.Policy)(p)))
					_, diag := cedar.Authorize(set, cs.store.Entities, cs.req)
					azErr = len(diag.Errors) > 0
				})
				c.Report(vh.Finding{Class: class,
					What:  fmt.Sprintf("validator (%s) accepts the policy; evaluation on a conforming request/store fails with a %s error (Authorize reports an error: %v): %s", map[bool]string{true: "strict", false: "permissive"}[strict], kind, azErr, strings.TrimSpace(c15PolicyText(p))),
					Check: "oracle", Op: "validate-then-eval", Input: c15Input(s, strict, p, cs.req, cs.store.Entities), Expected: "ok or error in {overflow, entity, ext-*}", Actual: "err " + kind})
			}
		}
	}
	for o := range reached {
		st.reach[o]++
	}
	st.storesPerPolicy += nStores
	st.envsPerPolicy += len(s.Envs)
}

const c15CorpusSchema = `
entity Group;
entity Color enum ["red", "green"];
entity User in [Group] { name: String, age?: Long, "__tag:k"?: Long, col: Color } tags Long;
entity Doc { owner: User };
action "grp";
action "view" in ["grp"] appliesTo { principal: [User], resource: [Doc], context: { "a.b": { x?: Long }, a: { b: { x?: Long } }, n: Long } };
`

// c15Corpus replays the minimal failing inputs of the known findings on a fixed schema (both modes).
func c15Corpus(c *vh.Ctx) {
	var sc schema.Schema
	if err := sc.UnmarshalCedar([]byte(c15CorpusSchema)); err != nil {
		c.Report(vh.Finding{Class: "corpus-schema", What: err.Error(), Check: "self-test", NoInput: true})
		return
	}
	rs, err := sc.Resolve()
	if err != nil {
		c.Report(vh.Finding{Class: "corpus-schema", What: err.Error(), Check: "self-test", NoInput: true})
		return
	}
	s := &vh.C15Schema{RS: rs, Text: c15CorpusSchema}
	u, d := types.NewEntityUID("User", "u"), types.NewEntityUID("Doc", "d")
	act, grp := types.NewEntityUID("Action", "view"), types.NewEntityUID("Action", "grp")
	ents := types.EntityMap{
		u:   types.Entity{UID: u, Attributes: types.NewRecord(types.RecordMap{"name": types.String("n"), "__tag:k": types.Long(1), "col": types.NewEntityUID("Color", "red")}), Tags: types.NewRecord(types.RecordMap{})},
		d:   types.Entity{UID: d, Attributes: types.NewRecord(types.RecordMap{"owner": u})},
		act: types.Entity{UID: act, Parents: types.NewEntityUIDSet(grp)},
		grp: types.Entity{UID: grp},
	}
	ctx := types.NewRecord(types.RecordMap{"a.b": types.NewRecord(types.RecordMap{"x": types.Long(1)}), "a": types.NewRecord(types.RecordMap{"b": types.NewRecord(types.RecordMap{})}), "n": types.Long(3)})
	req := types.Request{Principal: u, Action: act, Resource: d, Context: ctx}
	env := eval.Env{Principal: u, Action: act, Resource: d, Context: ctx, Entities: ents}
	type item struct {
		name string
		ast  *ast.Policy
		text string
	}
	items := []item{
		{name: "mixed-cmp", text: `permit(principal, action, resource) when { 1 < datetime("2020-01-01") };`},
		{name: "mixed-cmp-attr", text: `permit(principal, action, resource) when { context.n >= duration("1h") };`},
		{name: "path-collision", text: `permit(principal, action, resource) when { context["a.b"] has x && context.a.b.x > 0 };`},
		{name: "tag-collision", text: `permit(principal, action, resource) when { principal has "__tag:k" && principal.getTag("k") > 0 };`},
		{name: "lub-drop", text: `permit(principal, action, resource) when { (if context.n > 0 then {a: 1} else {a: "s"}) has a && (1 + "a") == 2 };`},
		{name: "unknown-fn-0", ast: ast.Permit().When(ast.ExtensionCall("foo"))},
		{name: "unknown-fn-0-eq", ast: ast.Permit().When(ast.ExtensionCall("foo").Equal(ast.Long(1)))},
	}
	for _, strict := range []bool{true, false} {
		vs, vp := c15Validators(s)
		v := vp
		if strict {
			v = vs
		}
		if e1, e2 := v.Entities(ents), v.Request(req); e1 != nil || e2 != nil {
			c.Report(vh.Finding{Class: "generator-nonconforming", What: fmt.Sprintf("corpus store/request rejected: %v / %v", e1, e2), Check: "self-test", NoInput: true})
		}
		for _, it := range items {
			p := it.ast
			if p == nil {
				var cp cedar.Policy
				if err := cp.UnmarshalCedar([]byte(it.text)); err != nil {
					c.Report(vh.Finding{Class: "corpus-parse", What: it.name + ": " + err.Error(), Check: "self-test", NoInput: true})
					continue
				}
				p = (*ast.Policy)(cp.AST())
			}
			ok, pn := c15Accepts(v, p)
			c.Res.OracleChecks++
			if pn != nil {
				c.Report(vh.Finding{Class: "validator-panic", What: fmt.Sprintf("corpus %s: %v", it.name, pn), Check: "oracle", Input: c15Input(s, strict, p, req, ents)})
				continue
			}
			c.Dist(fmt.Sprintf("corpus:%s:%s:accepted=%v", it.name, map[bool]string{true: "strict", false: "permissive"}[strict], ok))
			if !ok {
				continue
			}
			whole := eval.PolicyToNode(p).AsIsNode()
			if _, kind := c15Eval(whole, env); kind != "" && !c15Allowed[kind] {
				class := c15Classify(s, strict, p, whole, env, kind)
				c.Dist("failure:" + class)
				c.Report(vh.Finding{Class: class, What: fmt.Sprintf("corpus %s: accepted (%s), evaluates to a %s error: %s", it.name, map[bool]string{true: "strict", false: "permissive"}[strict], kind, strings.TrimSpace(c15PolicyText(p))),
					Check: "oracle", Op: "validate-then-eval", Input: c15Input(s, strict, p, req, ents), Expected: "ok or error in {overflow, entity, ext-*}", Actual: "err " + kind})
			}
		}
	}
}

const c15CrossNsSchema = `
entity A;
entity B;
action "grp";
namespace NS { action "view" in [Action::"grp"] appliesTo { principal: [A], resource: [B], context: { n: Long } }; }
`

// a schema that declares an entity type NAMED `Action` and lists it under memberOf (cedar-go's resolver accepts it)
const c15DeclActSchema = `
entity Action;
entity A in [Action];
entity B;
action "grp" in [NS::Action::"top"];
namespace NS { action "top"; action "view" appliesTo { principal: [A], resource: [B], context: { n: Long } }; }
`

// c15EntityCorpus replays the failing inputs of the findings of the entity extension of the Lean model on fixed schemas,
// both modes: hastag-lub-mixed-tags and in-action-type-cross-namespace (repaired; regression examples at `c15MixedTag` /
// `c15CrossNs` in Properties/C15.lean) and in-entity-below-declared-action-type (C15_declared_action_type_counterexample).
func c15EntityCorpus(c *vh.Ctx) {
	type probe struct {
		name, schema, policy string
		req                  types.Request
		ents                 types.EntityMap
	}
	u, d := types.NewEntityUID("User", "u"), types.NewEntityUID("Doc", "d")
	act, grp := types.NewEntityUID("Action", "view"), types.NewEntityUID("Action", "grp")
	ctx1 := types.NewRecord(types.RecordMap{"a.b": types.NewRecord(types.RecordMap{}), "a": types.NewRecord(types.RecordMap{"b": types.NewRecord(types.RecordMap{})}), "n": types.Long(3)})
	a, b := types.NewEntityUID("A", "a"), types.NewEntityUID("B", "b")
	nsAct, nsTop := types.NewEntityUID("NS::Action", "view"), types.NewEntityUID("NS::Action", "top")
	ctx2 := types.NewRecord(types.RecordMap{"n": types.Long(3)})
	probes := []probe{
		{name: "hastag-mixed", schema: c15CorpusSchema,
			policy: `permit(principal, action, resource) when { if (if context.n > 0 then principal else resource).hasTag("k") then (1 + "a") == 2 else true };`,
			req:    types.Request{Principal: u, Action: act, Resource: d, Context: ctx1},
			ents: types.EntityMap{
				u:   types.Entity{UID: u, Attributes: types.NewRecord(types.RecordMap{"name": types.String("n"), "col": types.NewEntityUID("Color", "red")}), Tags: types.NewRecord(types.RecordMap{"k": types.Long(1)})},
				d:   types.Entity{UID: d, Attributes: types.NewRecord(types.RecordMap{"owner": u})},
				act: types.Entity{UID: act, Parents: types.NewEntityUIDSet(grp)},
				grp: types.Entity{UID: grp},
			}},
		{name: "in-cross-namespace", schema: c15CrossNsSchema,
			policy: `permit(principal, action, resource) when { if (if context.n > 0 then action else action) in Action::"grp" then (1 + "a") == 2 else true };`,
			req:    types.Request{Principal: a, Action: nsAct, Resource: b, Context: ctx2},
			ents: types.EntityMap{
				a:     types.Entity{UID: a},
				b:     types.Entity{UID: b},
				nsAct: types.Entity{UID: nsAct, Parents: types.NewEntityUIDSet(grp)},
				grp:   types.Entity{UID: grp},
			}},
		{name: "in-declared-action-type", schema: c15DeclActSchema,
			policy: `permit(principal, action, resource) when { if principal in NS::Action::"top" then (1 + "a") == 2 else true };`,
			req:    types.Request{Principal: a, Action: nsAct, Resource: b, Context: ctx2},
			ents: types.EntityMap{
				a:     types.Entity{UID: a, Parents: types.NewEntityUIDSet(grp)},
				b:     types.Entity{UID: b},
				nsAct: types.Entity{UID: nsAct},
				grp:   types.Entity{UID: grp, Parents: types.NewEntityUIDSet(nsTop)},
				nsTop: types.Entity{UID: nsTop},
			}},
	}
	for _, pr := range probes {
		var sc schema.Schema
		if err := sc.UnmarshalCedar([]byte(pr.schema)); err != nil {
			c.Report(vh.Finding{Class: "corpus-schema", What: pr.name + ": " + err.Error(), Check: "self-test", NoInput: true})
			continue
		}
		rs, err := sc.Resolve()
		if err != nil {
			c.Report(vh.Finding{Class: "corpus-schema", What: pr.name + ": " + err.Error(), Check: "self-test", NoInput: true})
			continue
		}
		s := &vh.C15Schema{RS: rs, Text: pr.schema}
		var cp cedar.Policy
		if err := cp.UnmarshalCedar([]byte(pr.policy)); err != nil {
			c.Report(vh.Finding{Class: "corpus-parse", What: pr.name + ": " + err.Error(), Check: "self-test", NoInput: true})
			continue
		}
		p := (*ast.Policy)(cp.AST())
		env := eval.Env{Principal: pr.req.Principal, Action: pr.req.Action, Resource: pr.req.Resource, Context: pr.req.Context, Entities: pr.ents}
		for _, strict := range []bool{true, false} {
			vs, vp := c15Validators(s)
			v := vp
			if strict {
				v = vs
			}
			if e1, e2 := v.Entities(pr.ents), v.Request(pr.req); e1 != nil || e2 != nil {
				c.Report(vh.Finding{Class: "generator-nonconforming", What: fmt.Sprintf("corpus %s store/request rejected: %v / %v", pr.name, e1, e2), Check: "self-test", NoInput: true})
			}
			ok, pn := c15Accepts(v, p)
			c.Res.OracleChecks++
			if pn != nil {
				c.Report(vh.Finding{Class: "validator-panic", What: fmt.Sprintf("corpus %s: %v", pr.name, pn), Check: "oracle", Input: c15Input(s, strict, p, pr.req, pr.ents)})
				continue
			}
			c.Dist(fmt.Sprintf("corpus:%s:%s:accepted=%v", pr.name, map[bool]string{true: "strict", false: "permissive"}[strict], ok))
			if !ok {
				continue
			}
			whole := eval.PolicyToNode(p).AsIsNode()
			if _, kind := c15Eval(whole, env); kind != "" && !c15Allowed[kind] {
				class := c15Classify(s, strict, p, whole, env, kind)
				c.Dist("failure:" + class)
				c.Report(vh.Finding{Class: class, What: fmt.Sprintf("corpus %s: accepted (%s), evaluates to a %s error on a store Validator.Entities accepts: %s", pr.name, map[bool]string{true: "strict", false: "permissive"}[strict], kind, strings.TrimSpace(c15PolicyText(p))),
					Check: "oracle", Op: "validate-then-eval", Input: c15Input(s, strict, p, pr.req, pr.ents), Expected: "ok or error in {overflow, entity, ext-*}", Actual: "err " + kind})
			}
		}
	}
}

const c15ProbeSchema = `
entity Group;
entity Org;
entity Color enum ["red", "green"];
entity User in [Group] { name: String, age?: Long, mgr?: User, r: { a: Long }, col: Color } tags Long;
entity Team in [Group, Org] { name: String, age?: String, r: { a: String } } tags Long;
entity Doc in [Team] { owner: User, name?: String };
action "grp";
action "grp2" in ["grp"];
action "view" in ["grp2"] appliesTo { principal: [User, Team], resource: [Doc, Team], context: { n: Long, s: String, u: User, us: Set<User>, o?: Long } };
action "edit" appliesTo { principal: [User], resource: [Doc], context: { n: Long, s: String, u: User, us: Set<User>, o?: Long } };
`

// c15ModelProbes: hand-written corner cases of the entity constructs (entity LUBs with several elements, the static
// foldings of `in` / `is`, action `in` with set operands, tag capabilities, every scope form), sent through the
// `validate` correspondence in both modes.  Only the accept/reject decision of the Go validator is compared.
func c15ModelProbes(c *vh.Ctx, g *vh.Gen, lines *c15Lines) {
	var sc schema.Schema
	if err := sc.UnmarshalCedar([]byte(c15ProbeSchema)); err != nil {
		c.Report(vh.Finding{Class: "corpus-schema", What: "probe schema: " + err.Error(), Check: "self-test", NoInput: true})
		return
	}
	rs, err := sc.Resolve()
	if err != nil {
		c.Report(vh.Finding{Class: "corpus-schema", What: "probe schema: " + err.Error(), Check: "self-test", NoInput: true})
		return
	}
	s := &vh.C15Schema{RS: rs, Text: c15ProbeSchema}
	for n := range rs.Entities {
		s.EntTypes = append(s.EntTypes, n)
	}
	sort.Slice(s.EntTypes, func(i, j int) bool { return s.EntTypes[i] < s.EntTypes[j] })
	for n := range rs.Enums {
		s.EnumTypes = append(s.EnumTypes, n)
	}
	for uid := range rs.Actions {
		s.ActionUIDs = append(s.ActionUIDs, uid)
	}
	sort.Slice(s.ActionUIDs, func(i, j int) bool { return s.ActionUIDs[i].ID < s.ActionUIDs[j].ID })
	for _, uid := range s.ActionUIDs {
		if a := rs.Actions[uid]; a.AppliesTo != nil {
			for _, pt := range a.AppliesTo.Principals {
				for _, rt := range a.AppliesTo.Resources {
					s.Envs = append(s.Envs, vh.C15Env{Action: uid, PType: pt, RType: rt, Ctx: a.AppliesTo.Context})
				}
			}
		}
	}
	// the probes also go through the evaluation oracle, with the entity ids renamed to the one the generated stores connect
	cases := c15Cases(c, g, s, 5)
	stP := newC15Stats()
	toA := strings.NewReplacer(`::"g"`, `::"a"`, `::"o"`, `::"a"`, `::"d"`, `::"a"`, `::"u"`, `::"a"`, `::"t"`, `::"a"`)
	nProbe := 0
	senc := vh.EncC15Schema(s)
	lub := `(if context.n > 0 then principal else resource)`
	bodies := []string{
		// action `in`: the special case and its edges
		`action in Action::"grp"`, `action in Action::"grp2"`, `action in Action::"edit"`, `action in [Action::"grp", User::"u"]`, `action in [User::"u"]`,
		`action in User::"u"`, `action in [action]`, `action in [action, context.u]`, `action in []`, `Action::"view" in Action::"grp"`, `Action::"grp" in Action::"view"`,
		`Action::"view" in [Action::"edit", Action::"grp2"]`, `Action::"nope" in Action::"grp"`, `action in Action::"nope"`, `action in [Action::"nope"]`,
		`(if context.n > 0 then action else action) in Action::"grp"`, `action in (if context.n > 0 then Action::"grp" else Action::"grp2")`,
		`(if action in Action::"grp" then 1 else "x") == 1`, `(if action in Action::"edit" then 1 else "x") == "x"`, `(if action in [User::"u"] then 1 else "x") == "x"`,
		// entity `in`: the type hierarchy
		`principal in Group::"g"`, `principal in Org::"o"`, `principal in Doc::"d"`, `resource in Group::"g"`, `resource in Org::"o"`, `principal in [Group::"g", Doc::"d"]`,
		`principal in []`, `principal in context.us`, `principal in context.u`, `context.u in principal`, `principal in context.n`, `context.n in principal`, `principal in [context.n]`,
		`(if principal in Doc::"d" then 1 else "x") == "x"`, `(if resource in User::"u" then 1 else "x") == "x"`, `(if principal in Group::"g" then 1 else "x") == 1`,
		lub + ` in Group::"g"`, lub + ` in Org::"o"`, `(if ` + lub + ` in User::"u" then 1 else "x") == "x"`, `principal in ` + lub, `Color::"red" in Color::"green"`, `(if Color::"red" in User::"u" then 1 else "x") == "x"`,
		// is / is..in
		`principal is User`, `principal is Team`, `principal is Doc`, `principal is Nope`, lub + ` is User`, lub + ` is Doc`, lub + ` is Group`,
		`(if principal is User then 1 else "x") == 1`, `(if principal is Doc then 1 else "x") == "x"`, `(if ` + lub + ` is User then 1 else "x") == 1`, `context.n is User`,
		`principal is User in Group::"g"`, `principal is Doc in Group::"g"`, `principal is User in [Group::"g"]`, `principal is User in context.n`, `context.n is User in Group::"g"`,
		`(if principal is Doc in Group::"g" then 1 else "x") == "x"`,
		// has / . on entities and entity LUBs
		`principal has name`, `principal has nope`, `(if principal has nope then 1 else "x") == "x"`, `(if principal has name then 1 else "x") == 1`, `principal has name || 1 == "a"`,
		`principal.name == "n"`, `principal.age == 1`, `principal has age && principal.age == 1`, `principal has age && principal.age == "s"`, `resource has age && principal.age == 1`,
		`principal has mgr && principal.mgr.name == "n"`, `principal has mgr && principal.mgr has mgr && principal.mgr.mgr.name == "n"`, `principal has mgr && principal.mgr.mgr.name == "n"`,
		lub + ` has name`, lub + `.name == "n"`, lub + ` has age`, lub + `.r.a == 1`, lub + `.r has a`, lub + ` has owner`, lub + `.owner == principal`, lub + ` has age && ` + lub + `.age == 1`,
		`(if context.n > 0 then principal else context.u).name == "n"`, `(if context.n > 0 then principal else context.u) has mgr`, `action has name`, `action.name == "x"`, `principal.col has name`, `principal.col.name == "x"`,
		`context.u.name == "n"`, `context.u has age && context.u.age > 0`, `context has u && context.u has age && context.u.age > 0`,
		// tags
		`principal.hasTag("k")`, `principal.hasTag("k") && principal.getTag("k") == 1`, `principal.hasTag("k") && principal.getTag("k") == "s"`, `principal.getTag("k") == 1`,
		`principal.hasTag("k") && principal.getTag("j") == 1`, `principal.hasTag("") && principal.getTag("") == 1`, `principal.hasTag(context.s) && principal.getTag(context.s) == 1`,
		`principal.hasTag("k") && resource.getTag("k") == 1`, `resource.hasTag("k")`, `(if resource.hasTag("k") then 1 else "x") == "x"`, `principal.hasTag(1)`, `context.n.hasTag("k")`,
		`principal has k && principal.getTag("k") == 1`, lub + `.hasTag("k")`, lub + `.hasTag("k") && ` + lub + `.getTag("k") == 1`, `(if ` + lub + `.hasTag("k") then 1 else "x") == "x"`,
		`action.hasTag("k")`, `principal.col.hasTag("k")`, `principal.hasTag("k") && principal has mgr && principal.mgr.getTag("k") == 1`,
		`principal has mgr && principal.mgr.hasTag("k") && principal.mgr.getTag("k") == 1`,
	}
	bodies = append(bodies, c15FoldingProbes()...)
	bodies = append(bodies, c15ActionInProbes()...)
	scopes := []string{
		`principal, action, resource`, `principal == User::"u", action, resource`, `principal == Nope::"u", action, resource`, `principal == Color::"red", action, resource`,
		`principal == Action::"view", action, resource`, `principal == Action::"nope", action, resource`,
		`principal in Group::"g", action, resource`, `principal in Org::"o", action, resource`, `principal in Doc::"d", action, resource`, `principal in User::"u", action, resource`,
		`principal is User, action, resource`, `principal is Doc, action, resource`, `principal is Nope, action, resource`, `principal is User in Group::"g", action, resource`,
		`principal is User in Org::"o", action, resource`, `principal is Team in Org::"o", action, resource`, `principal is Nope in Org::"o", action, resource`, `principal is User in Nope::"o", action, resource`,
		`principal, action, resource in Group::"g"`, `principal, action, resource in Org::"o"`, `principal, action, resource is Doc in Team::"t"`, `principal, action, resource == Doc::"d"`,
		`principal, action == Action::"view", resource`, `principal, action == Action::"grp", resource`, `principal, action == Action::"nope", resource`,
		`principal, action in Action::"grp", resource`, `principal, action in Action::"grp2", resource`, `principal, action in Action::"edit", resource`, `principal, action in Action::"nope", resource`,
		`principal, action in [Action::"grp2", Action::"edit"], resource`, `principal, action in [], resource`, `principal, action in [Action::"view", Action::"nope"], resource`,
		`principal is Team, action == Action::"edit", resource`, `principal is Team, action in Action::"grp", resource is Team`,
	}
	vs, vp := c15Validators(s)
	add := func(text string) {
		var cp cedar.Policy
		if err := cp.UnmarshalCedar([]byte(text)); err != nil {
			c.Report(vh.Finding{Class: "corpus-parse", What: "probe: " + text + ": " + err.Error(), Check: "self-test", NoInput: true})
			return
		}
		p := (*ast.Policy)(cp.AST())
		for _, strict := range []bool{true, false} {
			v := vp
			if strict {
				v = vs
			}
			ok, pn := c15Accepts(v, p)
			if pn != nil {
				c.Report(vh.Finding{Class: "validator-panic", What: fmt.Sprintf("probe %s: %v", text, pn), Check: "oracle", Input: c15Input(s, strict, p, types.Request{}, nil)})
				continue
			}
			impl := "reject"
			if ok {
				impl = "accept"
			}
			idx := lines.add(senc, strict, p, impl, "probe")
			c.Count("probe"+lines.b.Key(idx), true)
			c.Dist("probe:go-" + impl)
		}
		var cq cedar.Policy
		if err := cq.UnmarshalCedar([]byte(toA.Replace(text))); err != nil {
			return
		}
		q := (*ast.Policy)(cq.AST())
		nProbe++
		okS, _ := c15Accepts(vs, q)
		okP, _ := c15Accepts(vp, q)
		if okS || okP { // same policy, same data in both modes: evaluate once, in the stricter mode that accepts
			c15RunPolicy(c, stP, s, okS, vh.C15Policy{AST: q}, cases, fmt.Sprintf("probe%d", nProbe))
		}
	}
	defer func() {
		c.Res.Notes = append(c.Res.Notes, fmt.Sprintf("probes: %d hand-written policies on the probe schema (both modes to the Lean model); the accepted ones evaluated on %d (environment, request, store) cases each: %d evaluations, %d failures", nProbe, 5*len(s.Envs), stP.evals, stP.failures))
	}()
	for _, b := range bodies {
		add(`permit(principal, action, resource) when { ` + b + ` };`)
		add(`permit(principal is User, action == Action::"view", resource is Doc) when { ` + b + ` };`)
	}
	for _, sc := range scopes {
		add(`permit(` + sc + `) when { principal has name };`)
		add(`permit(` + sc + `);`)
	}
	for _, t := range c15ClauseProbes() {
		add(t)
	}
}

// c15LaxConformance: stores that Validator.Entities accepts although the validator's reasoning assumes otherwise.
func c15LaxConformance(c *vh.Ctx, g *vh.Gen, n int) {
	done := 0
	for tries := 0; done < n && tries < 50*n; tries++ {
		s, err := g.C15GenSchema(false)
		if err != nil || len(s.Envs) == 0 {
			continue
		}
		env := s.Envs[g.R.Intn(len(s.Envs))]
		vs, vp := c15Validators(s)
		junk := ast.NodeTypeEquals{BinaryNode: ast.BinaryNode{Left: ast.NodeTypeAdd{BinaryNode: ast.BinaryNode{Left: ast.NodeValue{Value: types.Long(1)}, Right: ast.NodeValue{Value: types.String("a")}}}, Right: ast.NodeValue{Value: types.Long(2)}}}
		scope := func(p *ast.Policy) *ast.Policy {
			p.Principal, p.Action, p.Resource = ast.ScopeTypeIs{Type: env.PType}, ast.ScopeTypeEq{Entity: env.Action}, ast.ScopeTypeIs{Type: env.RType}
			return p
		}
		// (a) action entity absent: `action in <group>` is folded to True from the schema, the evaluator consults the store
		cl := s.ActionClosure(env.Action)
		if len(cl) > 0 {
			grp := cl[g.R.Intn(len(cl))]
			body := ast.NodeTypeAnd{BinaryNode: ast.BinaryNode{Left: ast.NodeTypeNot{UnaryNode: ast.UnaryNode{Arg: ast.NodeTypeIn{BinaryNode: ast.BinaryNode{Left: ast.NodeTypeVariable{Name: "action"}, Right: ast.NodeValue{Value: grp}}}}}, Right: junk}}
			p := scope(&ast.Policy{Effect: ast.EffectPermit, Conditions: []ast.ConditionType{{Condition: ast.ConditionWhen, Body: body}}})
			for _, strict := range []bool{true, false} {
				v := vp
				if strict {
					v = vs
				}
				ok, _ := c15Accepts(v, p)
				if !ok {
					continue
				}
				st := g.C15GenStore(s, 0, 0, 1.0)
				req := g.C15Request(s, env, 0, true)
				full := eval.Env{Principal: req.Principal, Action: req.Action, Resource: req.Resource, Context: req.Context, Entities: st.Entities}
				without := st.Entities.Clone()
				for _, a := range s.ActionUIDs {
					delete(without, a)
				}
				lax := full
				lax.Entities = without
				whole := eval.PolicyToNode(p).AsIsNode()
				_, k1 := c15Eval(whole, full)
				_, k2 := c15Eval(whole, lax)
				c.Res.OracleChecks++
				done++
				if v.Entities(without) == nil && v.Request(req) == nil && (k1 == "" || c15Allowed[k1]) && k2 != "" && !c15Allowed[k2] {
					c.Dist("failure:action-entity-absent-from-store")
					c.Report(vh.Finding{Class: "action-entity-absent-from-store", What: fmt.Sprintf("store without the schema's action entities passes Validator.Entities; `action in %s` was folded to True from the schema but evaluates to false: %s error in the dead branch: %s", grp, k2, strings.TrimSpace(c15PolicyText(p))),
						Check: "oracle", Op: "validate-then-eval", Input: c15Input(s, strict, p, req, without), Expected: "ok or error in {overflow, entity, ext-*}", Actual: "err " + k2})
				}
			}
		}
		// (b) enum entity carrying attributes is accepted by Validator.Entities; `has` on an enum-typed expression is typed False
		if len(s.EnumTypes) > 0 {
			et := s.EnumTypes[0]
			// (b0) an entity of an enum type must be one of the declared values, without parents
			bogus := types.NewEntityUID(et, "\x00not-a-declared-value")
			declared := s.RS.Enums[et].Values
			c.Res.OracleChecks++
			if vp.Entities(types.EntityMap{bogus: types.Entity{UID: bogus}}) == nil || vs.Entities(types.EntityMap{bogus: types.Entity{UID: bogus}}) == nil {
				c.Dist("failure:enum-entity-with-attributes-conforms")
				c.Report(vh.Finding{Class: "enum-entity-with-attributes-conforms", What: fmt.Sprintf("Validator.Entities accepts %s, which is not one of the declared values of the enum type %s", bogus, et),
					Check: "oracle", Op: "validate-entities", Input: map[string]any{"schema": s.Text, "entity": bogus.String()}, Expected: "rejected", Actual: "accepted"})
			}
			if len(declared) > 1 {
				withParent := types.Entity{UID: declared[0], Parents: types.NewEntityUIDSet(declared[1])}
				if vp.Entities(types.EntityMap{declared[0]: withParent}) == nil {
					c.Dist("failure:enum-entity-with-attributes-conforms")
					c.Report(vh.Finding{Class: "enum-entity-with-attributes-conforms", What: fmt.Sprintf("Validator.Entities accepts the enum entity %s with a parent", declared[0]),
						Check: "oracle", Op: "validate-entities", Input: map[string]any{"schema": s.Text, "entity": declared[0].String()}, Expected: "rejected", Actual: "accepted"})
				}
			}
			c2 := vh.NewC15Gen(g, s, env)
			if enumExpr, ok := c15EnumPath(c2, et); ok {
				body := ast.NodeTypeOr{BinaryNode: ast.BinaryNode{Left: ast.NodeTypeNot{UnaryNode: ast.UnaryNode{Arg: ast.NodeTypeHas{StrOpNode: ast.StrOpNode{Arg: enumExpr, Value: "zz"}}}}, Right: junk}}
				p := scope(&ast.Policy{Effect: ast.EffectPermit, Conditions: []ast.ConditionType{{Condition: ast.ConditionWhen, Body: body}}})
				for _, strict := range []bool{true, false} {
					v := vp
					if strict {
						v = vs
					}
					ok, _ := c15Accepts(v, p)
					if !ok {
						continue
					}
					st := g.C15GenStore(s, 1, 0, 1.0)
					req := g.C15Request(s, env, 1, true)
					clean := eval.Env{Principal: req.Principal, Action: req.Action, Resource: req.Resource, Context: req.Context, Entities: st.Entities}
					with := st.Entities.Clone()
					for _, u := range s.RS.Enums[et].Values {
						with[u] = types.Entity{UID: u, Attributes: types.NewRecord(types.RecordMap{"zz": types.Long(1)})}
					}
					lax := clean
					lax.Entities = with
					whole := eval.PolicyToNode(p).AsIsNode()
					_, k1 := c15Eval(whole, clean)
					_, k2 := c15Eval(whole, lax)
					c.Res.OracleChecks++
					done++
					if v.Entities(with) == nil && (k1 == "" || c15Allowed[k1]) && k2 != "" && !c15Allowed[k2] {
						c.Dist("failure:enum-entity-with-attributes-conforms")
						c.Report(vh.Finding{Class: "enum-entity-with-attributes-conforms", What: fmt.Sprintf("Validator.Entities accepts an enum entity of type %s carrying attribute `zz`; `has zz` on it was typed False but evaluates to true: %s error in the dead branch: %s", et, k2, strings.TrimSpace(c15PolicyText(p))),
							Check: "oracle", Op: "validate-then-eval", Input: c15Input(s, strict, p, req, with), Expected: "ok or error in {overflow, entity, ext-*}", Actual: "err " + k2})
					}
				}
			}
		}
	}
}

func c15EnumPath(c *vh.C15Gen, et types.EntityType) (ast.IsNode, bool) {
	return c.RequiredPathOfEntity(et)
}

func runC15(c *vh.Ctx) {
	g := vh.NewGen(c.Rng)
	c.Res.Rule = "direct oracle: random schemas (entity types with required/optional attributes of every type incl. nested records, sets, entity refs, extension types; tags; acyclic memberOf; enums; namespaces; common types; actions with appliesTo lists, context records, action groups) x type-directed policies (well-typed by construction + 18 near-miss kinds) over all operators -> kept iff validate.New(schema, mode).Policy accepts (strict and permissive counted separately) -> every (action, principal type, resource type) environment x conforming requests/stores (all-optional-present, all-absent, random; asserted through Validator.Request/Entities) -> Eval(PolicyToNode(policy)); failure = error kind outside {overflow, entity, ext-*}; distinct = distinct (policy, mode, environment, store); non-trivial = policy has a condition; plus a focused stream (hierarchy-rich schemas: 5-7 entity types, memberOf chains several levels deep; policies of six near-miss families: `in` / `is..in` against a right operand whose entity LUB has several element types - reachable through the first/middle/last type of the sorted LUB, through the left type itself or not at all - guarding an ill-typed / unsafely accessing / well-typed operand through && , !..||, if; and singleton-typed tests around a has/hasTag guard - `h && false`, `false || (h && false)`, `h || true`, `!(h && false)`, True by a capability already held ... - whose then/else/right operands read the optional attribute or tag; attribute access / has on an if-then-else over record types of different widths - either branch the wider one - or over entity types that do not both declare the attribute; `in` whose right operand is a set of sets of entities, a record, a non-entity, or whose left operand is not an entity; `action in [..]` against set literals mixing action / entity literals with non-literal elements of action type; policies with several when/unless clauses in every combination and order, one a has/hasTag guard, another one reading the optional attribute or tag) through the same validate-then-evaluate step; hand-written probes of both families on a fixed schema, evaluated as well; plus the Lean model's accept/reject decision against the Go validator for every input of every stream (op validate)"

	c15Corpus(c)
	c15EntityCorpus(c)

	lines := &c15Lines{b: &vh.Batch{}}
	c15ModelProbes(c, g, lines)
	st := newC15Stats()
	targetAccepted := c.N(3200, 100000)
	polPerSchema := c.N(60, 120)
	perEnv := 5 // per environment: all-optional-present, all-absent, random x3 (the first three with the ids policy scopes mention)
	schemas := 0
	for st.accepted < targetAccepted && schemas < 50*targetAccepted/polPerSchema+100 {
		s, err := g.C15GenSchema(false)
		if err != nil {
			c.Report(vh.Finding{Class: "generator-schema", What: err.Error(), Check: "self-test", NoInput: true})
			return
		}
		if len(s.Envs) == 0 {
			continue
		}
		schemas++
		c.Dist(fmt.Sprintf("schema:envs=%d", min(len(s.Envs), 8)))
		cases := c15Cases(c, g, s, perEnv)
		vs, vp := c15Validators(s)
		senc := vh.EncC15Schema(s)
		for j := 0; j < polPerSchema; j++ {
			mut := ""
			if g.R.Intn(100) < 45 {
				mut = vh.C15Mutations[g.R.Intn(len(vh.C15Mutations))]
			}
			pol := g.C15GenPolicy(s, mut)
			c15Process(c, st, lines, s, cases, vs, vp, senc, pol, fmt.Sprintf("%d/%d", schemas, j), !c.Thorough() || j%4 == 0, "main")
		}
	}
	// hierarchy-rich schemas x the static-folding near-miss families (own statistics and self-tests)
	c15Focus(c, g, lines)
	// stores with lax conformance (separate stream, own classes)
	c15LaxConformance(c, g, c.N(40, 400))

	// ---- evidence ----
	var ops []string
	for o := range st.gen {
		ops = append(ops, o)
	}
	sort.Strings(ops)
	for _, o := range ops {
		c.Res.Distribution["op:"+o+":generated"] = st.gen[o]
		c.Res.Distribution["op:"+o+":accepted"] = st.acc[o]
		c.Res.Distribution["op:"+o+":rejected"] = st.rej[o]
		c.Res.Distribution["op:"+o+":accepted-and-reached-at-runtime"] = st.reach[o]
	}
	for k, v := range st.mutGen {
		c.Res.Distribution["nearmiss:"+k+":generated"] = v
		c.Res.Distribution["nearmiss:"+k+":accepted"] = st.mutAcc[k]
	}
	top := 0
	for k, v := range st.results {
		kk := k
		if strings.HasPrefix(k, "ok:") && k != "ok:true" && k != "ok:false" {
			kk = "ok:non-bool"
		}
		c.Res.Distribution["eval:"+kk] += v
		if strings.HasPrefix(k, "err:") && v > top {
			top = v
		}
	}
	den := max(st.accepted, 1)
	c.Res.Notes = append(c.Res.Notes,
		fmt.Sprintf("schemas=%d policies generated=%d accepted(any mode)=%d strict=%d permissive=%d", schemas, st.generated, st.accepted, st.acceptedStrict, st.acceptedPerm),
		fmt.Sprintf("evaluations=%d scope-satisfied=%d failures(before classification)=%d; avg environments/policy=%.1f avg (request,store) pairs/policy=%.1f",
			st.evals, st.scopeSat, st.failures, float64(st.envsPerPolicy)/float64(max(st.acceptedStrict+st.acceptedPerm, 1)), float64(st.storesPerPolicy)/float64(max(st.acceptedStrict+st.acceptedPerm, 1))))
	var shares []string
	for _, o := range c15RequiredOps {
		shares = append(shares, fmt.Sprintf("%s %d/%d", o, st.reach[o], st.acc[o]))
	}
	c.Res.Notes = append(c.Res.Notes, "accepted policies reaching each operator at run time / accepted policies containing it: "+strings.Join(shares, ", "))
	{
		var via []string
		for k, v := range c15Via {
			via = append(via, fmt.Sprintf("%s=%d", k, v))
		}
		sort.Strings(via)
		c.Res.Notes = append(c.Res.Notes, "attribution of the `test typed False` classes (evidence = the validator demonstrably types the node False in live code; shape-only = open classes only): "+strings.Join(via, " "))
	}
	// ---- self-tests: a collapsed generator must not pass silently ----
	if st.accepted < targetAccepted {
		c.Report(vh.Finding{Class: "generator-collapse", What: fmt.Sprintf("only %d accepted policies (target %d)", st.accepted, targetAccepted), Check: "self-test", NoInput: true})
	}
	c.Res.Notes = append(c.Res.Notes, fmt.Sprintf("self-test margins: accepted %d/%d; dominant error kind %d of %d evaluations (limit 60%%); scopes satisfied %d of %d evaluations (at least 10%%)", st.accepted, targetAccepted, top, st.evals, st.scopeSat, st.evals))
	var thin []string
	for _, o := range c15RequiredOps {
		if st.acc[o] < 5 || st.reach[o] < 2 {
			thin = append(thin, fmt.Sprintf("%s(acc=%d,reached=%d)", o, st.acc[o], st.reach[o]))
		}
	}
	if len(thin) > 0 {
		c.Report(vh.Finding{Class: "generator-collapse", What: "operators with too few accepted/reached policies: " + strings.Join(thin, " "), Check: "self-test", NoInput: true})
	}
	if st.evals > 0 && top*10 > st.evals*6 {
		c.Report(vh.Finding{Class: "generator-collapse", What: fmt.Sprintf("one error kind dominates: %d of %d evaluations", top, st.evals), Check: "self-test", NoInput: true})
	}
	if st.scopeSat*10 < st.evals {
		c.Report(vh.Finding{Class: "generator-collapse", What: fmt.Sprintf("policy scopes are satisfied in only %d of %d evaluations", st.scopeSat, st.evals), Check: "self-test", NoInput: true})
	}
	_ = den

	c15Fragment(c, g, lines)
}

// c15Lines collects `validate` / `validate-dom` protocol lines.
type c15Lines struct {
	b      *vh.Batch
	domIdx [][2]int // (validate line, validate-dom line) of the same input
	main   int      // number of inputs that come from the whole-validator stream (the first ones)
}

func (l *c15Lines) add(senc any, strict bool, p *ast.Policy, impl, tag string) int {
	payload := map[string]any{"schema": senc, "strict": strict, "policy": vh.EncC15Policy(p)}
	idx := l.b.Add("validate", payload, impl, tag)
	l.domIdx = append(l.domIdx, [2]int{idx, l.b.Add("validate-dom", payload, "", tag)})
	return idx
}

// c15Fragment: correspondence of the Lean fragment model (`validate`) with the Go validator.
func c15Fragment(c *vh.Ctx, g *vh.Gen, lines *c15Lines) {
	b := lines.b
	lines.main = len(lines.domIdx)
	nSchemas := c.N(60, 1500)
	per := c.N(50, 80)
	for i := 0; i < nSchemas; i++ {
		s, err := g.C15GenSchema(true)
		if err != nil || len(s.Envs) == 0 {
			continue
		}
		vs, vp := c15Validators(s)
		senc := vh.EncC15Schema(s)
		for j := 0; j < per; j++ {
			mut := ""
			if g.R.Intn(100) < 50 {
				mut = vh.C15Mutations[g.R.Intn(len(vh.C15Mutations))]
			}
			pol := g.C15GenPolicy(s, mut)
			for _, strict := range []bool{true, false} {
				v := vp
				if strict {
					v = vs
				}
				ok, pn := c15Accepts(v, pol.AST)
				if pn != nil {
					continue
				}
				impl := "reject"
				if ok {
					impl = "accept"
				}
				idx := lines.add(senc, strict, pol.AST, impl, mut)
				c.Count("frag"+b.Key(idx), true)
				c.Dist("fragment:go-" + impl)
				if i == 0 && j < 2 && strict {
					c.Sample(map[string]any{"op": "validate", "schema": s.Text, "policy": c15PolicyText(pol.AST), "go": impl})
				}
			}
		}
	}
	ds, model, err := c.Correspond(b)
	if err != nil {
		c.Report(vh.Finding{Class: "driver-failure", What: err.Error(), Check: "correspondence", Op: "validate", NoInput: true})
		return
	}
	inFrag, acc := 0, 0
	domIdx := lines.domIdx
	mainIn, mainAcc, mainAccIn := 0, 0, 0
	for n, pr := range domIdx {
		if n < lines.main {
			if b.Line(pr[0]).Impl == "accept" {
				mainAcc++
			}
			if !strings.HasPrefix(model[pr[0]], "skip ") {
				mainIn++
				if b.Line(pr[0]).Impl == "accept" {
					mainAccIn++
				}
			}
			continue
		}
		for k, i := range pr {
			if !strings.HasPrefix(model[i], "skip ") {
				inFrag++
				if k == 0 && model[i] == "accept" {
					acc++
				}
			}
		}
	}
	// the proved domain (dom = true) must be included in what Go accepts; report its share
	domAcc, goAcc := 0, 0
	for _, pr := range domIdx[lines.main:] {
		goOK := b.Line(pr[0]).Impl == "accept"
		if goOK && !strings.HasPrefix(model[pr[0]], "skip ") {
			goAcc++
		}
		if model[pr[1]] == "accept" {
			domAcc++
			if !goOK {
				c.Report(vh.Finding{Class: "proved-domain-not-included", What: "the domain-restricted Lean checker (validate-dom) accepts a policy the Go validator rejects",
					Check: "correspondence", Op: "validate-dom", Input: b.Line(pr[1]).Payload(), Expected: "reject", Actual: "accept"})
			}
		}
	}
	c.Res.Distribution["fragment:accepted-by-go"] = goAcc
	c.Res.Distribution["fragment:accepted-inside-proved-domain"] = domAcc
	nFrag := len(domIdx) - lines.main
	c.Res.Notes = append(c.Res.Notes, fmt.Sprintf("fragment correspondence: %d (policy, mode) inputs of the fragment stream, %d inside the Lean fragment (of which the model accepts %d); %d of the %d Go-accepted fragment policies (%.0f%%) are inside the domain of C15_typeOf_sound_partial (dom=true); whole-validator stream: %d (policy, mode) inputs, %d decided by the model (%d of the %d Go-accepted ones = %.1f%% of accepted policies are inside the fragment); %d disagreements in total",
		nFrag, inFrag/2, acc, domAcc, goAcc, 100*float64(domAcc)/float64(max(goAcc, 1)), lines.main, mainIn, mainAccIn, mainAcc, 100*float64(mainAccIn)/float64(max(mainAcc, 1)), len(ds)))
	c.Res.Distribution["main-stream:accepted-inputs"] = mainAcc
	c.Res.Distribution["main-stream:accepted-inputs-inside-lean-fragment"] = mainAccIn
	inFrag, _ = inFrag/2, 0
	if inFrag*3 < nFrag || acc*10 < inFrag || domAcc*4 < goAcc {
		c.Report(vh.Finding{Class: "generator-collapse", What: fmt.Sprintf("fragment stream too thin: %d inputs, %d in fragment, %d accepted, %d in the proved domain", nFrag, inFrag, acc, domAcc), Check: "self-test", NoInput: true})
	}
	for _, d := range ds {
		c.Report(vh.Finding{Class: "validate-model-mismatch", What: fmt.Sprintf("validate disagreement: Go validator=%q Lean model=%q", d.Line.Impl, d.Model),
			Check: "correspondence", Op: "validate", Input: d.Line.Payload(), Expected: d.Model, Actual: d.Line.Impl})
	}
}
