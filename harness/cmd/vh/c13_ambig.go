package main

// C13 — "encoding is stable": entities, parent sets and entity maps over UIDs that differ as (type, id)
// pairs but coincide as concatenations (vh.AmbiguousUIDGroups). Each object is encoded c13AmbigReps times,
// every time REBUILT from scratch in a shuffled insertion order (parent sets and the map), and after a
// round trip: all encodings must be byte-identical, the decoded object Equal. An encoder whose sort key is
// not injective on UIDs ties on such pairs, and the tie is broken by Go's per-call map order.

import (
	"bytes"
	"fmt"

	"github.com/cedar-policy/cedar-go/types"

	"verifharness/vh"
)

const c13AmbigReps = 16

func c13AmbiguousUIDs(c *vh.Ctx, g *vh.Gen) {
	n := c.N(60, 2000)
	for i := 0; i < n; i++ {
		for gi, grp := range g.AmbiguousUIDGroups() {
			c.Res.OracleChecks++
			c.Dist(fmt.Sprintf("ambiguous-uid-group:size<=%d", (len(grp)+3)/4*4))
			// every member is an entity; its parents are the other members (+ one ordinary uid)
			extra := g.UIDC13()
			attrs := types.NewRecord(types.RecordMap{"k": types.Long(int64(i))})
			build := func(shuffle bool) types.EntityMap {
				order := make([]int, len(grp))
				for k := range order {
					order[k] = k
				}
				if shuffle {
					c.Rng.Shuffle(len(order), func(a, b int) { order[a], order[b] = order[b], order[a] })
				}
				em := types.EntityMap{}
				for _, k := range order {
					var ps []types.EntityUID
					for j, p := range grp {
						if j != k {
							ps = append(ps, p)
						}
					}
					ps = append(ps, extra)
					if shuffle {
						c.Rng.Shuffle(len(ps), func(a, b int) { ps[a], ps[b] = ps[b], ps[a] })
					}
					em[grp[k]] = types.Entity{UID: grp[k], Parents: types.NewEntityUIDSet(ps...), Attributes: attrs, Tags: types.NewRecord(nil)}
				}
				return em
			}
			base := build(false)
			input := vh.EncEntities(base)
			c.Count(fmt.Sprintf("ambig:%d:%d:%s", i, gi, vh.ShowEntitiesC13(base)), true)
			enc0, st := c13Marshal(base)
			if st != "" {
				c.Report(vh.Finding{Class: "entitymap-marshal-fails", What: st, Check: "oracle", Op: "ejson-encode", Input: input})
				continue
			}
			ent0 := map[types.EntityUID][]byte{}
			for _, u := range grp {
				ent0[u], _ = c13Marshal(base[u])
			}
			// round trip
			out, em2 := c13DecodeInto[types.EntityMap](enc0, vh.ShowEntitiesC13)
			if out == "err" || out == "panic" || !entityMapEqual(base, em2) {
				c.Report(vh.Finding{Class: "entitymap-json-roundtrip", What: fmt.Sprintf("entity map over look-alike UIDs does not round-trip (%s): %s", vh.FirstWordC13(out), enc0), Check: "oracle", Op: "ejson", Input: input, Expected: vh.ShowEntitiesC13(base), Actual: out})
				continue
			}
			bad := false
			for rep := 0; rep < c13AmbigReps && !bad; rep++ {
				var em types.EntityMap
				switch rep % 4 {
				case 0:
					em = base // the same object again (each call ranges its maps anew)
				case 1:
					em = em2 // the decoded object
				default:
					em = build(true)
				}
				enc, _ := c13Marshal(em)
				if !bytes.Equal(enc, enc0) {
					bad = true
					c.Report(vh.Finding{Class: "entitymap-encoding-order-unstable", What: fmt.Sprintf("EntityMap.MarshalJSON of the same entities (repetition %d: %s) differs: %s vs %s", rep, []string{"same object", "decoded object", "rebuilt in shuffled order", "rebuilt in shuffled order"}[rep%4], trunc(string(enc), 400), trunc(string(enc0), 400)),
						Check: "oracle", Op: "ejson-encode", Input: input, Expected: string(enc0), Actual: string(enc)})
					break
				}
				for _, u := range grp {
					eb, _ := c13Marshal(em[u])
					if !bytes.Equal(eb, ent0[u]) {
						bad = true
						c.Report(vh.Finding{Class: "entity-parents-order-unstable", What: fmt.Sprintf("Entity.MarshalJSON of the same entity (repetition %d) differs: %s vs %s", rep, trunc(string(eb), 400), trunc(string(ent0[u]), 400)),
							Check: "oracle", Op: "entity-json", Input: input, Expected: string(ent0[u]), Actual: string(eb)})
						break
					}
				}
			}
			// single entities round-trip too
			for _, u := range grp[:1] {
				e := base[u]
				o, e2 := c13DecodeInto[types.Entity](ent0[u], func(e types.Entity) string { return vh.ShowEntityC13(e) })
				if o == "err" || o == "panic" || !e.Equal(e2) {
					c.Report(vh.Finding{Class: "entity-json-roundtrip", What: fmt.Sprintf("entity with look-alike parents does not round-trip (%s): %s", vh.FirstWordC13(o), ent0[u]), Check: "oracle", Op: "entity-json", Input: string(ent0[u])})
				}
			}
		}
	}
}
