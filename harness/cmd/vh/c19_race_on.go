//go:build race

package main

// c19RaceEnabled reports whether this binary was built with the race detector (C19 worker evidence).
const c19RaceEnabled = true
