package main

// C17: attribution of a round-trip failure BY REPAIR.
//
// A failing (leg, kind) of a schema is put into the class of a recorded cause only when the schema contains that
// cause's trigger AND the same (leg, kind) no longer fails once exactly that trigger is rewritten away.  Triggers are
// removed cumulatively, the causes recorded as OPEN findings first, then the causes of REPAIRED findings: a repaired
// class is therefore reported only when the failure survives the removal of every open trigger and disappears with the
// removal of that class's own trigger — positive evidence that the repaired defect is back.  (A classifier that looks
// at the features of the input alone reports the repaired class whenever the schema merely CONTAINS its trigger next to
// the trigger of an open finding: three such false alarms were seen in multi-seed sweeps of the unchanged tree.)
// Nothing is dropped: a failure no cause explains is `unexplained-<leg>-<kind>`.

import (
	"bytes"
	"fmt"
	"strings"

	"github.com/cedar-policy/cedar-go/types"
	"github.com/cedar-policy/cedar-go/x/exp/schema"
	sast "github.com/cedar-policy/cedar-go/x/exp/schema/ast"

	"verifharness/vh"
)

// ---- a uniform rewriting of a schema AST (always builds a fresh AST) ----

type c17Map struct {
	declared func(kind, name string) string  // kind: entity | enum | common
	nsKey    func(path string) string        // namespace names
	ref      func(path string) string        // every reference: type positions, memberOf, appliesTo, action parent types
	typ      func(t sast.IsType) sast.IsType // every type node, children first, after `ref`
	annKey   func(k string) string           // annotation keys
	enum     func(e sast.Enum) sast.Enum     // every enum declaration
	action   func(a sast.Action) sast.Action // every action declaration (after the references in it were rewritten)
}

func (m c17Map) anns(a sast.Annotations) sast.Annotations {
	if a == nil {
		return nil
	}
	out := sast.Annotations{}
	for k, v := range a {
		if m.annKey != nil {
			k = types.Ident(m.annKey(string(k)))
		}
		out[k] = v
	}
	return out
}

func (m c17Map) doRef(p string) string {
	if m.ref != nil {
		return m.ref(p)
	}
	return p
}

func (m c17Map) doTyp(t sast.IsType) sast.IsType {
	if m.typ != nil {
		return m.typ(t)
	}
	return t
}

func (m c17Map) mapType(t sast.IsType) sast.IsType {
	switch v := t.(type) {
	case sast.SetType:
		return m.doTyp(sast.SetType{Element: m.mapType(v.Element)})
	case sast.RecordType:
		if v == nil {
			return m.doTyp(v)
		}
		out := sast.RecordType{}
		for k, a := range v {
			out[k] = sast.Attribute{Type: m.mapType(a.Type), Optional: a.Optional, Annotations: m.anns(a.Annotations)}
		}
		return m.doTyp(out)
	case sast.EntityTypeRef:
		return m.doTyp(sast.EntityTypeRef(m.doRef(string(v))))
	case sast.TypeRef:
		return m.doTyp(sast.TypeRef(m.doRef(string(v))))
	case nil:
		return nil
	}
	return m.doTyp(t)
}

func (m c17Map) refs(xs []sast.EntityTypeRef) []sast.EntityTypeRef {
	if xs == nil {
		return nil
	}
	out := make([]sast.EntityTypeRef, len(xs))
	for i, x := range xs {
		out[i] = sast.EntityTypeRef(m.doRef(string(x)))
	}
	return out
}

func (m c17Map) decl(kind, name string) string {
	if m.declared != nil {
		return m.declared(kind, name)
	}
	return name
}

func (m c17Map) namespace(ns sast.Namespace) sast.Namespace {
	out := sast.Namespace{Annotations: m.anns(ns.Annotations), Entities: sast.Entities{}, Enums: sast.Enums{}, Actions: sast.Actions{}, CommonTypes: sast.CommonTypes{}}
	for k, e := range ns.Entities {
		ne := sast.Entity{Annotations: m.anns(e.Annotations), ParentTypes: m.refs(e.ParentTypes)}
		if e.Shape != nil {
			if r, ok := m.mapType(e.Shape).(sast.RecordType); ok {
				ne.Shape = r
			} else {
				ne.Shape = e.Shape
			}
		}
		if e.Tags != nil {
			ne.Tags = m.mapType(e.Tags)
		}
		out.Entities[types.Ident(m.decl("entity", string(k)))] = ne
	}
	for k, e := range ns.Enums {
		ne := sast.Enum{Annotations: m.anns(e.Annotations), Values: append([]types.String(nil), e.Values...)}
		if m.enum != nil {
			ne = m.enum(ne)
		}
		out.Enums[types.Ident(m.decl("enum", string(k)))] = ne
	}
	for k, a := range ns.Actions {
		na := sast.Action{Annotations: m.anns(a.Annotations)}
		for _, p := range a.Parents {
			if p.Type != "" {
				p.Type = sast.EntityTypeRef(m.doRef(string(p.Type)))
			}
			na.Parents = append(na.Parents, p)
		}
		if a.AppliesTo != nil {
			at := sast.AppliesTo{Principals: m.refs(a.AppliesTo.Principals), Resources: m.refs(a.AppliesTo.Resources)}
			if a.AppliesTo.Context != nil {
				at.Context = m.mapType(a.AppliesTo.Context)
			}
			na.AppliesTo = &at
		}
		if m.action != nil {
			na = m.action(na)
		}
		out.Actions[k] = na
	}
	for k, ct := range ns.CommonTypes {
		out.CommonTypes[types.Ident(m.decl("common", string(k)))] = sast.CommonType{Annotations: m.anns(ct.Annotations), Type: m.mapType(ct.Type)}
	}
	return out
}

func (m c17Map) schema(s *sast.Schema) *sast.Schema {
	top := m.namespace(sast.Namespace{Entities: s.Entities, Enums: s.Enums, Actions: s.Actions, CommonTypes: s.CommonTypes})
	out := &sast.Schema{Entities: top.Entities, Enums: top.Enums, Actions: top.Actions, CommonTypes: top.CommonTypes, Namespaces: sast.Namespaces{}}
	for k, ns := range s.Namespaces {
		if m.nsKey != nil {
			k = types.Path(m.nsKey(string(k)))
		}
		out.Namespaces[k] = m.namespace(ns)
	}
	return out
}

// ---- the recorded causes and the rewriting that removes the trigger of each ----

type c17Cause struct {
	class   string
	open    bool                                                // recorded with status "finding" (the others are repaired, or were never seen on the tree)
	applies func(leg, kind string) bool                         // the (leg, kind) pairs the recorded defect can produce
	repair  func(s *sast.Schema) (t *sast.Schema, changed bool) // s without the trigger (fresh AST); changed = the trigger was present
	// sameText: the rewriting does not remove anything, it writes the schema as what its Cedar rendering MEANS; the evidence
	// is that both have byte-identical renderings (so the text legs of the original behave like those of the rewriting)
	// and that the rewriting passes.  Such a rewriting may well be unresolvable (that can be the very difference).
	sameText bool
}

const c17Fresh = "Qz7" // suffix of the names the repairs introduce

func c17Textual(leg string) bool { return leg == "text" || leg == "j2t" }

func c17TextUnparseable(leg, kind string) bool { return c17Textual(leg) && kind == "unparseable" }
func c17TextResolve(leg, kind string) bool     { return c17Textual(leg) && kind == "resolve-differs" }

func c17MapComponents(p string, f func(i, n int, comp string) string) string {
	parts := strings.Split(p, "::")
	for i := range parts {
		parts[i] = f(i, len(parts), parts[i])
	}
	return strings.Join(parts, "::")
}

var c17BuiltinExt = map[string]bool{"ipaddr": true, "decimal": true, "datetime": true, "duration": true}

var c17Causes = []c17Cause{
	// ---------------- open findings: tried first ----------------
	{class: "ast-entity-and-enum-same-name", open: true, applies: func(leg, kind string) bool { return true },
		repair: func(s *sast.Schema) (*sast.Schema, bool) {
			t := c17Map{}.schema(s)
			changed := false
			drop := func(ents sast.Entities, enums sast.Enums) {
				for n := range enums {
					if _, dup := ents[n]; dup {
						delete(enums, n)
						changed = true
					}
				}
			}
			drop(t.Entities, t.Enums)
			for _, ns := range t.Namespaces {
				drop(ns.Entities, ns.Enums)
			}
			return t, changed
		}},
	{class: "appliesTo-without-principal-or-resource-renders-unparseable", open: true, applies: c17TextUnparseable,
		repair: func(s *sast.Schema) (*sast.Schema, bool) {
			changed := false
			t := c17Map{action: func(a sast.Action) sast.Action {
				if a.AppliesTo != nil && (len(a.AppliesTo.Principals) == 0 || len(a.AppliesTo.Resources) == 0) {
					a.AppliesTo = nil // `action a;` — the action applies to nothing, which is what an empty list says
					changed = true
				}
				return a
			}}.schema(s)
			return t, changed
		}},
	{class: "entity-ref-rendered-as-ambiguous-name", open: true, applies: c17TextResolve, sameText: true,
		repair: func(s *sast.Schema) (*sast.Schema, bool) {
			changed := false
			t := c17Map{typ: func(t sast.IsType) sast.IsType {
				if v, ok := t.(sast.EntityTypeRef); ok {
					changed = true
					return sast.Type(types.Path(v)) // what the Cedar text of the node means
				}
				return t
			}}.schema(s)
			return t, changed
		}},
	// ---------------- never seen on the tree (no entry in known_findings): a VIOLATION under their own name ----------------
	{class: "cedar-namespace-renders-unparseable", applies: c17TextUnparseable,
		repair: func(s *sast.Schema) (*sast.Schema, bool) {
			changed := false
			t := c17Map{nsKey: func(p string) string {
				return c17MapComponents(p, func(_, _ int, comp string) string {
					if comp == "__cedar" {
						changed = true
						return "cedar" + c17Fresh
					}
					return comp
				})
			}}.schema(s)
			return t, changed
		}},
	{class: "ast-empty-namespace-key", applies: c17TextUnparseable,
		repair: func(s *sast.Schema) (*sast.Schema, bool) {
			t := c17Map{}.schema(s)
			_, changed := t.Namespaces[""]
			delete(t.Namespaces, "")
			return t, changed
		}},
	// ---------------- repaired findings: reported only if the failure survived everything above ----------------
	{class: "empty-enum-becomes-entity", applies: func(leg, kind string) bool {
		return (leg == "json" || leg == "t2j" || leg == "j2t") && (kind == "resolve-differs" || kind == "unstable")
	},
		repair: func(s *sast.Schema) (*sast.Schema, bool) {
			changed := false
			t := c17Map{enum: func(e sast.Enum) sast.Enum {
				if len(e.Values) == 0 {
					e.Values = []types.String{"v"}
					changed = true
				}
				return e
			}}.schema(s)
			return t, changed
		}},
	{class: "unvalidated-identifier-renders-unparseable", applies: c17TextUnparseable,
		repair: func(s *sast.Schema) (*sast.Schema, bool) {
			changed := false
			memo := map[string]string{}
			fresh := func(bad string) string {
				changed = true
				if f, ok := memo[bad]; ok {
					return f
				}
				memo[bad] = fmt.Sprintf("id%d%s", len(memo), c17Fresh)
				return memo[bad]
			}
			path := func(p string, isRef bool) string {
				return c17MapComponents(p, func(i, n int, comp string) string {
					if validIdent(comp) || (isRef && i == 0 && n > 1 && comp == "__cedar") {
						return comp
					}
					return fresh(comp)
				})
			}
			t := c17Map{
				declared: func(_, name string) string {
					if validIdent(name) {
						return name
					}
					return fresh(name)
				},
				nsKey: func(p string) string {
					if p == "" {
						return p // the empty key is a cause of its own
					}
					return path(p, false)
				},
				ref: func(p string) string { return path(p, true) },
				annKey: func(k string) string {
					if k != "" && validIdentOrKeyword(k) {
						return k
					}
					return fresh("@" + k)
				},
			}.schema(s)
			return t, changed
		}},
	{class: "reserved-common-type-name-renders-unparseable", applies: c17TextUnparseable,
		repair: func(s *sast.Schema) (*sast.Schema, bool) {
			// the declarations, together with the references that may denote them (last path component)
			names := map[string]bool{}
			c17Map{declared: func(kind, name string) string {
				if kind == "common" && reservedCommon[name] {
					names[name] = true
				}
				return name
			}}.schema(s)
			if len(names) == 0 {
				return s, false
			}
			t := c17Map{
				declared: func(kind, name string) string {
					if kind == "common" && names[name] {
						return name + c17Fresh
					}
					return name
				},
				ref: func(p string) string {
					return c17MapComponents(p, func(i, n int, c string) string {
						if i == n-1 && names[c] && !(n == 2 && strings.HasPrefix(p, "__cedar::")) {
							return c + c17Fresh
						}
						return c
					})
				},
			}.schema(s)
			return t, true
		}},
	{class: "type-named-Set-renders-unparseable", applies: c17TextUnparseable,
		repair: func(s *sast.Schema) (*sast.Schema, bool) {
			// a reference printed as exactly `Set`, together with the declarations it may denote
			hasRef, changed := false, false
			c17Map{ref: func(p string) string {
				if p == "Set" {
					hasRef = true
				}
				return p
			}, typ: func(t sast.IsType) sast.IsType {
				if v, ok := t.(sast.ExtensionType); ok && v == "Set" {
					hasRef = true
				}
				return t
			}}.schema(s)
			if !hasRef {
				return s, false
			}
			t := c17Map{
				declared: func(_, name string) string {
					if name == "Set" {
						return "Set" + c17Fresh
					}
					return name
				},
				ref: func(p string) string {
					if p == "Set" {
						changed = true
						return "Set" + c17Fresh
					}
					return p
				},
				typ: func(t sast.IsType) sast.IsType {
					if v, ok := t.(sast.ExtensionType); ok && v == "Set" {
						changed = true
						return sast.ExtensionType("Set" + c17Fresh)
					}
					return t
				},
			}.schema(s)
			return t, changed
		}},
	{class: "type-reference-into-namespace-Set-renders-unparseable", applies: c17TextUnparseable,
		repair: func(s *sast.Schema) (*sast.Schema, bool) {
			changed := false
			comp := func(i, n int, c string) string {
				if c == "Set" && i < n-1 {
					return "Set" + c17Fresh
				}
				return c
			}
			t := c17Map{
				nsKey: func(p string) string {
					return c17MapComponents(p, func(_, _ int, c string) string {
						if c == "Set" {
							return "Set" + c17Fresh
						}
						return c
					})
				},
				ref: func(p string) string {
					q := c17MapComponents(p, comp)
					if strings.HasPrefix(p, "Set::") {
						changed = true // the trigger: a reference whose first component is `Set`
					}
					return q
				},
			}.schema(s)
			return t, changed
		}},
	{class: "primitive-shadowed-by-entity", applies: c17TextResolve,
		repair: func(s *sast.Schema) (*sast.Schema, bool) {
			f := featuresOf(s)
			names := map[string]bool{}
			for n := range f.printedPrims {
				if f.declared[n] {
					names[n] = true
				}
			}
			if len(names) == 0 {
				return s, false
			}
			t := c17Map{
				declared: func(_, name string) string {
					if names[name] {
						return name + c17Fresh
					}
					return name
				},
				ref: func(p string) string {
					return c17MapComponents(p, func(i, n int, c string) string {
						if i == n-1 && names[c] {
							return c + c17Fresh
						}
						return c
					})
				},
			}.schema(s)
			return t, true
		}},
	{class: "unknown-extension-name-accepted", applies: c17TextResolve,
		repair: func(s *sast.Schema) (*sast.Schema, bool) {
			changed := false
			t := c17Map{typ: func(t sast.IsType) sast.IsType {
				if v, ok := t.(sast.ExtensionType); ok && !c17BuiltinExt[string(v)] {
					changed = true
					return sast.ExtensionType("ipaddr")
				}
				return t
			}}.schema(s)
			return t, changed
		}},
}

// c17Fails: does the schema fail the given leg with the given kind?  (a panic while trying counts as failing)
func c17Fails(s *sast.Schema, leg, kind string) (found bool, what string) {
	if p := vh.Protect(func() {
		c17Legs(s, featuresOf(s), func(l, k, w string, _, _ any) {
			if l == leg && k == kind && !found {
				found, what = true, w
			}
		}, func(string) {}, func() {})
	}); p != nil {
		return true, fmt.Sprint("panic: ", p)
	}
	return found, what
}

// c17Attribute returns the class of the cause whose removal makes (leg, kind) pass, "" = unexplained.
// trace, when not nil, receives one line per step (VH_C17_DEBUG).
func c17Attribute(s0 *sast.Schema, leg, kind string, trace func(string)) string {
	if kind == "panic" {
		return ""
	}
	r0ok := resolveOut(s0).ok
	cur := s0
	for _, cause := range c17Causes {
		if !cause.applies(leg, kind) {
			continue
		}
		var next *sast.Schema
		changed := false
		if p := vh.Protect(func() { next, changed = cause.repair(cur) }); p != nil || !changed {
			continue
		}
		// A rewriting that makes a resolvable schema unresolvable proves nothing: an unparseable rendering of an
		// unresolvable schema is excused and any two resolution errors compare equal, so the failure would vanish vacuously.
		if cause.sameText {
			var t1, t2 []byte
			vh.Protect(func() {
				t1, _ = schema.NewSchemaFromAST(cur).MarshalCedar()
				t2, _ = schema.NewSchemaFromAST(next).MarshalCedar()
			})
			if t1 == nil || !bytes.Equal(t1, t2) {
				if trace != nil {
					trace(cause.class + ": the rewriting has a different rendering (inconclusive, skipped)")
				}
				continue
			}
		} else if r0ok && !resolveOut(next).ok {
			if trace != nil {
				trace(cause.class + ": trigger present, but its removal makes the schema unresolvable (inconclusive, skipped)")
			}
			continue
		}
		cur = next
		fails, what := c17Fails(cur, leg, kind)
		if trace != nil {
			trace(fmt.Sprintf("%s: trigger removed, %s/%s still fails: %v %s", cause.class, leg, kind, fails, what))
		}
		if !fails {
			return cause.class
		}
	}
	return ""
}
