package main

// C18 — non-sticky ("one-shot") reader failures.
//
// io.Reader allows Read to return n > 0 together with a non-EOF error and says nothing about the
// following call. The sticky scriptReader (final = fail: the error is repeated with n == 0 for ever)
// cannot tell a scanner that records the error when it is returned from one that waits for the reader
// to repeat it. The readers here fail exactly ONCE at byte position k of the document:
//
//	data+err,eof      the Read that delivers the bytes ending at k returns (n>0, err); afterwards (0, io.EOF)
//	data+err,resume   … afterwards the rest of the document is delivered as if nothing had happened, then io.EOF
//	data+err,sticky   … afterwards (0, err) for ever
//	err,resume        one Read returns (0, err) at position k; afterwards the rest of the document, then io.EOF
//	err,eof           one Read returns (0, err) at position k; afterwards (0, io.EOF)
//
// Oracle (property text: "a reader failure in mid-document is reported as an error rather than as a
// truncated policy"): whenever the reader returned a non-EOF error before the consumer saw the end of
// the document, TokenizeReader must return an error and the Decoder must end with an error (never a
// clean io.EOF), and whatever the Decoder yielded before it must be a prefix of the document's policies.
// The scanner never stops reading before io.EOF / an error, so for k < len(doc) the failure is always
// either reached or preceded by a lexical error: an error is required in both cases.

import (
	"fmt"
	"io"
	"math/rand"
	"strings"
	"time"
)

type c18OneShotMode int

const (
	c18DataErrEOF c18OneShotMode = iota
	c18DataErrResume
	c18DataErrSticky
	c18ZeroErrResume
	c18ZeroErrEOF
	c18NumOneShotModes
)

func (m c18OneShotMode) String() string {
	return [...]string{"data+err,eof", "data+err,resume", "data+err,sticky", "err,resume", "err,eof"}[m]
}

func (m c18OneShotMode) withData() bool {
	return m == c18DataErrEOF || m == c18DataErrResume || m == c18DataErrSticky
}

// c18OneShotReader delivers data[:k] according to `before` (chunk sizes, sum == k, zero-size chunks
// allowed), fails once as described by mode, and (resume modes) delivers data[k:] according to `after`.
type c18OneShotReader struct {
	data   []byte
	pos    int
	k      int
	before []int
	after  []int
	mode   c18OneShotMode
	fired  bool // the failure point has been passed
	Failed int  // number of Reads that returned a non-EOF error
	MaxN   int  // largest n returned together with the error
	reads  int
}

func newC18OneShotReader(data []byte, k int, before, after []int, mode c18OneShotMode) *c18OneShotReader {
	r := &c18OneShotReader{data: data, k: k, before: append([]int{}, before...), after: append([]int{}, after...), mode: mode}
	if mode.withData() {
		// the error has to accompany the last data bytes: drop zero-length reads scheduled after them
		for len(r.before) > 0 && r.before[len(r.before)-1] == 0 {
			r.before = r.before[:len(r.before)-1]
		}
	}
	return r
}

// take delivers (part of) the first chunk of *sizes into p; done = that chunk list is now exhausted.
func (r *c18OneShotReader) take(sizes *[]int, p []byte) (n int, done bool) {
	s := *sizes
	c := s[0]
	if c <= len(p) {
		n = copy(p, r.data[r.pos:r.pos+c])
		*sizes = s[1:]
	} else {
		n = copy(p, r.data[r.pos:r.pos+len(p)])
		s[0] = c - n
	}
	r.pos += n
	return n, len(*sizes) == 0
}

func (r *c18OneShotReader) Read(p []byte) (int, error) {
	r.reads++
	if r.reads > 50_000_000 {
		panic("c18OneShotReader: runaway reads")
	}
	if !r.fired {
		if len(r.before) == 0 {
			// nothing (left) to deliver before the failure: it is reported without data
			r.fired = true
			r.Failed++
			return 0, errInjected
		}
		n, done := r.take(&r.before, p)
		if done && r.mode.withData() && n > 0 {
			r.fired = true
			r.Failed++
			if n > r.MaxN {
				r.MaxN = n
			}
			return n, errInjected
		}
		return n, nil
	}
	switch r.mode {
	case c18DataErrSticky:
		r.Failed++
		return 0, errInjected
	case c18DataErrResume, c18ZeroErrResume:
		if len(r.after) == 0 {
			return 0, io.EOF
		}
		n, _ := r.take(&r.after, p)
		return n, nil
	}
	return 0, io.EOF
}

// c18PolicyBoundaries: byte positions k at which doc[:k] is a complete policy list followed by (part of) the
// trivia between two policies: from just after a policy's final ';' up to the first byte of the next policy
// (or the end of the document). For the first and one randomly chosen policy: just after the ';', the start
// of the next policy and one position in between (documents that get every byte position do not need this).
func c18PolicyBoundaries(rng *rand.Rand, d c18Doc) []int {
	if !d.Valid {
		return nil
	}
	type gap struct{ from, to int }
	var gaps []gap
	for _, sp := range d.Spans {
		if sp.Class != "op1" || d.Bytes[sp.Start] != ';' {
			continue
		}
		end := len(d.Bytes)
		for _, p := range d.Pols {
			if p.Off >= sp.End {
				end = p.Off
				break
			}
		}
		gaps = append(gaps, gap{sp.End, end})
	}
	var ks []int
	for i := 0; i < 2 && len(gaps) > 0; i++ {
		g := gaps[rng.Intn(len(gaps))]
		if i == 0 {
			g = gaps[0] // the failure right after the first policy loses every later policy
		}
		ks = append(ks, g.from)
		if g.to > g.from {
			ks = append(ks, g.to, g.from+rng.Intn(g.to-g.from+1))
		}
	}
	return ks
}

// oneshot runs the one-shot failing readers on d.
//
//	ksAll: positions at which every mode is run; ksOne: positions at which one randomly chosen mode is run.
func (r *c18Run) oneshot(d c18Doc, base c18Decoded, ksAll, ksOne []int, scheds []schedKind) {
	c := r.c
	t0 := time.Now()
	defer func() { r.oneshotDur += time.Since(t0) }()
	for i, k := range append(append([]int{}, ksAll...), ksOne...) {
		if k < 0 || k > len(d.Bytes) {
			continue
		}
		only := c18OneShotMode(-1)
		if i >= len(ksAll) {
			only = c18OneShotMode(c.Rng.Intn(int(c18NumOneShotModes)))
		}
		for mode := c18OneShotMode(0); mode < c18NumOneShotModes; mode++ {
			if only >= 0 && mode != only {
				continue
			}
			kind := scheds[c.Rng.Intn(len(scheds))]
			before := mkSizes(c.Rng, kind, k)
			after := mkSizes(c.Rng, scheds[c.Rng.Intn(len(scheds))], len(d.Bytes)-k)
			extra := map[string]any{"reader": "one-shot failure: " + mode.String(), "fail_at": k, "chunks": before, "chunks_after_failure": after}
			rt := newC18OneShotReader(d.Bytes, k, before, after, mode)
			toks := c18Toks(rt)
			rs := newC18OneShotReader(d.Bytes, k, before, after, mode)
			st := c18Stream(rs)
			c.Res.OracleChecks += 2
			r.oneshotRuns++
			c.Count("oneshot:"+mode.String()+":"+c18Key(d.Bytes, before, k&0xff), true)
			reached := map[bool]string{true: "reached", false: "preceded-by-lexical-error"}[rs.Failed > 0]
			c.Dist("oneshot:" + mode.String() + ":" + map[bool]string{true: "mid-document", false: "after-last-byte"}[k < len(d.Bytes)] + ":" + reached)
			if rs.MaxN > 0 {
				c.Dist("oneshot:error-with-n>0")
			}
			if st.Panic != nil || strings.HasPrefix(toks, "panic") {
				r.report("decode-panic", fmt.Sprintf("panic with a reader failing once (%s): %v %s", mode, st.Panic, toks), d, extra, "no panic", nil)
				continue
			}
			if k >= len(d.Bytes) {
				continue // failure after the last byte of the document: not "mid-document"
			}
			if toks != "err" {
				what := "TokenizeReader succeeded although the reader failed once in mid-document (" + mode.String() + ")"
				if rt.Failed == 0 {
					what = "TokenizeReader succeeded without reading the document to its end (" + mode.String() + ")"
				}
				r.report("reader-failure-swallowed", what, d, extra, "err", toks)
			}
			np := len(st.Texts)
			if st.Err == "" || np > len(base.Texts) || !samePolicies(st, base, np) {
				what := fmt.Sprintf("Decoder reported clean EOF after %d policies (document has %d) or a truncated policy although the reader failed once in mid-document (%s)", np, len(base.Texts), mode)
				class := "reader-failure-swallowed"
				if st.Err == "" && np < len(base.Texts) {
					class = "reader-failure-truncated-policy-list" // the silent loss of later policies (e.g. a forbid)
				}
				r.report(class, what, d, extra, "error after a prefix of "+base.String(), st.String())
			}
		}
	}
}

// c18OneShotDocs: small multi-policy documents on which every byte position is tried.
func c18OneShotDocs(rng *rand.Rand, n int) []c18Doc {
	fixed := []string{
		"permit(principal,action,resource);forbid(principal,action,resource);",
		"permit(principal,action,resource);\nforbid(principal,action,resource);\n",
		"permit ( principal , action , resource ) ; // one\n\n/* two */ forbid ( principal , action , resource ) unless { context . missing } ;\r\n@id(\"é€😀\") permit ( principal , action , resource ) when { context.s like \"a*é\" } ;",
	}
	var out []c18Doc
	for _, f := range fixed {
		out = append(out, c18Doc{Bytes: []byte(f), Kind: "oneshot-fixed"})
	}
	for i := 0; i < n; i++ {
		d := buildValidDoc(rng.Int63(), 2+rng.Intn(3), 0)
		for try := 0; try < 20 && len(d.Bytes) > 320; try++ { // every byte position x every mode: keep them small
			d = buildValidDoc(rng.Int63(), 2+rng.Intn(2), 0)
		}
		d.Kind = "oneshot-valid"
		out = append(out, d)
	}
	return out
}
