package main

// C11, last clause ("values are immutable") — tie (b) of the reference-level heap model
// lean/CedarGo/Model/Alias.lean: the SAME history is replayed on the real Go objects (this file) and on the
// Lean model (driver op `alias-history`), and the rendering of every live value object and every
// caller-owned container is compared after EVERY step.  The op language is the model's (`Alias.Op`);
// the alphabet of c11.go section (d) (`c11Ops`) is expressed in it as macros (`c11AMacro`), together with
// the operations that alphabet lacks (nil / empty-map constructors, Get, iterators, UnmarshalJSON into a copy,
// entity struct copies and field writes, append within capacity, reslicing).
//
// Conventions shared with the driver (Driver/Ops/C11.lean): a live value renders as vh.ShowValue, with `~`
// when its internal map is nil (Map()/Slice() == nil); a caller map renders as the record it spells, a caller
// slice as the sorted multiset of its first len elements; values kept from an iterator form an unordered
// segment.  Scalars stored by the caller and decoded data are true scalars (no set / record), so every live
// Set / Record / EntityUIDSet on the Go side is a reference object in the model.

import (
	"encoding/json"
	"fmt"
	"os"
	"sort"
	"strings"

	"github.com/cedar-policy/cedar-go/types"

	"verifharness/vh"
)

type c11AOwn struct {
	kind      string // vals | uids | map | entity
	vals      []types.Value
	uids      []types.EntityUID
	m         types.RecordMap
	ent       *types.Entity
	unordered bool // handed out by Slice(): element order is Go's map order
	fromSlice bool
}

func (o *c11AOwn) length() int {
	switch o.kind {
	case "vals":
		return len(o.vals)
	case "uids":
		return len(o.uids)
	case "entity":
		return 4
	}
	return len(o.m)
}

type c11ALive struct {
	v        any // types.Value | types.EntityUIDSet
	show0    string
	origin   string
	unstable bool // kept from an iterator together with others: its position within the segment is Go's map order
}

type c11ASeg struct {
	n         int
	unordered bool
}

type c11AState struct {
	owned []*c11AOwn
	live  []c11ALive
	segs  []c11ASeg
	ops   []any    // the history so far, in the line-protocol encoding
	shows []string // rendering after every step
	// the direct oracle runs after every step; at the first changed value the history stops (continuing could call
	// Equal / MarshalJSON on a value that now contains itself: unbounded recursion inside cedar-go)
	failClass, failWhat string
}

// ---- rendering (must match c11ShowState of the driver) ----

// c11AShowV = vh.ShowValue with a depth bound: a value that aliases a caller container can be made to contain
// itself (m := RecordMap{}; r := NewRecord(m); m["k"] = r on a tree where NewRecord aliases), and an unbounded
// renderer would overflow the stack, which no recover() survives.
func c11AShowV(v types.Value, depth int) string {
	if depth > 40 {
		return "<cycle>"
	}
	switch t := v.(type) {
	case types.Set:
		var xs []string
		for m := range t.All() {
			xs = append(xs, c11AShowV(m, depth+1))
		}
		sort.Strings(xs)
		out := xs[:0]
		for i, x := range xs {
			if i == 0 || x != xs[i-1] {
				out = append(out, x)
			}
		}
		return "[" + strings.Join(out, ",") + "]"
	case types.Record:
		var xs []string
		for _, k := range vh.SortedKeys(t) {
			x, _ := t.Get(k)
			xs = append(xs, vh.Hex(string(k))+"="+c11AShowV(x, depth+1))
		}
		return "{" + strings.Join(xs, ",") + "}"
	}
	return vh.ShowValue(v)
}

func c11AShowObj(x any) string {
	switch v := x.(type) {
	case types.EntityUIDSet:
		var xs []string
		for u := range v.All() {
			xs = append(xs, vh.ShowValue(u))
		}
		sort.Strings(xs)
		return "[" + strings.Join(xs, ",") + "]" // the nil table of the zero value is not observable: Slice() of any empty set is nil
	case types.Record:
		if v.Map() == nil {
			return c11AShowV(v, 0) + "~"
		}
		return c11AShowV(v, 0)
	case types.Value:
		return c11AShowV(v, 0)
	}
	return fmt.Sprintf("<%T>", x)
}

func c11AShowMapValue(x types.Value) string { return c11AShowV(x, 0) }

func c11AShowOwned(o *c11AOwn) string {
	var xs []string
	switch o.kind {
	case "map":
		ks := make([]string, 0, len(o.m))
		for k := range o.m {
			ks = append(ks, string(k))
		}
		sort.Strings(ks)
		for _, k := range ks {
			xs = append(xs, vh.Hex(k)+"="+c11AShowMapValue(o.m[types.String(k)]))
		}
		return "m{" + strings.Join(xs, ",") + "}"
	case "vals":
		for _, v := range o.vals {
			xs = append(xs, c11AShowObj(v))
		}
	case "uids":
		for _, v := range o.uids {
			xs = append(xs, c11AShowObj(v))
		}
	case "entity":
		xs = []string{c11AShowObj(o.ent.UID), c11AShowObj(o.ent.Parents), c11AShowObj(o.ent.Attributes), c11AShowObj(o.ent.Tags)}
	}
	sort.Strings(xs)
	return "(" + strings.Join(xs, ",") + ")"
}

func (st *c11AState) show() string {
	var ls, os []string
	i := 0
	for _, sg := range st.segs {
		var seg []string
		for k := 0; k < sg.n; k++ {
			seg = append(seg, c11AShowObj(st.live[i+k].v))
		}
		if sg.unordered {
			sort.Strings(seg)
		}
		ls = append(ls, seg...)
		i += sg.n
	}
	for _, o := range st.owned {
		os = append(os, c11AShowOwned(o))
	}
	return "L:" + strings.Join(ls, " ") + " O:" + strings.Join(os, " ")
}

// ---- sources ----

// c11ASrc: what the caller stores: a scalar, or the i-th live value
type c11ASrc struct {
	scalar types.Value
	live   int // -1 = scalar
}

func c11AScalar(v types.Value) c11ASrc { return c11ASrc{scalar: v, live: -1} }
func c11ALiveSrc(i int) c11ASrc        { return c11ASrc{live: i} }

func (s c11ASrc) enc() any {
	if s.live >= 0 {
		return []any{"live", s.live}
	}
	return vh.EncValue(s.scalar)
}

func (st *c11AState) get(s c11ASrc) any {
	if s.live >= 0 {
		return st.live[s.live].v
	}
	return s.scalar
}

func c11AIsTrueScalar(v types.Value) bool {
	switch v.(type) {
	case types.Set, types.Record:
		return false
	}
	return c11IsModelled(v)
}

// ---- the interpreter: one model op on the real Go objects ----

func (st *c11AState) keep(origin string, unordered bool, xs ...any) {
	for _, x := range xs {
		st.live = append(st.live, c11ALive{v: x, show0: c11AShowObj(x), origin: origin, unstable: unordered && len(xs) > 1})
	}
	st.segs = append(st.segs, c11ASeg{n: len(xs), unordered: unordered})
}

func (st *c11AState) own(o *c11AOwn) { st.owned = append(st.owned, o) }

// step executes op (name + operands as encoded for the driver) and records the rendering. Every operand is
// valid by construction (the generator and the macros only issue operations the Go type system allows).
func (st *c11AState) step(name string, args ...any) {
	if st.failClass != "" {
		return
	}
	defer func() { st.failClass, st.failWhat = st.changed() }()
	enc := append([]any{name}, args...)
	kept := false
	keep := func(unordered bool, xs ...any) { st.keep(name, unordered, xs...); kept = true }
	srcOf := func(a any) c11ASrc { return a.(c11ASrc) }
	switch name {
	case "mkSlice", "mkUIDs", "mkEntity":
		srcs := args[0].([]c11ASrc)
		var e []any
		for _, s := range srcs {
			e = append(e, s.enc())
		}
		if e == nil {
			e = []any{}
		}
		enc = []any{"mkSlice", e}
		switch name {
		case "mkSlice":
			vals := make([]types.Value, len(srcs))
			for i, s := range srcs {
				vals[i] = st.get(s).(types.Value)
			}
			st.own(&c11AOwn{kind: "vals", vals: vals})
		case "mkUIDs":
			uids := make([]types.EntityUID, len(srcs))
			for i, s := range srcs {
				uids[i] = st.get(s).(types.EntityUID)
			}
			st.own(&c11AOwn{kind: "uids", uids: uids})
		case "mkEntity":
			st.own(&c11AOwn{kind: "entity", ent: &types.Entity{UID: st.get(srcs[0]).(types.EntityUID), Parents: st.get(srcs[1]).(types.EntityUIDSet),
				Attributes: st.get(srcs[2]).(types.Record), Tags: st.get(srcs[3]).(types.Record)}})
		}
	case "mkMap":
		keys, srcs := args[0].([]string), args[1].([]c11ASrc)
		m := types.RecordMap{}
		e := []any{}
		for i, k := range keys {
			m[types.String(k)] = st.get(srcs[i]).(types.Value)
			e = append(e, []any{vh.Hex(k), srcs[i].enc()})
		}
		enc = []any{"mkMap", e}
		st.own(&c11AOwn{kind: "map", m: m})
	case "copyCont":
		o := st.owned[args[0].(int)]
		switch o.kind {
		case "vals":
			n := make([]types.Value, len(o.vals))
			copy(n, o.vals)
			st.own(&c11AOwn{kind: "vals", vals: n, unordered: o.unordered})
		case "uids":
			n := make([]types.EntityUID, len(o.uids))
			copy(n, o.uids)
			st.own(&c11AOwn{kind: "uids", uids: n, unordered: o.unordered})
		case "map":
			n := types.RecordMap{}
			for k, v := range o.m {
				n[k] = v
			}
			st.own(&c11AOwn{kind: "map", m: n})
		case "entity":
			e2 := *o.ent // struct copy
			st.own(&c11AOwn{kind: "entity", ent: &e2})
		}
	case "newRecord":
		if args[0] == nil {
			keep(false, types.NewRecord(nil))
		} else {
			keep(false, types.NewRecord(st.owned[args[0].(int)].m))
		}
	case "newSet":
		if args[0] == nil {
			keep(false, types.NewSet())
		} else {
			keep(false, types.NewSet(st.owned[args[0].(int)].vals...))
		}
	case "newUIDSet":
		if args[0] == nil {
			keep(false, types.NewEntityUIDSet())
		} else {
			keep(false, types.NewEntityUIDSet(st.owned[args[0].(int)].uids...))
		}
	case "recordMap":
		if m := st.live[args[0].(int)].v.(types.Record).Map(); m != nil {
			st.own(&c11AOwn{kind: "map", m: m})
		}
	case "recordGet":
		enc = []any{name, args[0], vh.Hex(args[1].(string))}
		if v, ok := st.live[args[0].(int)].v.(types.Record).Get(types.String(args[1].(string))); ok {
			keep(false, v)
		}
	case "recordAll": // All / Values / Iterate, chosen by the (Go-only) variant
		r := st.live[args[0].(int)].v.(types.Record)
		enc = []any{name, args[0]}
		var xs []any
		switch args[1].(int) % 3 {
		case 0:
			for _, v := range r.All() {
				xs = append(xs, v)
			}
		case 1:
			for v := range r.Values() {
				xs = append(xs, v)
			}
		default:
			r.Iterate(func(_ types.String, v types.Value) bool { xs = append(xs, v); return true })
		}
		n := 0
		for range r.Keys() {
			n++
		}
		if n != len(xs) {
			xs = append(xs, types.String("Keys() and All() disagree"))
		}
		keep(true, xs...)
	case "setSlice":
		switch s := st.live[args[0].(int)].v.(type) {
		case types.Set:
			if sl := s.Slice(); sl != nil {
				if cap(sl) > len(sl) { // spare capacity of an accessor's output is the caller's too
					_ = append(sl, types.Long(424242))
				}
				st.own(&c11AOwn{kind: "vals", vals: sl[:len(sl):len(sl)], unordered: true, fromSlice: true})
			}
		case types.EntityUIDSet:
			if sl := s.Slice(); sl != nil {
				if cap(sl) > len(sl) {
					_ = append(sl, types.NewEntityUID("Spare", "cap"))
				}
				st.own(&c11AOwn{kind: "uids", uids: sl[:len(sl):len(sl)], unordered: true, fromSlice: true})
			}
		}
	case "setAll":
		enc = []any{name, args[0]}
		var xs []any
		switch s := st.live[args[0].(int)].v.(type) {
		case types.Set:
			if args[1].(int)%2 == 0 {
				for v := range s.All() {
					xs = append(xs, v)
				}
			} else {
				s.Iterate(func(v types.Value) bool { xs = append(xs, v); return true })
			}
		case types.EntityUIDSet:
			if args[1].(int)%2 == 0 {
				for v := range s.All() {
					xs = append(xs, v)
				}
			} else {
				s.Iterate(func(v types.EntityUID) bool { xs = append(xs, v); return true })
			}
		}
		keep(true, xs...)
	case "unmarshalRecord":
		keys, vals := args[1].([]string), args[2].([]types.Value)
		var parts []string
		e := []any{}
		for i, k := range keys {
			kb, _ := json.Marshal(k)
			vb, err := json.Marshal(vals[i])
			if err != nil {
				panic(err)
			}
			parts = append(parts, string(kb)+":"+string(vb))
			e = append(e, []any{vh.Hex(k), vh.EncValue(vals[i])})
		}
		enc = []any{name, args[0], e}
		r2 := st.live[args[0].(int)].v.(types.Record) // a copy of the value
		if err := r2.UnmarshalJSON([]byte("{" + strings.Join(parts, ",") + "}")); err != nil {
			panic(err)
		}
		keep(false, r2)
	case "unmarshalSet":
		vals := args[1].([]types.Value)
		var parts []string
		e := []any{}
		for _, v := range vals {
			var vb []byte
			var err error
			if u, ok := v.(types.EntityUID); ok {
				vb, err = json.Marshal(types.ImplicitlyMarshaledEntityUID(u))
				if _, isSet := st.live[args[0].(int)].v.(types.Set); isSet {
					vb, err = json.Marshal(v)
				}
			} else {
				vb, err = json.Marshal(v)
			}
			if err != nil {
				panic(err)
			}
			parts = append(parts, string(vb))
			e = append(e, vh.EncValue(v))
		}
		enc = []any{name, args[0], e}
		data := []byte("[" + strings.Join(parts, ",") + "]")
		switch s := st.live[args[0].(int)].v.(type) {
		case types.Set:
			s2 := s
			if err := s2.UnmarshalJSON(data); err != nil {
				panic(err)
			}
			keep(false, s2)
		case types.EntityUIDSet:
			s2 := s
			if err := s2.UnmarshalJSON(data); err != nil {
				panic(err)
			}
			keep(false, s2)
		}
	case "setKey":
		enc = []any{name, args[0], vh.Hex(args[1].(string)), srcOf(args[2]).enc()}
		st.owned[args[0].(int)].m[types.String(args[1].(string))] = st.get(srcOf(args[2])).(types.Value)
	case "delKey":
		enc = []any{name, args[0], vh.Hex(args[1].(string))}
		delete(st.owned[args[0].(int)].m, types.String(args[1].(string)))
	case "clearMap":
		m := st.owned[args[0].(int)].m
		for k := range m {
			delete(m, k)
		}
	case "setElem":
		enc = []any{name, args[0], args[1], srcOf(args[2]).enc()}
		o, i, x := st.owned[args[0].(int)], args[1].(int), st.get(srcOf(args[2]))
		switch o.kind {
		case "vals":
			o.vals[i] = x.(types.Value)
		case "uids":
			o.uids[i] = x.(types.EntityUID)
		case "entity":
			switch i {
			case 0:
				o.ent.UID = x.(types.EntityUID)
			case 1:
				o.ent.Parents = x.(types.EntityUIDSet)
			case 2:
				o.ent.Attributes = x.(types.Record)
			case 3:
				o.ent.Tags = x.(types.Record)
			}
		}
	case "fillSlice":
		enc = []any{name, args[0], srcOf(args[1]).enc()}
		o, x := st.owned[args[0].(int)], st.get(srcOf(args[1]))
		for k := range o.vals {
			o.vals[k] = x.(types.Value)
		}
		for k := range o.uids {
			o.uids[k] = x.(types.EntityUID)
		}
	case "appendElem":
		enc = []any{name, args[0], srcOf(args[1]).enc()}
		o, x := st.owned[args[0].(int)], st.get(srcOf(args[1]))
		switch o.kind {
		case "vals":
			if len(o.vals) < cap(o.vals) {
				st.own(&c11AOwn{kind: "vals", vals: append(o.vals, x.(types.Value)), unordered: o.unordered}) // in place
			} else {
				n := make([]types.Value, len(o.vals)+1)
				copy(n, o.vals)
				n[len(o.vals)] = x.(types.Value)
				st.own(&c11AOwn{kind: "vals", vals: n, unordered: o.unordered})
			}
		case "uids":
			if len(o.uids) < cap(o.uids) {
				st.own(&c11AOwn{kind: "uids", uids: append(o.uids, x.(types.EntityUID)), unordered: o.unordered})
			} else {
				n := make([]types.EntityUID, len(o.uids)+1)
				copy(n, o.uids)
				n[len(o.uids)] = x.(types.EntityUID)
				st.own(&c11AOwn{kind: "uids", uids: n, unordered: o.unordered})
			}
		}
	case "reslice":
		o, n := st.owned[args[0].(int)], args[1].(int)
		switch o.kind {
		case "vals":
			st.own(&c11AOwn{kind: "vals", vals: o.vals[:n], unordered: o.unordered})
		case "uids":
			st.own(&c11AOwn{kind: "uids", uids: o.uids[:n], unordered: o.unordered})
		}
	case "readElem":
		o, i := st.owned[args[0].(int)], args[1].(int)
		switch o.kind {
		case "vals":
			keep(false, o.vals[i])
		case "uids":
			keep(false, o.uids[i])
		case "entity":
			keep(false, []any{o.ent.UID, o.ent.Parents, o.ent.Attributes, o.ent.Tags}[i])
		}
	case "readKey":
		enc = []any{name, args[0], vh.Hex(args[1].(string))}
		if v, ok := st.owned[args[0].(int)].m[types.String(args[1].(string))]; ok {
			keep(false, v)
		}
	default:
		panic("c11 alias: unknown op " + name)
	}
	if !kept {
		st.segs = append(st.segs, c11ASeg{})
	}
	st.ops = append(st.ops, enc)
	st.shows = append(st.shows, st.show())
}

// changed: the direct oracle — the first live value whose rendering differs from the one at its creation
func (st *c11AState) changed() (string, string) {
	for i, l := range st.live {
		if now := c11AShowObj(l.v); now != l.show0 {
			return "immut-alias-" + l.origin, fmt.Sprintf("live value #%d built by %s rendered %s at creation, now %s", i, l.origin, l.show0, now)
		}
	}
	return "", ""
}

// ---- lookups used by the macros and the generator ----

func (st *c11AState) lastLive(pred func(any) bool) int {
	for i := len(st.live) - 1; i >= 0; i-- {
		if pred(st.live[i].v) && !st.live[i].unstable {
			return i
		}
	}
	return -1
}

// pickLive: a random live value whose index means the same value in the model, or -1
func (st *c11AState) pickLive(c *vh.Ctx, pred func(any) bool) int {
	var cands []int
	for i, l := range st.live {
		if !l.unstable && pred(l.v) {
			cands = append(cands, i)
		}
	}
	if len(cands) == 0 {
		return -1
	}
	return cands[c.Rng.Intn(len(cands))]
}

func c11AIsSet(x any) bool    { _, ok := x.(types.Set); return ok }
func c11AIsRec(x any) bool    { _, ok := x.(types.Record); return ok }
func c11AIsUIDSet(x any) bool { _, ok := x.(types.EntityUIDSet); return ok }
func c11AIsUID(x any) bool    { _, ok := x.(types.EntityUID); return ok }
func c11AIsValue(x any) bool  { _, ok := x.(types.Value); return ok }

func (st *c11AState) lastOwned(pred func(*c11AOwn) bool) int {
	for i := len(st.owned) - 1; i >= 0; i-- {
		if pred(st.owned[i]) {
			return i
		}
	}
	return -1
}

// prelude: the containers of c11NewHeap, built with model ops (so that the Lean model starts from `init`).
// owned: 0 = s0 [true,1,0.0001]  1 = (helper [1])  2 = s1 [[1],1,1]  3 = (helper [true])  4 = m0 {a:1,b:[true]}
//        5 = me {} (empty, non-nil)  6 = u0 [User::a, User::b];  live: 0 = [1], 1 = [true]
func c11APrelude() *c11AState {
	st := &c11AState{}
	st.step("mkSlice", []c11ASrc{c11AScalar(types.True), c11AScalar(types.Long(1)), c11AScalar(types.VerifDecimalFromRaw(1))})
	st.step("mkSlice", []c11ASrc{c11AScalar(types.Long(1))})
	st.step("newSet", 1)
	st.step("mkSlice", []c11ASrc{c11ALiveSrc(0), c11AScalar(types.Long(1)), c11AScalar(types.Long(1))})
	st.step("mkSlice", []c11ASrc{c11AScalar(types.True)})
	st.step("newSet", 3)
	st.step("mkMap", []string{"a", "b"}, []c11ASrc{c11AScalar(types.Long(1)), c11ALiveSrc(1)})
	st.step("mkMap", []string{}, []c11ASrc{})
	st.step("mkUIDs", []c11ASrc{c11AScalar(types.NewEntityUID("User", "a")), c11AScalar(types.NewEntityUID("User", "b"))})
	return st
}

const (
	c11AS0 = 0
	c11AS1 = 2
	c11AM0 = 4
	c11AME = 5
	c11AU0 = 6
)

// c11AMacros: the alphabet of section (d) (`c11Ops`) expressed in model ops, plus what it lacks.
var c11AMacros = []string{"newset-s0", "newset-s1", "mut-s0", "mut-s1", "slice-v", "mut-last-slice", "append-s0", "newrec-m0", "mut-m0", "del-m0",
	"map-v", "mut-last-map", "clear-last-map", "uidset-u0", "mut-u0", "uslice", "setofsets",
	// not in c11Ops:
	"newset-nil", "newrec-nil", "newrec-e", "mut-e", "newuid-nil", "get-v", "all-v", "rall-v", "unmarshal-r", "unmarshal-s", "unmarshal-u", "entity", "entity-mut", "read-s1"}

// macro runs one macro; x is the mutation value (a true scalar). Operands that do not exist yet make it a no-op.
func (st *c11AState) macro(name string, x types.Value) {
	xs := c11AScalar(x)
	switch name {
	case "newset-s0":
		st.step("newSet", c11AS0)
	case "newset-s1":
		st.step("newSet", c11AS1)
	case "newset-nil":
		st.step("newSet", nil)
	case "mut-s0":
		st.step("fillSlice", c11AS0, xs)
	case "mut-s1":
		st.step("fillSlice", c11AS1, xs)
	case "append-s0": // append(s0[:1], x): overwrites element 1 of the shared array in place
		st.step("reslice", c11AS0, 1)
		st.step("appendElem", len(st.owned)-1, xs)
	case "slice-v":
		if i := st.lastLive(c11AIsSet); i >= 0 {
			st.step("setSlice", i)
		}
	case "mut-last-slice":
		if j := st.lastOwned(func(o *c11AOwn) bool { return o.fromSlice && o.kind == "vals" }); j >= 0 {
			st.step("fillSlice", j, xs)
			st.step("appendElem", j, xs)
		}
	case "newrec-m0":
		st.step("newRecord", c11AM0)
	case "newrec-e":
		st.step("newRecord", c11AME)
	case "newrec-nil":
		st.step("newRecord", nil)
	case "mut-m0":
		st.step("setKey", c11AM0, "a", xs)
		st.step("setKey", c11AM0, "new", xs)
	case "mut-e":
		st.step("setKey", c11AME, "n", xs)
	case "del-m0":
		st.step("delKey", c11AM0, "a")
		st.step("delKey", c11AM0, "b")
	case "map-v":
		if i := st.lastLive(c11AIsRec); i >= 0 {
			st.step("recordMap", i)
		}
	case "mut-last-map", "clear-last-map":
		j := st.lastOwned(func(o *c11AOwn) bool { return o.kind == "map" })
		if j <= c11AME {
			return
		}
		if name == "clear-last-map" {
			st.step("clearMap", j)
			return
		}
		var ks []string
		for k := range st.owned[j].m {
			ks = append(ks, string(k))
		}
		sort.Strings(ks)
		for _, k := range ks {
			st.step("setKey", j, k, xs)
		}
		st.step("setKey", j, "zz", xs)
	case "uidset-u0":
		st.step("newUIDSet", c11AU0)
	case "newuid-nil":
		st.step("newUIDSet", nil)
	case "mut-u0":
		st.step("fillSlice", c11AU0, c11AScalar(types.NewEntityUID("Mut", "x")))
	case "uslice":
		if i := st.lastLive(c11AIsUIDSet); i >= 0 {
			n := len(st.owned)
			st.step("setSlice", i)
			if len(st.owned) > n {
				st.step("fillSlice", n, c11AScalar(types.NewEntityUID("Mut", "y")))
			}
		}
	case "setofsets": // a set whose members are the earlier values; its argument slice is mutated afterwards
		var srcs []c11ASrc
		for i, l := range st.live {
			if c11AIsValue(l.v) && !l.unstable {
				srcs = append(srcs, c11ALiveSrc(i))
			}
		}
		srcs = append(srcs, xs)
		st.step("mkSlice", srcs)
		j := len(st.owned) - 1
		st.step("newSet", j)
		st.step("fillSlice", j, xs)
	case "get-v":
		if i := st.lastLive(c11AIsRec); i >= 0 {
			st.step("recordGet", i, "b")
			st.step("recordGet", i, "a")
		}
	case "all-v":
		if i := st.lastLive(c11AIsSet); i >= 0 {
			st.step("setAll", i, len(st.ops))
		}
	case "rall-v":
		if i := st.lastLive(c11AIsRec); i >= 0 {
			st.step("recordAll", i, len(st.ops))
		}
	case "unmarshal-r": // decode into a COPY of the last record: the original must not change
		if i := st.lastLive(c11AIsRec); i >= 0 {
			st.step("unmarshalRecord", i, []string{"a", "z"}, []types.Value{x, types.Long(1)})
			st.step("unmarshalRecord", i, []string{}, []types.Value{})
		}
	case "unmarshal-s":
		if i := st.lastLive(c11AIsSet); i >= 0 {
			st.step("unmarshalSet", i, []types.Value{x, types.Long(1), x})
		}
	case "unmarshal-u":
		if i := st.lastLive(c11AIsUIDSet); i >= 0 {
			st.step("unmarshalSet", i, []types.Value{types.NewEntityUID("Dec", "oded")})
		}
	case "entity", "entity-mut":
		j := st.lastOwned(func(o *c11AOwn) bool { return o.kind == "entity" })
		if name == "entity" || j < 0 {
			u, r := st.lastLive(c11AIsUIDSet), st.lastLive(c11AIsRec)
			if u < 0 || r < 0 {
				return
			}
			st.step("mkEntity", []c11ASrc{c11AScalar(types.NewEntityUID("User", "a")), c11ALiveSrc(u), c11ALiveSrc(r), c11ALiveSrc(r)})
			return
		}
		// e2 := e; e2.Tags = <first record>; e2.UID = …; keep e.Attributes and e2.Tags
		st.step("copyCont", j)
		k := len(st.owned) - 1
		for i, l := range st.live {
			if c11AIsRec(l.v) && !l.unstable {
				st.step("setElem", k, 3, c11ALiveSrc(i))
				break
			}
		}
		st.step("setElem", k, 0, c11AScalar(types.NewEntityUID("Mut", "e")))
		st.step("readElem", j, 2)
		st.step("readElem", k, 3)
		st.step("readElem", j, 1)
	case "read-s1":
		st.step("readElem", c11AS1, 0)
		st.step("readKey", c11AM0, "b")
	default:
		panic("c11 alias: unknown macro " + name)
	}
}

// randomOp issues one random raw op with valid operands (beyond what the macros do: arbitrary owned / live
// indices, positional writes, reslicing up to capacity, nesting live values into caller containers).
func (st *c11AState) randomOp(c *vh.Ctx, scalars []types.Value) {
	r := c.Rng
	sc := func() c11ASrc { return c11AScalar(scalars[r.Intn(len(scalars))]) }
	valSrc := func() c11ASrc { // a scalar or a live Value
		if r.Intn(2) == 0 {
			if i := st.pickLive(c, c11AIsValue); i >= 0 {
				return c11ALiveSrc(i)
			}
		}
		return sc()
	}
	key := func() string { return []string{"a", "b", "n", "zz", "", "ké"}[r.Intn(6)] }
	for try := 0; try < 20; try++ {
		switch r.Intn(16) {
		case 0:
			var srcs []c11ASrc
			for k, n := 0, r.Intn(4); k < n; k++ {
				srcs = append(srcs, valSrc())
			}
			st.step("mkSlice", srcs)
			return
		case 1:
			ks, srcs := []string{}, []c11ASrc{}
			for k, n := 0, r.Intn(3); k < n; k++ {
				ks, srcs = append(ks, key()), append(srcs, valSrc())
			}
			st.step("mkMap", ks, srcs)
			return
		case 2:
			st.step("copyCont", r.Intn(len(st.owned)))
			return
		case 3, 4, 5: // constructor on a random suitable container
			j := r.Intn(len(st.owned))
			switch st.owned[j].kind {
			case "vals":
				st.step("newSet", j)
			case "uids":
				st.step("newUIDSet", j)
			case "map":
				st.step("newRecord", j)
			default:
				continue
			}
			return
		case 6, 7: // accessor on a random live value
			i := st.pickLive(c, func(any) bool { return true })
			if i < 0 {
				continue
			}
			switch st.live[i].v.(type) {
			case types.Record:
				switch r.Intn(3) {
				case 0:
					st.step("recordMap", i)
				case 1:
					st.step("recordGet", i, key())
				default:
					st.step("recordAll", i, r.Intn(3))
				}
			case types.Set, types.EntityUIDSet:
				if r.Intn(2) == 0 {
					st.step("setSlice", i)
				} else {
					st.step("setAll", i, r.Intn(2))
				}
			default:
				continue
			}
			return
		case 8, 9, 10, 11, 12: // mutation of a random caller container
			j := r.Intn(len(st.owned))
			o := st.owned[j]
			switch o.kind {
			case "map":
				switch r.Intn(4) {
				case 0:
					st.step("delKey", j, key())
				case 1:
					st.step("clearMap", j)
				default:
					st.step("setKey", j, key(), valSrc())
				}
			case "vals", "uids":
				x := valSrc()
				if o.kind == "uids" {
					x = c11AScalar(types.NewEntityUID("Mut", types.String(fmt.Sprint(r.Intn(3)))))
				}
				positional := !o.unordered || o.length() <= 1
				switch r.Intn(4) {
				case 0:
					st.step("fillSlice", j, x)
				case 1:
					if positional || (o.kind == "vals" && len(o.vals) == cap(o.vals)) || (o.kind == "uids" && len(o.uids) == cap(o.uids)) {
						st.step("appendElem", j, x)
					} else {
						continue
					}
				case 2:
					if !positional || o.length() == 0 {
						continue
					}
					st.step("setElem", j, r.Intn(o.length()), x)
				default:
					if !positional {
						continue
					}
					capn := cap(o.vals)
					if o.kind == "uids" {
						capn = cap(o.uids)
					}
					st.step("reslice", j, r.Intn(capn+1))
				}
			case "entity":
				i := 1 + r.Intn(3)
				pred := c11AIsRec
				if i == 1 {
					pred = c11AIsUIDSet
				}
				k := st.pickLive(c, pred)
				if k < 0 {
					continue
				}
				st.step("setElem", j, i, c11ALiveSrc(k))
			}
			return
		case 13: // read a value back out of a caller container
			j := r.Intn(len(st.owned))
			o := st.owned[j]
			switch {
			case o.kind == "map":
				st.step("readKey", j, key())
			case o.length() > 0 && (!o.unordered || o.length() == 1):
				st.step("readElem", j, r.Intn(o.length()))
			default:
				continue
			}
			return
		case 14: // decode into a copy of a live value
			i := st.pickLive(c, func(any) bool { return true })
			if i < 0 {
				continue
			}
			switch st.live[i].v.(type) {
			case types.Record:
				ks, vs := []string{}, []types.Value{}
				for k, n := 0, r.Intn(3); k < n; k++ {
					ks, vs = append(ks, []string{"a", "b", "z"}[k]), append(vs, scalars[r.Intn(len(scalars))])
				}
				st.step("unmarshalRecord", i, ks, vs)
			case types.Set:
				vs := []types.Value{}
				for k, n := 0, r.Intn(4); k < n; k++ {
					vs = append(vs, scalars[r.Intn(len(scalars))])
				}
				st.step("unmarshalSet", i, vs)
			case types.EntityUIDSet:
				vs := []types.Value{}
				for k, n := 0, r.Intn(3); k < n; k++ {
					vs = append(vs, types.NewEntityUID("Dec", types.String(fmt.Sprint(r.Intn(2)))))
				}
				st.step("unmarshalSet", i, vs)
			default:
				continue
			}
			return
		default:
			st.macro(c11AMacros[r.Intn(len(c11AMacros))], scalars[r.Intn(len(scalars))])
			return
		}
	}
}

// c11AliasHistories: section (d'), model correspondence of the immutability histories.
func c11AliasHistories(c *vh.Ctx, univ []types.Value) {
	var scalars []types.Value
	for _, v := range univ {
		if c11AIsTrueScalar(v) {
			scalars = append(scalars, v)
		}
	}
	scalars = append(scalars, types.Long(99), types.String("x"), types.NewEntityUID("User", "a"))
	b := &vh.Batch{}
	type hist struct {
		st  *c11AState
		tag string
	}
	var hs []hist
	finish := func(st *c11AState, tag string, p any) {
		c.Res.OracleChecks++
		if p != nil {
			c.Report(vh.Finding{Class: "immut-alias-panic", What: fmt.Sprintf("panic %v during alias history", p), Check: "oracle", Op: "alias-history",
				Input: map[string]any{"ops": st.ops, "disc": "go"}})
			return
		}
		if cls, what := st.failClass, st.failWhat; cls != "" {
			c.Report(vh.Finding{Class: cls, What: what + " (history of " + fmt.Sprint(len(st.ops)) + " model ops: " + tag + ")", Check: "oracle", Op: "alias-history",
				Input: map[string]any{"ops": st.ops, "disc": "go", "history": tag}})
		}
		b.Add("alias-history", map[string]any{"ops": st.ops, "disc": "go"}, strings.Join(st.shows, " | "), tag)
		hs = append(hs, hist{st, tag})
		c.Count("alias:"+b.Key(b.Len()-1), len(st.live) > 2)
	}
	// (1) every macro history of length <= 2 (quick) / <= 3 (thorough), two mutation values
	maxLen := c.N(2, 3)
	mutVals := []types.Value{types.Long(99), types.True}
	var cur []string
	var rec func()
	rec = func() {
		if len(cur) > 0 {
			for _, mv := range mutVals {
				st := c11APrelude()
				p := vh.Protect(func() {
					for _, m := range cur {
						st.macro(m, mv)
					}
				})
				finish(st, strings.Join(cur, ","), p)
			}
		}
		if len(cur) == maxLen {
			return
		}
		for _, m := range c11AMacros {
			cur = append(cur, m)
			rec()
			cur = cur[:len(cur)-1]
		}
	}
	rec()
	nMacro := len(hs)
	// (2) random histories: raw ops with random operands mixed with macros
	nRandom := c.N(8000, 60000)
	if os.Getenv("VERIF_INTENSIFY") != "" { // a tie is broken (e.g. the alias facts changed): search harder for a failing history
		nRandom *= 3
	}
	for i, n := 0, nRandom; i < n; i++ {
		st := c11APrelude()
		p := vh.Protect(func() {
			for k, l := 0, 4+c.Rng.Intn(14); k < l; k++ {
				st.randomOp(c, scalars)
			}
		})
		finish(st, fmt.Sprintf("random#%d", i), p)
	}
	c.Res.Distribution["alias-histories-macro"] = nMacro
	c.Res.Distribution["alias-histories-random"] = len(hs) - nMacro
	ds, _, err := c.Correspond(b)
	if err != nil {
		c.Report(vh.Finding{Class: "driver-failure", What: err.Error(), Check: "correspondence", Op: "alias-history", NoInput: true})
		return
	}
	for _, d := range ds {
		// the first step at which the two renderings differ, and the op executed there
		impl, model := strings.Split(d.Line.Impl, " | "), strings.Split(d.Model, " | ")
		k := 0
		for k < len(impl) && k < len(model) && impl[k] == model[k] {
			k++
		}
		opName, ops := "length", hs[d.Index].st.ops
		if k < len(ops) {
			opName = ops[k].([]any)[0].(string)
		}
		got, want := "", ""
		if k < len(impl) {
			got = impl[k]
		}
		if k < len(model) {
			want = model[k]
		}
		c.Report(vh.Finding{Class: "alias-history-diverges:" + opName,
			What:  fmt.Sprintf("Go objects and heap model disagree after step %d (%s) of history %s: impl=%q model=%q", k, opName, hs[d.Index].tag, got, want),
			Check: "correspondence", Op: "alias-history", Input: map[string]any{"ops": ops[:min(k+1, len(ops))], "disc": "go", "history": hs[d.Index].tag},
			Expected: want, Actual: got})
	}
	c.Res.Notes = append(c.Res.Notes, fmt.Sprintf("alias histories corresponded with the heap model step by step: %d macro histories (alphabet %d, length <= %d) + %d random", nMacro, len(c11AMacros), maxLen, len(hs)-nMacro))
	if len(hs) > 0 {
		c.Sample(map[string]any{"alias-history": hs[len(hs)-1].st.ops, "final": hs[len(hs)-1].st.shows[len(hs[len(hs)-1].st.shows)-1]})
	}
}
