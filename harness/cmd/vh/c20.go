package main

import (
	"encoding/json"
	"fmt"
	"sort"
	"strings"

	cedar "github.com/cedar-policy/cedar-go"
	"github.com/cedar-policy/cedar-go/types"
	"github.com/cedar-policy/cedar-go/x/exp/ast"
	"github.com/cedar-policy/cedar-go/x/exp/eval"

	"verifharness/vh"
)

func init() { props["C20"] = runC20 }

type psOp struct {
	kind string
	id   string
	k    int
	ents map[string]int // for "reset"
}

func runC20(c *vh.Ctx) {
	b := &vh.Batch{}
	c.Res.Rule = "ALL operation sequences of length <= 4 (quick) / <= 5 (thorough) over {add,remove,get} x 3 ids x 3 policies plus ids/len/authz probes, and random histories of length <= 30 over 6 ids; each history runs on a real cedar.PolicySet, on the Lean model (op pset) and on a plain Go map (oracle): return values, Get, Map() copy semantics, MarshalCedar order, JSON round trip, Authorize after each step; loads via NewPolicySetFromBytes. distinct = distinct histories; non-trivial = history with at least one mutation"
	// three policies distinguishable by position.offset and by behaviour
	mk := func(k int, eff ast.Effect, cond ast.IsNode) *ast.Policy {
		p := &ast.Policy{Effect: eff, Principal: ast.ScopeTypeAll{}, Action: ast.ScopeTypeAll{}, Resource: ast.ScopeTypeAll{}, Annotations: []ast.AnnotationType{{Key: "k", Value: types.String(fmt.Sprint(k))}}}
		if cond != nil {
			p.Conditions = []ast.ConditionType{{Condition: ast.ConditionWhen, Body: cond}}
		}
		return p
	}
	ctxHas := func(f string) ast.IsNode {
		return ast.NodeTypeHas{StrOpNode: ast.StrOpNode{Arg: ast.NodeTypeVariable{Name: "context"}, Value: types.String(f)}}
	}
	asts := []*ast.Policy{mk(0, ast.EffectPermit, nil), mk(1, ast.EffectForbid, ctxHas("deny")), mk(2, ast.EffectPermit, ast.NodeTypeAdd{BinaryNode: ast.BinaryNode{Left: lit(types.Long(9223372036854775807)), Right: lit(types.Long(1))}})}
	var pols []*cedar.Policy
	var encPols []any
	for _, a := range asts {
		ip := vh.MkPolicy("x", a)
		pols = append(pols, ip.P)
		encPols = append(encPols, vh.EncPolicy(a))
	}
	mkEnv := func(ctx types.RecordMap) vh.EnvEnc {
		return vh.MkEnvEnc(eval.Env{Entities: types.EntityMap{}, Principal: types.NewEntityUID("User", "a"), Action: types.NewEntityUID("Action", "a"), Resource: types.NewEntityUID("Doc", "a"), Context: types.NewRecord(ctx)})
	}
	envs := []vh.EnvEnc{mkEnv(nil), mkEnv(types.RecordMap{"deny": types.True})}
	for _, e := range envs {
		b.EnvRef(e)
	}

	runHistory := func(ops []psOp) {
		set := cedar.NewPolicySet()
		oracle := map[string]int{} // id -> policy index
		var outs []string
		var encOps []any
		mutations := 0
		for _, op := range ops {
			pn := vh.Protect(func() {
				switch op.kind {
				case "add":
					_, existed := oracle[op.id]
					got := set.Add(cedar.PolicyID(op.id), pols[op.k])
					oracle[op.id] = op.k
					mutations++
					outs = append(outs, fmt.Sprint(got))
					encOps = append(encOps, []any{"add", vh.Hex(op.id), op.k})
					if got == existed {
						c.Report(vh.Finding{Class: "pset-add-return", What: fmt.Sprintf("Add(%q) returned %v but id existed=%v", op.id, got, existed), Check: "oracle", Op: "pset", Input: ops})
					}
				case "remove":
					_, existed := oracle[op.id]
					got := set.Remove(cedar.PolicyID(op.id))
					delete(oracle, op.id)
					mutations++
					outs = append(outs, fmt.Sprint(got))
					encOps = append(encOps, []any{"remove", vh.Hex(op.id)})
					if got != existed {
						c.Report(vh.Finding{Class: "pset-remove-return", What: fmt.Sprintf("Remove(%q) returned %v but id existed=%v", op.id, got, existed), Check: "oracle", Op: "pset", Input: ops})
					}
				case "get":
					p := set.Get(cedar.PolicyID(op.id))
					k, ok := oracle[op.id]
					s := "none"
					if p != nil {
						s = "p" + string(p.Annotations()["k"])
					}
					outs = append(outs, s)
					encOps = append(encOps, []any{"get", vh.Hex(op.id)})
					if (p != nil) != ok || (ok && string(p.Annotations()["k"]) != fmt.Sprint(k)) {
						c.Report(vh.Finding{Class: "pset-get", What: fmt.Sprintf("Get(%q) = %s, map says %v/%d", op.id, s, ok, k), Check: "oracle", Op: "pset", Input: ops})
					}
				case "reset":
					// UnmarshalJSON into the EXISTING set must replace its contents
					fresh := cedar.NewPolicySet()
					var ents []any
					var ks []string
					for id := range op.ents {
						ks = append(ks, id)
					}
					sort.Strings(ks)
					for _, id := range ks {
						fresh.Add(cedar.PolicyID(id), pols[op.ents[id]])
						ents = append(ents, []any{vh.Hex(id), op.ents[id]})
					}
					jb, err := fresh.MarshalJSON()
					if err == nil {
						err = set.UnmarshalJSON(jb)
					}
					if err != nil {
						c.Report(vh.Finding{Class: "pset-json-roundtrip", What: "UnmarshalJSON into existing set failed: " + err.Error(), Check: "oracle", Op: "pset", Input: ops})
					}
					oracle = map[string]int{}
					for id, k := range op.ents {
						oracle[id] = k
					}
					mutations++
					outs = append(outs, "reset")
					if ents == nil {
						ents = []any{}
					}
					encOps = append(encOps, []any{"reset", ents})
				case "ids":
					// MarshalCedar order == lexicographic id order: recover ids through the JSON form and the text form
					var ids []string
					for id := range set.Map() {
						ids = append(ids, string(id))
					}
					sort.Strings(ids)
					var want []string
					for id := range oracle {
						want = append(want, id)
					}
					sort.Strings(want)
					if strings.Join(ids, ",") != strings.Join(want, ",") {
						c.Report(vh.Finding{Class: "pset-contents", What: fmt.Sprintf("contents %v, map says %v", ids, want), Check: "oracle", Op: "pset", Input: ops})
					}
					// the marshalled text must list the policies in that order: check via the per-policy texts
					var texts []string
					for _, id := range want {
						texts = append(texts, string(pols[oracle[id]].MarshalCedar()))
					}
					if got := string(set.MarshalCedar()); got != strings.Join(texts, "\n\n") {
						c.Report(vh.Finding{Class: "pset-marshal-order", What: fmt.Sprintf("MarshalCedar order differs from lexicographic id order: %q", got), Check: "oracle", Op: "pset", Input: ops})
					}
					// JSON round trip keeps ids and contents
					if jb, err := set.MarshalJSON(); err == nil {
						var back cedar.PolicySet
						if err := back.UnmarshalJSON(jb); err != nil {
							c.Report(vh.Finding{Class: "pset-json-roundtrip", What: "UnmarshalJSON(MarshalJSON) failed: " + err.Error(), Check: "oracle", Op: "pset", Input: ops})
						} else {
							var bids []string
							for id, p := range back.Map() {
								bids = append(bids, string(id))
								if string(p.MarshalCedar()) != string(pols[oracle[string(id)]].MarshalCedar()) {
									c.Report(vh.Finding{Class: "pset-json-roundtrip", What: "policy changed through JSON round trip", Check: "oracle", Op: "pset", Input: ops})
								}
							}
							sort.Strings(bids)
							if strings.Join(bids, ",") != strings.Join(want, ",") {
								c.Report(vh.Finding{Class: "pset-json-roundtrip", What: fmt.Sprintf("ids after JSON round trip %v want %v", bids, want), Check: "oracle", Op: "pset", Input: ops})
							}
						}
					}
					// Map() is a copy
					m := set.Map()
					m["__intruder"] = pols[0]
					delete(m, cedar.PolicyID(firstOr(want)))
					if set.Get("__intruder") != nil || (len(want) > 0 && set.Get(cedar.PolicyID(want[0])) == nil) {
						c.Report(vh.Finding{Class: "pset-map-alias", What: "mutating Map() changed the set", Check: "oracle", Op: "pset", Input: ops})
					}
					var hx []string
					for _, id := range ids {
						hx = append(hx, vh.Hex(id))
					}
					outs = append(outs, strings.Join(hx, ","))
					encOps = append(encOps, []any{"ids"})
				case "authz":
					env := envs[op.k]
					req, _ := vh.RequestOf(env.Env)
					d, diag := cedar.Authorize(set, env.Env.Entities, req)
					got := vh.ShowAuthz(d, diag)
					// oracle: authorize the map's contents as a fresh slice iterator
					var ps []vh.IDPolicy
					for id, k := range oracle {
						ps = append(ps, vh.IDPolicy{ID: cedar.PolicyID(id), AST: asts[k], P: pols[k]})
					}
					want := vh.SpecAuthz(ps, env.Env)
					if got != want {
						c.Report(vh.Finding{Class: "pset-authz-contents", What: fmt.Sprintf("Authorize on the set = %q, on the map contents = %q", got, want), Check: "oracle", Op: "pset", Input: ops})
					}
					outs = append(outs, got)
					encOps = append(encOps, []any{"authz", env.Name})
				}
			})
			if pn != nil {
				c.Report(vh.Finding{Class: "pset-panic", What: fmt.Sprintf("operation %s panicked after the preceding history: %v", op.kind, pn), Check: "oracle", Op: "pset", Input: ops})
				break
			}
			c.Res.OracleChecks++
		}
		idx := b.Add("pset", map[string]any{"policies": encPols, "ops": encOps}, strings.Join(outs, ";"), "")
		c.Count(b.Key(idx), mutations > 0)
		c.Dist(fmt.Sprintf("len:%d", len(ops)))
	}

	ids3 := []string{"a", "b", "policy1"}
	var alphabet []psOp
	for _, id := range ids3 {
		for k := 0; k < 3; k++ {
			alphabet = append(alphabet, psOp{kind: "add", id: id, k: k})
		}
		alphabet = append(alphabet, psOp{kind: "remove", id: id}, psOp{kind: "get", id: id})
	}
	alphabet = append(alphabet, psOp{kind: "reset", ents: map[string]int{}}, psOp{kind: "reset", ents: map[string]int{"b": 1, "zz": 0}})
	maxLen := c.N(3, 4)
	var rec func(prefix []psOp)
	rec = func(prefix []psOp) {
		full := append(append([]psOp{}, prefix...), psOp{kind: "ids"}, psOp{kind: "authz", k: 0}, psOp{kind: "authz", k: 1})
		runHistory(full)
		if len(prefix) == maxLen {
			return
		}
		for _, a := range alphabet {
			rec(append(prefix, a))
		}
	}
	rec(nil)
	ids6 := []string{"a", "b", "policy1", "policy10", "policy2", "é", ""}
	for i := 0; i < c.N(2000, 100000); i++ {
		n := 1 + c.Rng.Intn(30)
		var ops []psOp
		for k := 0; k < n; k++ {
			id := ids6[c.Rng.Intn(len(ids6))]
			switch c.Rng.Intn(8) {
			case 7:
				ents := map[string]int{}
				for e := c.Rng.Intn(4); e > 0; e-- {
					ents[ids6[c.Rng.Intn(len(ids6))]] = c.Rng.Intn(3)
				}
				ops = append(ops, psOp{kind: "reset", ents: ents})
			case 0, 1, 2:
				ops = append(ops, psOp{kind: "add", id: id, k: c.Rng.Intn(3)})
			case 3:
				ops = append(ops, psOp{kind: "remove", id: id})
			case 4:
				ops = append(ops, psOp{kind: "get", id: id})
			case 5:
				ops = append(ops, psOp{kind: "ids"})
			default:
				ops = append(ops, psOp{kind: "authz", k: c.Rng.Intn(2)})
			}
		}
		ops = append(ops, psOp{kind: "ids"})
		runHistory(ops)
	}
	// loading a document: ids policy0.. in document order, file name everywhere
	for n := 0; n <= 12; n++ {
		var doc strings.Builder
		for i := 0; i < n; i++ {
			if i%2 == 0 {
				fmt.Fprintf(&doc, "permit (principal, action, resource) when { context.n == %d };\n", i)
			} else {
				fmt.Fprintf(&doc, "forbid (principal, action, resource)\nwhen { %d < 0 };\n\n", i)
			}
		}
		set, err := cedar.NewPolicySetFromBytes("doc.cedar", []byte(doc.String()))
		c.Res.OracleChecks++
		if err != nil {
			c.Report(vh.Finding{Class: "pset-load", What: "load failed: " + err.Error(), Check: "oracle", Op: "load", Input: doc.String()})
			continue
		}
		list, _ := cedar.NewPolicyListFromBytes("doc.cedar", []byte(doc.String()))
		if len(set.Map()) != n || len(list) != n {
			c.Report(vh.Finding{Class: "pset-load", What: fmt.Sprintf("loaded %d policies, want %d", len(set.Map()), n), Check: "oracle", Op: "load", Input: doc.String()})
			continue
		}
		for i := 0; i < n; i++ {
			p := set.Get(cedar.PolicyID(fmt.Sprintf("policy%d", i)))
			if p == nil || p.Position().Filename != "doc.cedar" || string(p.MarshalCedar()) != string(list[i].MarshalCedar()) || p.Position() != list[i].Position() {
				c.Report(vh.Finding{Class: "pset-load", What: fmt.Sprintf("policy%d is not the %dth policy of the document with the given file name", i, i), Check: "oracle", Op: "load", Input: doc.String()})
			}
		}
		c.Count("load"+fmt.Sprint(n), n > 0)
	}
	if bs, err := json.Marshal(map[string]any{"history": "add a p0; add a p1; remove b; get a; ids; authz"}); err == nil {
		c.Sample(json.RawMessage(bs))
	}
	ds, _, err := c.Correspond(b)
	if err != nil {
		c.Report(vh.Finding{Class: "driver-failure", What: err.Error(), Check: "correspondence", Op: "pset", NoInput: true})
		return
	}
	for _, d := range ds {
		c.Report(vh.Finding{Class: "pset-model-mismatch", What: fmt.Sprintf("history disagreement: impl=%q model=%q", d.Line.Impl, d.Model),
			Check: "correspondence", Op: "pset", Input: d.Line.Payload(), Expected: d.Model, Actual: d.Line.Impl})
	}
}

func firstOr(xs []string) string {
	if len(xs) > 0 {
		return xs[0]
	}
	return "__none"
}
