package main

// C16 subprocess worker: `vh -c16worker` reads one JSON case per line on stdin (schema in the tagged encoding of
// vh/enc_c1617.go + a list of operations), runs every operation on the real code under recover and prints one line
// per operation. Fatal errors (stack overflow) and hangs kill only this process; the parent (c16.go) attributes them.

import (
	"bufio"
	"encoding/json"
	"fmt"
	"net/netip"
	"os"
	"regexp"
	"runtime/debug"
	"runtime/pprof"
	"strings"
	"time"

	cedar "github.com/cedar-policy/cedar-go"
	"github.com/cedar-policy/cedar-go/types"
	"github.com/cedar-policy/cedar-go/x/exp/ast"
	"github.com/cedar-policy/cedar-go/x/exp/schema"
	"github.com/cedar-policy/cedar-go/x/exp/schema/resolved"
	"github.com/cedar-policy/cedar-go/x/exp/schema/validate"

	"verifharness/vh"
)

func init() {
	if len(os.Args) > 1 && os.Args[1] == "-c16worker" {
		c16WorkerMain()
		if os.Getenv("VH_C16_PROF") != "" {
			pprof.StopCPUProfile()
		}
		os.Exit(0)
	}
}

type c16Op struct {
	I    int    `json:"i"`              // index of the operation inside its case
	K    string `json:"k"`              // resolve | policy | policy-built | entity | entities | request | entdesc | actdesc | typesin
	Mode string `json:"mode,omitempty"` // strict | permissive
	Fmt  string `json:"fmt,omitempty"`  // cedar | json (policy source format)
	Src  string `json:"src,omitempty"`  // policy source / entity JSON / entities JSON / request JSON
	A    string `json:"a,omitempty"`    // type name (entdesc, typesin) or action type (actdesc)
	AID  string `json:"aid,omitempty"`
	B    string `json:"b,omitempty"`
	BID  string `json:"bid,omitempty"`
	S    any    `json:"s,omitempty"` // resolve only: a schema of its own (phase 1 batches many schemas per message)
	Flag bool   `json:"-"`           // parent-side: predicted to possibly diverge (sampled in the quick tier)
}

type c16Msg struct {
	ID     int     `json:"id"`
	Schema any     `json:"schema"`
	Ops    []c16Op `json:"ops"`
}

type c16Request struct {
	P, A, R types.EntityUID
	C       types.Record
}

func (r c16Request) MarshalJSON() ([]byte, error) {
	return json.Marshal(map[string]any{"p": r.P, "a": r.A, "r": r.R, "c": r.C})
}

var frameRe = regexp.MustCompile(`validate\.\(\*Validator\)\.(\w+)|resolved\.\(\*resolverState\)\.(\w+)|resolved\.(\w+)\(`)

// stackFuncs extracts the first few cedar-go function names of a stack dump (for the narrow classifiers).
func stackFuncs(stack string) string {
	var out []string
	for _, m := range frameRe.FindAllStringSubmatch(stack, 12) {
		for _, g := range m[1:] {
			if g != "" && (len(out) == 0 || out[len(out)-1] != g) {
				out = append(out, g)
			}
		}
	}
	return strings.Join(out, ">")
}

// builtPolicies are policies that only the public builder API can produce: literal extension VALUES (not calls).
func builtPolicy(k string) *ast.Policy {
	p := ast.Permit()
	switch k {
	case "ip":
		return p.When(ast.IPAddr(netip.MustParsePrefix("10.0.0.1/32")).Equal(ast.IPAddr(netip.MustParsePrefix("10.0.0.1/32"))))
	case "datetime":
		return p.When(ast.Datetime(time.UnixMilli(0)).Equal(ast.Datetime(time.UnixMilli(0))))
	case "duration":
		return p.When(ast.Duration(time.Second).Equal(ast.Duration(time.Second)))
	case "set-value":
		return p.When(ast.Value(types.NewSet(types.Long(1))).Equal(ast.Value(types.NewSet(types.Long(1)))))
	case "record-value":
		return p.When(ast.Value(types.NewRecord(types.RecordMap{"a": types.Long(1)})).Equal(ast.Long(1)))
	case "long":
		return p.When(ast.Long(1).Equal(ast.Long(1)))
	}
	return p
}

func c16RunOp(rs *resolved.Schema, resolveLine string, op c16Op) (out string) {
	defer func() {
		if r := recover(); r != nil {
			out = fmt.Sprintf("panic\t%s\t%s", strings.ReplaceAll(fmt.Sprint(r), "\n", " "), stackFuncs(string(debug.Stack())))
		}
	}()
	if op.K == "resolve" {
		if op.S != nil {
			r, e := schema.NewSchemaFromAST(vh.DecSchema(op.S)).Resolve()
			if e != nil {
				return "resolve\terr"
			}
			return "resolve\tok " + vh.DumpResolved(r)
		}
		return resolveLine
	}
	if rs == nil {
		return "skip\tunresolved"
	}
	var opts []validate.Option
	if op.Mode == "permissive" {
		opts = append(opts, validate.WithPermissive())
	}
	v := validate.New(rs, opts...)
	verdict := func(err error) string {
		if err == nil {
			return "verdict\tok"
		}
		return "verdict\terr"
	}
	switch op.K {
	case "policy":
		var p cedar.Policy
		var err error
		if op.Fmt == "json" {
			err = p.UnmarshalJSON([]byte(op.Src))
		} else {
			err = p.UnmarshalCedar([]byte(op.Src))
		}
		if err != nil {
			return "skip\tbad-policy " + strings.ReplaceAll(err.Error(), "\n", " ")
		}
		return verdict(v.Policy("policy0", (*ast.Policy)(p.AST())))
	case "policy-built":
		return verdict(v.Policy("policy0", builtPolicy(op.Src)))
	case "entity":
		var e types.Entity
		if err := json.Unmarshal([]byte(op.Src), &e); err != nil {
			return "skip\tbad-entity " + err.Error()
		}
		return verdict(v.Entity(e))
	case "entities":
		var em types.EntityMap
		if err := json.Unmarshal([]byte(op.Src), &em); err != nil {
			return "skip\tbad-entities " + err.Error()
		}
		return verdict(v.Entities(em))
	case "request":
		var m struct {
			P, A, R types.EntityUID
			C       types.Record
		}
		if err := json.Unmarshal([]byte(op.Src), &m); err != nil {
			return "skip\tbad-request " + err.Error()
		}
		return verdict(v.Request(types.Request{Principal: m.P, Action: m.A, Resource: m.R, Context: m.C}))
	case "entdesc":
		return fmt.Sprintf("value\t%v", v.VerifIsEntityDescendant(types.EntityType(op.A), types.EntityType(op.B)))
	case "actdesc":
		return fmt.Sprintf("value\t%v", v.VerifIsActionDescendant(types.NewEntityUID(types.EntityType(op.A), types.String(op.AID)), types.NewEntityUID(types.EntityType(op.B), types.String(op.BID))))
	case "typesin":
		ts := v.VerifGetEntityTypesIn(types.EntityType(op.A))
		ss := make([]string, len(ts))
		for i, t := range ts {
			ss[i] = vh.Hex(string(t))
		}
		return "value\t" + strings.Join(vh.SortDedupStrings(ss), ",")
	}
	return "skip\tunknown-op"
}

func c16WorkerMain() {
	if pf := os.Getenv("VH_C16_PROF"); pf != "" {
		f, _ := os.Create(pf)
		pprof.StartCPUProfile(f)
		defer pprof.StopCPUProfile()
	}
	debug.SetGCPercent(400)
	maxStack := 64 << 20
	if s := os.Getenv("VH_C16_MAXSTACK"); s != "" {
		fmt.Sscan(s, &maxStack)
	}
	debug.SetMaxStack(maxStack)
	in := bufio.NewReaderSize(os.Stdin, 1<<20)
	out := bufio.NewWriter(os.Stdout)
	for {
		line, err := in.ReadBytes('\n')
		if len(line) > 1 {
			var m c16Msg
			if e := json.Unmarshal(line, &m); e != nil {
				fmt.Fprintf(out, "%d\t-1\tskip\tbad-message %v\n", m.ID, e)
				out.Flush()
			} else {
				// the schema is resolved once per case; the resolve op reports its outcome
				var rs *resolved.Schema
				resolveLine := "resolve\terr"
				func() {
					defer func() {
						if r := recover(); r != nil {
							resolveLine = fmt.Sprintf("panic\t%s\t%s", strings.ReplaceAll(fmt.Sprint(r), "\n", " "), stackFuncs(string(debug.Stack())))
						}
					}()
					fmt.Fprintf(out, "%d\t-2\tresolving\n", m.ID)
					out.Flush()
					if m.Schema == nil {
						return
					}
					r, e := schema.NewSchemaFromAST(vh.DecSchema(m.Schema)).Resolve()
					if e == nil {
						rs = r
						resolveLine = "resolve\tok " + vh.DumpResolved(r)
					}
				}()
				for _, op := range m.Ops {
					fmt.Fprintf(out, "%d\t%d\t%s\n", m.ID, op.I, c16RunOp(rs, resolveLine, op))
					out.Flush()
				}
				fmt.Fprintf(out, "%d\t-1\tdone\n", m.ID)
				out.Flush()
			}
		}
		if err != nil {
			return
		}
	}
}
