package main

// C08 — arithmetic chains.  Cedar's `+`, `-`, `*` and unary `-` are CHECKED (overflow is an error), so no two
// parenthesisations of the same operand/operator sequence mean the same: `a * (b * c)` and `(a * b) * c`
// differ on a=0, b=MaxInt64, c=2 (error vs 0).  A printer that drops (or a parser that regroups) one pair of
// parentheses therefore changes the meaning, but only on overflow-sensitive operands.
//
// This file builds, PROGRAMMATICALLY AS ASTs (independent of printer and parser), every parenthesisation of
// every operator sequence of length 3 and 4 over {+, -, *} (so every (outer, inner, side) combination of
// same-precedence operators — `*`/`*`, `+`/`+`, `+`/`-`, `-`/`+`, `-`/`-` — and the cross-precedence ones),
// also with unary minus inserted at leaves, inner nodes and the root, and chooses the operands so that the
// tree is told apart from its nearest MIS-PARENTHESISATIONS (every single rotation that keeps the token order,
// every shift of a unary minus over an operator, and the fully "flat" reading of the token sequence):
// operands are searched over {0, ±1, 2, MaxInt64, MinInt64} with an independent checked-arithmetic evaluator,
// and used both as integer literals and as context attributes of environments built for that policy.
//
// c08StructDiff is the structural comparison original AST vs reparsed AST up to the documented normalisations.

import (
	"fmt"
	"math"
	"strings"

	cedar "github.com/cedar-policy/cedar-go"
	"github.com/cedar-policy/cedar-go/types"
	"github.com/cedar-policy/cedar-go/x/exp/ast"
	"github.com/cedar-policy/cedar-go/x/exp/eval"

	"verifharness/vh"
)

// c08T is an arithmetic tree over numbered leaves: op 0 = leaf, 'n' = unary minus (operand l), '+', '-', '*'.
type c08T struct {
	op   byte
	l, r *c08T
	leaf int
}

func c08Leaf(i int) *c08T              { return &c08T{leaf: i} }
func c08Neg(t *c08T) *c08T             { return &c08T{op: 'n', l: t} }
func c08Bin(op byte, l, r *c08T) *c08T { return &c08T{op: op, l: l, r: r} }
func (t *c08T) isBin() bool            { return t.op == '+' || t.op == '-' || t.op == '*' }

func (t *c08T) String() string {
	switch {
	case t.op == 0:
		return string(rune('a' + t.leaf))
	case t.op == 'n':
		return "-(" + t.l.String() + ")"
	}
	return "(" + t.l.String() + string(t.op) + t.r.String() + ")"
}

// checked int64 arithmetic, written independently of cedar-go's evaluator
func c08Add(a, b int64) (int64, bool) { c := a + b; return c, (c > a) == (b > 0) }
func c08Sub(a, b int64) (int64, bool) { c := a - b; return c, (c < a) == (b > 0) }
func c08Mul(a, b int64) (int64, bool) {
	if a == 0 || b == 0 {
		return 0, true
	}
	if (a == -1 && b == math.MinInt64) || (b == -1 && a == math.MinInt64) {
		return 0, false
	}
	c := a * b
	return c, c/b == a
}

// eval: (value, true) or (_, false) on overflow — left operand first, like the language.
func (t *c08T) eval(vals []int64) (int64, bool) {
	switch {
	case t.op == 0:
		return vals[t.leaf], true
	case t.op == 'n':
		v, ok := t.l.eval(vals)
		if !ok || v == math.MinInt64 {
			return 0, false
		}
		return -v, true
	}
	a, ok := t.l.eval(vals)
	if !ok {
		return 0, false
	}
	b, ok := t.r.eval(vals)
	if !ok {
		return 0, false
	}
	switch t.op {
	case '+':
		return c08Add(a, b)
	case '-':
		return c08Sub(a, b)
	}
	return c08Mul(a, b)
}

// c08Bracketings: every parenthesisation of  leaf[lo] ops[lo] leaf[lo+1] … ops[hi-1] leaf[hi].
func c08Bracketings(ops []byte, lo, hi int) []*c08T {
	if lo == hi {
		return []*c08T{c08Leaf(lo)}
	}
	var out []*c08T
	for s := lo; s < hi; s++ { // ops[s] is the root
		for _, l := range c08Bracketings(ops, lo, s) {
			for _, r := range c08Bracketings(ops, s+1, hi) {
				out = append(out, c08Bin(ops[s], l, r))
			}
		}
	}
	return out
}

// positions: number of nodes (pre-order numbering).
func (t *c08T) size() int {
	switch {
	case t.op == 0:
		return 1
	case t.op == 'n':
		return 1 + t.l.size()
	}
	return 1 + t.l.size() + t.r.size()
}

// withNegAt wraps the node with pre-order number pos in a unary minus.
func (t *c08T) withNegAt(pos int) *c08T {
	if pos == 0 {
		return c08Neg(t)
	}
	switch {
	case t.op == 0:
		return t
	case t.op == 'n':
		return c08Neg(t.l.withNegAt(pos - 1))
	}
	ls := t.l.size()
	if pos-1 < ls {
		return c08Bin(t.op, t.l.withNegAt(pos-1), t.r)
	}
	return c08Bin(t.op, t.l, t.r.withNegAt(pos-1-ls))
}

// localMutants: the mis-parenthesisations at the root that keep the token order.
func (t *c08T) localMutants() []*c08T {
	var out []*c08T
	switch {
	case t.op == 'n' && t.l.isBin(): // -(a o b)  read as  -a o b
		out = append(out, c08Bin(t.l.op, c08Neg(t.l.l), t.l.r))
	case t.isBin():
		if t.l.isBin() { // (a o2 b) o1 c  read as  a o2 (b o1 c)
			out = append(out, c08Bin(t.l.op, t.l.l, c08Bin(t.op, t.l.r, t.r)))
		}
		if t.r.isBin() { // a o1 (b o2 c)  read as  (a o1 b) o2 c
			out = append(out, c08Bin(t.r.op, c08Bin(t.op, t.l, t.r.l), t.r.r))
		}
		if t.l.op == 'n' { // -a o b  read as  -(a o b)
			out = append(out, c08Neg(c08Bin(t.op, t.l.l, t.r)))
		}
	}
	return out
}

func (t *c08T) mutants() []*c08T {
	out := t.localMutants()
	switch {
	case t.op == 'n':
		for _, m := range t.l.mutants() {
			out = append(out, c08Neg(m))
		}
	case t.isBin():
		for _, m := range t.l.mutants() {
			out = append(out, c08Bin(t.op, m, t.r))
		}
		for _, m := range t.r.mutants() {
			out = append(out, c08Bin(t.op, t.l, m))
		}
	}
	return out
}

// flat: the tree a parser builds from t's token sequence with every parenthesis removed
// (unary minus binds tightest, `*` before `+`/`-`, left-associative).
func (t *c08T) flat() *c08T {
	type tok struct {
		k    byte // 'l' leaf, 'n' unary minus, or a binary operator
		leaf int
	}
	var toks []tok
	var walk func(x *c08T)
	walk = func(x *c08T) {
		switch {
		case x.op == 0:
			toks = append(toks, tok{'l', x.leaf})
		case x.op == 'n':
			toks = append(toks, tok{'n', 0})
			walk(x.l)
		default:
			walk(x.l)
			toks = append(toks, tok{x.op, 0})
			walk(x.r)
		}
	}
	walk(t)
	i := 0
	var unary func() *c08T
	unary = func() *c08T {
		if toks[i].k == 'n' {
			i++
			return c08Neg(unary())
		}
		l := c08Leaf(toks[i].leaf)
		i++
		return l
	}
	mul := func() *c08T {
		x := unary()
		for i < len(toks) && toks[i].k == '*' {
			i++
			x = c08Bin('*', x, unary())
		}
		return x
	}
	x := mul()
	for i < len(toks) && (toks[i].k == '+' || toks[i].k == '-') {
		op := toks[i].k
		i++
		x = c08Bin(op, x, mul())
	}
	return x
}

var c08Operands = []int64{0, 1, -1, 2, math.MaxInt64, math.MinInt64}
var c08Neighbours = []int64{0, 1, -1, 2, -2, 3, math.MaxInt64, math.MaxInt64 - 1, math.MinInt64, math.MinInt64 + 1, math.MaxInt64 / 2, math.MaxInt64/2 + 1, math.MinInt64 / 2, math.MinInt64/2 - 1, 3037000499, 3037000500, -3037000500, 1 << 32, 1 << 62, -(1 << 62)}

// c08Distinguishing returns up to max operand assignments (n leaves) that together tell t apart from as many of
// its mis-parenthesisations as possible (greedy cover), found with the independent evaluator; assignment
// enumeration starts at a rotating offset so that different trees do not all get the same witnesses.
func c08Distinguishing(t *c08T, n, max, rot int) (out [][]int64, covered, total int) {
	key := t.String()
	var ms []*c08T
	seen := map[string]bool{key: true}
	for _, m := range append(t.mutants(), t.flat()) {
		if !seen[m.String()] {
			seen[m.String()] = true
			ms = append(ms, m)
		}
	}
	total = len(ms)
	if total == 0 {
		return nil, 0, 0
	}
	k := len(c08Operands)
	cnt := 1
	for i := 0; i < n; i++ {
		cnt *= k
	}
	done := make([]bool, len(ms))
	vals := make([]int64, n)
	for len(out) < max && covered < total {
		best, bestGain := -1, 0
		for a0 := 0; a0 < cnt; a0++ {
			a := (a0 + rot) % cnt
			for i, x := 0, a; i < n; i, x = i+1, x/k {
				vals[i] = c08Operands[x%k]
			}
			v, ok := t.eval(vals)
			gain := 0
			for j, m := range ms {
				if done[j] {
					continue
				}
				if w, okm := m.eval(vals); okm != ok || (ok && w != v) {
					gain++
				}
			}
			if gain > bestGain {
				best, bestGain = a, gain
			}
		}
		if best < 0 {
			break
		}
		pick := make([]int64, n)
		for i, x := 0, best; i < n; i, x = i+1, x/k {
			pick[i] = c08Operands[x%k]
		}
		v, ok := t.eval(pick)
		for j, m := range ms {
			if w, okm := m.eval(pick); !done[j] && (okm != ok || (ok && w != v)) {
				done[j] = true
				covered++
			}
		}
		out = append(out, pick)
	}
	return
}

var c08CtxNames = []types.String{"n", "m", "k", "j"}

// c08CtxEnv: base with context attributes n, m, k, j set to vals (other context attributes kept).
func c08CtxEnv(base eval.Env, vals []int64) vh.EnvEnc {
	m := types.RecordMap{}
	if r, ok := base.Context.(types.Record); ok {
		for k, v := range r.All() {
			m[k] = v
		}
	}
	for i, v := range vals {
		m[c08CtxNames[i]] = types.Long(v)
	}
	e := base
	e.Context = types.NewRecord(m)
	return vh.EnvEnc{Env: e}
}

// c08CtxShow: the long-typed context attributes n, m, k, j of an environment (for failure reports).
func c08CtxShow(e eval.Env) string {
	r, ok := e.Context.(types.Record)
	if !ok {
		return "context " + vh.ShowValue(e.Context)
	}
	var xs []string
	for _, k := range c08CtxNames {
		if v, ok := r.Get(k); ok {
			if l, isLong := v.(types.Long); isLong {
				xs = append(xs, fmt.Sprintf("context.%s=%d", k, int64(l)))
			}
		}
	}
	return strings.Join(xs, " ") + fmt.Sprintf("; whole context %.200s", vh.ShowValue(e.Context))
}

func c08Lit(v int64) ast.IsNode { return ast.NodeValue{Value: types.Long(v)} }
func c08Ctx(i int) ast.IsNode {
	return ast.NodeTypeAccess{StrOpNode: ast.StrOpNode{Arg: ast.NodeTypeVariable{Name: "context"}, Value: c08CtxNames[i]}}
}

// node builds the AST of t; operand(i) supplies leaf i.
func (t *c08T) node(operand func(i int) ast.IsNode) ast.IsNode {
	switch {
	case t.op == 0:
		return operand(t.leaf)
	case t.op == 'n':
		return ast.NodeTypeNegate{UnaryNode: ast.UnaryNode{Arg: t.l.node(operand)}}
	}
	b := ast.BinaryNode{Left: t.l.node(operand), Right: t.r.node(operand)}
	switch t.op {
	case '+':
		return ast.NodeTypeAdd{BinaryNode: b}
	case '-':
		return ast.NodeTypeSub{BinaryNode: b}
	}
	return ast.NodeTypeMult{BinaryNode: b}
}

// text writes t with explicit parentheses around every operator application (top: the outermost pair is omitted).
func (t *c08T) text(operand func(i int) string, top bool) string {
	switch {
	case t.op == 0:
		return operand(t.leaf)
	case t.op == 'n':
		if t.l.op == 0 {
			return "-" + operand(t.l.leaf)
		}
		return "-" + t.l.text(operand, false)
	}
	s := t.l.text(operand, false) + " " + string(t.op) + " " + t.r.text(operand, false)
	if top {
		return s
	}
	return "(" + s + ")"
}

type c08Chain struct {
	src  string // "builder" (AST built programmatically) or "text" (parsed from a fully parenthesised text written here)
	tag  string
	p    *ast.Policy
	envs []vh.EnvEnc // environments built for this policy (in addition to the shared pool)
}

// c08Chains generates the chain policies.  base: environments whose entities / principal etc. are reused.
func c08Chains(c *vh.Ctx, sg *vh.SynGen, base []vh.EnvEnc) []c08Chain {
	var out []c08Chain
	rnd := c.Rng
	var trees []*c08T
	var seqs [][]byte
	ops := []byte{'+', '-', '*'}
	for _, a := range ops {
		for _, b := range ops {
			seqs = append(seqs, []byte{a, b})
		}
	}
	for _, a := range ops {
		for _, b := range ops {
			for _, d := range ops {
				same := (a == '*') == (b == '*') && (b == '*') == (d == '*')
				// quick tier: every same-precedence sequence of length 4, a sample of the cross-precedence ones
				if same || c.Thorough() || rnd.Intn(4) == 0 {
					seqs = append(seqs, []byte{a, b, d})
				}
			}
		}
	}
	for _, s := range seqs {
		trees = append(trees, c08Bracketings(s, 0, len(s))...)
	}
	wrap := func(n ast.IsNode) ast.IsNode { // the chain bare, or as an operand of a comparison
		switch rnd.Intn(4) {
		case 0:
			return ast.NodeTypeEquals{BinaryNode: ast.BinaryNode{Left: n, Right: c08Lit(0)}}
		case 1:
			return ast.NodeTypeLessThan{BinaryNode: ast.BinaryNode{Left: c08Lit(0), Right: n}}
		}
		return n
	}
	litOperand := func(v int64) ast.IsNode {
		if v < 0 && v != math.MinInt64 && rnd.Intn(4) == 0 {
			return ast.NodeTypeNegate{UnaryNode: ast.UnaryNode{Arg: c08Lit(-v)}} // `-`(literal): read back as the negative literal
		}
		return c08Lit(v)
	}
	randVals := func(n int) []int64 {
		vs := make([]int64, n)
		for i := range vs {
			vs[i] = c08Neighbours[rnd.Intn(len(c08Neighbours))]
		}
		return vs
	}
	emit := func(kind string, t *c08T, n int) {
		nAssign := c.N(2, 4)
		as, covered, total := c08Distinguishing(t, n, nAssign, rnd.Intn(1296))
		c.Dist(fmt.Sprintf("chain-mutants-told-apart:%d/%d", covered, total))
		as = append(as, randVals(n))
		// literal operands: one policy per assignment
		for _, vs := range as {
			vs := vs
			out = append(out, c08Chain{src: "builder", tag: "chain-" + kind + "-lit:" + t.String(), p: sg.PolicyWith(wrap(t.node(func(i int) ast.IsNode { return litOperand(vs[i]) })))})
		}
		// context attributes: one policy, one environment per assignment (+ random boundary ones)
		var envs []vh.EnvEnc
		for _, vs := range as {
			envs = append(envs, c08CtxEnv(base[rnd.Intn(len(base))].Env, vs))
		}
		for i := 0; i < 3; i++ {
			envs = append(envs, c08CtxEnv(base[rnd.Intn(len(base))].Env, randVals(n)))
		}
		out = append(out, c08Chain{src: "builder", tag: "chain-" + kind + "-var:" + t.String(), p: sg.PolicyWith(wrap(t.node(c08Ctx))), envs: envs})
		// mixed: each leaf a literal of the first assignment or the attribute (the environments fit both)
		vs := as[0]
		mask := 1 + rnd.Intn(1<<n-2)
		out = append(out, c08Chain{src: "builder", tag: "chain-" + kind + "-mixed:" + t.String(), p: sg.PolicyWith(wrap(t.node(func(i int) ast.IsNode {
			if mask>>i&1 == 1 {
				return litOperand(vs[i])
			}
			return c08Ctx(i)
		}))), envs: envs})
		// from TEXT: the same tree written here with explicit parentheses around every operator (not by the printer
		// under test) and parsed; operands as in the mixed policy, or all attributes
		tmask := mask
		if rnd.Intn(2) == 0 {
			tmask = 0
		}
		src := "permit (principal, action, resource) when { " + t.text(func(i int) string {
			if tmask>>i&1 == 1 {
				if vs[i] < 0 && rnd.Intn(2) == 0 {
					return fmt.Sprintf("(%d)", vs[i])
				}
				return fmt.Sprint(vs[i])
			}
			return "context." + string(c08CtxNames[i])
		}, true) + " };"
		var pol cedar.Policy
		if err := pol.UnmarshalCedar([]byte(src)); err != nil {
			c.Report(vh.Finding{Class: "corpus-text-rejected", What: "valid policy rejected: " + src + ": " + err.Error(), Check: "oracle", Op: "UnmarshalCedar", Input: src})
		} else {
			out = append(out, c08Chain{src: "text", tag: "chain-" + kind + "-text:" + t.String(), p: (*ast.Policy)(pol.AST()), envs: envs})
		}
	}
	for _, t := range trees {
		n := (t.size() + 1) / 2
		emit("pure", t, n)
		// unary minus at one or two positions (leaf, inner node or root)
		for r := 0; r < c.N(2, 5); r++ {
			u := t.withNegAt(rnd.Intn(t.size()))
			if rnd.Intn(3) == 0 {
				u = u.withNegAt(rnd.Intn(u.size()))
			}
			emit("neg", u, n)
		}
	}
	return out
}

// ---- structural comparison --------------------------------------------------------------------------------------

// c08Parts decomposes a node into a label (node kind + its non-node attributes) and its operand nodes.
func c08Parts(n ast.IsNode) (string, []ast.IsNode) {
	b := func(l string, x ast.BinaryNode) (string, []ast.IsNode) { return l, []ast.IsNode{x.Left, x.Right} }
	switch v := n.(type) {
	case ast.NodeValue:
		return "value " + vh.ShowValue(v.Value), nil
	case ast.NodeTypeVariable:
		return "var " + string(v.Name), nil
	case ast.NodeTypeAnd:
		return b("&&", v.BinaryNode)
	case ast.NodeTypeOr:
		return b("||", v.BinaryNode)
	case ast.NodeTypeEquals:
		return b("==", v.BinaryNode)
	case ast.NodeTypeNotEquals:
		return b("!=", v.BinaryNode)
	case ast.NodeTypeLessThan:
		return b("<", v.BinaryNode)
	case ast.NodeTypeLessThanOrEqual:
		return b("<=", v.BinaryNode)
	case ast.NodeTypeGreaterThan:
		return b(">", v.BinaryNode)
	case ast.NodeTypeGreaterThanOrEqual:
		return b(">=", v.BinaryNode)
	case ast.NodeTypeAdd:
		return b("+", v.BinaryNode)
	case ast.NodeTypeSub:
		return b("-", v.BinaryNode)
	case ast.NodeTypeMult:
		return b("*", v.BinaryNode)
	case ast.NodeTypeIn:
		return b("in", v.BinaryNode)
	case ast.NodeTypeContains:
		return b("contains", v.BinaryNode)
	case ast.NodeTypeContainsAll:
		return b("containsAll", v.BinaryNode)
	case ast.NodeTypeContainsAny:
		return b("containsAny", v.BinaryNode)
	case ast.NodeTypeGetTag:
		return b("getTag", v.BinaryNode)
	case ast.NodeTypeHasTag:
		return b("hasTag", v.BinaryNode)
	case ast.NodeTypeNot:
		return "!", []ast.IsNode{v.Arg}
	case ast.NodeTypeNegate:
		return "neg", []ast.IsNode{v.Arg}
	case ast.NodeTypeIsEmpty:
		return "isEmpty", []ast.IsNode{v.Arg}
	case ast.NodeTypeIfThenElse:
		return "if", []ast.IsNode{v.If, v.Then, v.Else}
	case ast.NodeTypeAccess:
		return "access " + vh.Hex(string(v.Value)), []ast.IsNode{v.Arg}
	case ast.NodeTypeHas:
		return "has " + vh.Hex(string(v.Value)), []ast.IsNode{v.Arg}
	case ast.NodeTypeLike:
		return "like " + vh.ShowPatternC07(v.Value), []ast.IsNode{v.Arg}
	case ast.NodeTypeIs:
		return "is " + vh.Hex(string(v.EntityType)), []ast.IsNode{v.Left}
	case ast.NodeTypeIsIn:
		return "isIn " + vh.Hex(string(v.EntityType)), []ast.IsNode{v.Left, v.Entity}
	case ast.NodeTypeSet:
		return "set", v.Elements
	case ast.NodeTypeRecord:
		l := "record"
		var ks []ast.IsNode
		for _, e := range v.Elements {
			l += " " + vh.Hex(string(e.Key))
			ks = append(ks, e.Value)
		}
		return l, ks
	case ast.NodeTypeExtensionCall:
		return "call " + vh.Hex(string(v.Name)), v.Args
	}
	return fmt.Sprintf("unknown %T", n), nil
}

// c08StructDiff compares the ORIGINAL tree o with the REPARSED tree r.  "" = same tree up to the documented
// normalisations of a render/parse round trip (each of them meaning-preserving and implemented by the classifiers
// of oracle_c0708.go):
//   - `-`(non-negative integer literal k) is written `-k` and read back as the literal -k;
//   - a set / record VALUE has no literal notation: it is written as a set / record expression (members in slot
//     order, keys sorted) and read back as a Set / Record NODE of the members' renderings;
//   - an extension VALUE is written as its constructor call on the canonical string.
//
// Everything else — in particular the nesting of operators — must be identical.  Otherwise the result names the
// path of the first difference and shows both subtrees.
func c08StructDiff(o, r ast.IsNode) string {
	if o == nil || r == nil {
		if o == nil && r == nil {
			return ""
		}
		return "one of the trees is nil"
	}
	// bottom-up, so that `-`(`-`(0)) (written `--0`, read back as `-`(0)) folds to 0 on both sides
	return c08StructDiffAt("", vh.MapNode(o, c08FoldNeg), vh.MapNode(r, c08FoldNeg))
}

func c08FoldNeg(n ast.IsNode) ast.IsNode {
	if ng, ok := n.(ast.NodeTypeNegate); ok {
		if nv, ok := ng.Arg.(ast.NodeValue); ok {
			if l, ok := nv.Value.(types.Long); ok && l >= 0 {
				return ast.NodeValue{Value: -l}
			}
		}
	}
	return n
}

func c08StructDiffAt(path string, o, r ast.IsNode) string {
	differ := func() string {
		return fmt.Sprintf("at %q: original %s vs reparsed %s", path, vh.ShowExprC07(o), vh.ShowExprC07(r))
	}
	if ov, ok := o.(ast.NodeValue); ok {
		switch val := ov.Value.(type) {
		case types.Set:
			rs, ok := r.(ast.NodeTypeSet)
			if !ok || len(rs.Elements) != val.Len() {
				return differ()
			}
			used := make([]bool, len(rs.Elements))
			for m := range val.All() {
				found := false
				for i, e := range rs.Elements {
					if !used[i] && c08StructDiffAt(path, ast.NodeValue{Value: m}, e) == "" {
						used[i], found = true, true
						break
					}
				}
				if !found {
					return differ()
				}
			}
			return ""
		case types.Record:
			rr, ok := r.(ast.NodeTypeRecord)
			if !ok || len(rr.Elements) != val.Len() {
				return differ()
			}
			seen := map[types.String]bool{}
			for _, e := range rr.Elements {
				m, ok := val.Get(e.Key)
				if !ok || seen[e.Key] {
					return differ()
				}
				seen[e.Key] = true
				if d := c08StructDiffAt(path+"/"+vh.Hex(string(e.Key)), ast.NodeValue{Value: m}, e.Value); d != "" {
					return d
				}
			}
			return ""
		case types.Decimal, types.IPAddr, types.Datetime, types.Duration:
			if _, isVal := r.(ast.NodeValue); isVal {
				break
			}
			rc, ok := r.(ast.NodeTypeExtensionCall)
			if !ok || len(rc.Args) != 1 {
				return differ()
			}
			av, ok := rc.Args[0].(ast.NodeValue)
			if !ok {
				return differ()
			}
			s, ok := av.Value.(types.String)
			if !ok || string(rc.Name)+"("+string(s.MarshalCedar())+")" != string(ov.Value.MarshalCedar()) {
				return differ()
			}
			return ""
		}
	}
	lo, ko := c08Parts(o)
	lr, kr := c08Parts(r)
	if lo != lr || len(ko) != len(kr) {
		return differ()
	}
	for i := range ko {
		if d := c08StructDiffAt(fmt.Sprintf("%s/%s.%d", path, strings.SplitN(lo, " ", 2)[0], i), ko[i], kr[i]); d != "" {
			return d
		}
	}
	return ""
}
