package main

import (
	"errors"
	"io"
	"math/rand"
)

// scriptReader is the scripted io.Reader of C18. It mirrors the Lean reader model
// (Scanner.lean `Reader`): a finite list of chunk sizes whose sum is the number of bytes the reader
// will ever deliver (`limit`), zero-size chunks allowed anywhere; a Read with room m gets
// min(chunk, m) bytes and the rest of the chunk stays for the next Read; when the list is exhausted
// the reader reports its final status on every further Read: io.EOF, or the injected failure.
// With final == finalEOFData the Read that delivers the end of the last chunk returns the data
// together with io.EOF.
type scriptReader struct {
	data  []byte
	pos   int
	sizes []int // remaining chunk sizes
	final int
	reads int
}

const (
	finalEOF     = 0
	finalEOFData = 1
	finalFail    = 2
)

var errInjected = errors.New("injected reader failure")

func finalName(f int) string { return [...]string{"eof", "eofdata", "fail"}[f] }

func newScriptReader(data []byte, sizes []int, final int) *scriptReader {
	return &scriptReader{data: data, sizes: append([]int{}, sizes...), final: final}
}

func (r *scriptReader) Read(p []byte) (int, error) {
	r.reads++
	if r.reads > 50_000_000 {
		panic("scriptReader: runaway reads")
	}
	if len(r.sizes) == 0 {
		if r.final == finalFail {
			return 0, errInjected
		}
		return 0, io.EOF
	}
	c := r.sizes[0]
	if c <= len(p) {
		r.sizes = r.sizes[1:]
		n := copy(p, r.data[r.pos:r.pos+c])
		r.pos += n
		if len(r.sizes) == 0 && r.final == finalEOFData {
			return n, io.EOF
		}
		return n, nil
	}
	n := copy(p, r.data[r.pos:r.pos+len(p)])
	r.pos += n
	r.sizes[0] = c - n
	return n, nil
}

// schedule kinds: fixed chunk size (0 = one chunk with everything), random sizes, with random zero-length reads
type schedKind struct {
	name  string
	size  int  // >0 fixed; 0 whole; -1 random small; -2 random around bufLen
	zeros bool // sprinkle zero-length chunks
}

var c18Scheds = []schedKind{
	{"whole", 0, false}, {"1", 1, false}, {"2", 2, false}, {"3", 3, false}, {"4", 4, false},
	{"1023", 1023, false}, {"1024", 1024, false}, {"1025", 1025, false},
	{"rand-small", -1, false}, {"rand-small+0", -1, true}, {"rand-buf", -2, false}, {"rand-buf+0", -2, true}, {"1+0", 1, true},
}

// mkSizes expands a schedule kind into an explicit chunk-size list with sum == limit.
func mkSizes(rng *rand.Rand, k schedKind, limit int) []int {
	sizes := []int{}
	left := limit
	for left > 0 {
		if k.zeros && rng.Intn(4) == 0 {
			sizes = append(sizes, 0)
			continue
		}
		c := k.size
		switch {
		case c == 0:
			c = left
		case c == -1:
			c = 1 + rng.Intn(7)
		case c == -2:
			c = []int{1019, 1020, 1021, 1022, 1023, 1024, 1025, 1026, 1027, 2048, 511, 3000}[rng.Intn(12)]
			if rng.Intn(3) == 0 {
				c = 1 + rng.Intn(1500)
			}
		}
		if c > left {
			c = left
		}
		sizes = append(sizes, c)
		left -= c
	}
	if k.zeros {
		for rng.Intn(2) == 0 {
			sizes = append(sizes, 0)
		}
	}
	return sizes
}
