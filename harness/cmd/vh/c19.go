package main

// C19 — shared policies and entities: race-free concurrent reads, inputs never mutated.
//
// Standing support for the Lean theorem C19_readonly_interleavings (whose hypothesis is discharged by
// factgen's write-set extractor) and the search that produces replays when that tie breaks:
//
//  (a) immutability (this process): a deep snapshot of every input — a reflection dump of the complete
//      object graph including unexported fields, plus vh.EncPolicy / vh.EncEntities / vh.ShowValue /
//      VerifHash and the MarshalCedar / MarshalJSON bytes — is taken before and after every read-only call
//      and must be identical; every slice / map / byte slice / AST copy a call returns is mutated and the
//      originals must not change (undocumented aliasing).
//  (b) concurrency (a second binary of this same harness built with `go build -race`, run as a worker):
//      G goroutines (8, 32) run shuffled mixes of the read-only calls on ONE shared policy set / entity map /
//      request / value pool with randomised runtime.Gosched(); every result is compared with the sequential
//      result, the inputs are snapshot-compared before/after; a race report or a differing result is the
//      failure (replay = seed + round + G + op mix).

import (
	"bytes"
	"context"
	"crypto/sha256"
	"encoding/hex"
	"encoding/json"
	"fmt"
	"math/rand"
	"os"
	"os/exec"
	"path/filepath"
	"reflect"
	"runtime"
	"sort"
	"strings"
	"sync"
	"syscall"
	"time"

	cedar "github.com/cedar-policy/cedar-go"
	"github.com/cedar-policy/cedar-go/types"
	"github.com/cedar-policy/cedar-go/x/exp/ast"
	"github.com/cedar-policy/cedar-go/x/exp/batch"
	"github.com/cedar-policy/cedar-go/x/exp/eval"
	"github.com/cedar-policy/cedar-go/x/exp/schema"
	"github.com/cedar-policy/cedar-go/x/exp/schema/validate"

	"verifharness/vh"
)

func init() { props["C19"] = runC19 }

// ---------------------------------------------------------------------------------------------
// fixture: the shared inputs
// ---------------------------------------------------------------------------------------------

type c19Fixture struct {
	pols           []vh.IDPolicy // generated policies (AST + compiled)
	ps             *cedar.PolicySet
	plist          cedar.PolicyList
	ids            []cedar.PolicyID
	em             types.EntityMap
	uids           []types.EntityUID
	envs           []eval.Env
	reqs           []cedar.Request
	breqs          []batch.Request
	vals           []types.Value
	vStrict, vPerm *validate.Validator
	dyn            *c19Dyn // the dynamic-operand workload (c19_dyn.go)
}

const c19SchemaText = `
namespace NS { entity Folder; }
entity Group;
entity User in [Group] { n?: Long, m?: Long, s?: String, b?: Bool, e?: User, ls?: Set<Long>, ss?: Set<String>, es?: Set<User>, r?: { n?: Long, s?: String, b?: Bool, e?: User }, ip?: ipaddr, dec?: decimal, dt?: datetime, dur?: duration } tags String;
entity Doc in [NS::Folder] { n?: Long, s?: String, b?: Bool } tags Long;
action "g";
action "a" in ["g"] appliesTo { principal: [User, Group], resource: [Doc, NS::Folder], context: { n?: Long, m?: Long, s?: String, b?: Bool, e?: User, ls?: Set<Long> } };
action "b", "c" appliesTo { principal: [User], resource: [Doc], context: {} };
`

const c19PolicyText = `@id("text0")
permit ( principal == User::"a", action in [Action::"a", Action::"b"], resource is Doc in NS::Folder::"a" )
when { context.n > 3 && [1, 2, 3].contains(context.m) || principal.s like "a*b" }
unless { resource has n && resource.n == 7 };

forbid ( principal in Group::"a", action, resource )
when { {a: 1, b: [principal, resource]}.a == 1 && ip("10.0.0.1").isInRange(ip("10.0.0.0/8")) && decimal("1.5").lessThan(decimal("2.0")) };

permit ( principal, action == Action::"c", resource )
when { if context has s then context.s == "x" else principal.hasTag("t1") && principal.getTag("t1") == "a" };
`

func c19NewFixture(rng *rand.Rand, nPol, nReq, nVal int) *c19Fixture {
	g := vh.NewGen(rng)
	f := &c19Fixture{ps: cedar.NewPolicySet()}
	for i := 0; i < nPol; i++ {
		a := g.Policy(2 + rng.Intn(3))
		a.Position = ast.Position{Filename: "gen", Offset: 10 * i, Line: i + 1, Column: 1}
		ip := vh.MkPolicy(fmt.Sprintf("g%d", i), a)
		f.pols = append(f.pols, ip)
		f.ps.Add(ip.ID, ip.P)
		f.plist = append(f.plist, ip.P)
		f.ids = append(f.ids, ip.ID)
	}
	{
		// an action scope whose entity list has SPARE CAPACITY and names an action group with members in c19SchemaText:
		// code that appends to the list it was handed (instead of copying) writes into the policy's backing array
		spare := make([]types.EntityUID, 0, 8)
		spare = append(spare, types.NewEntityUID("Action", "g"), types.NewEntityUID("Action", "b"))
		a := &ast.Policy{Effect: ast.EffectPermit, Principal: ast.ScopeTypeAll{}, Action: ast.ScopeTypeInSet{Entities: spare}, Resource: ast.ScopeTypeAll{},
			Position: ast.Position{Filename: "gen", Offset: 10 * nPol, Line: nPol + 1, Column: 1}}
		ip := vh.MkPolicy("spare", a)
		f.pols = append(f.pols, ip)
		f.ps.Add(ip.ID, ip.P)
		f.plist = append(f.plist, ip.P)
		f.ids = append(f.ids, ip.ID)
	}
	if list, err := cedar.NewPolicyListFromBytes("doc.cedar", []byte(c19PolicyText)); err == nil {
		for i, p := range list {
			id := cedar.PolicyID(fmt.Sprintf("t%d", i))
			f.ps.Add(id, p)
			f.plist = append(f.plist, p)
			f.ids = append(f.ids, id)
			f.pols = append(f.pols, vh.IDPolicy{ID: id, AST: (*ast.Policy)(p.AST()), P: p})
		}
	}
	f.ids = append(f.ids, "absent")
	f.em = g.Entities()
	for u := range f.em {
		f.uids = append(f.uids, u)
	}
	sort.Slice(f.uids, func(i, j int) bool { return f.uids[i].String() < f.uids[j].String() })
	f.uids = append(f.uids, types.NewEntityUID("User", "nobody"))
	for i := 0; i < nReq; i++ {
		env := g.Env()
		env.Entities = f.em
		if i%3 == 0 {
			env.Principal, env.Action, env.Resource = types.NewEntityUID("User", "a"), types.NewEntityUID("Action", "a"), types.NewEntityUID("Doc", "a")
		}
		if i%6 == 0 { // a request that conforms to c19SchemaText
			env.Context = types.NewRecord(types.RecordMap{"n": types.Long(int64(i + 2)), "m": types.Long(2), "s": types.String("x"), "ls": types.NewSet(types.Long(1), types.Long(2))})
		}
		f.envs = append(f.envs, env)
		r, _ := vh.RequestOf(env)
		f.reqs = append(f.reqs, r)
	}
	uidVals := func(ts ...types.EntityType) []types.Value {
		var out []types.Value
		for _, u := range g.World.UIDs {
			for _, t := range ts {
				if u.Type == t {
					out = append(out, u)
				}
			}
		}
		return out
	}
	ctx0 := f.reqs[0].Context
	f.breqs = []batch.Request{
		{Principal: batch.Variable("p"), Action: types.NewEntityUID("Action", "a"), Resource: batch.Variable("r"), Context: ctx0,
			Variables: batch.Variables{"p": uidVals("User", "Group"), "r": uidVals("Doc", "NS::Folder")}},
		{Principal: types.NewEntityUID("User", "a"), Action: batch.Variable("act"), Resource: types.NewEntityUID("Doc", "b"),
			Context:   types.NewRecord(types.RecordMap{"n": batch.Variable("n"), "s": types.String("x"), "ls": types.NewSet(types.Long(1), types.Long(2))}),
			Variables: batch.Variables{"act": uidVals("Action"), "n": []types.Value{types.Long(0), types.Long(4), types.Long(7), types.String("no")}}},
		{Principal: batch.Variable("p"), Action: types.NewEntityUID("Action", "c"), Resource: batch.Ignore(), Context: batch.Ignore(),
			Variables: batch.Variables{"p": uidVals("User")}},
		{Principal: types.NewEntityUID("User", "b"), Action: types.NewEntityUID("Action", "b"), Resource: types.NewEntityUID("Doc", "c"), Context: f.reqs[len(f.reqs)-1].Context,
			Variables: batch.Variables{}},
	}
	for i := 0; i < nVal; i++ {
		t := []vh.Ty{vh.TSetLong, vh.TSetString, vh.TSetEntity, vh.TRecord, vh.TRecord, vh.TDecimal, vh.TDatetime, vh.TDuration, vh.TIP, vh.TString, vh.TLong, vh.TEntity, vh.TBool}[i%13]
		f.vals = append(f.vals, g.Value(t, 2))
	}
	// nested containers and colliding members
	f.vals = append(f.vals, types.NewSet(vh.CollidingValues()...), types.NewRecord(types.RecordMap{"set": types.NewSet(f.vals[0], f.vals[3]), "rec": f.vals[3], "e": types.NewEntityUID("User", "a")}), types.NewSet(), types.NewRecord(nil), types.Set{}, types.Record{})
	var sc schema.Schema
	if err := sc.UnmarshalCedar([]byte(c19SchemaText)); err == nil {
		if rs, err := sc.Resolve(); err == nil {
			f.vStrict = validate.New(rs, validate.WithStrict())
			f.vPerm = validate.New(rs, validate.WithPermissive())
		}
	}
	f.dyn = c19NewDyn(rng, f.em, f.uids, 16)
	return f
}

// ---------------------------------------------------------------------------------------------
// deep snapshot
// ---------------------------------------------------------------------------------------------

// c19Dump renders the complete object graph reachable from v, unexported fields included.
func c19Dump(sb *strings.Builder, v reflect.Value, seen map[uintptr]int, depth int) {
	if depth > 200 {
		sb.WriteString("<deep>")
		return
	}
	if !v.IsValid() {
		sb.WriteString("<invalid>")
		return
	}
	switch v.Kind() {
	case reflect.Bool:
		fmt.Fprintf(sb, "%v", v.Bool())
	case reflect.Int, reflect.Int8, reflect.Int16, reflect.Int32, reflect.Int64:
		fmt.Fprintf(sb, "%d", v.Int())
	case reflect.Uint, reflect.Uint8, reflect.Uint16, reflect.Uint32, reflect.Uint64, reflect.Uintptr:
		fmt.Fprintf(sb, "%du", v.Uint())
	case reflect.Float32, reflect.Float64:
		fmt.Fprintf(sb, "%g", v.Float())
	case reflect.Complex64, reflect.Complex128:
		fmt.Fprintf(sb, "%g", v.Complex())
	case reflect.String:
		fmt.Fprintf(sb, "%q", v.String())
	case reflect.Pointer:
		if v.IsNil() {
			sb.WriteString("nil")
			return
		}
		// cycles are cut along the current path only: shared sub-objects are rendered at every occurrence, so the
		// text does not depend on the (random) order in which map entries happen to be visited
		p := v.Pointer()
		if _, ok := seen[p]; ok {
			sb.WriteString("@cycle")
			return
		}
		seen[p] = 1
		sb.WriteString("&")
		c19Dump(sb, v.Elem(), seen, depth+1)
		delete(seen, p)
	case reflect.Interface:
		if v.IsNil() {
			sb.WriteString("nil")
			return
		}
		sb.WriteString(v.Elem().Type().String())
		sb.WriteString(":")
		c19Dump(sb, v.Elem(), seen, depth+1)
	case reflect.Struct:
		sb.WriteString("{")
		for i := 0; i < v.NumField(); i++ {
			if i > 0 {
				sb.WriteString(" ")
			}
			sb.WriteString(v.Type().Field(i).Name)
			sb.WriteString("=")
			c19Dump(sb, v.Field(i), seen, depth+1)
		}
		sb.WriteString("}")
	case reflect.Slice:
		if v.IsNil() {
			sb.WriteString("nil[]")
			return
		}
		fmt.Fprintf(sb, "[len=%d cap=%d:", v.Len(), v.Cap())
		// the spare capacity is part of the state too (an append by the library would write there)
		full := v
		if v.Cap() > v.Len() {
			full = v.Slice(0, v.Cap())
		}
		for i := 0; i < full.Len(); i++ {
			if i > 0 {
				sb.WriteString(",")
			}
			if i == v.Len() {
				sb.WriteString("|")
			}
			c19Dump(sb, full.Index(i), seen, depth+1)
		}
		sb.WriteString("]")
	case reflect.Array:
		sb.WriteString("[")
		for i := 0; i < v.Len(); i++ {
			if i > 0 {
				sb.WriteString(",")
			}
			c19Dump(sb, v.Index(i), seen, depth+1)
		}
		sb.WriteString("]")
	case reflect.Map:
		if v.IsNil() {
			sb.WriteString("nil-map")
			return
		}
		type kv struct{ k, v string }
		var es []kv
		it := v.MapRange()
		for it.Next() {
			var kb, vb strings.Builder
			c19Dump(&kb, it.Key(), seen, depth+1)
			c19Dump(&vb, it.Value(), seen, depth+1)
			es = append(es, kv{kb.String(), vb.String()})
		}
		sort.Slice(es, func(i, j int) bool { return es[i].k < es[j].k })
		fmt.Fprintf(sb, "map[%d:", len(es))
		for i, e := range es {
			if i > 0 {
				sb.WriteString(",")
			}
			sb.WriteString(e.k)
			sb.WriteString("=>")
			sb.WriteString(e.v)
		}
		sb.WriteString("]")
	case reflect.Func:
		if v.IsNil() {
			sb.WriteString("nil-func")
		} else {
			sb.WriteString("func")
		}
	case reflect.Chan, reflect.UnsafePointer:
		fmt.Fprintf(sb, "ptr%x", v.Pointer())
	default:
		fmt.Fprintf(sb, "<%s>", v.Kind())
	}
}

func c19DumpOf(x any) string {
	var sb strings.Builder
	c19Dump(&sb, reflect.ValueOf(x), map[uintptr]int{}, 0)
	return sb.String()
}

func c19JSON(x any) string {
	b, err := json.Marshal(x)
	if err != nil {
		return "json-error:" + err.Error()
	}
	return string(b)
}

// c19Part is one named component of the snapshot (so that a difference can be attributed).
type c19Part struct{ name, val string }

// reflectParts: pure reflection over the inputs — calls NO library code, so taking it cannot itself trigger (and
// thereby hide) a lazy initialisation inside the library.
func (f *c19Fixture) reflectParts() []c19Part {
	return []c19Part{
		{"reflect:policyset", c19DumpOf(f.ps)},
		{"reflect:policylist", c19DumpOf(f.plist)},
		{"reflect:entities", c19DumpOf(f.em)},
		{"reflect:requests", c19DumpOf(f.reqs)},
		{"reflect:envs", c19DumpOf(f.envs)},
		{"reflect:batch-requests", c19DumpOf(f.breqs)},
		{"reflect:values", c19DumpOf(f.vals)},
		{"reflect:validators", c19DumpOf([]*validate.Validator{f.vStrict, f.vPerm})},
		{"reflect:dynamic-policyset", c19DumpOf(f.dyn.ps)},
		{"reflect:dynamic-requests", c19DumpOf(f.dyn.reqs)},
		{"reflect:dynamic-batch-requests", c19DumpOf(f.dyn.breqs)},
	}
}

// snapshot: structural parts first (reflection and the harness's own encoders, which call no codec under
// test), marshalled bytes last.
func (f *c19Fixture) snapshot(withBytes bool) []c19Part {
	ps := f.reflectParts()
	add := func(n, v string) { ps = append(ps, c19Part{n, v}) }
	for _, ip := range f.pols {
		add("enc:policy:"+string(ip.ID), c19JSON(vh.EncPolicy(ip.AST)))
	}
	add("enc:entities", c19JSON(vh.EncEntities(f.em)))
	for i, r := range f.reqs {
		add(fmt.Sprintf("enc:request:%d", i), vh.ShowValue(r.Principal)+"|"+vh.ShowValue(r.Action)+"|"+vh.ShowValue(r.Resource)+"|"+vh.ShowValue(r.Context))
	}
	for i, b := range f.breqs {
		var sb strings.Builder
		for _, v := range []types.Value{b.Principal, b.Action, b.Resource, b.Context} {
			sb.WriteString(vh.ShowValue(v) + "|")
		}
		var ks []string
		for k := range b.Variables {
			ks = append(ks, string(k))
		}
		sort.Strings(ks)
		for _, k := range ks {
			sb.WriteString(k + "=[")
			for _, v := range b.Variables[types.String(k)] { // order of the caller's slice is part of the input
				sb.WriteString(vh.ShowValue(v) + ",")
			}
			sb.WriteString("]")
		}
		add(fmt.Sprintf("enc:batch-request:%d", i), sb.String())
	}
	for i, v := range f.vals {
		add(fmt.Sprintf("enc:value:%d", i), fmt.Sprintf("%s#%d", vh.ShowValue(v), types.VerifHash(v)))
	}
	if withBytes {
		for _, ip := range f.pols {
			p := ip.P
			var cb, jb string
			if pn := vh.Protect(func() { cb = string(p.MarshalCedar()) }); pn != nil {
				cb = fmt.Sprintf("panic:%v", pn)
			}
			if pn := vh.Protect(func() { b, err := p.MarshalJSON(); jb = string(b) + fmt.Sprint(err) }); pn != nil {
				jb = fmt.Sprintf("panic:%v", pn)
			}
			add("bytes:cedar:"+string(ip.ID), cb)
			add("bytes:json:"+string(ip.ID), jb)
		}
		var sb, sj string
		if pn := vh.Protect(func() { sb = string(f.ps.MarshalCedar()) }); pn != nil {
			sb = fmt.Sprintf("panic:%v", pn)
		}
		if pn := vh.Protect(func() { b, err := f.ps.MarshalJSON(); sj = string(b) + fmt.Sprint(err) }); pn != nil {
			sj = fmt.Sprintf("panic:%v", pn)
		}
		add("bytes:cedar:set", sb)
		add("bytes:json:set", sj)
		add("bytes:json:entities", c19JSON(f.em))
	}
	return ps
}

func c19Diff(a, b []c19Part) (string, string, string, bool) {
	if len(a) != len(b) {
		return "snapshot-shape", fmt.Sprint(len(a)), fmt.Sprint(len(b)), true
	}
	for i := range a {
		if a[i] != b[i] {
			x, y := a[i].val, b[i].val
			// cut to the first difference
			k := 0
			for k < len(x) && k < len(y) && x[k] == y[k] {
				k++
			}
			lo := k - 120
			if lo < 0 {
				lo = 0
			}
			cut := func(s string) string {
				hi := k + 200
				if hi > len(s) {
					hi = len(s)
				}
				return s[lo:hi]
			}
			return a[i].name, cut(x), cut(y), true
		}
	}
	return "", "", "", false
}

// ---------------------------------------------------------------------------------------------
// the read-only operations
// ---------------------------------------------------------------------------------------------

// An operation is split in two: `raw` makes the library calls and copies the answers out — nothing else (no fmt,
// no encoding: those go through sync.Pool / sync.Map, whose happens-before edges would hide races from the
// detector) — and `show` renders the raw answer canonically, after the goroutines have been joined.
type c19Op struct {
	name string
	n    func(f *c19Fixture) int        // number of parameter values
	raw  func(f *c19Fixture, k int) any // library calls only
	show func(raw any) string           // canonical rendering
}

func sortedLines(s string) string {
	ls := strings.Split(s, "\n")
	sort.Strings(ls)
	return strings.Join(ls, "\n")
}

func showErr(err error) string {
	if err == nil {
		return "ok"
	}
	return "err:" + sortedLines(err.Error())
}

func showVals(vs []types.Value) string {
	xs := make([]string, 0, len(vs))
	for _, v := range vs {
		xs = append(xs, vh.ShowValue(v))
	}
	sort.Strings(xs)
	return "[" + strings.Join(xs, " ") + "]"
}

type c19KV struct {
	k types.String
	v types.Value
}

func showKVs(kvs []c19KV) string {
	xs := make([]string, 0, len(kvs))
	for _, e := range kvs {
		xs = append(xs, string(e.k)+"="+vh.ShowValue(e.v))
	}
	sort.Strings(xs)
	return "{" + strings.Join(xs, " ") + "}"
}

type c19SetRaw struct {
	slice, all, iter []types.Value
	n                int
	c1, c2           bool
}

func c19InspectSet(s types.Set, probe types.Value) c19SetRaw {
	r := c19SetRaw{slice: s.Slice(), n: s.Len(), c1: s.Contains(probe), c2: s.Contains(types.Long(1))}
	for v := range s.All() {
		r.all = append(r.all, v)
	}
	s.Iterate(func(v types.Value) bool { r.iter = append(r.iter, v); return true })
	return r
}

func (r c19SetRaw) String() string {
	return fmt.Sprintf("len=%d slice=%s all=%s iter=%s contains=%v,%v", r.n, showVals(r.slice), showVals(r.all), showVals(r.iter), r.c1, r.c2)
}

type c19RecRaw struct {
	m           types.RecordMap
	all, gets   []c19KV
	keys        []types.String
	vals        []types.Value
	n           int
	absent, oks bool
}

func c19InspectRecord(r types.Record) c19RecRaw {
	out := c19RecRaw{m: r.Map(), n: r.Len(), oks: true}
	for k, v := range r.All() {
		out.all = append(out.all, c19KV{k, v})
	}
	for k := range r.Keys() {
		out.keys = append(out.keys, k)
		v, ok := r.Get(k)
		out.oks = out.oks && ok
		out.gets = append(out.gets, c19KV{k, v})
	}
	for v := range r.Values() {
		out.vals = append(out.vals, v)
	}
	_, out.absent = r.Get("no such key")
	return out
}

func (r c19RecRaw) String() string {
	var m []c19KV
	for k, v := range r.m {
		m = append(m, c19KV{k, v})
	}
	ks := make([]string, 0, len(r.keys))
	for _, k := range r.keys {
		ks = append(ks, string(k))
	}
	sort.Strings(ks)
	return fmt.Sprintf("len=%d map=%s all=%s gets=%s keys=%v values=%s getok=%v absent=%v", r.n, showKVs(m), showKVs(r.all), showKVs(r.gets), ks, showVals(r.vals), r.oks, r.absent)
}

type c19AuthzRaw struct {
	d    cedar.Decision
	diag cedar.Diagnostic
}

func showAuthzRaw(x any) string { r := x.(c19AuthzRaw); return vh.ShowAuthz(r.d, r.diag) }

type c19BytesRaw struct {
	b   []byte
	b2  []byte
	s   string
	err error
}

func showBytesRaw(x any) string {
	r := x.(c19BytesRaw)
	return string(r.b) + "|" + string(r.b2) + "|" + r.s + "|" + showErr(r.err)
}

type c19BatchItem struct {
	req    types.Request
	values batch.Values
	dec    types.Decision
	diag   types.Diagnostic
}

type c19BatchRaw struct {
	err   error
	items []c19BatchItem
}

func c19ShowBatch(x any) string {
	r := x.(c19BatchRaw)
	var lines []string
	for _, it := range r.items {
		var vs []string
		for n, v := range it.values {
			vs = append(vs, string(n)+"="+vh.ShowValue(v))
		}
		sort.Strings(vs)
		lines = append(lines, vh.ShowValue(it.req.Principal)+"|"+vh.ShowValue(it.req.Action)+"|"+vh.ShowValue(it.req.Resource)+"|"+vh.ShowValue(it.req.Context)+
			" "+strings.Join(vs, ",")+" -> "+vh.ShowAuthz(cedar.Decision(it.dec), cedar.Diagnostic(it.diag)))
	}
	sort.Strings(lines)
	return showErr(r.err) + "\n" + strings.Join(lines, "\n")
}

func c19Ops() []c19Op { return append(c19BaseOps(), c19DynOps()...) }

func c19BaseOps() []c19Op {
	nReq := func(f *c19Fixture) int { return len(f.reqs) }
	nPol := func(f *c19Fixture) int { return len(f.pols) }
	nVal := func(f *c19Fixture) int { return len(f.vals) }
	one := func(f *c19Fixture) int { return 1 }
	showE := func(x any) string {
		if x == nil {
			return "ok"
		}
		return showErr(x.(error))
	}
	// NOTE: c19Worker refers to the first six entries by index (0 Authorize, 3 batch, 4/5 set marshalling).
	return []c19Op{
		{"cedar.Authorize", nReq, func(f *c19Fixture, k int) any {
			d, diag := cedar.Authorize(f.ps, f.em, f.reqs[k])
			return c19AuthzRaw{d, diag}
		}, showAuthzRaw},
		{"PolicySet.IsAuthorized", nReq, func(f *c19Fixture, k int) any {
			d, diag := f.ps.IsAuthorized(f.em, f.reqs[k]) //nolint:staticcheck
			return c19AuthzRaw{d, diag}
		}, showAuthzRaw},
		{"cedar.Authorize(PolicyMap)", nReq, func(f *c19Fixture, k int) any {
			d, diag := cedar.Authorize(f.ps.Map(), f.em, f.reqs[k])
			return c19AuthzRaw{d, diag}
		}, showAuthzRaw},
		{"batch.Authorize", func(f *c19Fixture) int { return len(f.breqs) }, func(f *c19Fixture, k int) any {
			var r c19BatchRaw
			r.err = batch.Authorize(context.Background(), f.ps, f.em, f.breqs[k], func(res batch.Result) error {
				// "The result passed to the callback must be used / cloned immediately and not modified"
				vals := make(batch.Values, len(res.Values))
				for n, v := range res.Values {
					vals[n] = v
				}
				r.items = append(r.items, c19BatchItem{res.Request, vals, res.Decision, res.Diagnostic})
				return nil
			})
			return r
		}, c19ShowBatch},
		{"PolicySet.MarshalCedar", one, func(f *c19Fixture, _ int) any { return c19BytesRaw{b: f.ps.MarshalCedar()} }, showBytesRaw},
		{"PolicySet.MarshalJSON", one, func(f *c19Fixture, _ int) any { b, err := f.ps.MarshalJSON(); return c19BytesRaw{b: b, err: err} }, showBytesRaw},
		{"PolicyList.MarshalCedar", one, func(f *c19Fixture, _ int) any { return c19BytesRaw{b: f.plist.MarshalCedar()} }, showBytesRaw},
		{"PolicySet.Map/All/Get", func(f *c19Fixture) int { return len(f.ids) }, func(f *c19Fixture, k int) any {
			type ent struct {
				id  cedar.PolicyID
				off int
			}
			var a, b []ent
			for id, p := range f.ps.Map() {
				a = append(a, ent{id, p.Position().Offset})
			}
			for id, p := range f.ps.All() {
				b = append(b, ent{id, p.Position().Offset})
			}
			g := f.ps.Get(f.ids[k])
			gs := ent{"nil", -1}
			if g != nil {
				gs = ent{cedar.PolicyID(g.Position().Filename), g.Position().Offset}
				if g.Effect() == cedar.Forbid {
					gs.off = -gs.off - 2
				}
			}
			return [3]any{a, b, gs}
		}, func(x any) string {
			r := x.([3]any)
			var out []string
			for _, part := range r {
				v := reflect.ValueOf(part)
				var xs []string
				if v.Kind() == reflect.Slice {
					for i := 0; i < v.Len(); i++ {
						xs = append(xs, fmt.Sprintf("%v@%v", v.Index(i).Field(0), v.Index(i).Field(1)))
					}
					sort.Strings(xs)
				} else {
					xs = append(xs, fmt.Sprintf("%v@%v", v.Field(0), v.Field(1)))
				}
				out = append(out, strings.Join(xs, ","))
			}
			return strings.Join(out, " | ")
		}},
		{"Policy.MarshalCedar", nPol, func(f *c19Fixture, k int) any { return c19BytesRaw{b: f.pols[k].P.MarshalCedar()} }, showBytesRaw},
		{"Policy.MarshalJSON", nPol, func(f *c19Fixture, k int) any {
			b, err := f.pols[k].P.MarshalJSON()
			return c19BytesRaw{b: b, err: err}
		}, showBytesRaw},
		{"Policy.AST/Annotations/Effect/Position", nPol, func(f *c19Fixture, k int) any {
			p := f.pols[k].P
			// the AST is walked here, inside the goroutine, by the harness's own encoder (plain allocation, no sync)
			return [4]any{p.Annotations(), p.Effect(), p.Position(), vh.EncPolicy((*ast.Policy)(p.AST()))}
		}, func(x any) string {
			r := x.([4]any)
			var as []string
			for a, v := range r[0].(cedar.Annotations) {
				as = append(as, string(a)+"="+string(v))
			}
			sort.Strings(as)
			pos := r[2].(cedar.Position)
			return fmt.Sprintf("%v %v %s:%d:%d:%d %s", as, r[1], pos.Filename, pos.Offset, pos.Line, pos.Column, c19JSON(r[3]))
		}},
		{"eval.Eval(PolicyToNode)", func(f *c19Fixture) int { return len(f.pols) * 2 }, func(f *c19Fixture, k int) any {
			p, env := f.pols[k%len(f.pols)], f.envs[(k/len(f.pols)+k)%len(f.envs)]
			v, err := eval.Eval(eval.PolicyToNode(p.AST).AsIsNode(), env)
			return [2]any{v, err}
		}, func(x any) string {
			r := x.([2]any)
			if r[1] != nil {
				// the reported error (message included) is a function of the inputs since the C14 repairs of
				// recordLiteralEval / doInEval
				return "err " + r[1].(error).Error()
			}
			v, _ := r[0].(types.Value)
			return "ok " + vh.ShowValue(v)
		}},
		{"eval.PartialPolicy", nPol, func(f *c19Fixture, k int) any {
			env := f.envs[k%len(f.envs)]
			env.Principal = eval.Variable("principal")
			env.Context = types.NewRecord(types.RecordMap{"n": eval.Variable("n"), "s": types.String("x")})
			res, keep := eval.PartialPolicy(env, f.pols[k].AST)
			return [2]any{res, keep}
		}, func(x any) string {
			r := x.([2]any)
			res, _ := r[0].(*ast.Policy)
			if res == nil || !r[1].(bool) {
				return fmt.Sprint("dropped ", r[1])
			}
			return c19DumpOf(res)
		}},
		{"Value.MarshalCedar/String", nVal, func(f *c19Fixture, k int) any {
			v := f.vals[k]
			return c19BytesRaw{b: v.MarshalCedar(), s: v.String()}
		}, showBytesRaw},
		{"Value.MarshalJSON", nVal, func(f *c19Fixture, k int) any {
			v := f.vals[k]
			var r c19BytesRaw
			if m, ok := v.(json.Marshaler); ok {
				r.b, r.err = m.MarshalJSON() // direct call: no encoding/json machinery in between
			}
			if x, ok := v.(interface{ ExplicitMarshalJSON() ([]byte, error) }); ok {
				r.b2, _ = x.ExplicitMarshalJSON()
			}
			return r
		}, showBytesRaw},
		{"json.Marshal(Value)", nVal, func(f *c19Fixture, k int) any {
			b, err := json.Marshal(f.vals[k]) // the way users call it
			return c19BytesRaw{b: b, err: err}
		}, showBytesRaw},
		{"Value.Equal/hash", func(f *c19Fixture) int { return len(f.vals) * 2 }, func(f *c19Fixture, k int) any {
			a, b := f.vals[k%len(f.vals)], f.vals[(k*7+k/len(f.vals))%len(f.vals)]
			return [3]any{a.Equal(b), b.Equal(a), types.VerifHash(a)}
		}, func(x any) string { return fmt.Sprint(x) }},
		{"Set.Slice/All/Iterate/Len/Contains | Record.Map/All/Keys/Values/Get", nVal, func(f *c19Fixture, k int) any {
			switch v := f.vals[k].(type) {
			case types.Set:
				return c19InspectSet(v, f.vals[(k+1)%len(f.vals)])
			case types.Record:
				return c19InspectRecord(v)
			}
			return f.vals[k]
		}, func(x any) string {
			if v, ok := x.(types.Value); ok {
				return vh.ShowValue(v)
			}
			return fmt.Sprint(x)
		}},
		{"EntityMap.MarshalJSON", one, func(f *c19Fixture, _ int) any { b, err := f.em.MarshalJSON(); return c19BytesRaw{b: b, err: err} }, showBytesRaw},
		{"EntityMap.Get/Clone + Entity.MarshalJSON/Equal", func(f *c19Fixture) int { return len(f.uids) }, func(f *c19Fixture, k int) any {
			e, ok := f.em.Get(f.uids[k])
			b, err := e.MarshalJSON()
			var ps []types.Value
			for p := range e.Parents.All() {
				ps = append(ps, p)
			}
			cl := f.em.Clone()
			e2 := cl[f.uids[k]]
			return [8]any{ok, c19BytesRaw{b: b, err: err}, ps, e.Parents.Len(), e.Equal(e2), len(cl), c19InspectRecord(e.Attributes), c19InspectRecord(e.Tags)}
		}, func(x any) string {
			r := x.([8]any)
			return fmt.Sprint(r[0], showBytesRaw(r[1]), showVals(r[2].([]types.Value)), r[3], r[4], r[5], " attrs:", r[6], " tags:", r[7])
		}},
		{"Validator.Policy", func(f *c19Fixture) int { return len(f.pols) * 2 }, func(f *c19Fixture, k int) any {
			if f.vStrict == nil {
				return nil
			}
			v := f.vStrict
			if k >= len(f.pols) {
				v = f.vPerm
			}
			ip := f.pols[k%len(f.pols)]
			return v.Policy(string(ip.ID), ip.AST)
		}, showE},
		{"Validator.Entities/Entity", func(f *c19Fixture) int { return len(f.uids) + 1 }, func(f *c19Fixture, k int) any {
			if f.vStrict == nil {
				return nil
			}
			if k == len(f.uids) {
				return f.vStrict.Entities(f.em)
			}
			e, _ := f.em.Get(f.uids[k])
			return f.vPerm.Entity(e)
		}, func(x any) string {
			if x == nil {
				return "ok"
			}
			return "err" // which of several violations is reported depends on map iteration order (C14): only the class
		}},
		{"Validator.Request", nReq, func(f *c19Fixture, k int) any {
			if f.vStrict == nil {
				return nil
			}
			return f.vStrict.Request(types.Request(f.reqs[k]))
		}, showE},
	}
}

type c19Panic struct{ v any }

// c19Raw makes the library calls of one operation; a panic is caught and returned as the answer.
func c19Raw(op c19Op, f *c19Fixture, k int) (raw any) {
	defer func() {
		if r := recover(); r != nil {
			raw = c19Panic{r}
		}
	}()
	return op.raw(f, k)
}

func c19Show(op c19Op, raw any) (s string) {
	if p, ok := raw.(c19Panic); ok {
		return fmt.Sprintf("panic: %v", p.v)
	}
	defer func() {
		if r := recover(); r != nil {
			s = fmt.Sprintf("show-panic: %v", r)
		}
	}()
	return op.show(raw)
}

func c19Call(op c19Op, f *c19Fixture, k int) string { return c19Show(op, c19Raw(op, f, k)) }

func c19Short(s string) string {
	if len(s) > 400 {
		return s[:400] + "…"
	}
	return s
}

// ---------------------------------------------------------------------------------------------
// (a) immutability and aliasing, sequential
// ---------------------------------------------------------------------------------------------

func c19Immutability(c *vh.Ctx, f *c19Fixture, round int) {
	ops := c19Ops()
	// per call: pure-reflection snapshot (complete object graph, no library code involved), so that the very first
	// call of every operation on untouched inputs is observed and a change is attributed to the call that made it
	after := f.reflectParts()
	for _, op := range ops {
		n := op.n(f)
		for k := 0; k < n; k++ {
			before := after
			r1 := c19Call(op, f, k)
			after = f.reflectParts()
			c.Res.OracleChecks++
			c.Count(fmt.Sprintf("imm/%d/%s/%d", round, op.name, k), true)
			c.Dist("immutability:" + op.name)
			if name, x, y, diff := c19Diff(before, after); diff {
				c.Report(vh.Finding{Class: "input-mutated:" + op.name, What: fmt.Sprintf("%s (parameter %d) changed its inputs: snapshot part %s differs after the call", op.name, k, name),
					Check: "oracle", Op: op.name, Input: map[string]any{"seed": c.Seed, "round": round, "op": op.name, "param": k}, Expected: x, Actual: y})
			}
			// calling again must give the same answer (a call that changed hidden state would show here too)
			if r2 := c19Call(op, f, k); r2 != r1 {
				c.Dist("sequentially-unstable:" + op.name)
				c19Unstable[op.name] = true
			}
			if k == 0 && round == 0 && len(c.Res.Samples) < 6 {
				c.Sample(map[string]any{"check": "immutability", "op": op.name, "param": k, "result": c19Short(r1)})
			}
			switch op.name { // what the shared inputs make the operations do (the fixture must not be degenerate)
			case "cedar.Authorize":
				d := "authorize:deny"
				if strings.HasPrefix(r1, "allow") {
					d = "authorize:allow"
				}
				if !strings.Contains(r1, "reasons=[]") {
					d += "+reasons"
				}
				if !strings.HasSuffix(r1, "errors=[]") {
					d += "+errors"
				}
				c.Dist(d)
			case "cedar.Authorize(dynamic operands)":
				c.Dist("dynamic-authorize:" + strings.SplitN(r1, " ", 2)[0])
				if !strings.HasSuffix(r1, "errors=[]") {
					c.Dist("dynamic-authorize:with-erroring-policies")
				}
				c.Res.Distribution["dynamic-authorize:satisfied-policies"] += strings.Count(strings.SplitN(r1, "errors=", 2)[0], "@")
			case "batch.Authorize":
				c.Dist(fmt.Sprintf("batch:%d-results", strings.Count(r1, " -> ")))
			case "eval.Eval(PolicyToNode)", "Validator.Policy", "Validator.Request":
				c.Dist(op.name + ":" + strings.SplitN(strings.SplitN(r1, " ", 2)[0], ":", 2)[0])
			case "eval.PartialPolicy":
				if strings.HasPrefix(r1, "dropped") {
					c.Dist("partial:dropped")
				} else {
					c.Dist("partial:residual")
				}
			}
		}
	}
	// the full snapshot (harness encoders, hashes, marshalled bytes) is also unchanged by running ALL operations once more
	base := f.snapshot(true)
	for _, op := range ops {
		for k := 0; k < op.n(f); k++ {
			c19Call(op, f, k)
		}
	}
	if name, x, y, diff := c19Diff(base, f.snapshot(true)); diff {
		c.Report(vh.Finding{Class: "input-mutated:all-ops", What: "after running every read-only operation the inputs differ: " + name, Check: "oracle", Op: "all",
			Input: map[string]any{"seed": c.Seed, "round": round}, Expected: x, Actual: y})
	}
}

var c19Unstable = map[string]bool{}

// c19Aliasing mutates every copy a read-only call returns and checks that the originals do not change.
func c19Aliasing(c *vh.Ctx, f *c19Fixture, round int) {
	check := func(what string, mutate func()) {
		before := f.snapshot(true)
		pn := vh.Protect(mutate)
		after := f.snapshot(true)
		c.Res.OracleChecks++
		c.Count(fmt.Sprintf("alias/%d/%s", round, what), true)
		c.Dist("aliasing:" + strings.SplitN(what, "#", 2)[0])
		if pn != nil {
			c.Dist("aliasing-panic:" + what)
			return
		}
		if name, x, y, diff := c19Diff(before, after); diff {
			c.Report(vh.Finding{Class: "returned-copy-aliases-input:" + strings.SplitN(what, "#", 2)[0], What: fmt.Sprintf("mutating the value returned by %s changed the original (%s)", what, name),
				Check: "oracle", Op: what, Input: map[string]any{"seed": c.Seed, "round": round, "op": what}, Expected: x, Actual: y})
		}
	}
	scribble := func(b []byte) {
		for i := range b {
			b[i] = 'X'
		}
	}
	check("PolicySet.Map", func() {
		m := f.ps.Map()
		for k := range m {
			delete(m, k)
			break
		}
		m["__intruder"] = f.pols[0].P
	})
	check("PolicySet.MarshalCedar", func() { scribble(f.ps.MarshalCedar()) })
	check("PolicySet.MarshalJSON", func() { b, _ := f.ps.MarshalJSON(); scribble(b) })
	check("PolicyList.MarshalCedar", func() { scribble(f.plist.MarshalCedar()) })
	check("EntityMap.MarshalJSON", func() { b, _ := f.em.MarshalJSON(); scribble(b) })
	check("EntityMap.Clone", func() {
		cl := f.em.Clone()
		for k := range cl {
			delete(cl, k)
			break
		}
		cl[types.NewEntityUID("X", "intruder")] = types.Entity{}
		for k, e := range cl {
			e.Attributes = types.Record{}
			e.Tags = types.NewRecord(types.RecordMap{"z": types.Long(1)})
			cl[k] = e
		}
	})
	for i, ip := range f.pols {
		p := ip.P
		check(fmt.Sprintf("Policy.MarshalCedar#%d", i), func() { scribble(p.MarshalCedar()) })
		check(fmt.Sprintf("Policy.MarshalJSON#%d", i), func() { b, _ := p.MarshalJSON(); scribble(b) })
		check(fmt.Sprintf("Policy.Annotations#%d", i), func() {
			a := p.Annotations()
			for k := range a {
				a[k] = "mutated"
			}
			a["__intruder"] = "x"
		})
		check(fmt.Sprintf("eval.PartialPolicy#%d", i), func() {
			env := f.envs[i%len(f.envs)]
			env.Principal = eval.Variable("principal")
			res, keep := eval.PartialPolicy(env, ip.AST)
			if !keep || res == nil {
				return
			}
			// the returned policy is a new object: its own fields and its own (first-level) slices are the caller's
			res.Effect = !res.Effect
			res.Position.Offset = -1
			for j := range res.Annotations {
				res.Annotations[j].Value = "mutated"
			}
			for j := range res.Conditions {
				res.Conditions[j] = ast.ConditionType{Condition: !res.Conditions[j].Condition, Body: ast.NodeValue{Value: types.Long(int64(j))}}
			}
			res.Annotations = append(res.Annotations, ast.AnnotationType{Key: "x", Value: "y"})
			res.Conditions = append(res.Conditions, ast.ConditionType{Body: ast.NodeValue{Value: types.True}})
		})
		if i >= 12 {
			break
		}
	}
	for i, v := range f.vals {
		v := v
		check(fmt.Sprintf("Value.MarshalCedar#%d", i), func() { scribble(v.MarshalCedar()) })
		check(fmt.Sprintf("Value.MarshalJSON#%d", i), func() {
			b, _ := json.Marshal(v)
			scribble(b)
			if x, ok := v.(interface{ ExplicitMarshalJSON() ([]byte, error) }); ok {
				b2, _ := x.ExplicitMarshalJSON()
				scribble(b2)
			}
		})
		switch t := v.(type) {
		case types.Set:
			check(fmt.Sprintf("Set.Slice#%d", i), func() {
				s := t.Slice()
				for j := range s {
					s[j] = types.String("mutated")
				}
				s = append(s, types.Long(42))
				_ = s
			})
		case types.Record:
			check(fmt.Sprintf("Record.Map#%d", i), func() {
				m := t.Map()
				for k := range m {
					m[k] = types.String("mutated")
				}
				if m != nil {
					m["__intruder"] = types.Long(1)
				}
			})
		}
	}
	for i := range f.reqs {
		check(fmt.Sprintf("cedar.Authorize-diagnostic#%d", i), func() {
			_, diag := cedar.Authorize(f.ps, f.em, f.reqs[i])
			for j := range diag.Reasons {
				diag.Reasons[j].PolicyID = "mutated"
				diag.Reasons[j].Position.Filename = "mutated"
			}
			for j := range diag.Errors {
				diag.Errors[j].PolicyID = "mutated"
				diag.Errors[j].Position.Offset = -5
			}
		})
		if i >= 8 {
			break
		}
	}
	// NOT exercised, by documented contract: Policy.AST() ("Do not modify the AST, as the compiled policy will no
	// longer be in sync with the AST"), NewPolicyFromAST ("Do not modify the *ast.Policy after passing it in"),
	// batch.Result ("must be used / cloned immediately and not modified"): these hand out the internal object on purpose.
}

// ---------------------------------------------------------------------------------------------
// (b) concurrency worker (runs inside the -race binary)
// ---------------------------------------------------------------------------------------------

type c19Pick struct{ op, k int }

type c19Ref struct {
	want     map[c19Pick]string
	unstable map[int]bool
	all      []c19Pick
}

// c19Reference runs every operation alone on fixture f (twice: an operation that is not stable when run alone
// is not compared) and returns the table of sequential answers.
func c19Reference(ops []c19Op, f *c19Fixture) *c19Ref {
	r := &c19Ref{want: map[c19Pick]string{}, unstable: map[int]bool{}}
	for oi, op := range ops {
		for k := 0; k < op.n(f); k++ {
			a := c19Call(op, f, k)
			if b := c19Call(op, f, k); b != a {
				r.unstable[oi] = true
			}
			r.want[c19Pick{oi, k}] = a
			r.all = append(r.all, c19Pick{oi, k})
		}
	}
	return r
}

type c19Bad struct {
	g         int
	pick      c19Pick
	want, got string
}

// c19Concurrent runs mixes[g] in goroutine g on the shared fixture f. Inside the goroutines ONLY library calls
// are made (plus runtime.Gosched); answers are rendered and compared after the join.
func c19Concurrent(ops []c19Op, f *c19Fixture, mixes [][]c19Pick, seed int64, ref *c19Ref) []c19Bad {
	G := len(mixes)
	raws := make([][]any, G)
	var wg sync.WaitGroup
	start := make(chan struct{})
	for g := 0; g < G; g++ {
		raws[g] = make([]any, len(mixes[g]))
		wg.Add(1)
		go func(g int) {
			defer wg.Done()
			grng := rand.New(rand.NewSource(seed + int64(g)*7907))
			<-start
			for i, pk := range mixes[g] {
				if len(mixes[g]) > 1 && grng.Intn(3) == 0 {
					runtime.Gosched()
				}
				raws[g][i] = c19Raw(ops[pk.op], f, pk.k)
			}
		}(g)
	}
	close(start)
	wg.Wait()
	var bads []c19Bad
	for g := 0; g < G; g++ {
		for i, pk := range mixes[g] {
			if ref.unstable[pk.op] {
				continue
			}
			got := c19Show(ops[pk.op], raws[g][i])
			if w := ref.want[pk]; got != w {
				bads = append(bads, c19Bad{g, pk, w, got})
			}
		}
	}
	return bads
}

func c19Worker(c *vh.Ctx) {
	ops := c19Ops()
	intens := os.Getenv("VERIF_INTENSIFY") != ""
	rounds := c.N(4, 80)
	perG := c.N(50, 150)
	volleys := c.N(32, 160)
	budget := time.Duration(c.N(18, 300)) * time.Second
	if intens {
		rounds *= 3
		volleys *= 2
		budget = budget * 5 / 2
	}
	mismatches := 0
	mixSummary := func(mix []c19Pick) []string {
		var out []string
		for _, pk := range mix {
			out = append(out, fmt.Sprintf("%s/%d", ops[pk.op].name, pk.k))
		}
		return out
	}
	report := func(f *c19Fixture, bads []c19Bad, phase string, round, G int, mixes [][]c19Pick) {
		for _, b := range bads {
			// an operation whose answer depends on Go map iteration order (first of several errors wins: C14) can differ
			// from the reference without any interference: re-run it alone many times; only an answer that the
			// operation NEVER gives alone is a C19 failure
			alone := map[string]bool{b.want: true}
			for i := 0; i < 500 && !alone[b.got]; i++ {
				alone[c19Call(ops[b.pick.op], f, b.pick.k)] = true
			}
			if alone[b.got] {
				c.Dist("differs-but-also-alone(C14):" + ops[b.pick.op].name)
				continue
			}
			mismatches++
			if mismatches > 5 {
				return
			}
			c.Report(vh.Finding{Class: "concurrent-result-differs:" + ops[b.pick.op].name,
				What:  fmt.Sprintf("%s (parameter %d) returned something else under concurrency (%s, G=%d, round %d) than when run alone", ops[b.pick.op].name, b.pick.k, phase, G, round),
				Check: "oracle", Op: ops[b.pick.op].name,
				Input:    map[string]any{"seed": c.Seed, "phase": phase, "round": round, "goroutines": G, "goroutine": b.g, "mix": mixSummary(mixes[b.g])},
				Expected: c19Short(b.want), Actual: c19Short(b.got)})
		}
	}
	mutated := func(f, ref *c19Fixture, before []c19Part, phase string, round, G int, mix0 []c19Pick) {
		after := f.reflectParts()
		if name, x, y, diff := c19Diff(before, after); diff {
			c.Report(vh.Finding{Class: "input-mutated-concurrent", What: fmt.Sprintf("inputs differ after the concurrent phase (%s, G=%d, round %d): %s", phase, G, round, name), Check: "oracle", Op: "concurrent-mix",
				Input: map[string]any{"seed": c.Seed, "phase": phase, "round": round, "goroutines": G, "mix0": mixSummary(mix0)}, Expected: x, Actual: y})
			return
		}
		// and in every externally visible respect (harness encoders, hashes, marshalled bytes) the shared fixture still
		// equals the reference fixture, which no two goroutines ever touched at once
		if ref != f {
			if name, x, y, diff := c19Diff(ref.snapshot(true)[len(before):], f.snapshot(true)[len(before):]); diff {
				c.Report(vh.Finding{Class: "input-mutated-concurrent", What: fmt.Sprintf("after the concurrent phase (%s, G=%d, round %d) the shared inputs no longer look like their sequentially used twin: %s", phase, G, round, name), Check: "oracle", Op: "concurrent-mix",
					Input: map[string]any{"seed": c.Seed, "phase": phase, "round": round, "goroutines": G}, Expected: x, Actual: y})
			}
		}
	}
	sizes := func() (int, int, int) { return c.N(12, 30), c.N(6, 16), c.N(26, 52) }

	// ---- phase V: volleys.  Every volley gets a FRESH fixture (nothing in it has ever been called), all G goroutines
	// are released together and make exactly ONE library call each: half of them the same call (first-call collisions:
	// a lazily initialised field races exactly here), the others different calls (a reader against a first-time
	// initialiser).  The reference answers come from a twin fixture generated from the same seed.
	nSeeds := 3
	type twin struct {
		seed int64
		ref  *c19Ref
		fx   *c19Fixture
	}
	var twins []twin
	for s := 0; s < nSeeds; s++ {
		seed := c.Seed*1000003 + 7777*int64(s+1)
		nP, nR, nV := sizes()
		fx := c19NewFixture(rand.New(rand.NewSource(seed)), nP, nR, nV)
		twins = append(twins, twin{seed, c19Reference(ops, fx), fx})
	}
	vrng := rand.New(rand.NewSource(c.Seed*31 + 5))
	dynFirst := len(c19BaseOps()) // index of cedar.Authorize(dynamic operands); the two ops after it authorize as well
	for v := 0; v < volleys && time.Since(c.Start) < budget/2; v++ {
		tw := twins[v%nSeeds]
		G := []int{8, 32}[v%2]
		nP, nR, nV := sizes()
		f := c19NewFixture(rand.New(rand.NewSource(tw.seed)), nP, nR, nV)
		before := f.reflectParts()
		hot := tw.ref.all[vrng.Intn(len(tw.ref.all))]
		if v%4 == 0 { // the heavy readers often
			hot = []c19Pick{{0, vrng.Intn(len(f.reqs))}, {3, vrng.Intn(len(f.breqs))}, {4, 0}, {5, 0}}[(v/4)%4]
		}
		mixes := make([][]c19Pick, G)
		spread := v%4 == 1 || v%4 == 2
		for g := range mixes {
			switch {
			case spread:
				// spread volley: every goroutine authorizes against the SAME compiled policies (the dynamic-operand
				// workload) with a DIFFERENT request, a few calls in a row: a node that keeps anything between calls
				// hands one request's value to another
				op := dynFirst + (v/4+g%3)%3
				for i := 0; i < 4; i++ {
					mixes[g] = append(mixes[g], c19Pick{op, (g*5 + i*3 + v) % len(f.dyn.reqs)})
				}
			case g%2 == 0:
				mixes[g] = []c19Pick{hot}
			default:
				mixes[g] = []c19Pick{tw.ref.all[vrng.Intn(len(tw.ref.all))]}
			}
			for _, pk := range mixes[g] {
				c.Count(fmt.Sprintf("volley/%d/%d/%d", v%nSeeds, pk.op, pk.k), true)
				c.Dist("concurrent:" + ops[pk.op].name)
			}
		}
		bads := c19Concurrent(ops, f, mixes, c.Seed+int64(v), tw.ref)
		if spread {
			c.Res.OracleChecks += 4 * G
			c.Dist("volley(fresh fixture, spread: same compiled policies, a different request per goroutine)")
		} else {
			c.Res.OracleChecks += G
			c.Dist("volley(fresh fixture, one call per goroutine)")
		}
		report(f, bads, "volley", v, G, mixes)
		mutated(f, tw.fx, before, "volley", v, G, mixes[0])
	}

	// ---- phase M: long shuffled mixes with random Gosched on one shared fixture.
	for round := 0; round < rounds && time.Since(c.Start) < budget; round++ {
		G := []int{8, 32}[round%2]
		// cold rounds: the goroutines make the FIRST calls ever on the shared fixture; the sequential reference comes
		// from a twin fixture generated from the same seed.  warm rounds: the reference is computed on the shared
		// fixture itself first (steady-state readers).
		cold := (round/2)%2 == 0
		nP, nR, nV := sizes()
		mk := func() *c19Fixture {
			return c19NewFixture(rand.New(rand.NewSource(c.Seed*1000003+int64(round))), nP, nR, nV)
		}
		f := mk()
		reff := f
		if cold {
			reff = mk()
		}
		ref := c19Reference(ops, reff)
		for oi := range ref.unstable {
			c.Dist("sequentially-unstable-not-compared:" + ops[oi].name)
		}
		if cold {
			c.Dist("mix-round:cold(first calls concurrent, twin reference)")
		} else {
			c.Dist("mix-round:warm(reference on the shared fixture)")
		}
		before := f.reflectParts() // pure reflection: touches no library code
		mixes := make([][]c19Pick, G)
		for g := 0; g < G; g++ {
			grng := rand.New(rand.NewSource(c.Seed*7919 + int64(round)*131 + int64(g)))
			mix := make([]c19Pick, perG)
			for i := range mix {
				mix[i] = ref.all[grng.Intn(len(ref.all))]
			}
			// make sure the heavy shared readers all overlap: every goroutine has authorize / batch / set marshal
			// (indexes into c19Ops: 0 cedar.Authorize, 3 batch.Authorize, 4/5 PolicySet.MarshalCedar/MarshalJSON)
			mix[0], mix[1], mix[2] = c19Pick{0, grng.Intn(len(f.reqs))}, c19Pick{3, grng.Intn(len(f.breqs))}, c19Pick{4 + grng.Intn(2), 0}
			// … and the dynamic-operand workload with a request of its own
			dynFirst := len(c19BaseOps())
			mix[3], mix[4] = c19Pick{dynFirst, (g*3 + round) % len(f.dyn.reqs)}, c19Pick{dynFirst + 1 + grng.Intn(2), grng.Intn(len(f.dyn.reqs))}
			grng.Shuffle(len(mix), func(i, j int) { mix[i], mix[j] = mix[j], mix[i] })
			mixes[g] = mix
			for _, pk := range mix {
				c.Count(fmt.Sprintf("mix/%d/%d/%d", round, pk.op, pk.k), true)
				c.Dist("concurrent:" + ops[pk.op].name)
			}
		}
		bads := c19Concurrent(ops, f, mixes, c.Seed*104729+int64(round)*17, ref)
		c.Dist(fmt.Sprintf("mix-goroutines:%d", G))
		c.Res.OracleChecks += G * perG
		report(f, bads, "mix", round, G, mixes)
		mutated(f, reff, before, "mix", round, G, mixes[0])
		if round == 0 {
			c.Sample(map[string]any{"check": "concurrency", "goroutines": G, "ops_per_goroutine": perG, "first_mix": mixSummary(mixes[0])[:8]})
		}
	}
	c.Res.Notes = append(c.Res.Notes, fmt.Sprintf("worker: race-enabled=%v GOMAXPROCS=%d", c19RaceEnabled, runtime.GOMAXPROCS(0)))
}

// ---------------------------------------------------------------------------------------------
// parent: build the -race binary (cached), run the worker, read the race log
// ---------------------------------------------------------------------------------------------

func c19SourceKey(verifDir string) string {
	h := sha256.New()
	repo := os.Getenv("VERIF_REPO")
	if repo == "" {
		repo = "/repo"
	}
	for _, root := range []string{repo, filepath.Join(verifDir, "harness")} {
		var lines []string
		_ = filepath.Walk(root, func(p string, info os.FileInfo, err error) error {
			if err != nil {
				return nil
			}
			if info.IsDir() {
				n := info.Name()
				if n == ".git" || n == "bin" || n == "testdata" {
					return filepath.SkipDir
				}
				return nil
			}
			n := info.Name()
			if (strings.HasSuffix(n, ".go") && !strings.HasSuffix(n, "_test.go")) || n == "go.mod" || n == "go.sum" {
				lines = append(lines, fmt.Sprintf("%s %d %d", p, info.ModTime().UnixNano(), info.Size()))
			}
			return nil
		})
		sort.Strings(lines)
		for _, l := range lines {
			h.Write([]byte(l + "\n"))
		}
	}
	h.Write([]byte(runtime.Version()))
	return hex.EncodeToString(h.Sum(nil))[:16]
}

// c19RaceBinary returns the path of an up-to-date race-instrumented build of this harness ("" + reason if impossible).
func c19RaceBinary(c *vh.Ctx) (string, string) {
	harness := filepath.Join(c.VerifDir, "harness")
	binDir := filepath.Join(harness, "bin")
	_ = os.MkdirAll(binDir, 0o755)
	lock, err := os.OpenFile(filepath.Join(binDir, ".vh-race.lock"), os.O_CREATE|os.O_RDWR, 0o644)
	if err == nil {
		defer lock.Close()
		_ = syscall.Flock(int(lock.Fd()), syscall.LOCK_EX)
		defer syscall.Flock(int(lock.Fd()), syscall.LOCK_UN)
	}
	key := c19SourceKey(c.VerifDir)
	path := filepath.Join(binDir, "vh-race-"+key)
	if st, err := os.Stat(path); err == nil && st.Mode().IsRegular() {
		return path, "cached"
	}
	t0 := time.Now()
	tmp, err := os.MkdirTemp("", "vh-race-")
	if err != nil {
		return "", "cannot create temp dir: " + err.Error()
	}
	defer os.RemoveAll(tmp)
	out := filepath.Join(tmp, "vh-race")
	args := []string{"build", "-race", "-tags", "verif", "-o", out}
	if repo := os.Getenv("VERIF_REPO"); repo != "" && repo != "/repo" {
		// a run against another checkout (tools/seedrun.sh): `check` has written an alternate go.mod whose replace
		// directive points there; without it the race worker would be built against /repo and search the wrong tree
		alt := filepath.Join(harness, ".alt.go.mod")
		if b, err := os.ReadFile(alt); err == nil && strings.Contains(string(b), "=> "+repo) {
			args = append(args, "-modfile", alt)
		} else {
			return "", "VERIF_REPO=" + repo + " but " + alt + " does not point there"
		}
	}
	cmd := exec.Command("go", append(args, "./cmd/vh")...)
	cmd.Dir = harness
	env := []string{}
	for _, e := range os.Environ() {
		if strings.HasPrefix(e, "CGO_ENABLED=") || strings.HasPrefix(e, "GOFLAGS=") || strings.HasPrefix(e, "GOPROXY=") || strings.HasPrefix(e, "GOSUMDB=") || strings.HasPrefix(e, "GOTOOLCHAIN=") {
			continue
		}
		env = append(env, e)
	}
	cmd.Env = append(env, "CGO_ENABLED=1", "GOFLAGS=-mod=mod", "GOPROXY=off", "GOSUMDB=off", "GOTOOLCHAIN=local")
	var buf bytes.Buffer
	cmd.Stdout, cmd.Stderr = &buf, &buf
	if err := cmd.Run(); err != nil {
		msg := strings.TrimSpace(buf.String())
		if len(msg) > 600 {
			msg = msg[len(msg)-600:]
		}
		return "", fmt.Sprintf("go build -race failed (%v): %s", err, msg)
	}
	// keep only the newest cached binary
	if old, _ := filepath.Glob(filepath.Join(binDir, "vh-race-*")); len(old) > 0 {
		for _, o := range old {
			_ = os.Remove(o)
		}
	}
	data, err := os.ReadFile(out)
	if err != nil {
		return "", err.Error()
	}
	if err := os.WriteFile(path, data, 0o755); err != nil {
		return "", err.Error()
	}
	return path, fmt.Sprintf("built in %.1fs", time.Since(t0).Seconds())
}

// c19RaceClass names a race report by the first cedar-go frames of the two accesses.
func c19RaceClass(report string) string {
	var fns []string
	for _, l := range strings.Split(report, "\n") {
		t := strings.TrimSpace(l)
		if strings.HasPrefix(t, "Goroutine ") {
			break
		}
		if strings.HasPrefix(t, "github.com/cedar-policy/cedar-go") && strings.HasSuffix(t, ")") {
			fn := strings.TrimPrefix(t, "github.com/cedar-policy/cedar-go")
			if i := strings.LastIndex(fn, "("); i > 0 && strings.HasSuffix(fn, "()") {
				fn = fn[:len(fn)-2]
			}
			fn = strings.TrimPrefix(fn, "/")
			if len(fns) == 0 || fns[len(fns)-1] != fn {
				fns = append(fns, fn)
			}
			if len(fns) >= 1 {
				break
			}
		}
	}
	if len(fns) == 0 {
		return "data-race:outside-cedar-go"
	}
	return "data-race:" + fns[0]
}

func c19RunWorker(c *vh.Ctx, bin string, raced bool) {
	tmp, err := os.MkdirTemp("", "c19-worker-")
	if err != nil {
		c.Report(vh.Finding{Class: "worker-failure", What: err.Error(), Check: "oracle", Op: "concurrent-mix", NoInput: true})
		return
	}
	defer os.RemoveAll(tmp)
	outJSON := filepath.Join(tmp, "result.json")
	logBase := filepath.Join(tmp, "race")
	args := []string{"-prop", "C19", "-tier", c.Tier, "-seed", fmt.Sprint(c.Seed), "-driver", c.Driver, "-verif", c.VerifDir, "-out", outJSON}
	timeout := time.Duration(c.N(150, 2400)) * time.Second
	if os.Getenv("VERIF_INTENSIFY") != "" {
		timeout *= 3
	}
	ctx, cancel := context.WithTimeout(context.Background(), timeout)
	defer cancel()
	cmd := exec.CommandContext(ctx, bin, args...)
	cmd.Dir = c.VerifDir
	cmd.Env = append(os.Environ(), "VERIF_C19_WORKER=1", "GORACE=halt_on_error=0 exitcode=66 history_size=3 log_path="+logBase)
	var so, se bytes.Buffer
	cmd.Stdout, cmd.Stderr = &so, &se
	t0 := time.Now()
	runErr := cmd.Run()
	exit := 0
	if ee, ok := runErr.(*exec.ExitError); ok {
		exit = ee.ExitCode()
	} else if runErr != nil {
		exit = -1
	}
	// race reports
	var reports []string
	logs, _ := filepath.Glob(logBase + ".*")
	text := se.String()
	for _, l := range logs {
		if b, err := os.ReadFile(l); err == nil {
			text += "\n" + string(b)
		}
	}
	for _, blk := range strings.Split(text, "==================") {
		if strings.Contains(blk, "WARNING: DATA RACE") {
			reports = append(reports, strings.TrimSpace(blk))
		}
	}
	// the worker's own result
	var wr vh.Result
	haveResult := false
	if b, err := os.ReadFile(outJSON); err == nil && json.Unmarshal(b, &wr) == nil {
		haveResult = true
		c.Res.Evaluations += wr.Evaluations
		c.Res.Distinct += wr.Distinct
		c.Res.OracleChecks += wr.OracleChecks
		for k, v := range wr.Distribution {
			c.Res.Distribution[k] += v
		}
		for _, s := range wr.Samples {
			c.Sample(s)
		}
		c.Res.Notes = append(c.Res.Notes, wr.Notes...)
		c.Res.Violations = append(c.Res.Violations, wr.Violations...)
		c.Res.KnownHits = append(c.Res.KnownHits, wr.KnownHits...)
	}
	c.Res.Notes = append(c.Res.Notes, fmt.Sprintf("concurrency worker: %s, exit %d, %.1fs, %d race report(s), race detector %v", filepath.Base(bin), exit, time.Since(t0).Seconds(), len(reports), raced))
	seen := map[string]bool{}
	for _, r := range reports {
		cls := c19RaceClass(r)
		if seen[cls] || len(seen) >= 3 { // one replay per racing function, a few functions at most
			continue
		}
		seen[cls] = true
		if len(r) > 6000 {
			r = r[:6000]
		}
		c.Report(vh.Finding{Class: cls, What: "the Go race detector reported a data race between concurrent read-only calls on shared inputs: " + cls, Check: "oracle", Op: "concurrent-mix",
			Input: map[string]any{"seed": c.Seed, "tier": c.Tier, "note": "goroutine counts alternate 8/32 per round; the op mix of every goroutine is derived from the seed (see c19Worker)"}, Actual: r})
	}
	if len(reports) == 0 && (exit == 66) {
		c.Report(vh.Finding{Class: "data-race:unparsed", What: "worker exited with the race detector's exit code 66 but no report could be read", Check: "oracle", Op: "concurrent-mix", Actual: c19Short(se.String()), NoInput: true})
	}
	if !haveResult || (exit != 0 && exit != 1 && exit != 66) {
		msg := se.String()
		if len(msg) > 3000 {
			msg = msg[len(msg)-3000:]
		}
		what := fmt.Sprintf("concurrency worker did not complete (exit %d, result file %v)", exit, haveResult)
		if ctx.Err() != nil {
			what += ": timeout"
		}
		c.Report(vh.Finding{Class: "worker-failure", What: what, Check: "oracle", Op: "concurrent-mix", Actual: msg, NoInput: true})
	}
}

func runC19(c *vh.Ctx) {
	if os.Getenv("VERIF_C19_WORKER") != "" {
		c19Worker(c)
		return
	}
	c.Res.Rule = "read-only API calls (cedar.Authorize on PolicySet and PolicyMap, PolicySet.IsAuthorized, batch.Authorize with variables/ignores, PolicySet/PolicyList/Policy MarshalCedar+MarshalJSON, Policy.AST/Annotations/Effect/Position, PolicySet.Map/All/Get, Value MarshalCedar/String/MarshalJSON/ExplicitMarshalJSON/Equal/hash, Set.Slice/All/Iterate/Len/Contains, Record.Map/All/Keys/Values/Get, EntityMap.MarshalJSON/Get/Clone, Entity.MarshalJSON/Equal, eval.Eval, eval.PartialPolicy, Validator.Policy/Entities/Entity/Request) on generated policy sets, entity maps, requests and values: " +
		"(a) sequential: a deep snapshot of all inputs (reflection dump of the whole object graph incl. unexported fields and spare slice capacity, harness encoders, hashes, marshalled bytes) is identical before and after every call, and mutating every returned slice/map/byte slice/policy copy leaves the originals unchanged; " +
		"(b) concurrent (second binary built with -race): volleys (fresh fixture, G in {8,32} goroutines released together, one library call each, half of them the same call) and long shuffled op mixes with random Gosched on ONE shared fixture (cold rounds: first calls concurrent, reference from a twin fixture; warm rounds), only library calls inside the goroutines; every result equals the sequential result, snapshot identical before/after, no race report. " +
		"(c) the dynamic-operand workload (c19_dyn.go) in (a) and (b): one policy per extension function x {arguments from value-typed request fields, arguments constructed in place from request strings} and per evaluator node kind (set / record literals, like, in, is, is..in, has, hasTag / getTag, contains*, isEmpty, arithmetic, comparisons, &&, ||, if, access), ALL over non-constant operands, each compared with a pivot so that about half of 16 requests with pairwise different operand values satisfy it; coverage cross-checked against the extension table and the ToEval arms extracted from the source (class workload-gap); spread volleys: G goroutines authorize against the SAME compiled policies, each with a DIFFERENT request, four calls in a row. " +
		"evaluation = one call; distinct = distinct (fixture, operation, parameter); all are non-trivial (each call reads shared inputs)"
	intens := os.Getenv("VERIF_INTENSIFY") != ""
	// (a)
	rounds := c.N(2, 10)
	if intens {
		rounds *= 3
	}
	for round := 0; round < rounds; round++ {
		f := c19NewFixture(c.Rng, c.N(10, 24), c.N(6, 12), c.N(26, 52))
		if f.vStrict == nil && round == 0 {
			c.Res.Notes = append(c.Res.Notes, "schema did not build: validator calls not exercised")
		}
		if round == 0 {
			if gaps := c19WorkloadGaps(c, f.dyn); len(gaps) > 0 {
				c.Report(vh.Finding{Class: "workload-gap", What: "the dynamic-operand workload does not apply these evaluator node kinds / extension functions (as extracted from the source by factgen) to non-constant operands: " + strings.Join(gaps, ", "),
					Check: "oracle", Op: "dynamic-workload", Input: map[string]any{"missing": gaps}})
			}
			c.Res.Notes = append(c.Res.Notes, fmt.Sprintf("dynamic-operand workload: %d policies (every extension function x {request fields, constructed in place}, every evaluator node kind) x %d requests with pairwise different operand values", len(f.dyn.pols), len(f.dyn.reqs)))
		}
		c19Immutability(c, f, round)
		c19Aliasing(c, f, round)
	}
	for op := range c19Unstable {
		c.Res.Notes = append(c.Res.Notes, "operation gives different answers when simply called twice (outside C19, see C14); still snapshot-checked: "+op)
	}
	c.Res.Notes = append(c.Res.Notes, "aliasing by documented contract, not counted: Policy.AST() returns the internal AST (\"Do not modify the AST…\"), NewPolicyFromAST keeps the given AST (\"Do not modify the *ast.Policy after passing it…\"), batch.Result must not be modified by the callback")
	// (b)
	bin, how := c19RaceBinary(c)
	raced := bin != ""
	if !raced {
		c.Res.Notes = append(c.Res.Notes, "RACE DETECTOR UNAVAILABLE ("+how+"): falling back to result comparison under concurrency with the uninstrumented binary")
		self, err := os.Executable()
		if err != nil {
			c.Report(vh.Finding{Class: "worker-failure", What: "cannot locate own executable: " + err.Error(), Check: "oracle", Op: "concurrent-mix", NoInput: true})
			return
		}
		bin = self
	} else {
		c.Res.Notes = append(c.Res.Notes, "race binary: "+filepath.Base(bin)+" ("+how+")")
	}
	c19RunWorker(c, bin, raced)
}
