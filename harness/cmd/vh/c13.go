package main

import (
	"bytes"
	"encoding/json"
	"fmt"
	"math"
	"reflect"
	"strings"

	cedar "github.com/cedar-policy/cedar-go"
	"github.com/cedar-policy/cedar-go/types"
	exptypes "github.com/cedar-policy/cedar-go/x/exp/types"

	"verifharness/vh"
)

func init() { props["C13"] = runC13 }

// ---- implementation runners (always under vh.Protect) ----

func c13DecodeValue(doc []byte) (out string, v types.Value) {
	if pn := vh.Protect(func() {
		var w types.Value
		if err := types.UnmarshalJSON(doc, &w); err != nil {
			out = "err"
			return
		}
		out, v = "ok "+vh.ShowValue(w), w
	}); pn != nil {
		return "panic", nil
	}
	c13ReuseValueCheck(doc, out, v) // the same document into a variable that already holds a value (c13_reuse.go)
	return
}

func c13DecodeInto[T any](doc []byte, show func(T) string) (out string, v T) {
	if pn := vh.Protect(func() {
		var w T
		if err := json.Unmarshal(doc, &w); err != nil {
			out = "err"
			return
		}
		out, v = "ok "+show(w), w
	}); pn != nil {
		out = "panic"
	}
	c13ReuseCheck(doc, out, v, show) // the same document into a destination that already holds other content (c13_reuse.go)
	return
}

func c13Marshal(v any) (b []byte, out string) {
	if pn := vh.Protect(func() {
		var err error
		b, err = json.Marshal(v)
		if err != nil {
			out = "err"
		}
	}); pn != nil {
		out = "panic"
	}
	return
}

// c13Canon canonicalises Go's bytes: generic decode + canonical rendering with sorted arrays.
func c13Canon(b []byte) string {
	t, err := vh.GenericDecode(b)
	if err != nil {
		return "invalid-json " + err.Error()
	}
	return vh.CanonJSON(t, true)
}

// c13Class is the narrow classifier for value round-trip failures: the first extension value of a known defect
// family that does not itself survive print -> parse (a value of such a family that does is not the cause).
func c13Class(v types.Value) string {
	cls := ""
	vh.WalkValues(v, func(x types.Value) {
		switch t := x.(type) {
		case types.Duration:
			if t.ToMilliseconds() == math.MinInt64 && cls == "" && !vh.ExtValueReparses(t) {
				cls = "duration-min-int64"
			}
		case types.Datetime:
			if t.Milliseconds() < math.MinInt64+86400000 && cls == "" && !vh.ExtValueReparses(t) {
				cls = "datetime-first-day"
			}
		case types.IPAddr:
			if t.Addr().Is4In6() && cls == "" && !vh.ExtValueReparses(t) {
				cls = "ip-v4-mapped-ipv6"
			}
		}
	})
	if vh.HasReservedKey(v) {
		return "record-reserved-key"
	}
	if cls != "" {
		return cls
	}
	return "value-json-roundtrip"
}

// c13OrderOnly: two encodings that differ at most in the ORDER of array members (and of object keys): equal after the
// canonical sort.  The repaired class set-hash-collision-order is reported only with this evidence next to a colliding
// set in the value: a second encoding that differs in content is some other failure, whatever the value contains.
func c13OrderOnly(a, b []byte) bool {
	ca, cb := c13Canon(a), c13Canon(b)
	return !strings.HasPrefix(ca, "invalid-json") && ca == cb
}

// c13HashCollision: some set inside v has two members with the same internal hash (emission order then
// depends on insertion order, and flips on every round trip when the hash is MaxUint64).
func c13HashCollision(v types.Value) bool {
	found := false
	vh.WalkValues(v, func(x types.Value) {
		if s, ok := x.(types.Set); ok {
			seen := map[uint64]bool{}
			for m := range s.All() {
				h := types.VerifHash(m)
				if seen[h] {
					found = true
				}
				seen[h] = true
			}
		}
	})
	return found
}

// c13RoundTrip: Marshal → Unmarshal → Equal, second Marshal byte-identical.
func c13RoundTrip(c *vh.Ctx, v types.Value, op string) (b []byte) {
	c.Res.OracleChecks++
	b, st := c13Marshal(v)
	if st != "" {
		c.Report(vh.Finding{Class: "value-marshal-fails", What: "json.Marshal of a value " + st, Check: "oracle", Op: op, Input: vh.EncValue(v)})
		return nil
	}
	out, w := c13DecodeValue(b)
	fail := ""
	var b2 []byte
	switch {
	case out == "err" || out == "panic":
		fail = "decoding its own encoding: " + out
	case !w.Equal(v) || !v.Equal(w):
		fail = "decoded value differs: " + out
	default:
		b2, _ = c13Marshal(w)
		if !bytes.Equal(b, b2) {
			fail = "second encoding differs: " + string(b2)
		}
	}
	if fail != "" {
		cls := c13Class(v)
		if strings.HasPrefix(fail, "second encoding") && c13HashCollision(v) && c13OrderOnly(b, b2) {
			cls = "set-hash-collision-order"
		}
		c.Report(vh.Finding{Class: cls, What: fmt.Sprintf("%s; encoding %s", fail, b), Check: "oracle", Op: op, Input: vh.EncValue(v), Expected: "ok " + vh.ShowValue(v), Actual: out})
	}
	return b
}

func c13ValueDepth(v types.Value) int {
	d := 1
	switch t := v.(type) {
	case types.Set:
		for x := range t.All() {
			if k := c13ValueDepth(x) + 1; k > d {
				d = k
			}
		}
	case types.Record:
		for _, x := range t.All() {
			if k := c13ValueDepth(x) + 1; k > d {
				d = k
			}
		}
	}
	return d
}

func c13Kind(v types.Value) string { return fmt.Sprintf("%T", v)[6:] }

func diagEqual(a, b cedar.Diagnostic) bool {
	if len(a.Reasons) != len(b.Reasons) || len(a.Errors) != len(b.Errors) {
		return false
	}
	for i := range a.Reasons {
		if !reflect.DeepEqual(a.Reasons[i], b.Reasons[i]) {
			return false
		}
	}
	for i := range a.Errors {
		if !reflect.DeepEqual(a.Errors[i], b.Errors[i]) {
			return false
		}
	}
	return true
}

func entityMapEqual(a, b types.EntityMap) bool {
	if len(a) != len(b) {
		return false
	}
	for k, x := range a {
		y, ok := b[k]
		if !ok || !x.Equal(y) {
			return false
		}
	}
	return true
}

var c13ValueKeys = []string{"__extn", "__entity", "fn", "arg", "type", "id", "__EXTN", "__Entity", "Type", "ID", "FN", "x", ""}
var c13ValueVals = []any{map[string]any{"fn": "ip", "arg": "1.2.3.4"}, map[string]any{"type": "A", "id": "b"}, map[string]any{"fn": "decimal", "arg": "1.5"},
	map[string]any{"fn": "nosuch", "arg": "x"}, map[string]any{"type": "A"}, "A", json.Number("1"), json.Number("9223372036854775808"), json.Number("1.0"), nil,
	map[string]any{"__entity": map[string]any{"type": "A", "id": "b"}}, map[string]any{"__extn": map[string]any{"fn": "duration", "arg": "1h"}}}
var c13EntityKeys = []string{"uid", "parents", "attrs", "tags", "UID", "Parents", "type", "id", "__entity", "x", "context", "principal", "action", "resource"}

func runC13(c *vh.Ctx) {
	g := vh.NewGen(c.Rng)
	b := &vh.Batch{}
	c.Res.Rule = "values (nesting <= 4, every extension type, longs at the int64 boundaries, strings and keys over all of Unicode incl. quote, backslash, U+2028, <>&), escape look-alike records, entities / entity maps / requests / Decision / Diagnostic: json.Marshal -> json.Unmarshal -> Equal and a byte-identical second Marshal; number literals 2^63, -2^63-1, floats and exponents must be rejected; every accepted spelling of one datum (explicit __entity/__extn, bare {fn,arg}, bare string, implicit {type,id}, schema-guided coercion against a generated schema) must decode to Equal values; every document is also decoded into a REUSED destination already holding other content of the same type (entity map, entity, request, uid, record, set, extension value, Value variable) and must give the same result and re-encoding as a fresh decode; entities / parent sets / entity maps over look-alike UIDs (distinct pairs with equal Type+ID or Type+'::'+ID concatenations, ids holding '::' and quotes, empty type or id) encoded 16 times over containers rebuilt in shuffled insertion orders must be byte-identical; second round (c13_ext.go): entity maps over UIDs whose String() order differs from their (type,id) order — array strictly increasing by UID.String(), model fed the map in shuffled order, decode+encode of own encodings (also with the array members shuffled) / near-misses / documents with a duplicated UID (strict oracle: must be rejected; table with look-alike UIDs, two spellings of one UID, null members); Diagnostic (nil, empty and filled slices, int boundaries) Marshal -> Unmarshal -> DeepEqual up to nil/empty, stable, near-miss table; Decision decoded from raw texts into a fresh and into a reused receiver (escaped spellings, white space, unknown strings, non-strings, null, invalid JSON; strict oracle on the denoted string: allow / deny however spelled, everything else an error, null a no-op); nested coercion: types of depth <= 4, a spelling drawn independently at every typed leaf, must decode (unguided + coerceValue, and Entity.UnmarshalJSONWithSchema) to the datum; correspondence of encodeValue/decodeValue/entity/request codecs (Lean model at JSON-tree level) with the Go codecs on generated documents and on near-miss documents (accept/reject and decoded value). distinct = distinct canonical documents / values; non-trivial = value or document with at least one container, escape or extension value"

	c13ReuseStart(c)
	defer func() { c13R = nil }()
	mutV := &vh.TreeMutator{G: g, Keys: c13ValueKeys, Values: c13ValueVals}
	mutE := &vh.TreeMutator{G: g, Keys: c13EntityKeys, Values: c13ValueVals}

	// addDecode: one document through Go and (unless it holds an exponent literal) the model.
	addDecode := func(op string, tree any, extra map[string]any, impl func([]byte) string, tag string) {
		doc := vh.SortedJSON(tree)
		out := impl(doc)
		c.Dist(op + ":" + vh.FirstWordC13(out))
		if out == "panic" {
			c.Report(vh.Finding{Class: "json-decode-panic", What: "decoder panics on " + string(doc), Check: "oracle", Op: op, Input: string(doc)})
		}
		if vh.HasExponentLiteral(tree) {
			c.Dist("exponent-literal-go-only")
			return
		}
		payload := map[string]any{"doc": string(doc)}
		for k, v := range extra {
			payload[k] = v
		}
		idx := b.Add(op, payload, out, tag)
		c.Count(b.Key(idx), true)
	}
	valueImpl := func(doc []byte) string { out, _ := c13DecodeValue(doc); return out }

	// ---- 1. random values: round trip, encode correspondence, decode correspondence of the encoding ----
	nVal := c.N(6000, 200000)
	for i := 0; i < nVal; i++ {
		v := g.ValueC13(4, false)
		enc := c13RoundTrip(c, v, "value-roundtrip")
		c.Dist("value:" + c13Kind(v))
		c.Dist(fmt.Sprintf("value-depth:%d", c13ValueDepth(v)))
		if enc == nil {
			continue
		}
		idx := b.Add("vjson-encode", map[string]any{"value": vh.EncValue(v)}, c13Canon(enc), "")
		c.Count(b.Key(idx), c13ValueDepth(v) > 1 || c13Kind(v) != "Long")
		if i < 3 {
			c.Sample(map[string]any{"op": "value-roundtrip", "json": string(enc)})
		}
		if tree, err := vh.GenericDecode(enc); err == nil {
			if i%2 == 0 {
				addDecode("vjson-decode", tree, nil, valueImpl, "own-encoding")
			}
			if i%2 == 1 {
				addDecode("vjson-decode", mutV.Mutate(tree), nil, valueImpl, "near-miss")
			}
		} else {
			c.Report(vh.Finding{Class: "value-marshal-invalid-json", What: "json.Marshal produced invalid JSON: " + string(enc), Check: "oracle", Op: "value-roundtrip", Input: vh.EncValue(v)})
		}
	}

	// ---- 2. number literals ----
	mustAccept := map[string]int64{"9223372036854775807": math.MaxInt64, "-9223372036854775808": math.MinInt64, "9223372036854775806": math.MaxInt64 - 1,
		"-9223372036854775807": math.MinInt64 + 1, "0": 0, "-0": 0, "-1": -1, "9007199254740993": 9007199254740993}
	for lit, want := range mustAccept {
		c.Res.OracleChecks++
		out, v := c13DecodeValue([]byte(lit))
		if out != "ok "+vh.ShowValue(types.Long(want)) {
			c.Report(vh.Finding{Class: "long-literal-misdecoded", What: fmt.Sprintf("literal %s decodes to %s (%v)", lit, out, v), Check: "oracle", Op: "vjson-decode", Input: lit})
		}
		addDecode("vjson-decode", json.Number(lit), nil, valueImpl, "long-literal")
		addDecode("vjson-decode", []any{json.Number(lit), map[string]any{"k": json.Number(lit)}}, nil, valueImpl, "long-literal")
	}
	mustReject := []string{"9223372036854775808", "-9223372036854775809", "18446744073709551616", "1.0", "0.5", "-0.0", "1e2", "1E2", "1e-2", "1.5e3", "1e400", "-1e0", "100000000000000000000",
		"0e0", "9223372036854775807.0", "9.223372036854775807e18"}
	for _, lit := range mustReject {
		for _, doc := range []string{lit, "[" + lit + "]", `{"a":` + lit + `}`, `{"a":[1,{"b":` + lit + `}]}`} {
			c.Res.OracleChecks++
			out, _ := c13DecodeValue([]byte(doc))
			if out != "err" {
				c.Report(vh.Finding{Class: "long-literal-accepted", What: fmt.Sprintf("number literal %s must be rejected, got %s", doc, out), Check: "oracle", Op: "vjson-decode", Input: doc})
			}
			if tree, err := vh.GenericDecode([]byte(doc)); err == nil {
				addDecode("vjson-decode", tree, nil, valueImpl, "long-literal")
			}
		}
	}

	// ---- 3. records that look like escapes (known finding record-reserved-key) ----
	nLook := c.N(600, 20000)
	for i := 0; i < nLook; i++ {
		var v types.Value
		if i%2 == 0 {
			v = g.EscapeLookalike()
		} else {
			v = g.ValueC13(3, true)
		}
		enc := c13RoundTrip(c, v, "value-roundtrip")
		if vh.HasReservedKey(v) {
			c.Dist("value:reserved-key-record")
		}
		if enc != nil {
			idx := b.Add("vjson-encode", map[string]any{"value": vh.EncValue(v)}, c13Canon(enc), "")
			c.Count(b.Key(idx), true)
			if tree, err := vh.GenericDecode(enc); err == nil {
				addDecode("vjson-decode", tree, nil, valueImpl, "lookalike")
			}
		}
	}

	// ---- 3a. the witnesses of the Lean counterexample theorems, replayed on the Go code (and through the model) ----
	recOf := func(kv ...any) types.Record {
		m := types.RecordMap{}
		for i := 0; i+1 < len(kv); i += 2 {
			m[types.String(kv[i].(string))] = kv[i+1].(types.Value)
		}
		return types.NewRecord(m)
	}
	v4mapped, _ := types.ParseIPAddr("::ffff:102:304")
	for _, w := range []struct {
		name string
		v    types.Value
		want string // what Go must do for the theorem's witness to be a faithful counterexample
	}{
		{"C13_reserved_key_counterexample", recOf("__entity", recOf("id", types.String("b"), "type", types.String("A"))), "ok " + vh.ShowValue(types.NewEntityUID("A", "b"))},
		{"C13_reserved_key_rejected_counterexample", recOf("__EXTN", recOf("fn", types.String("nosuch"))), "err"},
		// repaired in cedar-go (regression `example` in Properties/C13.lean, formerly C13_duration_min_counterexample)
		{"regression example Duration(MinInt64)", types.NewDurationFromMillis(math.MinInt64), "ok " + vh.ShowValue(types.NewDurationFromMillis(math.MinInt64))},
		{"C13_datetime_first_day_counterexample", types.NewDatetimeFromMillis(math.MinInt64), "err"},
		{"C13_ip_v4mapped_counterexample", v4mapped, "err"},
	} {
		c.Res.OracleChecks++
		enc := c13RoundTrip(c, w.v, "witness:"+w.name)
		got, _ := c13DecodeValue(enc)
		if got != w.want {
			c.Report(vh.Finding{Class: "witness-drift", What: fmt.Sprintf("witness of %s: Go decodes %s to %q, the theorem says %q (the defect may have been repaired: update model, theorem and known_findings)", w.name, enc, got, w.want), Check: "oracle", Op: "vjson-decode", Input: string(enc), Expected: w.want, Actual: got})
		}
		idx := b.Add("vjson-encode", map[string]any{"value": vh.EncValue(w.v)}, c13Canon(enc), "witness")
		c.Count(b.Key(idx), true)
		if tree, err := vh.GenericDecode(enc); err == nil {
			addDecode("vjson-decode", tree, nil, valueImpl, "witness")
		}
		c.Dist("witness-replayed")
	}

	// ---- 3b. Go strings that are not valid UTF-8 (outside the model and outside Cedar's value space): no-panic stream.
	// encoding/json substitutes U+FFFD, so these cannot round-trip; only totality is demanded here.
	for _, bad := range []string{"\xff", "a\xc3", "\xed\xa0\x80", "\xf8\x88\x80\x80\x80", "ok\x80ok"} {
		for _, v := range []types.Value{types.String(bad), types.NewRecord(types.RecordMap{types.String(bad): types.Long(1)}),
			types.NewSet(types.String(bad), types.String("x")), types.NewEntityUID(types.EntityType(bad), types.String(bad))} {
			c.Res.OracleChecks++
			enc, st := c13Marshal(v)
			if st == "panic" {
				c.Report(vh.Finding{Class: "invalid-utf8-panic", What: "json.Marshal panics on a value holding invalid UTF-8", Check: "oracle", Op: "value-roundtrip", Input: vh.Hex(bad)})
				continue
			}
			if out, w := c13DecodeValue(enc); out == "panic" {
				c.Report(vh.Finding{Class: "invalid-utf8-panic", What: "decoder panics on " + string(enc), Check: "oracle", Op: "value-roundtrip", Input: vh.Hex(bad)})
			} else if w == nil || !w.Equal(v) {
				c.Dist("invalid-utf8:lossy (unmodelled, not demanded)")
			}
		}
	}

	// ---- 4. entities, entity maps, requests, decisions, diagnostics ----
	showEnt := func(e types.Entity) string { return vh.ShowEntityC13(e) }
	nEnt := c.N(1500, 50000)
	for i := 0; i < nEnt; i++ {
		c.Res.OracleChecks++
		em := g.EntityMapC13(2)
		enc, st := c13Marshal(em)
		if st != "" {
			c.Report(vh.Finding{Class: "entitymap-marshal-fails", What: st, Check: "oracle", Op: "ejson-encode", Input: vh.EncEntities(em)})
			continue
		}
		out, em2 := c13DecodeInto[types.EntityMap](enc, vh.ShowEntitiesC13)
		cls := "entitymap-json-roundtrip"
		for _, e := range em {
			if k := c13Class(e.Attributes); k != "value-json-roundtrip" {
				cls = k
			}
			if k := c13Class(e.Tags); k != "value-json-roundtrip" {
				cls = k
			}
		}
		if out == "err" || out == "panic" || !entityMapEqual(em, em2) {
			c.Report(vh.Finding{Class: cls, What: fmt.Sprintf("entity map does not round-trip (%s): %s", vh.FirstWordC13(out), enc), Check: "oracle", Op: "ejson", Input: vh.EncEntities(em), Expected: vh.ShowEntitiesC13(em), Actual: out})
		} else if enc2, _ := c13Marshal(em2); !bytes.Equal(enc, enc2) {
			ucls := "entitymap-json-unstable"
			for _, e := range em {
				if (c13HashCollision(e.Attributes) || c13HashCollision(e.Tags)) && c13OrderOnly(enc, enc2) {
					ucls = "set-hash-collision-order"
				}
			}
			c.Report(vh.Finding{Class: ucls, What: fmt.Sprintf("second encoding differs: %s vs %s", enc, enc2), Check: "oracle", Op: "ejson", Input: vh.EncEntities(em)})
		}
		idx := b.Add("ejson-encode", map[string]any{"entities": vh.EncEntities(em)}, c13Canon(enc), "")
		c.Count(b.Key(idx), len(em) > 0)
		c.Dist(fmt.Sprintf("entitymap-size:%d", len(em)))
		emImpl := func(doc []byte) string {
			o, _ := c13DecodeInto[types.EntityMap](doc, vh.ShowEntitiesC13)
			return o
		}
		if tree, err := vh.GenericDecode(enc); err == nil {
			if i%2 == 0 {
				addDecode("ejson-decode", tree, nil, emImpl, "own-encoding")
			} else {
				addDecode("ejson-decode", mutE.Mutate(tree), nil, emImpl, "near-miss")
			}
		}
		// single entities
		for _, e := range em {
			c.Res.OracleChecks++
			eb, _ := c13Marshal(e)
			o, e2 := c13DecodeInto[types.Entity](eb, showEnt)
			if o == "err" || o == "panic" || !e.Equal(e2) {
				k := c13Class(e.Attributes)
				if k == "value-json-roundtrip" {
					k = c13Class(e.Tags)
				}
				if k == "value-json-roundtrip" {
					k = "entity-json-roundtrip"
				}
				c.Report(vh.Finding{Class: k, What: fmt.Sprintf("entity does not round-trip (%s): %s", vh.FirstWordC13(o), eb), Check: "oracle", Op: "entity-json", Input: string(eb)})
			}
			break
		}
		// request
		c.Res.OracleChecks++
		ctx := types.NewRecord(types.RecordMap{types.String(g.KeyC13()): g.ValueC13(2, false), "k": g.ValueC13(1, false)})
		req := types.Request{Principal: g.UIDC13(), Action: g.UIDC13(), Resource: g.UIDC13(), Context: ctx}
		rb, _ := c13Marshal(req)
		ro, req2 := c13DecodeInto[types.Request](rb, vh.ShowRequestC13)
		if ro == "err" || ro == "panic" || !req.Equal(req2) {
			k := c13Class(ctx)
			if k == "value-json-roundtrip" {
				k = "request-json-roundtrip"
			}
			c.Report(vh.Finding{Class: k, What: fmt.Sprintf("request does not round-trip (%s): %s", vh.FirstWordC13(ro), rb), Check: "oracle", Op: "rjson", Input: string(rb)})
		} else if rb2, _ := c13Marshal(req2); !bytes.Equal(rb, rb2) {
			ucls := "request-json-unstable"
			if c13HashCollision(ctx) && c13OrderOnly(rb, rb2) {
				ucls = "set-hash-collision-order"
			}
			c.Report(vh.Finding{Class: ucls, What: fmt.Sprintf("second encoding differs: %s vs %s", rb, rb2), Check: "oracle", Op: "rjson", Input: string(rb)})
		}
		ridx := b.Add("rjson-encode", map[string]any{"request": map[string]any{"principal": vh.EncUID(req.Principal), "action": vh.EncUID(req.Action), "resource": vh.EncUID(req.Resource), "context": vh.EncValue(req.Context)}}, c13Canon(rb), "")
		c.Count(b.Key(ridx), true)
		reqImpl := func(doc []byte) string {
			o, _ := c13DecodeInto[types.Request](doc, vh.ShowRequestC13)
			return o
		}
		if tree, err := vh.GenericDecode(rb); err == nil {
			if i%2 == 0 {
				addDecode("rjson-decode", tree, nil, reqImpl, "own-encoding")
			} else {
				addDecode("rjson-decode", mutE.Mutate(tree), nil, reqImpl, "near-miss")
			}
		}
		// decision + diagnostic
		c.Res.OracleChecks++
		for _, d := range []cedar.Decision{cedar.Allow, cedar.Deny} {
			db, _ := json.Marshal(d)
			var d2 cedar.Decision
			if err := json.Unmarshal(db, &d2); err != nil || d2 != d {
				c.Report(vh.Finding{Class: "decision-json-roundtrip", What: fmt.Sprintf("decision %v -> %s -> %v (%v)", d, db, d2, err), Check: "oracle", Op: "decision-json", Input: string(db)})
			}
		}
		var diag cedar.Diagnostic
		for k, n := 0, g.R.Intn(3); k < n; k++ {
			diag.Reasons = append(diag.Reasons, cedar.DiagnosticReason{PolicyID: cedar.PolicyID(g.UnicodeString()), Position: cedar.Position{Filename: g.UnicodeString(), Offset: g.R.Intn(1000), Line: g.R.Intn(100), Column: g.R.Intn(100)}})
		}
		for k, n := 0, g.R.Intn(3); k < n; k++ {
			diag.Errors = append(diag.Errors, cedar.DiagnosticError{PolicyID: cedar.PolicyID(g.UnicodeString()), Position: cedar.Position{Filename: g.UnicodeString(), Offset: g.R.Intn(1 << 40), Line: g.R.Intn(100), Column: g.R.Intn(100)}, Message: g.UnicodeString()})
		}
		gb, _ := json.Marshal(diag)
		var diag2 cedar.Diagnostic
		if err := json.Unmarshal(gb, &diag2); err != nil || !diagEqual(diag, diag2) {
			c.Report(vh.Finding{Class: "diagnostic-json-roundtrip", What: fmt.Sprintf("diagnostic does not round-trip: %s (%v)", gb, err), Check: "oracle", Op: "diagnostic-json", Input: string(gb)})
		} else if gb2, _ := json.Marshal(diag2); !bytes.Equal(gb, gb2) {
			c.Report(vh.Finding{Class: "diagnostic-json-unstable", What: fmt.Sprintf("%s vs %s", gb, gb2), Check: "oracle", Op: "diagnostic-json", Input: string(gb)})
		}
	}

	// ---- 5. alternative spellings of one datum ----
	nSp := c.N(1500, 50000)
	uidImpl := func(doc []byte) string {
		o, _ := c13DecodeInto[types.EntityUID](doc, vh.ShowUIDC13)
		return o
	}
	for i := 0; i < nSp; i++ {
		// entity uid
		u := g.UIDC13()
		explicit := map[string]any{"__entity": map[string]any{"type": string(u.Type), "id": string(u.ID)}}
		implicit := map[string]any{"type": string(u.Type), "id": string(u.ID)}
		both := map[string]any{"__entity": map[string]any{"type": string(u.Type), "id": string(u.ID)}, "type": "Other", "id": "other"}
		want := "ok " + vh.ShowUIDC13(u)
		for name, sp := range map[string]any{"explicit": explicit, "implicit": implicit, "explicit+implicit": both} {
			c.Res.OracleChecks++
			doc := vh.SortedJSON(sp)
			if got := uidImpl(doc); got != want {
				c.Report(vh.Finding{Class: "uid-spelling-" + name, What: fmt.Sprintf("EntityUID spelling %s decodes to %s, want %s", doc, got, want), Check: "oracle", Op: "uid-decode", Input: string(doc)})
			}
			addDecode("uid-decode", sp, nil, uidImpl, "spelling")
		}
		c.Res.OracleChecks++
		if got, _ := c13DecodeValue(vh.SortedJSON(explicit)); got != "ok "+vh.ShowValue(u) {
			c.Report(vh.Finding{Class: "uid-spelling-explicit-value", What: fmt.Sprintf("explicit __entity as a value decodes to %s", got), Check: "oracle", Op: "vjson-decode", Input: string(vh.SortedJSON(explicit))})
		}
		addDecode("vjson-decode", explicit, nil, valueImpl, "spelling")
		addDecode("vjson-decode", implicit, nil, valueImpl, "spelling") // a record, by design
		addDecode("uid-decode", mutV.Mutate(explicit), nil, uidImpl, "near-miss")
		addDecode("uid-decode", mutV.Mutate(implicit), nil, uidImpl, "near-miss")

		// extension values
		var x types.Value
		var kind, fn string
		switch i % 4 {
		case 0:
			x, kind, fn = g.Value(vh.TDecimal, 0), "decimal", "decimal"
		case 1:
			x, kind, fn = types.NewDatetimeFromMillis(g.Millis()), "datetime", "datetime"
		case 2:
			x, kind, fn = types.NewDurationFromMillis(g.Millis()), "duration", "duration"
		default:
			x, kind, fn = g.IPC13(), "ip", "ip"
		}
		if c13Class(x) != "value-json-roundtrip" {
			c.Dist("spelling-skip:" + c13Class(x))
			continue
		}
		arg := x.(interface{ String() string }).String()
		typedImpl := func(doc []byte) string {
			switch kind {
			case "decimal":
				o, _ := c13DecodeInto[types.Decimal](doc, func(v types.Decimal) string { return vh.ShowValue(v) })
				return o
			case "datetime":
				o, _ := c13DecodeInto[types.Datetime](doc, func(v types.Datetime) string { return vh.ShowValue(v) })
				return o
			case "duration":
				o, _ := c13DecodeInto[types.Duration](doc, func(v types.Duration) string { return vh.ShowValue(v) })
				return o
			}
			o, _ := c13DecodeInto[types.IPAddr](doc, func(v types.IPAddr) string { return vh.ShowValue(v) })
			return o
		}
		spellings := map[string]any{
			"explicit": map[string]any{"__extn": map[string]any{"fn": fn, "arg": arg}},
			"bare-fn":  map[string]any{"fn": fn, "arg": arg},
			"string":   arg,
		}
		wantX := "ok " + vh.ShowValue(x)
		for name, sp := range spellings {
			c.Res.OracleChecks++
			doc := vh.SortedJSON(sp)
			if got := typedImpl(doc); got != wantX {
				c.Report(vh.Finding{Class: "extn-spelling-" + name, What: fmt.Sprintf("%s spelling %s decodes to %s, want %s", kind, doc, got, wantX), Check: "oracle", Op: "ext-decode", Input: string(doc)})
			}
			addDecode("ext-decode", sp, map[string]any{"kind": kind}, typedImpl, "spelling")
		}
		c.Res.OracleChecks++
		if got, _ := c13DecodeValue(vh.SortedJSON(spellings["explicit"])); got != wantX {
			c.Report(vh.Finding{Class: "extn-spelling-explicit-value", What: fmt.Sprintf("explicit __extn as a value decodes to %s, want %s", got, wantX), Check: "oracle", Op: "vjson-decode", Input: string(vh.SortedJSON(spellings["explicit"]))})
		}
		addDecode("ext-decode", mutV.Mutate(spellings["explicit"]), map[string]any{"kind": kind}, typedImpl, "near-miss")
		addDecode("ext-decode", mutV.Mutate(spellings["bare-fn"]), map[string]any{"kind": kind}, typedImpl, "near-miss")
		// wrong function name in a typed position must be rejected
		other := map[string]string{"decimal": "ip", "ip": "duration", "duration": "datetime", "datetime": "decimal"}[fn]
		addDecode("ext-decode", map[string]any{"__extn": map[string]any{"fn": other, "arg": arg}}, map[string]any{"kind": kind}, typedImpl, "near-miss")
		c.Dist("spelling:" + kind)
	}

	// ---- 6. schema-guided coercion of implicit spellings ----
	nSchema := c.N(800, 30000)
	for i := 0; i < nSchema; i++ {
		c.Res.OracleChecks++
		w := g.SchemaWorldC13()
		explicitDoc, _ := c13Marshal(w.Entities)
		implicitDoc := vh.SortedJSON(w.ImplicitEntitiesJSON())
		var e1, e2 exptypes.EntityMap
		var err1, err2 error
		if pn := vh.Protect(func() {
			err1 = e1.UnmarshalJSONWithSchema(explicitDoc, w.Schema)
			err2 = e2.UnmarshalJSONWithSchema(implicitDoc, w.Schema)
		}); pn != nil {
			c.Report(vh.Finding{Class: "schema-coercion-panic", What: fmt.Sprintf("UnmarshalJSONWithSchema panics: %v on %s", pn, implicitDoc), Check: "oracle", Op: "schema-coercion", Input: string(implicitDoc)})
			continue
		}
		switch {
		case err1 != nil:
			c.Report(vh.Finding{Class: "schema-explicit-rejected", What: fmt.Sprintf("conforming explicit document rejected: %v: %s", err1, explicitDoc), Check: "oracle", Op: "schema-coercion", Input: string(explicitDoc)})
		case err2 != nil:
			c.Report(vh.Finding{Class: "schema-implicit-rejected", What: fmt.Sprintf("conforming implicit document rejected: %v: %s", err2, implicitDoc), Check: "oracle", Op: "schema-coercion", Input: string(implicitDoc)})
		case !entityMapEqual(types.EntityMap(e1), w.Entities):
			c.Report(vh.Finding{Class: "schema-explicit-differs", What: "explicit document decodes (with schema) to a different entity map: " + string(explicitDoc), Check: "oracle", Op: "schema-coercion", Input: string(explicitDoc), Expected: vh.ShowEntitiesC13(w.Entities), Actual: vh.ShowEntitiesC13(types.EntityMap(e1))})
		case !entityMapEqual(types.EntityMap(e2), w.Entities):
			c.Report(vh.Finding{Class: "schema-implicit-differs", What: "implicit spellings coerce to a different entity map: " + string(implicitDoc), Check: "oracle", Op: "schema-coercion", Input: string(implicitDoc), Expected: vh.ShowEntitiesC13(w.Entities), Actual: vh.ShowEntitiesC13(types.EntityMap(e2))})
		}
		c.Count("schema:"+string(implicitDoc), len(w.Entities) > 0)
		c.Dist("schema-coercion")
		if i < 1 {
			c.Sample(map[string]any{"op": "schema-coercion", "implicit": string(implicitDoc)})
		}
	}

	// ---- 7. coerceValue alone (hook VerifCoerceValue): implicit spellings of well-typed values, and values that do
	// not fit the type (coercion must leave them alone or follow the same rules in the model) ----
	nCo := c.N(3000, 100000)
	for i := 0; i < nCo; i++ {
		c.Res.OracleChecks++
		t := g.TypeC13(2)
		v := g.ValueOfTypeC13(t)
		var in types.Value
		if i%3 != 2 {
			// what the unguided decoder makes of the implicit spelling
			out, w := c13DecodeValue(vh.SortedJSON(vh.ImplicitJSON(v, t)))
			if w == nil {
				c.Report(vh.Finding{Class: "implicit-spelling-rejected", What: "the implicit spelling of a well-typed value is rejected by the unguided decoder: " + out, Check: "oracle", Op: "coerce", Input: string(vh.SortedJSON(vh.ImplicitJSON(v, t)))})
				continue
			}
			in = w
		} else {
			in = g.ValueC13(2, false) // unrelated to the type
		}
		var got types.Value
		if pn := vh.Protect(func() { got = exptypes.VerifCoerceValue(in, t) }); pn != nil {
			c.Report(vh.Finding{Class: "schema-coercion-panic", What: fmt.Sprintf("coerceValue panics: %v", pn), Check: "oracle", Op: "coerce", Input: map[string]any{"value": vh.EncValue(in), "type": vh.EncSchemaTypeC13(t)}})
			continue
		}
		if i%3 != 2 && (got == nil || !got.Equal(v)) {
			c.Report(vh.Finding{Class: "schema-implicit-differs", What: fmt.Sprintf("coerceValue(decode(implicit spelling)) = %s, the datum is %s", vh.ShowValue(got), vh.ShowValue(v)), Check: "oracle", Op: "coerce", Input: map[string]any{"value": vh.EncValue(in), "type": vh.EncSchemaTypeC13(t)}, Expected: vh.ShowValue(v), Actual: vh.ShowValue(got)})
		}
		idx := b.Add("coerce", map[string]any{"value": vh.EncValue(in), "type": vh.EncSchemaTypeC13(t)}, vh.ShowValue(got), "")
		c.Count(b.Key(idx), true)
		c.Dist("coerce")
	}

	// ---- 8. look-alike UIDs: encodings repeated over rebuilt containers (c13_ambig.go) ----
	c13AmbiguousUIDs(c, g)

	// ---- 9. second round: entity-map order and duplicates, Diagnostic / Decision, nested coercion (c13_ext.go) ----
	c13SecondRound(c, g, b)

	// ---- correspondence ----
	ds, _, err := c.Correspond(b)
	if err != nil {
		c.Report(vh.Finding{Class: "driver-failure", What: err.Error(), Check: "correspondence", Op: "vjson", NoInput: true})
		return
	}
	for _, d := range ds {
		c.Report(vh.Finding{Class: "json-model-mismatch-" + d.Line.Op, What: fmt.Sprintf("%s disagreement (%s): impl=%q model=%q", d.Line.Op, d.Line.Tag, d.Line.Impl, d.Model),
			Check: "correspondence", Op: d.Line.Op, Input: d.Line.Payload(), Expected: d.Model, Actual: d.Line.Impl})
	}
}
