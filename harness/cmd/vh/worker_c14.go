package main

// C14 worker: `vh -c14worker` (hidden; handled before main parses flags).  A fresh process = fresh
// hash seeds.  It regenerates the cases from VH_C14_SEED / VH_C14_TIER, observes each VH_C14_REPS times
// (rep >= 1: shuffled insertion orders drawn from a per-process stream) and prints
// {"digest": <hash of the generated cases>, "obs": {case: {observation: [variants]}}} on stdout.

import (
	"bufio"
	"encoding/json"
	"os"
	"strconv"
)

func init() {
	if len(os.Args) < 2 || os.Args[1] != "-c14worker" {
		return
	}
	seed, _ := strconv.ParseInt(os.Getenv("VH_C14_SEED"), 10, 64)
	tier := os.Getenv("VH_C14_TIER")
	proc, _ := strconv.Atoi(os.Getenv("VH_C14_PROC"))
	reps, _ := strconv.Atoi(os.Getenv("VH_C14_REPS"))
	if reps <= 0 {
		reps = 4
	}
	cases := c14Cases(seed, tier)
	out := c14WorkerOut{Digest: c14Digest(cases), Obs: c14Observe(cases, seed, reps, proc)}
	w := bufio.NewWriterSize(os.Stdout, 1<<20)
	if err := json.NewEncoder(w).Encode(out); err != nil {
		os.Stderr.WriteString(err.Error())
		os.Exit(2)
	}
	w.Flush()
	os.Exit(0)
}
