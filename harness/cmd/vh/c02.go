package main

import (
	"bytes"
	"fmt"
	"io"
	"strings"

	cedar "github.com/cedar-policy/cedar-go"
	"github.com/cedar-policy/cedar-go/types"
	"github.com/cedar-policy/cedar-go/x/exp/ast"
	"github.com/cedar-policy/cedar-go/x/exp/eval"

	"verifharness/vh"
)

func init() { props["C02"] = runC02 }

// class bodies: for a fixed request (principal User::"a", action Action::"a", resource Doc::"a"),
// several syntactic realisations of each of the six classes {permit,forbid} x {sat,unsat,err}.
func classBodies(effect ast.Effect, class string, variant int) *ast.Policy {
	p := &ast.Policy{Effect: effect, Principal: ast.ScopeTypeAll{}, Action: ast.ScopeTypeAll{}, Resource: ast.ScopeTypeAll{}}
	t, f := lit(types.True), lit(types.False)
	errNode := ast.NodeTypeAdd{BinaryNode: ast.BinaryNode{Left: lit(types.Long(9223372036854775807)), Right: lit(types.Long(1))}}
	typeErr := ast.NodeTypeLessThan{BinaryNode: ast.BinaryNode{Left: lit(types.Long(1)), Right: lit(types.String("x"))}}
	attrErr := ast.NodeTypeAccess{StrOpNode: ast.StrOpNode{Arg: ast.NodeTypeVariable{Name: "context"}, Value: "missing"}}
	when := func(n ast.IsNode) ast.ConditionType { return ast.ConditionType{Condition: ast.ConditionWhen, Body: n} }
	unless := func(n ast.IsNode) ast.ConditionType { return ast.ConditionType{Condition: ast.ConditionUnless, Body: n} }
	switch class {
	case "sat":
		switch variant % 5 {
		case 0: // scope only
		case 1:
			p.Principal = ast.ScopeTypeEq{Entity: types.NewEntityUID("User", "a")}
			p.Conditions = []ast.ConditionType{when(t)}
		case 2:
			p.Conditions = []ast.ConditionType{unless(f), when(t)}
		case 3:
			p.Action = ast.ScopeTypeInSet{Entities: []types.EntityUID{types.NewEntityUID("Action", "b"), types.NewEntityUID("Action", "a")}}
			p.Conditions = []ast.ConditionType{when(ast.NodeTypeOr{BinaryNode: ast.BinaryNode{Left: t, Right: errNode}})}
		case 4:
			p.Resource = ast.ScopeTypeIs{Type: "Doc"}
			p.Conditions = []ast.ConditionType{when(ast.NodeTypeEquals{BinaryNode: ast.BinaryNode{Left: ast.NodeTypeVariable{Name: "principal"}, Right: lit(types.NewEntityUID("User", "a"))}})}
		}
	case "unsat":
		switch variant % 5 {
		case 0:
			p.Principal = ast.ScopeTypeEq{Entity: types.NewEntityUID("User", "zzz")}
		case 1:
			p.Conditions = []ast.ConditionType{when(f)}
		case 2:
			p.Conditions = []ast.ConditionType{when(t), unless(t)}
		case 3: // false condition before an erroring one: && stops, no error
			p.Conditions = []ast.ConditionType{when(f), when(errNode)}
		case 4:
			p.Resource = ast.ScopeTypeIsIn{Type: "Doc", Entity: types.NewEntityUID("NS::Folder", "zzz")}
		}
	case "err":
		switch variant % 5 {
		case 0:
			p.Conditions = []ast.ConditionType{when(errNode)}
		case 1:
			p.Conditions = []ast.ConditionType{when(t), when(typeErr)}
		case 2:
			p.Conditions = []ast.ConditionType{unless(attrErr)}
		case 3: // non-boolean condition
			p.Conditions = []ast.ConditionType{when(lit(types.Long(1)))}
		case 4:
			p.Principal = ast.ScopeTypeEq{Entity: types.NewEntityUID("User", "a")}
			p.Conditions = []ast.ConditionType{when(t), when(ast.NodeTypeAnd{BinaryNode: ast.BinaryNode{Left: t, Right: errNode}})}
		}
	}
	return p
}

func runC02(c *vh.Ctx) {
	g := vh.NewGen(c.Rng)
	b := &vh.Batch{}
	c.Res.Rule = "exhaustive decision table: every multiset of size <= 5 over the six classes {permit,forbid}x{satisfied,unsatisfied,erroring} (462 multisets incl. empty), each realised with rotating policy bodies, in 3 orders, through PolicySet and through a slice-backed PolicyIterator (duplicate ids in the latter), x 2 requests; then random policy sets (<=12 policies) over random stores. distinct = distinct (policies,env) encodings; non-trivial = at least one policy"
	type cse struct {
		ps  []vh.IDPolicy
		env vh.EnvEnc
	}
	var cases []cse
	baseEnv := func(ctx types.Record) vh.EnvEnc {
		return vh.MkEnvEnc(eval.Env{Entities: types.EntityMap{}, Principal: types.NewEntityUID("User", "a"), Action: types.NewEntityUID("Action", "a"), Resource: types.NewEntityUID("Doc", "a"), Context: ctx})
	}
	envs := []vh.EnvEnc{baseEnv(types.NewRecord(nil)), baseEnv(types.NewRecord(types.RecordMap{"x": types.Long(1)}))}
	classes := []struct {
		eff ast.Effect
		cls string
	}{{ast.EffectPermit, "sat"}, {ast.EffectPermit, "unsat"}, {ast.EffectPermit, "err"}, {ast.EffectForbid, "sat"}, {ast.EffectForbid, "unsat"}, {ast.EffectForbid, "err"}}
	// enumerate multisets as non-decreasing index sequences
	var multisets [][]int
	var rec func(start int, cur []int)
	rec = func(start int, cur []int) {
		multisets = append(multisets, append([]int{}, cur...))
		if len(cur) == 5 {
			return
		}
		for i := start; i < 6; i++ {
			rec(i, append(cur, i))
		}
	}
	rec(0, nil)
	variant := 0
	for _, ms := range multisets {
		for order := 0; order < 3; order++ {
			idx := append([]int{}, ms...)
			if order == 1 {
				for i, j := 0, len(idx)-1; i < j; i, j = i+1, j-1 {
					idx[i], idx[j] = idx[j], idx[i]
				}
			} else if order == 2 {
				c.Rng.Shuffle(len(idx), func(i, j int) { idx[i], idx[j] = idx[j], idx[i] })
			}
			var ps []vh.IDPolicy
			for k, ci := range idx {
				pol := classBodies(classes[ci].eff, classes[ci].cls, variant)
				variant++
				pol.Position = ast.Position{Filename: "f.cedar", Offset: 10 * k, Line: k + 1, Column: 1 + k%3}
				ps = append(ps, vh.MkPolicy(fmt.Sprintf("p%d", k), pol))
			}
			for _, e := range envs {
				cases = append(cases, cse{ps, e})
			}
		}
	}
	nTable := len(cases)
	pool := g.EnvPool(c.N(100, 1000))
	for i := 0; i < c.N(6000, 300000); i++ {
		n := c.Rng.Intn(13)
		var ps []vh.IDPolicy
		for k := 0; k < n; k++ {
			pol := g.Policy(1 + c.Rng.Intn(3))
			pol.Position = ast.Position{Filename: "r", Offset: k, Line: k, Column: 1}
			ps = append(ps, vh.MkPolicy(fmt.Sprintf("policy%d", k), pol))
		}
		cases = append(cases, cse{ps, pool[c.Rng.Intn(len(pool))]})
	}
	c.Res.Notes = append(c.Res.Notes, fmt.Sprintf("decision-table cases=%d (462 multisets x 3 orders x 2 requests) random sets=%d", nTable, len(cases)-nTable))
	c.Res.Exhaustive = false

	for ci, cs := range cases {
		req, ok := vh.RequestOf(cs.env.Env)
		if !ok {
			continue
		}
		em := cs.env.Env.Entities
		// through a PolicySet (unique ids) and through a custom iterator
		set := cedar.NewPolicySet()
		for _, ip := range cs.ps {
			set.Add(ip.ID, ip.P)
		}
		var outSet, outIter string
		if p := vh.Protect(func() { d, diag := cedar.Authorize(set, em, req); outSet = vh.ShowAuthz(d, diag) }); p != nil {
			outSet = fmt.Sprintf("panic %v", p)
		}
		if p := vh.Protect(func() { d, diag := cedar.Authorize(vh.SliceIter(cs.ps), em, req); outIter = vh.ShowAuthz(d, diag) }); p != nil {
			outIter = fmt.Sprintf("panic %v", p)
		}
		// policies that came through the text codec and the streaming decoder (a third source of policies)
		if ci%3 == 0 && len(cs.ps) > 0 {
			c.Res.OracleChecks++
			if msg := viaDecoder(cs.ps, em, req, cs.env.Env); msg != "" {
				c.Report(vh.Finding{Class: "authz-decoded-policies", What: msg, Check: "oracle", Op: "authz", Input: map[string]any{"policies": vh.EncPolicies(cs.ps)}})
			}
		}
		// direct oracle: the four sentences over per-policy unfolded evaluation
		spec := vh.SpecAuthz(cs.ps, cs.env.Env)
		c.Res.OracleChecks++
		payload := map[string]any{"policies": vh.EncPolicies(cs.ps), "envref": b.EnvRef(cs.env)}
		if outSet != spec || outIter != spec {
			c.Report(vh.Finding{Class: "authz-spec-mismatch", What: fmt.Sprintf("Authorize disagrees with the property: set=%q iter=%q spec=%q", outSet, outIter, spec),
				Check: "oracle", Op: "authz", Input: payload, Expected: spec, Actual: outSet})
		}
		idx := b.Add("authz", payload, outIter, "")
		c.Count(b.Key(idx)+cs.env.Name, len(cs.ps) > 0)
		if len(outIter) >= 5 {
			c.Dist("decision:" + outIter[:5])
		}
		if ci < 2 || ci == nTable {
			c.Sample(map[string]any{"op": "authz", "policies": len(cs.ps), "impl": outIter})
		}
		for _, ip := range cs.ps {
			c.Dist("class:" + vh.PolicyClass(ip.AST, cs.env.Env))
		}
	}
	ds, _, err := c.Correspond(b)
	if err != nil {
		c.Report(vh.Finding{Class: "driver-failure", What: err.Error(), Check: "correspondence", Op: "authz", NoInput: true})
		return
	}
	for _, d := range ds {
		c.Report(vh.Finding{Class: "authz-model-mismatch", What: fmt.Sprintf("authz disagreement: impl=%q model=%q", d.Line.Impl, d.Model),
			Check: "correspondence", Op: "authz", Input: d.Line.Payload(), Expected: d.Model, Actual: d.Line.Impl})
	}
}

// stripPos removes "@file:o:l:c" position parts from a ShowAuthz/SpecAuthz string.
func stripPos(s string) string {
	var b strings.Builder
	skip := false
	for _, r := range s {
		switch {
		case r == '@':
			skip = true
		case skip && (r == ',' || r == ']'):
			skip = false
			b.WriteRune(r)
		case !skip:
			b.WriteRune(r)
		}
	}
	return b.String()
}

// viaDecoder renders the policies as one document, decodes it policy by policy with cedar.NewDecoder,
// authorizes with ALL decoded policies afterwards and compares with the specification over the
// original ASTs (ids and decision; positions differ by construction). "" = fine or not applicable.
func viaDecoder(ps []vh.IDPolicy, em types.EntityGetter, req cedar.Request, env eval.Env) string {
	var doc bytes.Buffer
	for _, ip := range ps {
		doc.Write(ip.P.MarshalCedar())
		doc.WriteString("\n")
	}
	dec := cedar.NewDecoder(bytes.NewReader(doc.Bytes()))
	var got []vh.IDPolicy
	for i := 0; ; i++ {
		var p cedar.Policy
		err := dec.Decode(&p)
		if err == io.EOF {
			break
		}
		if err != nil {
			return "" // rendering does not reparse: C08's business (known findings there)
		}
		if i >= len(ps) {
			return "decoder yielded more policies than the document holds"
		}
		pp := p
		// the specification is computed over the DECODED policy's own AST: whether text rendering preserves
		// meaning is C08's question (e.g. an IPv4-mapped ip literal renders a form the evaluator rejects:
		// known finding there), not C02's
		got = append(got, vh.IDPolicy{ID: ps[i].ID, AST: (*ast.Policy)(pp.AST()), P: &pp})
	}
	if len(got) != len(ps) {
		return ""
	}
	d, diag := cedar.Authorize(vh.SliceIter(got), em, req)
	have := stripPos(vh.ShowAuthz(d, diag))
	want := stripPos(vh.SpecAuthz(got, env))
	if have != want {
		return fmt.Sprintf("policies decoded from their own text through cedar.NewDecoder authorize as %q, the property says %q", have, want)
	}
	return ""
}
