package main

import (
	"fmt"
	"math"
	"math/big"

	"github.com/cedar-policy/cedar-go/types"
	"github.com/cedar-policy/cedar-go/x/exp/ast"
	"github.com/cedar-policy/cedar-go/x/exp/eval"
	"github.com/cedar-policy/cedar-go/x/exp/verifhooks"

	"verifharness/vh"
)

func init() { props["C01"] = runC01 }

// evalImpl evaluates with the real evaluator under recover; repeated to expose map-order nondeterminism.
func evalImpl(n ast.IsNode, env eval.Env) (string, bool) {
	var first string
	stable := true
	for i := 0; i < 4; i++ {
		var s string
		if p := vh.Protect(func() {
			v, err := eval.Eval(n, env)
			s = vh.ShowRes(v, err)
		}); p != nil {
			s = fmt.Sprintf("err panic")
		}
		if i == 0 {
			first = s
		} else if s != first {
			stable = false
		}
	}
	return first, stable
}

func lit(v types.Value) ast.IsNode { return ast.NodeValue{Value: v} }

func runC01(c *vh.Ctx) {
	g := vh.NewGen(c.Rng)
	b := &vh.Batch{}
	c.Res.Rule = "exhaustive operator x boundary-operand tables (all binary/unary operators and extension functions over per-kind boundary universes incl. cross-type pairs), then type-directed random trees (depth<=5, ~8% ill-typed positions) against random stores; distinct = distinct (expr,env) encodings; non-trivial = contains at least one operator node"
	type item struct {
		n   ast.IsNode
		env vh.EnvEnc
	}
	var items []item
	emptyEnv := vh.MkEnvEnc(eval.Env{Entities: types.EntityMap{}, Principal: types.NewEntityUID("User", "a"), Action: types.NewEntityUID("Action", "a"), Resource: types.NewEntityUID("Doc", "a"), Context: types.NewRecord(nil)})

	// (i) exhaustive boundary tables
	univ := boundaryUniverse()
	binMk := map[string]func(l, r ast.IsNode) ast.IsNode{
		"eq": func(l, r ast.IsNode) ast.IsNode { return ast.NodeTypeEquals{BinaryNode: ast.BinaryNode{Left: l, Right: r}} },
		"ne": func(l, r ast.IsNode) ast.IsNode { return ast.NodeTypeNotEquals{BinaryNode: ast.BinaryNode{Left: l, Right: r}} },
		"lt": func(l, r ast.IsNode) ast.IsNode { return ast.NodeTypeLessThan{BinaryNode: ast.BinaryNode{Left: l, Right: r}} },
		"le": func(l, r ast.IsNode) ast.IsNode { return ast.NodeTypeLessThanOrEqual{BinaryNode: ast.BinaryNode{Left: l, Right: r}} },
		"gt": func(l, r ast.IsNode) ast.IsNode { return ast.NodeTypeGreaterThan{BinaryNode: ast.BinaryNode{Left: l, Right: r}} },
		"ge": func(l, r ast.IsNode) ast.IsNode { return ast.NodeTypeGreaterThanOrEqual{BinaryNode: ast.BinaryNode{Left: l, Right: r}} },
		"add": func(l, r ast.IsNode) ast.IsNode { return ast.NodeTypeAdd{BinaryNode: ast.BinaryNode{Left: l, Right: r}} },
		"sub": func(l, r ast.IsNode) ast.IsNode { return ast.NodeTypeSub{BinaryNode: ast.BinaryNode{Left: l, Right: r}} },
		"mul": func(l, r ast.IsNode) ast.IsNode { return ast.NodeTypeMult{BinaryNode: ast.BinaryNode{Left: l, Right: r}} },
		"and": func(l, r ast.IsNode) ast.IsNode { return ast.NodeTypeAnd{BinaryNode: ast.BinaryNode{Left: l, Right: r}} },
		"or":  func(l, r ast.IsNode) ast.IsNode { return ast.NodeTypeOr{BinaryNode: ast.BinaryNode{Left: l, Right: r}} },
		"contains":    func(l, r ast.IsNode) ast.IsNode { return ast.NodeTypeContains{BinaryNode: ast.BinaryNode{Left: l, Right: r}} },
		"containsAll": func(l, r ast.IsNode) ast.IsNode { return ast.NodeTypeContainsAll{BinaryNode: ast.BinaryNode{Left: l, Right: r}} },
		"containsAny": func(l, r ast.IsNode) ast.IsNode { return ast.NodeTypeContainsAny{BinaryNode: ast.BinaryNode{Left: l, Right: r}} },
		"offset":        func(l, r ast.IsNode) ast.IsNode { return ast.NodeTypeExtensionCall{Name: "offset", Args: []ast.IsNode{l, r}} },
		"durationSince": func(l, r ast.IsNode) ast.IsNode { return ast.NodeTypeExtensionCall{Name: "durationSince", Args: []ast.IsNode{l, r}} },
		"lessThan":      func(l, r ast.IsNode) ast.IsNode { return ast.NodeTypeExtensionCall{Name: "lessThan", Args: []ast.IsNode{l, r}} },
		"greaterThanOrEqual": func(l, r ast.IsNode) ast.IsNode {
			return ast.NodeTypeExtensionCall{Name: "greaterThanOrEqual", Args: []ast.IsNode{l, r}}
		},
		"isInRange": func(l, r ast.IsNode) ast.IsNode { return ast.NodeTypeExtensionCall{Name: "isInRange", Args: []ast.IsNode{l, r}} },
	}
	// same-kind full cross products + cross-kind sampled pairs
	for name, mk := range binMk {
		for ki, ka := range univ {
			for kj, kb := range univ {
				for i, a := range ka {
					for j, bb := range kb {
						if ki != kj && (i > 1 || j > 1) { // cross-kind: two representatives per kind suffice
							continue
						}
						if !c.Thorough() && ki == kj && len(ka) > 12 && (i*7+j*3)%4 != 0 && !(i < 6 && j < 6) {
							continue // quick tier: thin the largest same-kind tables
						}
						items = append(items, item{mk(lit(a), lit(bb)), emptyEnv})
						_ = name
					}
				}
			}
		}
	}
	unMk := []func(a ast.IsNode) ast.IsNode{
		func(a ast.IsNode) ast.IsNode { return ast.NodeTypeNot{UnaryNode: ast.UnaryNode{Arg: a}} },
		func(a ast.IsNode) ast.IsNode { return ast.NodeTypeNegate{UnaryNode: ast.UnaryNode{Arg: a}} },
		func(a ast.IsNode) ast.IsNode { return ast.NodeTypeIsEmpty{UnaryNode: ast.UnaryNode{Arg: a}} },
	}
	for _, fn := range []string{"toDate", "toTime", "toMilliseconds", "toSeconds", "toMinutes", "toHours", "toDays", "isIpv4", "isIpv6", "isLoopback", "isMulticast", "decimal", "ip", "datetime", "duration"} {
		fn := fn
		unMk = append(unMk, func(a ast.IsNode) ast.IsNode { return ast.NodeTypeExtensionCall{Name: types.Path(fn), Args: []ast.IsNode{a}} })
	}
	for _, mk := range unMk {
		for _, k := range univ {
			for _, a := range k {
				items = append(items, item{mk(lit(a)), emptyEnv})
			}
		}
	}
	// every literal string pool through its constructor
	for fn, pool := range map[string][]string{"decimal": vh.DecimalStrings, "ip": vh.IPStrings, "datetime": vh.DatetimeStrings, "duration": vh.DurationStrings} {
		for _, s := range pool {
			items = append(items, item{ast.NodeTypeExtensionCall{Name: types.Path(fn), Args: []ast.IsNode{lit(types.String(s))}}, emptyEnv})
		}
	}
	nTable := len(items)
	// (ii) random typed trees against random stores
	nRand := c.N(30000, 1500000)
	pool := g.EnvPool(c.N(300, 3000))
	for i := 0; i < nRand; i++ {
		env := pool[c.Rng.Intn(len(pool))]
		t := vh.Ty(c.Rng.Intn(12))
		if c.Rng.Intn(2) == 0 {
			t = vh.TBool
		}
		items = append(items, item{g.Expr(t, 1+c.Rng.Intn(5)), env})
	}
	c.Res.Notes = append(c.Res.Notes, fmt.Sprintf("table cases=%d random trees=%d", nTable, nRand))

	// checked arithmetic white-box hook vs big-int spec (direct oracle; model agreement is proved in Lean)
	for _, x := range vh.BoundaryLongs {
		for _, y := range vh.BoundaryLongs {
			checkArith(c, x, y)
		}
	}

	unstable := 0
	for _, it := range items {
		impl, stable := evalImpl(it.n, it.env.Env)
		enc := vh.EncExpr(it.n)
		if !stable {
			// the evaluator is a function of (expression, environment): four evaluations must agree.  (Until
			// `fix: evaluate the entries of a record literal in key order` a record literal with two differently
			// failing entries reported whichever error the Go map met first; such cases were stepped around here.)
			unstable++
			c.Dist("impl-nondeterministic")
			cls := "impl-nondeterministic"
			if vh.OrderSensitive(it.n, it.env.Env) {
				cls = "record-literal-multi-error-order"
			}
			c.Report(vh.Finding{Class: cls, What: fmt.Sprintf("four evaluations of the same expression in the same environment gave different results (first: %q)", impl),
				Check: "oracle", Op: "eval", Input: map[string]any{"expr": enc, "env": it.env.Name}})
			impl = "" // no single result to compare with the model
		}
		idx := b.Add("eval", map[string]any{"expr": enc, "envref": b.EnvRef(it.env)}, impl, "")
		key := b.Key(idx) + it.env.Name
		_, isLit := it.n.(ast.NodeValue)
		c.Count(key, !isLit)
		if len(impl) > 3 {
			if impl[:3] == "err" {
				c.Dist("result:" + impl)
			} else {
				c.Dist("result:ok")
			}
		}
		c.Dist("root:" + fmt.Sprintf("%T", it.n))
	}
	ds, _, err := c.Correspond(b)
	if err != nil {
		c.Report(vh.Finding{Class: "driver-failure", What: err.Error(), Check: "correspondence", Op: "eval", NoInput: true})
		return
	}
	for i, d := range ds {
		if i < 3 {
			c.Sample(map[string]any{"disagreement": d.Line.Payload()["expr"], "impl": d.Line.Impl, "model": d.Model})
		}
		cls := classifyC01(d)
		c.Report(vh.Finding{Class: cls, What: fmt.Sprintf("eval disagreement: impl=%q model=%q expr=%v", d.Line.Impl, d.Model, d.Line.Payload()["expr"]),
			Check: "correspondence", Op: "eval", Input: d.Line.Payload(), Expected: d.Model, Actual: d.Line.Impl})
	}
	if b.Len() > 0 {
		c.Sample(map[string]any{"op": "eval", "expr": vh.EncExpr(items[len(items)-1].n)})
		c.Sample(map[string]any{"op": "eval", "expr": vh.EncExpr(items[0].n)})
	}
	// generator self-test: collapse guard
	tot := c.Res.Evaluations
	for k, v := range c.Res.Distribution {
		if len(k) > 10 && k[:10] == "result:err" && v*100 > tot*60 {
			c.Report(vh.Finding{Class: "generator-collapse", What: fmt.Sprintf("generator collapsed: %s = %d of %d", k, v, tot), Check: "self-test", NoInput: true})
		}
	}
	_ = verifhooks.ErrKind
	// direct oracle against the Cedar specification's floor semantics (c01_spec.go)
	checkToDateToTime(c)
}

func classifyC01(d vh.Disagreement) string {
	return "eval-mismatch"
}

func checkArith(c *vh.Ctx, x, y int64) {
	c.Res.OracleChecks++
	inRange := func(z *big.Int) bool { return z.IsInt64() }
	bx, by := big.NewInt(x), big.NewInt(y)
	chk := func(op string, got int64, ok bool, want *big.Int) {
		if ok != inRange(want) || (ok && got != want.Int64()) {
			c.Report(vh.Finding{Class: "checked-arith-" + op, What: fmt.Sprintf("%s(%d,%d) = (%d,%v), exact = %s", op, x, y, got, ok, want), Check: "oracle", Op: op, Input: []int64{x, y}})
		}
	}
	r, ok := verifhooks.CheckedAdd(x, y)
	chk("add", r, ok, new(big.Int).Add(bx, by))
	r, ok = verifhooks.CheckedSub(x, y)
	chk("sub", r, ok, new(big.Int).Sub(bx, by))
	r, ok = verifhooks.CheckedMul(x, y)
	chk("mul", r, ok, new(big.Int).Mul(bx, by))
	r, ok = verifhooks.CheckedNeg(x)
	chk("neg", r, ok, new(big.Int).Neg(bx))
}

func boundaryUniverse() [][]types.Value {
	var longs, dts, durs, decs, ips, strs, bools, ents, sets, recs []types.Value
	for _, n := range []int64{0, 1, -1, 2, 1 << 31, math.MaxInt64, math.MinInt64, math.MaxInt64 - 1, math.MinInt64 + 1, 3037000499, 3037000500, -3037000500, 4294967296, -4294967296, 86400000} {
		longs = append(longs, types.Long(n))
	}
	for _, n := range []int64{0, 1, -1, 86399999, 86400000, 86400001, -86399999, -86400000, -86400001, math.MaxInt64, math.MinInt64, math.MinInt64 + 86399999, math.MaxInt64 - 86399999, 1700000000123, -1700000000123} {
		dts = append(dts, types.NewDatetimeFromMillis(n))
		durs = append(durs, types.NewDurationFromMillis(n))
	}
	for _, n := range []int64{0, 1, -1, 10000, 12345, -12345, math.MaxInt64, math.MinInt64} {
		decs = append(decs, types.VerifDecimalFromRaw(n))
	}
	for _, s := range vh.IPStrings {
		if ip, err := types.ParseIPAddr(s); err == nil {
			ips = append(ips, ip)
		}
	}
	for _, s := range []string{"", "a", "abc", "é", "1.5", "127.0.0.1", "1h", "2024-01-01"} {
		strs = append(strs, types.String(s))
	}
	bools = []types.Value{types.True, types.False}
	ents = []types.Value{types.NewEntityUID("User", "a"), types.NewEntityUID("User", "b"), types.NewEntityUID("Group", "a"), types.EntityUID{}}
	sets = []types.Value{types.NewSet(), types.NewSet(types.Long(1)), types.NewSet(types.Long(1), types.Long(2)), types.NewSet(types.Long(2), types.Long(1), types.Long(1)),
		types.NewSet(types.True, types.Long(1), types.VerifDecimalFromRaw(1), types.NewDurationFromMillis(1), types.NewDatetimeFromMillis(1)),
		types.NewSet(types.NewDatetimeFromMillis(1), types.NewDurationFromMillis(1), types.VerifDecimalFromRaw(1), types.Long(1), types.True),
		types.NewSet(types.True), types.NewSet(types.NewSet(types.Long(1)), types.NewSet()), types.NewSet(types.String("a"), types.NewEntityUID("User", "a"))}
	recs = []types.Value{types.NewRecord(nil), types.NewRecord(types.RecordMap{"a": types.Long(1)}), types.NewRecord(types.RecordMap{"a": types.Long(1), "b": types.NewSet(types.Long(1))}),
		types.NewRecord(types.RecordMap{"b": types.NewSet(types.Long(1), types.Long(1)), "a": types.Long(1)}), types.NewRecord(types.RecordMap{"a": types.True})}
	return [][]types.Value{longs, dts, durs, decs, ips, strs, bools, ents, sets, recs}
}
