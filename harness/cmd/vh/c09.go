package main

import (
	"bytes"
	"encoding/json"
	"fmt"
	"regexp"
	"sort"
	"strconv"
	"strings"

	cedar "github.com/cedar-policy/cedar-go"
	publicast "github.com/cedar-policy/cedar-go/ast"
	"github.com/cedar-policy/cedar-go/types"
	"github.com/cedar-policy/cedar-go/x/exp/ast"

	"verifharness/vh"
)

func init() { props["C09"] = runC09 }

// ---- normalisation: the identifications C09 allows ----

// c09Norm rebuilds a node.  Always: record-literal entries by key (a later duplicate wins), decimal / ip literal
// VALUES become the constructor call that JSON writes for them.  textMode additionally identifies what the
// TEXT form cannot distinguish: datetime / duration literal values with their constructor calls, literal set /
// record VALUES with set / record literals (members in canonical order).
func c09Norm(n ast.IsNode, textMode bool) ast.IsNode {
	s := func(x ast.IsNode) ast.IsNode { return c09Norm(x, textMode) }
	sb := func(b ast.BinaryNode) ast.BinaryNode { return ast.BinaryNode{Left: s(b.Left), Right: s(b.Right)} }
	su := func(u ast.UnaryNode) ast.UnaryNode { return ast.UnaryNode{Arg: s(u.Arg)} }
	switch v := n.(type) {
	case ast.NodeValue:
		return c09NormValue(v.Value, textMode)
	case ast.NodeTypeVariable:
		return v
	case ast.NodeTypeAnd:
		return ast.NodeTypeAnd{BinaryNode: sb(v.BinaryNode)}
	case ast.NodeTypeOr:
		return ast.NodeTypeOr{BinaryNode: sb(v.BinaryNode)}
	case ast.NodeTypeEquals:
		return ast.NodeTypeEquals{BinaryNode: sb(v.BinaryNode)}
	case ast.NodeTypeNotEquals:
		return ast.NodeTypeNotEquals{BinaryNode: sb(v.BinaryNode)}
	case ast.NodeTypeLessThan:
		return ast.NodeTypeLessThan{BinaryNode: sb(v.BinaryNode)}
	case ast.NodeTypeLessThanOrEqual:
		return ast.NodeTypeLessThanOrEqual{BinaryNode: sb(v.BinaryNode)}
	case ast.NodeTypeGreaterThan:
		return ast.NodeTypeGreaterThan{BinaryNode: sb(v.BinaryNode)}
	case ast.NodeTypeGreaterThanOrEqual:
		return ast.NodeTypeGreaterThanOrEqual{BinaryNode: sb(v.BinaryNode)}
	case ast.NodeTypeAdd:
		return ast.NodeTypeAdd{BinaryNode: sb(v.BinaryNode)}
	case ast.NodeTypeSub:
		return ast.NodeTypeSub{BinaryNode: sb(v.BinaryNode)}
	case ast.NodeTypeMult:
		return ast.NodeTypeMult{BinaryNode: sb(v.BinaryNode)}
	case ast.NodeTypeIn:
		return ast.NodeTypeIn{BinaryNode: sb(v.BinaryNode)}
	case ast.NodeTypeContains:
		return ast.NodeTypeContains{BinaryNode: sb(v.BinaryNode)}
	case ast.NodeTypeContainsAll:
		return ast.NodeTypeContainsAll{BinaryNode: sb(v.BinaryNode)}
	case ast.NodeTypeContainsAny:
		return ast.NodeTypeContainsAny{BinaryNode: sb(v.BinaryNode)}
	case ast.NodeTypeGetTag:
		return ast.NodeTypeGetTag{BinaryNode: sb(v.BinaryNode)}
	case ast.NodeTypeHasTag:
		return ast.NodeTypeHasTag{BinaryNode: sb(v.BinaryNode)}
	case ast.NodeTypeNot:
		return ast.NodeTypeNot{UnaryNode: su(v.UnaryNode)}
	case ast.NodeTypeNegate:
		if textMode { // text cannot tell `-(5)` from the literal `-5` (same meaning: no overflow for n >= 0)
			if lv, ok := v.Arg.(ast.NodeValue); ok {
				if n, ok := lv.Value.(types.Long); ok && n >= 0 {
					return ast.NodeValue{Value: types.Long(-n)}
				}
			}
		}
		return ast.NodeTypeNegate{UnaryNode: su(v.UnaryNode)}
	case ast.NodeTypeIsEmpty:
		return ast.NodeTypeIsEmpty{UnaryNode: su(v.UnaryNode)}
	case ast.NodeTypeIfThenElse:
		return ast.NodeTypeIfThenElse{If: s(v.If), Then: s(v.Then), Else: s(v.Else)}
	case ast.NodeTypeAccess:
		return ast.NodeTypeAccess{StrOpNode: ast.StrOpNode{Arg: s(v.Arg), Value: v.Value}}
	case ast.NodeTypeHas:
		return ast.NodeTypeHas{StrOpNode: ast.StrOpNode{Arg: s(v.Arg), Value: v.Value}}
	case ast.NodeTypeLike:
		// identification: the pattern without components (types.NewPattern(), the zero Pattern) is written — as JSON
		// and as text — as the single empty literal, which matches the same strings (Lean: normPattern [] )
		if len(types.VerifPatternComps(v.Value)) == 0 {
			return ast.NodeTypeLike{Arg: s(v.Arg), Value: types.NewPattern(types.String(""))}
		}
		return ast.NodeTypeLike{Arg: s(v.Arg), Value: v.Value}
	case ast.NodeTypeIs:
		return ast.NodeTypeIs{Left: s(v.Left), EntityType: v.EntityType}
	case ast.NodeTypeIsIn:
		return ast.NodeTypeIsIn{NodeTypeIs: ast.NodeTypeIs{Left: s(v.Left), EntityType: v.EntityType}, Entity: s(v.Entity)}
	case ast.NodeTypeSet:
		es := make([]ast.IsNode, len(v.Elements))
		for i, e := range v.Elements {
			es[i] = s(e)
		}
		if textMode && c09AllConst(es) { // a set literal of constants and a set VALUE are one thing in text
			es = c09SortConstSet(es)
		}
		return ast.NodeTypeSet{Elements: es}
	case ast.NodeTypeRecord:
		idx := map[types.String]int{}
		var es []ast.RecordElementNode
		for _, e := range v.Elements {
			ne := ast.RecordElementNode{Key: e.Key, Value: s(e.Value)}
			if i, ok := idx[e.Key]; ok {
				es[i] = ne
				continue
			}
			idx[e.Key] = len(es)
			es = append(es, ne)
		}
		return ast.NodeTypeRecord{Elements: es}
	case ast.NodeTypeExtensionCall:
		es := make([]ast.IsNode, len(v.Args))
		for i, e := range v.Args {
			es[i] = s(e)
		}
		return ast.NodeTypeExtensionCall{Name: v.Name, Args: es}
	}
	return n
}

func c09SortConstSet(es []ast.IsNode) []ast.IsNode {
	sort.SliceStable(es, func(i, j int) bool { return vh.ShowExprC09(es[i]) < vh.ShowExprC09(es[j]) })
	out := es[:0]
	for i, e := range es {
		if i == 0 || vh.ShowExprC09(e) != vh.ShowExprC09(es[i-1]) {
			out = append(out, e)
		}
	}
	return out
}

func c09AllConst(es []ast.IsNode) bool {
	for _, e := range es {
		if !c09IsConst(e) {
			return false
		}
	}
	return true
}

// c09IsConst: a normalised node that denotes a constant value (literal, constructor call on a string literal,
// set / record literal of constants).
func c09IsConst(n ast.IsNode) bool {
	switch v := n.(type) {
	case ast.NodeValue:
		return true
	case ast.NodeTypeExtensionCall: // constructor applied to a string literal (what a literal extension value becomes)
		if c09Constructor[string(v.Name)] && len(v.Args) == 1 {
			if a, ok := v.Args[0].(ast.NodeValue); ok {
				_, isStr := a.Value.(types.String)
				return isStr
			}
		}
		return false
	case ast.NodeTypeSet:
		return c09AllConst(v.Elements)
	case ast.NodeTypeRecord:
		for _, e := range v.Elements {
			if !c09IsConst(e.Value) {
				return false
			}
		}
		return true
	}
	return false
}

func c09NormValue(v types.Value, textMode bool) ast.IsNode {
	callOn := func(name string, x interface{ String() string }) ast.IsNode {
		return ast.NodeTypeExtensionCall{Name: types.Path(name), Args: []ast.IsNode{ast.NodeValue{Value: types.String(x.String())}}}
	}
	switch t := v.(type) {
	case types.Decimal:
		return callOn("decimal", t)
	case types.IPAddr:
		return callOn("ip", t)
	case types.Datetime:
		if textMode {
			return callOn("datetime", t)
		}
	case types.Duration:
		if textMode {
			return callOn("duration", t)
		}
	case types.Set:
		if textMode {
			var es []ast.IsNode
			for x := range t.All() {
				es = append(es, c09NormValue(x, textMode))
			}
			return ast.NodeTypeSet{Elements: c09SortConstSet(es)}
		}
	case types.Record:
		if textMode {
			var es []ast.RecordElementNode
			for _, k := range vh.SortedKeys(t) {
				x, _ := t.Get(k)
				es = append(es, ast.RecordElementNode{Key: k, Value: c09NormValue(x, textMode)})
			}
			return ast.NodeTypeRecord{Elements: es}
		}
	}
	return ast.NodeValue{Value: v}
}

// c09NormPolicy applies c09Norm to every condition and keeps the last annotation of each key.
func c09NormPolicy(p *ast.Policy, textMode bool) *ast.Policy {
	q := *p
	q.Position = ast.Position{}
	idx := map[types.Ident]int{}
	q.Annotations = nil
	for _, a := range p.Annotations {
		if i, ok := idx[a.Key]; ok {
			q.Annotations[i] = a
			continue
		}
		idx[a.Key] = len(q.Annotations)
		q.Annotations = append(q.Annotations, a)
	}
	q.Conditions = nil
	for _, c := range p.Conditions {
		q.Conditions = append(q.Conditions, ast.ConditionType{Condition: c.Condition, Body: c09Norm(c.Body, textMode)})
	}
	if s, ok := q.Action.(ast.ScopeTypeInSet); ok && len(s.Entities) == 0 {
		q.Action = ast.ScopeTypeInSet{}
	}
	return &q
}

func c09Show(p *ast.Policy, textMode bool) string { return vh.ShowPolicyC09(c09NormPolicy(p, textMode)) }

// ---- walking ----

func c09Walk(n ast.IsNode, f func(ast.IsNode)) {
	f(n)
	w := func(x ast.IsNode) { c09Walk(x, f) }
	switch v := n.(type) {
	case ast.NodeTypeIfThenElse:
		w(v.If)
		w(v.Then)
		w(v.Else)
	case ast.NodeTypeAccess:
		w(v.Arg)
	case ast.NodeTypeHas:
		w(v.Arg)
	case ast.NodeTypeLike:
		w(v.Arg)
	case ast.NodeTypeIs:
		w(v.Left)
	case ast.NodeTypeIsIn:
		w(v.Left)
		w(v.Entity)
	case ast.NodeTypeSet:
		for _, e := range v.Elements {
			w(e)
		}
	case ast.NodeTypeRecord:
		for _, e := range v.Elements {
			w(e.Value)
		}
	case ast.NodeTypeExtensionCall:
		for _, e := range v.Args {
			w(e)
		}
	default:
		if l, r, ok := c09Binary(n); ok {
			w(l)
			w(r)
		} else if a, ok := c09Unary(n); ok {
			w(a)
		}
	}
}

func c09Binary(n ast.IsNode) (ast.IsNode, ast.IsNode, bool) {
	switch v := n.(type) {
	case ast.NodeTypeAnd:
		return v.Left, v.Right, true
	case ast.NodeTypeOr:
		return v.Left, v.Right, true
	case ast.NodeTypeEquals:
		return v.Left, v.Right, true
	case ast.NodeTypeNotEquals:
		return v.Left, v.Right, true
	case ast.NodeTypeLessThan:
		return v.Left, v.Right, true
	case ast.NodeTypeLessThanOrEqual:
		return v.Left, v.Right, true
	case ast.NodeTypeGreaterThan:
		return v.Left, v.Right, true
	case ast.NodeTypeGreaterThanOrEqual:
		return v.Left, v.Right, true
	case ast.NodeTypeAdd:
		return v.Left, v.Right, true
	case ast.NodeTypeSub:
		return v.Left, v.Right, true
	case ast.NodeTypeMult:
		return v.Left, v.Right, true
	case ast.NodeTypeIn:
		return v.Left, v.Right, true
	case ast.NodeTypeContains:
		return v.Left, v.Right, true
	case ast.NodeTypeContainsAll:
		return v.Left, v.Right, true
	case ast.NodeTypeContainsAny:
		return v.Left, v.Right, true
	case ast.NodeTypeGetTag:
		return v.Left, v.Right, true
	case ast.NodeTypeHasTag:
		return v.Left, v.Right, true
	}
	return nil, nil, false
}

func c09Unary(n ast.IsNode) (ast.IsNode, bool) {
	switch v := n.(type) {
	case ast.NodeTypeNot:
		return v.Arg, true
	case ast.NodeTypeNegate:
		return v.Arg, true
	case ast.NodeTypeIsEmpty:
		return v.Arg, true
	}
	return nil, false
}

var c09KnownExt = map[string]bool{"datetime": true, "decimal": true, "duration": true, "durationSince": true, "greaterThan": true, "greaterThanOrEqual": true,
	"ip": true, "isInRange": true, "isIpv4": true, "isIpv6": true, "isLoopback": true, "isMulticast": true, "lessThan": true, "lessThanOrEqual": true, "offset": true,
	"toDate": true, "toDays": true, "toHours": true, "toMilliseconds": true, "toMinutes": true, "toSeconds": true, "toTime": true}

var c09Constructor = map[string]bool{"decimal": true, "ip": true, "datetime": true, "duration": true}

var c09Ident = regexp.MustCompile(`^[A-Za-z_][A-Za-z0-9_]*$`)
var c09Reserved = map[string]bool{"true": true, "false": true, "if": true, "then": true, "else": true, "in": true, "like": true, "has": true, "is": true, "__cedar": true}

func c09PathOK(s string) bool {
	if s == "" {
		return false
	}
	for _, part := range strings.Split(s, "::") {
		if !c09Ident.MatchString(part) || c09Reserved[part] {
			return false
		}
	}
	return true
}

// c09EmptyPatternExplains: attribution by repair for the repaired class like-empty-pattern — the policy with every
// zero-component pattern replaced by an ordinary one passes the JSON round trip (first and second).  A policy that merely
// CONTAINS a zero-component pattern and fails the round trip for another reason keeps the generic class.
func c09EmptyPatternExplains(p *ast.Policy) bool {
	changed := false
	q := vh.MapPolicy(p, func(n ast.IsNode) ast.IsNode {
		if l, ok := n.(ast.NodeTypeLike); ok && len(types.VerifPatternComps(l.Value)) == 0 {
			changed = true
			return ast.NodeTypeLike{Arg: l.Arg, Value: types.NewPattern(types.String("x"))}
		}
		return n
	})
	if !changed {
		return false
	}
	jb, err := c09MarshalJSON(q)
	if err != nil {
		return false
	}
	out, qj := c09DecodeJSON(jb)
	if qj == nil || out != "ok "+c09Show(q, false) {
		return false
	}
	jb2, err := c09MarshalJSON(qj)
	if err != nil {
		return false
	}
	o2, _ := c09DecodeJSON(jb2)
	return o2 == out
}

// c09Traits summarises the shapes of a policy that the classifiers need.
type c09Traits struct {
	unknownExt     bool   // call of a name that is not an extension function: outside the JSON format
	emptyPattern   bool   // `like` with a zero-component pattern
	literalClass   string // a literal VALUE that does not survive value JSON (C13 known findings)
	methodNoRecv   bool   // method-style extension call without a receiver: programmatic only, outside the JSON format
	dupRecordKey   bool   // some record literal repeats a key: JSON keeps only the last entry (earlier ones never reach the decoder)
	negOfLiteral   bool   // unary minus applied directly to a long literal: the text form `-n` is read back as the literal -n
	exoticValueKey bool   // C08: record VALUE key that strconv.Quote renders with Go-only escapes
	textFriendly   bool   // every entity type / annotation key is a Cedar identifier path, no zero UID
	hasSetValue    bool
	nodes          int
	kinds          map[string]bool
}

func c09ValueTraits(v types.Value, t *c09Traits) {
	if k := c13Class(v); k != "value-json-roundtrip" && t.literalClass == "" {
		t.literalClass = k
	}
	vh.WalkValues(v, func(x types.Value) {
		switch y := x.(type) {
		case types.EntityUID:
			if !c09PathOK(string(y.Type)) {
				t.textFriendly = false
			}
		case types.Set:
			t.hasSetValue = true
		case types.Record:
			for k := range y.Keys() {
				q := strconv.Quote(string(k))
				for _, esc := range []string{`\a`, `\b`, `\f`, `\v`, `\u`, `\U`, `\x`} {
					if strings.Contains(strings.ReplaceAll(q, `\\`, ""), esc) {
						t.exoticValueKey = true
					}
				}
			}
		}
	})
}

func c09TraitsOf(p *ast.Policy) c09Traits {
	t := c09Traits{textFriendly: true, kinds: map[string]bool{}}
	uidOK := func(u types.EntityUID) {
		if !c09PathOK(string(u.Type)) {
			t.textFriendly = false
		}
	}
	for _, s := range []ast.IsScopeNode{p.Principal, p.Action, p.Resource} {
		switch x := s.(type) {
		case ast.ScopeTypeEq:
			uidOK(x.Entity)
		case ast.ScopeTypeIn:
			uidOK(x.Entity)
		case ast.ScopeTypeInSet:
			for _, e := range x.Entities {
				uidOK(e)
			}
		case ast.ScopeTypeIs:
			if !c09PathOK(string(x.Type)) {
				t.textFriendly = false
			}
		case ast.ScopeTypeIsIn:
			uidOK(x.Entity)
			if !c09PathOK(string(x.Type)) {
				t.textFriendly = false
			}
		}
		t.kinds["scope:"+strings.TrimPrefix(fmt.Sprintf("%T", s), "ast.ScopeType")] = true
	}
	seenAnn := map[types.Ident]bool{}
	for _, a := range p.Annotations {
		if !c09Ident.MatchString(string(a.Key)) || seenAnn[a.Key] {
			t.textFriendly = false
		}
		seenAnn[a.Key] = true
	}
	for _, c := range p.Conditions {
		c09Walk(c.Body, func(n ast.IsNode) {
			t.nodes++
			t.kinds[fmt.Sprintf("%T", n)[4:]] = true
			switch v := n.(type) {
			case ast.NodeValue:
				c09ValueTraits(v.Value, &t)
				t.kinds["lit:"+c13Kind(v.Value)] = true
			case ast.NodeTypeExtensionCall:
				if !c09KnownExt[string(v.Name)] {
					t.unknownExt = true
				}
				if len(v.Args) == 0 && c09KnownExt[string(v.Name)] && !c09Constructor[string(v.Name)] {
					t.methodNoRecv = true
				}
			case ast.NodeTypeNegate:
				if nv, ok := v.Arg.(ast.NodeValue); ok {
					if _, isLong := nv.Value.(types.Long); isLong {
						t.negOfLiteral = true
					}
				}
			case ast.NodeTypeLike:
				if len(types.VerifPatternComps(v.Value)) == 0 {
					t.emptyPattern = true
				}
			case ast.NodeTypeIs:
				if !c09PathOK(string(v.EntityType)) {
					t.textFriendly = false
				}
			case ast.NodeTypeIsIn:
				if !c09PathOK(string(v.EntityType)) {
					t.textFriendly = false
				}
			case ast.NodeTypeRecord:
				seen := map[types.String]bool{}
				for _, e := range v.Elements {
					if seen[e.Key] {
						t.textFriendly = false // the text parser rejects duplicate keys
						t.dupRecordKey = true
					}
					seen[e.Key] = true
				}
			}
		})
	}
	return t
}

// ---- implementation runners ----

func c09DecodeJSON(doc []byte) (out string, p *ast.Policy) {
	if pn := vh.Protect(func() {
		var q publicast.Policy
		if err := q.UnmarshalJSON(doc); err != nil {
			out = "err"
			return
		}
		p = (*ast.Policy)(&q)
		out = "ok " + vh.ShowPolicyC09(p)
	}); pn != nil {
		return "panic", nil
	}
	c09ReusePolicy(doc, true, out, p) // the same document into receivers that already hold a policy (c09_reuse.go)
	return
}

func c09ParseText(txt []byte) (p *ast.Policy, err error) {
	if pn := vh.Protect(func() {
		var q publicast.Policy
		if e := q.UnmarshalCedar(txt); e != nil {
			err = e
			return
		}
		p = (*ast.Policy)(&q)
	}); pn != nil {
		return nil, fmt.Errorf("panic: %v", pn)
	}
	if err != nil {
		c09ReusePolicy(txt, false, "err", nil)
	} else {
		c09ReusePolicy(txt, false, "ok "+vh.ShowPolicyC09(p), p)
	}
	return
}

func c09MarshalText(p *ast.Policy) (txt []byte, err error) {
	if pn := vh.Protect(func() { txt = (*publicast.Policy)(p).MarshalCedar() }); pn != nil {
		return nil, fmt.Errorf("panic: %v", pn)
	}
	return
}

func c09MarshalJSON(p *ast.Policy) (b []byte, err error) {
	if pn := vh.Protect(func() { b, err = (*publicast.Policy)(p).MarshalJSON() }); pn != nil {
		return nil, fmt.Errorf("panic: %v", pn)
	}
	return
}

// c09Authz: decision class of one policy alone on one environment.
func c09Authz(p *ast.Policy, env vh.EnvEnc) string {
	req, ok := vh.RequestOf(env.Env)
	if !ok {
		return "n/a"
	}
	out := ""
	if pn := vh.Protect(func() {
		set := cedar.NewPolicySet()
		set.Add("p", cedar.NewPolicyFromAST((*publicast.Policy)(p)))
		d, diag := cedar.Authorize(set, env.Env.Entities, req)
		out = fmt.Sprintf("%v reasons=%d errors=%d", d, len(diag.Reasons), len(diag.Errors))
	}); pn != nil {
		return "panic"
	}
	return out
}

var c09NodeKeys = []string{"Value", "Var", "!", "neg", "==", "!=", "in", "<", "<=", ">", ">=", "&&", "||", "+", "-", "*", "contains", "containsAll", "containsAny", "isEmpty",
	"getTag", "hasTag", ".", "has", "is", "like", "if-then-else", "Set", "Record", "left", "right", "arg", "attr", "pattern", "entity_type", "in", "if", "then", "else",
	"kind", "body", "op", "entity", "entities", "effect", "principal", "action", "resource", "conditions", "annotations", "decimal", "ip", "isIpv4", "lessThan", "foo",
	"value", "SET", "ſet", "iſ", "liKe", "Left", "ENTITY_TYPE", "Literal", "type", "id", "Type", "ID", "__entity", "ExtensionCall", "staticPolicies", "A", "zzz"}

var c09NodeVals = []any{nil, []any{}, []any{map[string]any{"Value": json.Number("1")}}, map[string]any{"Value": true}, map[string]any{"Var": "principal"}, "principal", "context", "x",
	map[string]any{}, json.Number("5"), map[string]any{"left": map[string]any{"Value": json.Number("1")}, "right": map[string]any{"Value": json.Number("2")}},
	map[string]any{"arg": map[string]any{"Value": false}}, map[string]any{"left": map[string]any{"Var": "resource"}, "attr": "a"},
	map[string]any{"a": nil}, map[string]any{"a": map[string]any{"Value": "v"}}, []any{nil}, []any{"Wildcard", map[string]any{"Literal": "a"}}, []any{"wildcard"},
	map[string]any{"type": "A", "id": "b"}, map[string]any{"__entity": map[string]any{"type": "A", "id": "b"}}, "All", "==", "is", "when", "unless", "permit",
	map[string]any{"op": "All"}, map[string]any{"op": "in", "entities": []any{map[string]any{"type": "A", "id": "b"}}}, map[string]any{"Set": []any{}}, map[string]any{"Record": map[string]any{}}}

func runC09(c *vh.Ctx) {
	g := vh.NewGen(c.Rng)
	b := &vh.Batch{}
	c.Res.Rule = "random policies over all node kinds (every operator, extension calls and extension-typed literal values, is / is..in, like patterns with wildcards and escapes, set and record literals and literal set / record values, every scope form, annotations, Unicode strings): MarshalJSON -> UnmarshalJSON -> AST equal to the original modulo the documented identifications (annotations and record entries by key; decimal / ip literal = constructor call; zero-component pattern = the empty literal), through cedar.Policy and through ast.Policy; PolicySet JSON round trip preserves ids and policies; text -> JSON -> text and JSON -> text -> JSON equal the single-format results; every encoding authorizes identically on 6+ environments; like-patterns given as COMPONENT LISTS (literals incl. empty ones in leading / middle / trailing position, literal `*`, escapes; wildcards incl. several in a row) with a meaning fixed independently of cedar-go (literals in order, a wildcard = any text; dynamic programming over bytes): types.NewPattern(list).Match, the pattern decoded from the policy JSON \"pattern\" array, the policy parsed from the Cedar text of the same pattern, and cedar.Authorize of both policies on contexts holding strings around the accept / reject boundary all agree with it, and the two codecs give the same policy; every JSON / text policy document and every policy-set document (own encodings and near-miss documents) is also decoded into a REUSED receiver that already holds other content (ast.Policy, cedar.Policy, a PolicySet holding an earlier set plus a policy under its own id; via the method and via json.Unmarshal) and must give the same accept / reject, ids, policies, MarshalJSON bytes and Authorize result as a fresh decode; Lean model toJ / fromJ (JSON-tree level) agrees with the Go codec on the generated documents (canonical tree of the encoding; decoded policy) and on near-miss documents (accept / reject / decoded policy; a Go panic is the C10 finding). distinct = distinct policies / documents; non-trivial = policy with at least one condition"

	pool := g.EnvPool(c.N(40, 400))
	c09ReuseStart(c, pool)
	defer func() { c09R = nil }()
	mut := &vh.TreeMutator{G: g, Keys: c09NodeKeys, Values: c09NodeVals}
	kindsSeen := map[string]int{}

	addDecode := func(tree any, tag string) {
		doc := vh.SortedJSON(tree)
		out, _ := c09DecodeJSON(doc)
		c.Dist("json-decode-" + tag + ":" + vh.FirstWordC13(out))
		if out == "panic" {
			c.Report(vh.Finding{Class: "json-decode-panic", What: "JSON policy decoder panics on " + string(doc), Check: "oracle", Op: "json-decode", Input: string(doc)})
		}
		if vh.HasExponentLiteral(tree) {
			return
		}
		idx := b.Add("json-decode", map[string]any{"doc": string(doc)}, out, tag)
		c.Count(b.Key(idx), true)
	}

	// ---- the witnesses of the Lean theorems about the decoder's special rules, replayed on the Go code ----
	condDoc := func(body any) any {
		return map[string]any{"effect": "permit", "principal": map[string]any{"op": "All"}, "action": map[string]any{"op": "All"}, "resource": map[string]any{"op": "All"},
			"conditions": []any{map[string]any{"kind": "when", "body": body}}}
	}
	one := []any{map[string]any{"Value": "1.0"}}
	for _, w := range []struct {
		name string
		doc  any
		want string
	}{
		{"C09_unknown_key_is_extension/1", condDoc(map[string]any{"decimal": one}), "ok"},
		{"C09_unknown_key_is_extension/2", condDoc(map[string]any{"decimal": []any{}, "ip": []any{}}), "err"},
		{"C09_unknown_key_is_extension/3", condDoc(map[string]any{"nosuchfn": []any{}}), "err"},
		{"C09_known_field_beats_extension", condDoc(map[string]any{"Set": []any{}, "decimal": one}), "ok"},
		{"C09 regression example: null record entry (was C09_decoder_panic_counterexample)", condDoc(map[string]any{"Record": map[string]any{"a": nil}}), "err"},
		{"C09 regression example: method without receiver", condDoc(map[string]any{"lessThan": []any{}}), "err"},
		{"C09 example: the decoder refuses \"pattern\":[]", condDoc(map[string]any{"like": map[string]any{"left": map[string]any{"Value": "a"}, "pattern": []any{}}}), "err"},
		{"C09_like_empty_pattern_roundtrip", condDoc(map[string]any{"like": map[string]any{"left": map[string]any{"Value": "a"}, "pattern": []any{map[string]any{"Literal": ""}}}}), "ok"},
		{"C09_unknown_function_counterexample", condDoc(map[string]any{"nosuchfn": []any{map[string]any{"Value": json.Number("1")}}}), "err"},
	} {
		c.Res.OracleChecks++
		out, _ := c09DecodeJSON(vh.SortedJSON(w.doc))
		if vh.FirstWordC13(out) != w.want {
			c.Report(vh.Finding{Class: "witness-drift", What: fmt.Sprintf("witness of %s: Go gives %q, the theorem says %q (the defect may have been repaired: update model, theorem and known_findings)", w.name, out, w.want), Check: "oracle", Op: "json-decode", Input: string(vh.SortedJSON(w.doc)), Expected: w.want, Actual: out})
		}
		addDecode(w.doc, "witness")
	}

	// ---- like-patterns given as component lists (c09_patterns.go) ----
	c09PatternComponents(c, addDecode)

	// ---- the example of the cross-format theorems, replayed; model pipelines vs Go pipelines (c09_cross.go) ----
	c09CrossWitnesses(c, b)

	nPol := c.N(2500, 100000)
	for i := 0; i < nPol; i++ {
		p := g.PolicyC09(1 + c.Rng.Intn(4))
		if i%50 == 7 { // zero-component pattern (programmatic NewPattern() / decoding {"like":{"left":…}})
			p.Conditions = append(p.Conditions, ast.ConditionType{Condition: ast.ConditionWhen, Body: ast.NodeTypeLike{Arg: ast.NodeValue{Value: types.String("a")}, Value: types.NewPattern()}})
		}
		tr := c09TraitsOf(p)
		for k := range tr.kinds {
			kindsSeen[k]++
		}
		want := c09Show(p, false)
		c.Res.OracleChecks++

		// (0) the MODEL's text -> JSON -> text and JSON -> text -> JSON pipelines against Go's, stage by stage (c09_cross.go)
		if i%c.N(1, 4) == 0 { // every policy in the quick tier, every fourth of the 100 000 of the thorough tier
			c09Cross(c, b, p, "gen")
		}

		// (a) JSON round trip
		jb, err := c09MarshalJSON(p)
		if err != nil {
			c.Report(vh.Finding{Class: "json-marshal-fails", What: "MarshalJSON: " + err.Error(), Check: "oracle", Op: "json-encode", Input: vh.EncPolicy(p)})
			continue
		}
		cp := cedar.NewPolicyFromAST((*publicast.Policy)(p))
		if jb2, err := cp.MarshalJSON(); err != nil || !bytes.Equal(jb, jb2) {
			c.Report(vh.Finding{Class: "json-marshal-api-differs", What: fmt.Sprintf("cedar.Policy.MarshalJSON differs from ast.Policy.MarshalJSON: %s vs %s (%v)", jb2, jb, err), Check: "oracle", Op: "json-encode", Input: vh.EncPolicy(p)})
		}
		out, pj := c09DecodeJSON(jb)
		rtClass := ""
		switch {
		case tr.dupRecordKey && (tr.unknownExt || tr.methodNoRecv):
			// the offending call may sit in a record entry that a later duplicate key shadows: JSON drops it
			// before the decoder sees it, so neither acceptance nor rejection can be demanded
			c.Dist("not-json-renderable:shadowed-by-duplicate-key(skipped)")
			continue
		case tr.unknownExt:
			// outside the JSON format: the decoder must refuse the unknown function name
			c.Dist("not-json-renderable:unknown-extension-name")
			if out != "err" {
				c.Report(vh.Finding{Class: "unknown-extension-accepted", What: "a call of an unknown function survived the JSON decoder: " + string(jb), Check: "oracle", Op: "json-roundtrip", Input: vh.EncPolicy(p), Actual: out})
			}
			continue
		case tr.methodNoRecv:
			// outside the JSON format (the receiver is the first argument): the decoder must refuse it
			c.Dist("not-json-renderable:method-without-receiver")
			if out != "err" {
				c.Report(vh.Finding{Class: "method-without-receiver-accepted", What: "a method-style call without receiver survived the JSON decoder: " + string(jb), Check: "oracle", Op: "json-roundtrip", Input: vh.EncPolicy(p), Actual: out})
			}
			if _, terr := c09MarshalText(p); terr != nil { // rendered in function style; must not panic
				c.Report(vh.Finding{Class: "json-text-marshal-panics", What: terr.Error(), Check: "oracle", Op: "cedar-encode", Input: vh.EncPolicy(p)})
			}
			continue
		case out == "err" || out == "panic":
			rtClass = "json-roundtrip-rejected"
		case out != "ok "+want:
			rtClass = "json-roundtrip-differs"
		}
		if rtClass != "" {
			cls := rtClass
			switch {
			case tr.literalClass != "":
				cls = "literal-" + tr.literalClass
			case tr.emptyPattern && c09EmptyPatternExplains(p):
				cls = "like-empty-pattern"
			}
			c.Report(vh.Finding{Class: cls, What: fmt.Sprintf("%s: %s", rtClass, jb), Check: "oracle", Op: "json-roundtrip", Input: vh.EncPolicy(p), Expected: "ok " + want, Actual: out})
		}
		// the compiled public type: UnmarshalJSON + AST()
		var cp2 cedar.Policy
		if pn := vh.Protect(func() { err = cp2.UnmarshalJSON(jb) }); pn != nil || (err == nil) != (pj != nil) {
			c.Report(vh.Finding{Class: "json-unmarshal-api-differs", What: fmt.Sprintf("cedar.Policy.UnmarshalJSON (%v, panic %v) disagrees with ast.Policy.UnmarshalJSON on %s", err, pn, jb), Check: "oracle", Op: "json-decode", Input: string(jb)})
		} else if pj != nil {
			if got := vh.ShowPolicyC09((*ast.Policy)(cp2.AST())); "ok "+got != out {
				c.Report(vh.Finding{Class: "json-unmarshal-api-differs", What: "cedar.Policy.UnmarshalJSON().AST() differs from ast.Policy.UnmarshalJSON on " + string(jb), Check: "oracle", Op: "json-decode", Input: string(jb), Expected: out, Actual: got})
			}
		}

		// (b) model correspondence
		tree, terr := vh.GenericDecode(jb)
		if terr != nil {
			c.Report(vh.Finding{Class: "json-marshal-invalid", What: "MarshalJSON produced invalid JSON: " + string(jb), Check: "oracle", Op: "json-encode", Input: vh.EncPolicy(p)})
			continue
		}
		idx := b.Add("json-encode", map[string]any{"policy": vh.EncPolicy(p)}, vh.CanonPolicyJSON(tree), "")
		c.Count(b.Key(idx), len(p.Conditions) > 0)
		addDecode(tree, "own")
		addDecode(mut.Mutate(tree), "near-miss")
		if i%3 == 0 {
			addDecode(mut.Mutate(tree), "near-miss")
		}
		if i < 2 {
			c.Sample(map[string]any{"op": "json-roundtrip", "json": string(jb)})
		}
		if pj == nil {
			continue
		}
		// second round trip is stable
		if jb2, err := c09MarshalJSON(pj); err == nil {
			if o2, _ := c09DecodeJSON(jb2); o2 != out {
				cls := "json-second-roundtrip"
				if tr.emptyPattern && c09EmptyPatternExplains(p) {
					cls = "like-empty-pattern"
				}
				c.Report(vh.Finding{Class: cls, What: fmt.Sprintf("decode(encode(decode(encode p))) differs from decode(encode p): %s", jb2), Check: "oracle", Op: "json-roundtrip", Input: vh.EncPolicy(p), Expected: out, Actual: o2})
			}
		}

		// (c) text <-> JSON
		type enc struct {
			name string
			p    *ast.Policy
		}
		encs := []enc{{"ast", p}, {"json", pj}}
		txt, terr2 := c09MarshalText(pj)
		switch {
		case !tr.textFriendly:
			c.Dist("text-paths:skipped-not-text-representable")
		case terr2 != nil:
			c.Report(vh.Finding{Class: "json-text-marshal-panics", What: terr2.Error(), Check: "oracle", Op: "json-text-json", Input: vh.EncPolicy(p)})
		default:
			c.Res.OracleChecks++
			pjt, perr := c09ParseText(txt)
			// the C08 shape that is still a known defect: record VALUE keys rendered with Go-only escapes.
			// (`-N.member` / `-N[...]` / `--N` in the rendered text used to be stepped around here as well: the C08
			// defects negative-literal-receiver and negated-int-receiver are repaired, those texts are checked now.)
			c08 := tr.exoticValueKey
			switch {
			case c08:
				c.Dist("text-paths:c08-overlap")
			case perr != nil || c09Show(pjt, true) != c09Show(pj, true):
				// JSON -> text -> parse differs from JSON alone
				if _, e2 := c09ParseText(bytes.ReplaceAll(txt, []byte("\uFFFD"), []byte("X"))); perr != nil && bytes.Contains(txt, []byte("\uFFFD")) && e2 == nil {
					// attribution by repair: the same text with U+FFFD replaced parses, so U+FFFD is the cause
					// the text scanner treats U+FFFD (utf8.RuneError) in the SOURCE as a decoding error
					c.Report(vh.Finding{Class: "text-rejects-replacement-char", What: fmt.Sprintf("JSON -> text -> parse fails (%v): the rendered text contains U+FFFD: %s", perr, txt), Check: "oracle", Op: "json-text-json", Input: string(jb)})
				} else if tr.literalClass != "" {
					c.Dist("text-paths:c13-overlap")
				} else if perr == nil && tr.negOfLiteral {
					// `-`(long literal) is written `-n` and read back as the LITERAL -n: same meaning, different tree
					// (same root cause as C08 negated-literal-rerendered-differently)
					c.Report(vh.Finding{Class: "text-normalises-negated-literal", What: fmt.Sprintf("JSON -> text -> parse turns Negate(long literal) into a negative literal: %s", txt), Check: "oracle", Op: "json-text-json", Input: string(jb)})
				} else {
					got := "parse error"
					if perr == nil {
						got = c09Show(pjt, true)
					} else {
						got += ": " + perr.Error()
					}
					c.Report(vh.Finding{Class: "json-text-json-differs", What: fmt.Sprintf("decode(JSON) -> MarshalCedar -> parse differs from decode(JSON); text: %s", txt), Check: "oracle", Op: "json-text-json", Input: vh.EncPolicy(p), Expected: c09Show(pj, true), Actual: got})
				}
			default:
				c.Dist("text-paths:checked")
				encs = append(encs, enc{"json-text", pjt})
				// ... and back to JSON: JSON -> text -> JSON equals JSON alone
				if jb3, err := c09MarshalJSON(pjt); err != nil {
					c.Report(vh.Finding{Class: "text-json-marshal-fails", What: err.Error(), Check: "oracle", Op: "json-text-json", Input: vh.EncPolicy(p)})
				} else if o3, pjtj := c09DecodeJSON(jb3); pjtj == nil || c09Show(pjtj, true) != c09Show(pj, true) {
					c.Report(vh.Finding{Class: "json-text-json-differs", What: fmt.Sprintf("JSON -> text -> JSON differs from JSON alone: %s vs %s", jb3, jb), Check: "oracle", Op: "json-text-json", Input: vh.EncPolicy(p), Expected: c09Show(pj, true), Actual: o3})
				} else {
					encs = append(encs, enc{"json-text-json", pjtj})
					// text -> JSON -> text equals text alone (pjt plays the policy written in text)
					if txt2, err := c09MarshalText(pjtj); err == nil {
						if pt2, perr2 := c09ParseText(txt2); perr2 != nil || c09Show(pt2, true) != c09Show(pjt, true) {
							c.Report(vh.Finding{Class: "text-json-text-differs", What: fmt.Sprintf("text -> JSON -> text differs from text alone: %s vs %s", txt2, txt), Check: "oracle", Op: "text-json-text", Input: string(txt)})
						} else {
							encs = append(encs, enc{"text-json-text", pt2})
						}
					}
				}
			}
		}

		// (d) every encoding authorizes identically
		if tr.literalClass == "" {
			nenv := 6 + c.Rng.Intn(2)
			for e := 0; e < nenv; e++ {
				env := pool[c.Rng.Intn(len(pool))]
				base := c09Authz(p, env)
				c.Res.OracleChecks++
				for _, en := range encs[1:] {
					if got := c09Authz(en.p, env); got != base {
						c.Report(vh.Finding{Class: "encodings-authorize-differently", What: fmt.Sprintf("encoding %s authorizes %q, the original %q", en.name, got, base), Check: "oracle", Op: "authz",
							Input: map[string]any{"policy": vh.EncPolicy(p), "env": json.RawMessage(env.Raw)}, Expected: base, Actual: got})
					}
				}
				c.Dist("authz:" + vh.FirstWordC13(base))
			}
			c.Dist(fmt.Sprintf("encodings-compared:%d", len(encs)))
		}
	}

	// ---- policy sets ----
	nSets := c.N(300, 10000)
	for i := 0; i < nSets; i++ {
		c.Res.OracleChecks++
		set := cedar.NewPolicySet()
		var ips []vh.IDPolicy
		skip := false
		for k, n := 0, c.Rng.Intn(5); k < n; k++ {
			id := g.UnicodeString()
			if c.Rng.Intn(3) == 0 {
				id = fmt.Sprintf("policy%d", k)
			}
			p := g.PolicyC09(1 + c.Rng.Intn(3))
			tr := c09TraitsOf(p)
			if tr.unknownExt || tr.methodNoRecv || tr.literalClass != "" {
				skip = true
			}
			dup := false
			for _, q := range ips {
				if string(q.ID) == id {
					dup = true
				}
			}
			if dup {
				continue
			}
			ip := vh.MkPolicy(id, p)
			ips = append(ips, ip)
			set.Add(ip.ID, ip.P)
		}
		if skip {
			c.Dist("policyset:skipped-known-class")
			continue
		}
		sb, err := set.MarshalJSON()
		if err != nil {
			c.Report(vh.Finding{Class: "policyset-marshal-fails", What: err.Error(), Check: "oracle", Op: "jsonset-encode", Input: vh.EncPolicies(ips)})
			continue
		}
		c09ReuseSet(sb) // the same document into a PolicySet that already holds policies (c09_reuse.go)
		var set2 cedar.PolicySet
		var uerr error
		if pn := vh.Protect(func() { uerr = set2.UnmarshalJSON(sb) }); pn != nil || uerr != nil {
			c.Report(vh.Finding{Class: "policyset-roundtrip-rejected", What: fmt.Sprintf("PolicySet.UnmarshalJSON of its own encoding: %v / panic %v: %s", uerr, pn, sb), Check: "oracle", Op: "jsonset-decode", Input: string(sb)})
			continue
		}
		show := func(s *cedar.PolicySet) string {
			var xs []string
			for id, p := range s.All() {
				xs = append(xs, vh.Hex(string(id))+"="+c09Show((*ast.Policy)(p.AST()), false))
			}
			sort.Strings(xs)
			return strings.Join(xs, ";")
		}
		wantSet, gotSet := show(set), show(&set2)
		if wantSet != gotSet {
			c.Report(vh.Finding{Class: "policyset-roundtrip-differs", What: "PolicySet JSON round trip changes ids or policies: " + string(sb), Check: "oracle", Op: "jsonset", Input: vh.EncPolicies(ips), Expected: wantSet, Actual: gotSet})
		}
		if tree, err := vh.GenericDecode(sb); err == nil {
			idx := b.Add("jsonset-encode", map[string]any{"policies": vh.EncPolicies(ips)}, vh.CanonPolicySetJSON(tree), "")
			c.Count(b.Key(idx), len(ips) > 0)
			setImpl := func(t any) {
				doc := vh.SortedJSON(t)
				out := ""
				if pn := vh.Protect(func() {
					var s cedar.PolicySet
					if err := s.UnmarshalJSON(doc); err != nil {
						out = "err"
						return
					}
					var xs []string
					for id, p := range s.All() {
						xs = append(xs, vh.Hex(string(id))+"="+vh.ShowPolicyC09((*ast.Policy)(p.AST())))
					}
					sort.Strings(xs)
					out = "ok " + strings.Join(xs, ";")
				}); pn != nil {
					out = "panic"
					c.Report(vh.Finding{Class: "json-decode-panic", What: "PolicySet.UnmarshalJSON panics on " + string(doc), Check: "oracle", Op: "jsonset-decode", Input: string(doc)})
				}
				c09ReuseSet(doc)
				c.Dist("jsonset-decode:" + vh.FirstWordC13(out))
				if !vh.HasExponentLiteral(t) {
					j := b.Add("jsonset-decode", map[string]any{"doc": string(doc)}, out, "")
					c.Count(b.Key(j), true)
				}
			}
			setImpl(tree)
			setImpl(mut.Mutate(tree))
		}
		c.Dist(fmt.Sprintf("policyset-size:%d", len(ips)))
	}

	// generator self-test: every node kind must have been produced
	for _, k := range []string{"NodeValue", "NodeTypeVariable", "NodeTypeAnd", "NodeTypeOr", "NodeTypeNot", "NodeTypeNegate", "NodeTypeIfThenElse", "NodeTypeAccess", "NodeTypeHas", "NodeTypeLike",
		"NodeTypeIs", "NodeTypeIsIn", "NodeTypeSet", "NodeTypeRecord", "NodeTypeExtensionCall", "NodeTypeEquals", "NodeTypeNotEquals", "NodeTypeLessThan", "NodeTypeLessThanOrEqual",
		"NodeTypeGreaterThan", "NodeTypeGreaterThanOrEqual", "NodeTypeAdd", "NodeTypeSub", "NodeTypeMult", "NodeTypeIn", "NodeTypeContains", "NodeTypeContainsAll", "NodeTypeContainsAny",
		"NodeTypeIsEmpty", "NodeTypeGetTag", "NodeTypeHasTag", "lit:Decimal", "lit:IPAddr", "lit:Datetime", "lit:Duration", "lit:Set", "lit:Record", "lit:EntityUID",
		"scope:All", "scope:Eq", "scope:In", "scope:InSet", "scope:Is", "scope:IsIn"} {
		c.Res.Distribution["kind:"+k] = kindsSeen[k]
		if kindsSeen[k] == 0 {
			c.Report(vh.Finding{Class: "generator-collapse", What: "node kind never generated: " + k, Check: "self-test", NoInput: true})
		}
	}

	ds, _, err := c.Correspond(b)
	if err != nil {
		c.Report(vh.Finding{Class: "driver-failure", What: err.Error(), Check: "correspondence", Op: "json", NoInput: true})
		return
	}
	for _, d := range ds {
		c.Report(vh.Finding{Class: "json-model-mismatch-" + d.Line.Op, What: fmt.Sprintf("%s disagreement (%s): impl=%q model=%q", d.Line.Op, d.Line.Tag, d.Line.Impl, d.Model),
			Check: "correspondence", Op: d.Line.Op, Input: d.Line.Payload(), Expected: d.Model, Actual: d.Line.Impl})
	}
}
