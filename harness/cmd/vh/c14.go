package main

// C14 — determinism.  DIRECT ORACLE (Go against Go): Go randomises map iteration on every `range`, so
// repeating a call re-schedules it.  Every case of c14Cases is observed N times in this process
// (rep 0 = baseline construction order, other reps rebuild policy sets / entity maps / parent sets /
// records / schema maps in shuffled insertion orders, or yield the policies through a slice-backed
// iterator in shuffled order with repetitions) and a few more times in 3 FRESH processes (other hash
// seeds; see worker_c14.go).  Every observation — decision + reason set + error set WITH messages,
// every marshalled byte string, every decode→encode result — must have exactly one variant.
// A variation is attributed by a narrow classifier next to it; only the classes listed in
// known_findings.json are tolerated.
// Since the batch round (c14_batch.go, c14_batch_gen.go): kinds `authz-unspecified` (messages that print an evaluator
// node) and `batch` (batch.Authorize: binding order of equally long variables, substituted sets, unbound / unused
// variables), the latter observed 3 N times.
// On top: the eval-site oracles (record literal, `in` over a set, containsAll/Any, key sorting): the Go-side
// outcome — computed independently, entry by entry / member by member — is compared with the Lean model's
// order-parameterised functions run over ALL orders (ops c14.*: one outcome each since the repairs), and the
// authz correspondence.

import (
	"bytes"
	"crypto/sha256"
	"encoding/hex"
	"encoding/json"
	"fmt"
	"hash/fnv"
	"math"
	"math/rand"
	"os"
	"os/exec"
	"regexp"
	"sort"
	"strings"
	"sync"
	"time"

	cedar "github.com/cedar-policy/cedar-go"
	"github.com/cedar-policy/cedar-go/types"
	"github.com/cedar-policy/cedar-go/x/exp/ast"
	"github.com/cedar-policy/cedar-go/x/exp/eval"

	"verifharness/vh"
)

func init() { props["C14"] = runC14 }

const (
	c14ClassRecord = "record-literal-multi-error-order"
	c14ClassInSet  = "in-set-multi-nonentity-order"
	c14ClassJRec   = "json-decode-record-order"
	c14ClassJAnn   = "json-decode-annotation-order"
	c14ClassCoerce = "schema-coerce-set-collision-order"
)

// ---- variants ----

type c14Variants map[string]map[string][]string // case key -> observation name -> distinct variants (first seen first)

func (v c14Variants) add(key string, obs map[string]string) {
	m := v[key]
	if m == nil {
		m = map[string][]string{}
		v[key] = m
	}
	for name, s := range obs {
		found := false
		for _, x := range m[name] {
			if x == s {
				found = true
				break
			}
		}
		if !found {
			m[name] = append(m[name], s)
		}
	}
}

func c14ShuffleRng(seed int64, key string, rep, proc int) *rand.Rand {
	h := fnv.New64a()
	h.Write([]byte(key))
	return rand.New(rand.NewSource(seed ^ int64(h.Sum64()>>1) + int64(rep)*7919 + int64(proc)*104729))
}

func c14Digest(cases []*c14Case) string {
	h := sha256.New()
	for _, c := range cases {
		b, _ := json.Marshal([]any{c.Key, c.Kind, c.Input})
		h.Write(b)
	}
	return hex.EncodeToString(h.Sum(nil))
}

// c14Observe runs every case for reps repetitions.
var c14KindTime = map[string]time.Duration{}

func c14Observe(cases []*c14Case, seed int64, reps, proc int) c14Variants {
	out := c14Variants{}
	for _, c := range cases {
		t := time.Now()
		n := reps
		if strings.Contains(c.Kind, "schema") && n > 8 { // the heaviest documents: half the repetitions
			n = n / 2
		}
		if c.Kind == "batch" { // two entries of a small Go map swap in about one range out of eight: three times the repetitions
			n = n * 3
		}
		for rep := 0; rep < n; rep++ {
			out.add(c.Key, c.Run(rep, c14ShuffleRng(seed, c.Key, rep, proc)))
		}
		c14KindTime[c.Kind] += time.Since(t)
	}
	return out
}

type c14WorkerOut struct {
	Digest string      `json:"digest"`
	Obs    c14Variants `json:"obs"`
}

// ---- classification ----

type c14ParsedAuthz struct {
	decision string
	reasons  string
	errs     map[string][]string // id@pos -> messages (a policy yielded twice may fail with two different messages)
}

func c14ParseAuthz(s string) c14ParsedAuthz {
	p := c14ParsedAuthz{errs: map[string][]string{}}
	var rs []string
	for _, l := range strings.Split(s, "\n") {
		switch {
		case strings.HasPrefix(l, "D "):
			p.decision = l
		case strings.HasPrefix(l, "R "):
			rs = append(rs, l)
		case strings.HasPrefix(l, "E "):
			if i := strings.IndexByte(l, '\t'); i >= 0 {
				p.errs[l[2:i]] = append(p.errs[l[2:i]], l[i+1:])
			}
		default:
			p.decision += "?" + l // panic text etc.: never equal to a well-formed observation
		}
	}
	p.reasons = strings.Join(rs, "\n")
	return p
}

func c14ErrMsgs(n ast.IsNode, env eval.Env, times int) map[string]bool {
	out := map[string]bool{}
	for i := 0; i < times; i++ {
		vh.Protect(func() {
			if _, err := eval.Eval(n, env); err != nil {
				out[err.Error()] = true
			}
		})
	}
	return out
}

// c14ExplainMessages attributes the differing messages M of one policy to iteration-order sites of its AST:
//   - an `in` / `is..in` whose right operand evaluates to a set with non-entity members of >= 2 different
//     types (the message names the first one met), or
//   - a record literal with >= 2 entries that error with different messages (the first one met wins).
//
// Every message of M must be the message of such a site, otherwise the variation is unexplained.
func c14ExplainMessages(p *ast.Policy, env eval.Env, M []string) []c14Class {
	inMsgs, recMsgs := map[string]bool{}, map[string]bool{}
	inWhat, recWhat := "", ""
	probe := types.NewEntityUID("C14", "probe")
	for _, cond := range p.Conditions {
		c14Walk(cond.Body, func(n ast.IsNode) {
			var rhs ast.IsNode
			switch v := n.(type) {
			case ast.NodeTypeIn:
				rhs = v.Right
			case ast.NodeTypeIsIn:
				rhs = v.Entity
			case ast.NodeTypeRecord:
				if len(v.Elements) < 2 {
					return
				}
				erroring := 0
				msgs := map[string]bool{}
				for _, e := range v.Elements {
					em := c14ErrMsgs(e.Value, env, 8)
					if len(em) > 0 {
						erroring++
					}
					for m := range em {
						msgs[m] = true
					}
				}
				if erroring >= 2 && len(msgs) >= 2 {
					for m := range msgs {
						recMsgs[m] = true
					}
					recWhat = fmt.Sprintf("record literal with %d erroring entries of %d", erroring, len(v.Elements))
				}
				return
			default:
				return
			}
			for i := 0; i < 4; i++ {
				var val types.Value
				vh.Protect(func() { val, _ = eval.Eval(rhs, env) })
				set, ok := val.(types.Set)
				if !ok {
					continue
				}
				msgs := map[string]bool{}
				for m := range set.All() {
					if _, isEnt := m.(types.EntityUID); isEnt {
						continue
					}
					one := ast.NodeTypeIn{BinaryNode: ast.BinaryNode{Left: ast.NodeValue{Value: probe}, Right: ast.NodeValue{Value: types.NewSet(m)}}}
					for msg := range c14ErrMsgs(one, env, 1) {
						msgs[msg] = true
					}
				}
				if len(msgs) >= 2 {
					for m := range msgs {
						inMsgs[m] = true
					}
					inWhat = fmt.Sprintf("`in` over a set with %d differently typed non-entity members", len(msgs))
				}
			}
		})
	}
	classes := map[string]string{}
	for _, m := range M {
		switch {
		case inMsgs[m]:
			classes[c14ClassInSet] = inWhat
		case recMsgs[m]:
			classes[c14ClassRecord] = recWhat
		default:
			return nil
		}
	}
	var out []c14Class
	for _, k := range []string{c14ClassRecord, c14ClassInSet} {
		if w, ok := classes[k]; ok {
			out = append(out, c14Class{k, w})
		}
	}
	return out
}

func c14ClassifyAuthz(variants []string, asts map[string]*ast.Policy, env eval.Env) []c14Class {
	var ps []c14ParsedAuthz
	for _, v := range variants {
		ps = append(ps, c14ParseAuthz(v))
	}
	msgs := map[string]map[string]bool{}
	for _, p := range ps {
		if p.decision != ps[0].decision || p.reasons != ps[0].reasons || len(p.errs) != len(ps[0].errs) {
			return nil
		}
		for k, ms := range p.errs {
			if _, ok := ps[0].errs[k]; !ok {
				return nil
			}
			if msgs[k] == nil {
				msgs[k] = map[string]bool{}
			}
			for _, m := range ms {
				msgs[k][m] = true
			}
		}
	}
	got := map[string]string{}
	keys := make([]string, 0, len(msgs))
	for k := range msgs {
		keys = append(keys, k)
	}
	sort.Strings(keys)
	for _, k := range keys {
		if len(msgs[k]) < 2 {
			continue
		}
		id := k
		if i := strings.IndexByte(k, '@'); i >= 0 {
			id = k[:i]
		}
		p := asts[id]
		if p == nil {
			return nil
		}
		var M []string
		for m := range msgs[k] {
			M = append(M, m)
		}
		sort.Strings(M)
		cls := c14ExplainMessages(p, env, M)
		if len(cls) == 0 {
			return nil
		}
		for _, c := range cls {
			got[c.Class] = fmt.Sprintf("policy %s: %s; messages seen: %q", k, c.What, M)
		}
	}
	var out []c14Class
	for _, k := range []string{c14ClassRecord, c14ClassInSet} {
		if w, ok := got[k]; ok {
			out = append(out, c14Class{k, w})
		}
	}
	return out
}

// c14ClassifyDecode: `base` is the Cedar text printed after decoding fixed JSON bytes; base/sorted-* are the
// texts of the same decoded AST with record entries / annotations / both put in sorted order.
func c14ClassifyDecode(name, base string, all map[string][]string) []c14Class {
	n := func(s string) int { return len(all[s]) }
	if n(base+"/sorted-both") != 1 {
		return nil // something else than entry/annotation order varies
	}
	rec := c14Class{c14ClassJRec, fmt.Sprintf("%d different Cedar texts from the same JSON bytes; all equal once record-literal entries are sorted", n(name))}
	ann := c14Class{c14ClassJAnn, fmt.Sprintf("%d different Cedar texts from the same JSON bytes; all equal once annotations are sorted", n(name))}
	switch name {
	case base:
		switch {
		case n(base+"/sorted-records") == 1:
			return []c14Class{rec}
		case n(base+"/sorted-annotations") == 1:
			return []c14Class{ann}
		default:
			return []c14Class{rec, ann}
		}
	case base + "/sorted-records":
		return []c14Class{ann}
	case base + "/sorted-annotations":
		return []c14Class{rec}
	}
	return nil
}

// ---- the check ----

func runC14(c *vh.Ctx) {
	c.Res.Rule = "every case (authorization over >= 8 policies / >= 8 entities with record literals holding several erroring entries, `in` over deep hierarchies and over sets with non-entity members, containsAll/Any over large colliding sets; encoders of policy, policy set, entity, entity map, value, schema; decode→encode of fixed policy/policy-set/entity/value/schema bytes, on odd repetitions into a REUSED destination that already holds other content; entity maps and every single entity over look-alike UID groups whose Type+ID / Type+'::'+ID concatenations coincide; policy TEXT applying getTag/hasTag/attribute access to an UNSPECIFIED principal/resource with non-literal tag expressions, parsed and compiled anew on every repetition; batch.Authorize over request templates with >= 2 variables of equally many values and conditions whose operands both fail, `is … in` with failing right-hand sides, contexts holding sets with hash-colliding members around a variable, several unbound / unused variables — every callback's Request incl. the marshalled context, Values, Decision, reasons and error messages, and the callback order, 3 x N times) observed N times in-process over shuffled insertion orders and iterator orders with repetitions, and again in 3 fresh processes; every observation (decision, reason set, error set WITH messages, all bytes) must have one variant; variations are attributed by classifiers. Plus eval-site oracles against the Lean order-parameterised model run over all orders (record literal, `in` message, containsAll/Any, sorting encoders, Set marshal order, batch binding order read off the callback nesting, the variable named by batch's unbound/unused error). distinct = distinct cases; non-trivial = >= 1 policy / >= 2 container entries / any byte input"
	N := c.N(16, 128)
	t0 := time.Now()
	cases := c14Cases(c.Seed, c.Tier)
	digest := c14Digest(cases)
	tGen := time.Since(t0)

	// fresh processes first (they run while we observe in-process)
	const procs = 3
	workerOut := make([]*c14WorkerOut, procs)
	workerErr := make([]error, procs)
	var wg sync.WaitGroup
	exe, _ := os.Executable()
	for i := 0; i < procs; i++ {
		wg.Add(1)
		go func(i int) {
			defer wg.Done()
			cmd := exec.Command(exe, "-c14worker")
			cmd.Env = append(os.Environ(), fmt.Sprintf("VH_C14_SEED=%d", c.Seed), "VH_C14_TIER="+c.Tier, fmt.Sprintf("VH_C14_PROC=%d", i+1), fmt.Sprintf("VH_C14_REPS=%d", c.N(3, 12)))
			var stdout, stderr bytes.Buffer
			cmd.Stdout, cmd.Stderr = &stdout, &stderr
			if err := cmd.Run(); err != nil {
				workerErr[i] = fmt.Errorf("worker %d: %v: %s", i+1, err, stderr.String())
				return
			}
			var wo c14WorkerOut
			if err := json.Unmarshal(stdout.Bytes(), &wo); err != nil {
				workerErr[i] = fmt.Errorf("worker %d: bad output: %v", i+1, err)
				return
			}
			workerOut[i] = &wo
		}(i)
	}

	t1 := time.Now()
	variants := c14Observe(cases, c.Seed, N, 0)
	tObs := time.Since(t1)
	wg.Wait()
	tWait := time.Since(t1)
	t2 := time.Now()
	for i := 0; i < procs; i++ {
		if workerErr[i] != nil {
			c.Report(vh.Finding{Class: "worker-failure", What: workerErr[i].Error(), Check: "oracle", Op: "c14worker", NoInput: true})
			continue
		}
		if workerOut[i].Digest != digest {
			c.Report(vh.Finding{Class: "generation-differs-across-processes", What: "a fresh process generated different cases from the same seed: either the harness generator iterates a map, or an encoder used while generating fixed bytes is not deterministic across processes", Check: "oracle", Op: "c14worker", NoInput: true})
			continue
		}
		for key, m := range workerOut[i].Obs {
			for name, vs := range m {
				for _, s := range vs {
					variants.add(key, map[string]string{name: s})
				}
			}
		}
	}

	// evaluate
	unstable := 0
	for ci, cs := range cases {
		c.Count(cs.Key, cs.Nontrivial)
		c.Dist("case:" + cs.Kind)
		for _, l := range cs.Labels {
			c.Dist("gen:" + l)
		}
		m := variants[cs.Key]
		names := make([]string, 0, len(m))
		for n := range m {
			names = append(names, n)
		}
		sort.Strings(names)
		if ci%97 == 0 && len(names) > 0 {
			c.Sample(map[string]any{"case": cs.Key, "kind": cs.Kind, "observation": names[0], "value": trunc(m[names[0]][0], 200), "variants": len(m[names[0]])})
		}
		for _, name := range names {
			c.Res.OracleChecks++
			vs := m[name]
			if strings.HasPrefix(vs[0], "panic:") {
				c.Report(vh.Finding{Class: "panic:" + cs.Kind, What: fmt.Sprintf("%s panicked: %s", name, trunc(vs[0], 200)), Check: "oracle", Op: cs.Kind, Input: cs.Input})
			}
			if len(vs) < 2 {
				continue
			}
			unstable++
			c.Dist("unstable:" + cs.Kind + ":" + name)
			var classes []c14Class
			if cs.Classify != nil {
				classes = cs.Classify(name, m)
			}
			if len(classes) == 0 {
				c.Report(vh.Finding{Class: "nondeterministic:" + cs.Kind + ":" + c14ObsFamily(name), What: fmt.Sprintf("case %s: observation %q has %d variants over repetitions / insertion orders / processes", cs.Key, name, len(vs)),
					Check: "oracle", Op: cs.Kind, Input: cs.Input, Expected: vs[0], Actual: vs[1]})
				continue
			}
			for _, cl := range classes {
				c.Dist("class:" + cl.Class)
				c.Report(vh.Finding{Class: cl.Class, What: fmt.Sprintf("case %s, %s: %s", cs.Key, name, cl.What), Check: "oracle", Op: cs.Kind, Input: cs.Input, Expected: vs[0], Actual: vs[1]})
			}
		}
	}
	c.Res.Notes = append(c.Res.Notes, fmt.Sprintf("timing: generate %.1fs, observe in-process %.1fs, workers done after %.1fs, classify %.1fs", tGen.Seconds(), tObs.Seconds(), tWait.Seconds(), time.Since(t2).Seconds()))
	{
		var ks []string
		for k, d := range c14KindTime {
			ks = append(ks, fmt.Sprintf("%s=%.1fs", k, d.Seconds()))
		}
		sort.Strings(ks)
		c.Res.Notes = append(c.Res.Notes, "in-process time by case kind: "+strings.Join(ks, " "))
	}
	c.Res.Notes = append(c.Res.Notes, fmt.Sprintf("cases=%d repetitions in-process=%d fresh processes=%d observations with more than one variant=%d", len(cases), N, procs, unstable))
	// generator self-test: the favoured shapes must actually occur
	for _, want := range []string{"gen:reclit-multi-error", "gen:in-set-nonentity", "gen:in-hierarchy", "gen:contains-big", "gen:json-record>=3", "gen:json-annotations>=3", "gen:schema-coerced-set",
		"gen:unspecified-gettag-nonliteral", "gen:batch-tie-double-error", "gen:batch-is-in-failing-rhs", "gen:batch-set-collision-variable", "gen:batch-unspecified", "gen:batch-several-unbound", "gen:batch-several-unused"} {
		if c.Res.Distribution[want] < 10 {
			c.Report(vh.Finding{Class: "generator-collapsed", What: "the generator produced fewer than 10 cases of " + want, Check: "oracle", Op: "gen", NoInput: true})
		}
	}

	t3 := time.Now()
	c14EvalSites(c)
	c.Res.Notes = append(c.Res.Notes, fmt.Sprintf("timing: eval-site oracles + correspondence %.1fs", time.Since(t3).Seconds()))
}

// c14ObsFamily: the observation name without a trailing member index ("entity.json/7" -> "entity.json").
func c14ObsFamily(name string) string {
	i := len(name)
	for i > 0 && name[i-1] >= '0' && name[i-1] <= '9' {
		i--
	}
	if i > 0 && i < len(name) && name[i-1] == '/' {
		return name[:i-1]
	}
	return name
}

func trunc(s string, n int) string {
	if len(s) > n {
		return s[:n] + "…"
	}
	return s
}

// ---- eval-site oracles + correspondence with the Lean model ----

// c14GoTypeName: the name internal/eval.TypeName gives a non-entity value (written out here: the oracle must not
// call the code under test)
func c14GoTypeName(v types.Value) string {
	switch v.(type) {
	case types.Boolean:
		return "bool"
	case types.Long:
		return "long"
	case types.String:
		return "string"
	case types.Set:
		return "set"
	case types.Record:
		return "record"
	case types.Decimal:
		return "decimal"
	case types.Datetime:
		return "datetime"
	case types.Duration:
		return "unknown type" // internal/eval.TypeName has no case for Duration
	case types.IPAddr:
		return "IP"
	}
	return "?"
}

var c14GotRe = regexp.MustCompile(`got (.*)$`)

// the type name inside a ValueToEntity message
func c14MsgName(msg string) string {
	m := c14GotRe.FindStringSubmatch(msg)
	if m == nil {
		return "?" + msg
	}
	return m[1]
}

func c14Join(set map[string]bool) string {
	var xs []string
	for x := range set {
		xs = append(xs, x)
	}
	sort.Strings(xs)
	return strings.Join(xs, "|")
}

func c14EvalSites(c *vh.Ctx) {
	r := rand.New(rand.NewSource(c.Seed*31 + 1414))
	g := vh.NewGen(r)
	b := &vh.Batch{}
	N := c.N(16, 128)
	envs := g.EnvPool(c.N(12, 60))
	errs, oks := c14ErrExprs(), c14OkExprs()

	// (1) record literal: outcomes over all iteration orders
	type recCase struct {
		line     int
		observed map[string]bool
		msgs     map[string]bool
		expected map[string]bool
		payload  map[string]any
	}
	var recs []recCase
	for i := 0; i < c.N(500, 5000); i++ {
		nErr, nOk := r.Intn(4), r.Intn(3)
		if nErr+nOk == 0 {
			nOk = 1
		}
		keys := append([]string{}, c14Keys...)
		r.Shuffle(len(keys), func(i, j int) { keys[i], keys[j] = keys[j], keys[i] })
		var els []ast.RecordElementNode
		for k := 0; k < nErr; k++ {
			els = append(els, ast.RecordElementNode{Key: types.String(keys[len(els)]), Value: errs[r.Intn(len(errs))].Node})
		}
		for k := 0; k < nOk; k++ {
			els = append(els, ast.RecordElementNode{Key: types.String(keys[len(els)]), Value: oks[r.Intn(len(oks))].Node})
		}
		r.Shuffle(len(els), func(i, j int) { els[i], els[j] = els[j], els[i] })
		env := envs[r.Intn(len(envs))]
		node := ast.NodeTypeRecord{Elements: els}
		rc := recCase{observed: map[string]bool{}, msgs: map[string]bool{}, expected: map[string]bool{}}
		for k := 0; k < N; k++ {
			var s, msg string
			if p := vh.Protect(func() {
				v, err := eval.Eval(node, env.Env)
				s = vh.ShowRes(v, err)
				if err != nil {
					msg = err.Error()
				}
			}); p != nil {
				s = "err panic"
			}
			rc.observed[s] = true
			rc.msgs[msg] = true
		}
		// independent oracle: the entries one by one in ascending key order, the first error wins (a function of
		// the literal since `fix: evaluate the entries of a record literal in key order`); entryErrs = what an
		// evaluation in Go map order could have reported (the defect, if it returns)
		sorted := append([]ast.RecordElementNode{}, els...)
		sort.Slice(sorted, func(i, j int) bool { return sorted[i].Key < sorted[j].Key })
		entryErrs := map[string]bool{}
		want := ""
		for _, e := range sorted {
			vh.Protect(func() {
				if v, err := eval.Eval(e.Value, env.Env); err != nil {
					entryErrs[vh.ShowRes(v, err)] = true
					if want == "" {
						want = vh.ShowRes(v, err)
					}
				}
			})
		}
		if want == "" { // no entry fails: the record of the entries' values
			vals := types.RecordMap{}
			for _, e := range els {
				vh.Protect(func() { v, _ := eval.Eval(e.Value, env.Env); vals[e.Key] = v })
			}
			want = vh.ShowRes(types.NewRecord(vals), nil)
		}
		rc.expected[want] = true
		var encEls []any
		for _, e := range els {
			encEls = append(encEls, []any{vh.Hex(string(e.Key)), vh.EncExpr(e.Value)})
		}
		rc.payload = map[string]any{"entries": encEls, "envref": b.EnvRef(env)}
		rc.line = b.Add("c14.reclit", rc.payload, c14Join(rc.expected), "")
		c.Count(b.Key(rc.line), len(els) >= 2)
		c.Dist(fmt.Sprintf("reclit:erroring-entries=%d", nErr))
		c.Res.OracleChecks++
		for s := range rc.observed {
			if rc.expected[s] {
				continue
			}
			if entryErrs[s] { // the error of ANOTHER erroring entry: evaluation followed some other order
				c.Dist("class:" + c14ClassRecord)
				c.Report(vh.Finding{Class: c14ClassRecord, What: fmt.Sprintf("record literal reported %q, the error of an entry that is not the erroring entry with the least key (%s)", s, want), Check: "oracle", Op: "c14.reclit", Input: rc.payload, Expected: want, Actual: s})
			} else {
				c.Report(vh.Finding{Class: "reclit-outcome-unexplained", What: fmt.Sprintf("record literal produced %q, expected %q (entries in key order, first error wins)", s, want), Check: "oracle", Op: "c14.reclit", Input: rc.payload, Expected: want, Actual: s})
			}
		}
		if len(rc.msgs) > 1 {
			c.Dist("class:" + c14ClassRecord)
			c.Report(vh.Finding{Class: c14ClassRecord, What: fmt.Sprintf("the same record literal, same environment, %d runs: messages %q", N, c14Join(rc.msgs)), Check: "oracle", Op: "c14.reclit", Input: rc.payload, Expected: "one message", Actual: c14Join(rc.msgs)})
		}
		recs = append(recs, rc)
	}

	// (1b) a hand-built record node that REPEATS a key (no parser, decoder or builder produces one): ToEval stores
	// the entries in a map, so only the last entry of a key is evaluated — an earlier one is not, even if it would
	// fail.  The shared model does the same (`canonKVs`); correspondence through the shared op `eval`.
	for i := 0; i < c.N(200, 2000); i++ {
		n := 2 + r.Intn(4)
		var els []ast.RecordElementNode
		for k := 0; k < n; k++ {
			var v ast.IsNode
			if r.Intn(3) == 0 {
				v = errs[r.Intn(len(errs))].Node
			} else {
				v = oks[r.Intn(len(oks))].Node
			}
			els = append(els, ast.RecordElementNode{Key: types.String(c14Keys[r.Intn(3)]), Value: v})
		}
		env := envs[r.Intn(len(envs))]
		node := ast.NodeTypeRecord{Elements: els}
		impl, stable := evalImpl(node, env.Env)
		c.Res.OracleChecks++
		if !stable {
			c.Report(vh.Finding{Class: c14ClassRecord, What: fmt.Sprintf("record literal with a repeated key: four evaluations differ (first %q)", impl), Check: "oracle", Op: "eval", Input: map[string]any{"expr": vh.EncExpr(node)}})
			continue
		}
		line := b.Add("eval", map[string]any{"expr": vh.EncExpr(node), "envref": b.EnvRef(env)}, impl, "")
		c.Count(b.Key(line)+env.Name, true)
		c.Dist("reclit:repeated-key")
	}

	// (2) `in` over a set literal: which member the message names
	memberPool := []types.Value{types.NewEntityUID("User", "a"), types.NewEntityUID("Group", "g1"), types.Long(1), types.Long(2), types.String("x"), types.True,
		types.NewSet(types.Long(1)), types.NewRecord(nil), types.VerifDecimalFromRaw(15000), types.NewDatetimeFromMillis(0), types.NewDurationFromMillis(1), g.IP()}
	for i := 0; i < c.N(300, 3000); i++ {
		n := 1 + r.Intn(5)
		var mem []types.Value
		for k := 0; k < n; k++ {
			mem = append(mem, memberPool[r.Intn(len(memberPool))])
		}
		env := envs[r.Intn(len(envs))]
		node := ast.NodeTypeIn{BinaryNode: ast.BinaryNode{Left: ast.NodeValue{Value: types.NewEntityUID("User", "a")}, Right: c14SetLit(mem)}}
		observed, msgs, expected := map[string]bool{}, map[string]bool{}, map[string]bool{}
		for k := 0; k < N; k++ {
			vh.Protect(func() {
				_, err := eval.Eval(node, env.Env)
				if err != nil {
					observed[c14MsgName(err.Error())] = true
					msgs[err.Error()] = true
				} else {
					observed["none"] = true
				}
			})
		}
		// independent oracle: of the type names of the non-entity members the one that sorts first (the message is a
		// fixed text followed by that name); anyName = what a first-member-met evaluation could have named
		var encMem []any
		anyName := map[string]bool{}
		want := "none"
		for _, m := range mem {
			encMem = append(encMem, vh.EncValue(m))
			if _, ok := m.(types.EntityUID); !ok {
				nm := c14GoTypeName(m)
				anyName[nm] = true
				if want == "none" || nm < want {
					want = nm
				}
			}
		}
		expected[want] = true
		payload := map[string]any{"members": encMem}
		line := b.Add("c14.inmsg", payload, c14Join(expected), "")
		c.Count(b.Key(line), n >= 2)
		c.Dist(fmt.Sprintf("inmsg:nonentity-kinds=%d", len(anyName)))
		c.Res.OracleChecks++
		for s := range observed {
			if expected[s] {
				continue
			}
			if anyName[s] {
				c.Dist("class:" + c14ClassInSet)
				c.Report(vh.Finding{Class: c14ClassInSet, What: fmt.Sprintf("`in` over a set named %q, the type of a non-entity member that is not the one sorting first (%s)", s, want), Check: "oracle", Op: "c14.inmsg", Input: payload, Expected: want, Actual: s})
			} else {
				c.Report(vh.Finding{Class: "inmsg-unexplained", What: fmt.Sprintf("`in` over a set reported %q, expected %s", s, want), Check: "oracle", Op: "c14.inmsg", Input: payload, Expected: want, Actual: s})
			}
		}
		if len(msgs) > 1 {
			c.Dist("class:" + c14ClassInSet)
			c.Report(vh.Finding{Class: c14ClassInSet, What: fmt.Sprintf("the same `in` expression, %d runs: messages %q", N, c14Join(msgs)), Check: "oracle", Op: "c14.inmsg", Input: payload, Expected: "one message", Actual: c14Join(msgs)})
		}
	}

	// (3) containsAll / containsAny: one answer for every order
	for i := 0; i < c.N(400, 4000); i++ {
		lhs := c14BigSet(r, r.Intn(40))
		var rhs []types.Value
		switch r.Intn(3) {
		case 0:
			rhs = c14BigSet(r, r.Intn(6))
		case 1:
			for k := 0; k < r.Intn(6) && len(lhs) > 0; k++ {
				rhs = append(rhs, lhs[r.Intn(len(lhs))])
			}
		default:
			rhs = append(c14BigSet(r, r.Intn(20)), lhs[:r.Intn(len(lhs)+1)]...)
		}
		op := "c14.containsall"
		var node ast.IsNode = ast.NodeTypeContainsAll{BinaryNode: ast.BinaryNode{Left: c14SetLit(lhs), Right: c14SetLit(rhs)}}
		if r.Intn(2) == 0 {
			op = "c14.containsany"
			node = ast.NodeTypeContainsAny{BinaryNode: ast.BinaryNode{Left: c14SetLit(lhs), Right: c14SetLit(rhs)}}
		}
		observed := map[string]bool{}
		for k := 0; k < N; k++ {
			vh.Protect(func() {
				v, err := eval.Eval(node, envs[0].Env)
				if err != nil {
					observed["err "+err.Error()] = true
				} else {
					observed[fmt.Sprint(v == types.True)] = true
				}
			})
		}
		var el, er []any
		for _, v := range lhs {
			el = append(el, vh.EncValue(v))
		}
		for _, v := range rhs {
			er = append(er, vh.EncValue(v))
		}
		payload := map[string]any{"lhs": el, "rhs": er}
		if el == nil {
			payload["lhs"] = []any{}
		}
		if er == nil {
			payload["rhs"] = []any{}
		}
		line := b.Add(op, payload, c14Join(observed), "")
		c.Count(b.Key(line), len(rhs) >= 2)
		c.Dist(op)
		c.Res.OracleChecks++
		if len(observed) != 1 {
			c.Report(vh.Finding{Class: "contains-nondeterministic", What: fmt.Sprintf("%s gave %s over %d runs", op, c14Join(observed), N), Check: "oracle", Op: op, Input: payload})
		}
	}

	// (4) key order of the sorting encoders: Record.MarshalJSON and PolicySet.MarshalCedar
	keyPool := append(append([]string{}, vh.Strings...), "policy0", "policy1", "policy2", "policy10", "policy11", "Z", "a b", "ab", "a", "B", "~", "ÿ", "é", "é", "\U0001F600", "￿")
	idRe := regexp.MustCompile(`@id\("([0-9a-f]*)"\)`)
	for i := 0; i < c.N(200, 2000); i++ {
		seen := map[string]bool{}
		var keys []string
		for k := 0; k < r.Intn(11); k++ {
			s := keyPool[r.Intn(len(keyPool))]
			if !seen[s] {
				seen[s] = true
				keys = append(keys, s)
			}
		}
		var hk []any
		for _, k := range keys {
			hk = append(hk, vh.Hex(k))
		}
		if hk == nil {
			hk = []any{}
		}
		// Record
		m := types.RecordMap{}
		for j, k := range keys {
			m[types.String(k)] = types.Long(int64(j))
		}
		var got []string
		if jb, err := types.NewRecord(m).MarshalJSON(); err == nil {
			dec := json.NewDecoder(bytes.NewReader(jb))
			depth := 0
			expectKey := false
			for {
				t, err := dec.Token()
				if err != nil {
					break
				}
				switch v := t.(type) {
				case json.Delim:
					if v == '{' {
						depth++
						expectKey = depth == 1
					} else if v == '}' {
						depth--
					}
				case string:
					if depth == 1 && expectKey {
						got = append(got, vh.Hex(v))
					}
					expectKey = depth == 1 && !expectKey
				default:
					expectKey = depth == 1
				}
			}
		}
		line := b.Add("c14.sortkeys", map[string]any{"keys": hk}, strings.Join(got, ","), "record")
		c.Count(b.Key(line)+"r", len(keys) >= 2)
		// PolicySet
		set := cedar.NewPolicySet()
		for _, k := range keys {
			p := &ast.Policy{Effect: ast.EffectPermit, Principal: ast.ScopeTypeAll{}, Action: ast.ScopeTypeAll{}, Resource: ast.ScopeTypeAll{},
				Annotations: []ast.AnnotationType{{Key: "id", Value: types.String(vh.Hex(k))}}}
			set.Add(cedar.PolicyID(k), c14PolicyOf(p))
		}
		var got2 []string
		for _, mm := range idRe.FindAllStringSubmatch(string(set.MarshalCedar()), -1) {
			got2 = append(got2, mm[1])
		}
		line = b.Add("c14.sortkeys", map[string]any{"keys": hk}, strings.Join(got2, ","), "policyset")
		c.Count(b.Key(line)+"p", len(keys) >= 2)
		c.Dist("sortkeys")
	}

	// (4b) member order of Set.MarshalJSON / Set.MarshalCedar on sets whose members collide in the hash table (also
	// across the wrap-around at slot 2^64-1): the bytes must be the model's (table built with the model's goHash, slots
	// in orderedSlots order), and the set decoded from its own JSON must marshal to the same bytes again.
	for i := 0; i < c.N(400, 4000); i++ {
		ms := c14CollidingMembers(r)
		s1 := types.NewSet(ms...)
		j1, _ := s1.MarshalJSON()
		c1 := s1.MarshalCedar()
		var s2 types.Set
		if err := s2.UnmarshalJSON(j1); err != nil {
			c.Dist("setorder:own-json-rejected") // a member whose text does not parse back (C12's datetime finding)
		} else {
			j2, _ := s2.MarshalJSON()
			c2 := s2.MarshalCedar()
			c.Res.OracleChecks++
			if !bytes.Equal(j1, j2) || !bytes.Equal(c1, c2) {
				var enc []any
				for _, v := range ms {
					enc = append(enc, vh.EncValue(v))
				}
				c.Report(vh.Finding{Class: "set-marshal-roundtrip-unstable", What: fmt.Sprintf("a set decoded from its own JSON marshals differently: %s | %s ; %s | %s", j1, j2, c1, c2),
					Check: "oracle", Op: "c14.setorder", Input: map[string]any{"members": enc}, Expected: string(j1), Actual: string(j2)})
			}
		}
		for _, form := range []struct {
			sep  string
			out  []byte
			text func(types.Value) string
		}{
			{",", j1, func(v types.Value) string { b, _ := json.Marshal(v); return string(b) }},
			{", ", c1, func(v types.Value) string { return string(v.MarshalCedar()) }},
		} {
			var members []any
			for _, v := range ms {
				members = append(members, map[string]any{"value": vh.EncValue(v), "text": vh.Hex(form.text(v))})
			}
			line := b.Add("c14.setorder", map[string]any{"sep": vh.Hex(form.sep), "members": members}, vh.Hex(string(form.out)), "")
			c.Count(b.Key(line), len(ms) >= 2)
		}
		c.Dist("setorder")
	}

	// (6), (7) batch.Authorize: binding order of the variables, the name in the unbound / unused error (c14_batch.go)
	c14BatchSites(c, b, r)

	// (5) authorization: the model (policies in the listed order) against the implementation's canonical result
	c14AuthzCorrespondence(c, b, c.N(150, 1500))

	ds, _, err := c.Correspond(b)
	if err != nil {
		c.Report(vh.Finding{Class: "driver-failure", What: err.Error(), Check: "correspondence", Op: "c14", NoInput: true})
		return
	}
	for _, d := range ds {
		c.Report(vh.Finding{Class: "model-mismatch:" + d.Line.Op, What: fmt.Sprintf("%s: impl=%q model=%q", d.Line.Op, trunc(d.Line.Impl, 200), trunc(d.Model, 200)),
			Check: "correspondence", Op: d.Line.Op, Input: d.Line.Payload(), Expected: d.Model, Actual: d.Line.Impl})
	}
}

// c14AuthzCorrespondence: fresh authorization inputs (>= 8 policies) through the shared `authz` op; the Go side is
// the canonical (sorted, message-free) result, which must be the same for the PolicySet and for a
// shuffled slice iterator.
func c14AuthzCorrespondence(c *vh.Ctx, b *vh.Batch, n int) {
	r := rand.New(rand.NewSource(c.Seed*131 + 77))
	g := vh.NewGen(r)
	pool := g.EnvPool(c.N(20, 100))
	for i := 0; i < n; i++ {
		np := 8 + r.Intn(6)
		var ps []vh.IDPolicy
		for k := 0; k < np; k++ {
			var p *ast.Policy
			if r.Intn(3) == 0 {
				rec, _ := c14RecordLit(r, r.Intn(3), 1+r.Intn(2), 0)
				p = c14Policy(ast.Effect(r.Intn(2) == 0), k, c14RecordCond(r, rec))
			} else {
				p = g.Policy(1 + r.Intn(3))
				p.Position = ast.Position{Filename: "c14", Offset: k, Line: k + 1, Column: 1}
			}
			ps = append(ps, vh.MkPolicy(fmt.Sprintf("p%d", k), p))
		}
		env := pool[r.Intn(len(pool))]
		req, ok := vh.RequestOf(env.Env)
		if !ok {
			continue
		}
		set := cedar.NewPolicySet()
		for _, ip := range ps {
			set.Add(ip.ID, ip.P)
		}
		var o1, o2 string
		vh.Protect(func() { d, diag := cedar.Authorize(set, env.Env.Entities, req); o1 = vh.ShowAuthz(d, diag) })
		sh := append([]vh.IDPolicy{}, ps...)
		r.Shuffle(len(sh), func(i, j int) { sh[i], sh[j] = sh[j], sh[i] })
		vh.Protect(func() {
			d, diag := cedar.Authorize(vh.SliceIter(sh), env.Env.Entities, req)
			o2 = vh.ShowAuthz(d, diag)
		})
		payload := map[string]any{"policies": vh.EncPolicies(ps), "envref": b.EnvRef(env)}
		c.Res.OracleChecks++
		if o1 != o2 {
			c.Report(vh.Finding{Class: "authz-order-dependent", What: fmt.Sprintf("PolicySet gave %q, shuffled iterator %q", o1, o2), Check: "oracle", Op: "authz", Input: payload, Expected: o1, Actual: o2})
		}
		line := b.Add("authz", payload, o1, "")
		c.Count(b.Key(line)+env.Name, true)
		c.Dist("authz-correspondence")
	}
}

// c14CollidingMembers: 2..6 distinct values of which several have the same internal hash n: the Long, the Decimal,
// the Datetime and the Duration with representation n, the Boolean if n is 0 or 1, sets of two such values whose
// hashes add up to n (mod 2^64), plus members that do not collide.
func c14CollidingMembers(r *rand.Rand) []types.Value {
	ns := []int64{0, 1, -1, -1, -1, -2, -2, -3, 2, 5, 1000, math.MaxInt64, math.MinInt64, -7}
	n := ns[r.Intn(len(ns))]
	dec := func(k int64) types.Value { d, _ := types.NewDecimal(k, -4); return d }
	pool := []types.Value{types.Long(n), dec(n), types.NewDatetimeFromMillis(n), types.NewDurationFromMillis(n)}
	if n == 0 || n == 1 {
		pool = append(pool, types.Boolean(n == 1))
	}
	for k := 0; k < 3; k++ {
		a := int64(r.Intn(9)) - 4
		if a == n-a {
			continue
		}
		switch r.Intn(3) {
		case 0:
			pool = append(pool, types.NewSet(types.Long(a), types.Long(n-a)))
		case 1:
			pool = append(pool, types.NewSet(dec(a), types.NewDatetimeFromMillis(n-a)))
		default:
			pool = append(pool, types.NewSet(types.NewDurationFromMillis(a), types.Long(n-a)))
		}
	}
	pool = append(pool, types.Long(n+1), dec(n+1), types.Long(n+2), types.Long(0), types.Boolean(false), types.String("x"), types.NewEntityUID("T", "e"), types.NewSet(types.Long(n)))
	r.Shuffle(len(pool), func(a, b int) { pool[a], pool[b] = pool[b], pool[a] })
	var out []types.Value
	for _, v := range pool {
		dup := false
		for _, w := range out {
			if v.Equal(w) {
				dup = true
			}
		}
		if !dup && len(out) < 2+r.Intn(7) {
			out = append(out, v)
		}
	}
	return out
}
