package main

// C08 — the streaming Encoder over writers that FAIL.  "Rendering a list of policies parses back to the same
// policies": for cedar.NewEncoder(w) the list is the policies whose Encode call returned nil.  Over a history of
// Encode calls on ONE encoder (with retries of a failed policy, or skipping it) and a writer that fails at the k-th
// Write call (once / twice / for ever), or accepts only a prefix and then reports an error (short write):
//
//   (segments)  the bytes the writer accepted DURING one Encode call are, when the call returned nil, exactly what a
//               fresh encoder over a bytes.Buffer emits for that policy; when it returned an error, a prefix of that
//               (what the writer took before failing).  In particular no byte of a policy whose Encode reported
//               failure appears after that call returned, and nothing is emitted twice.
//   (decode)    when every failed Write accepted 0 bytes, the accepted stream decodes (cedar.NewDecoder and
//               NewPolicyListFromBytes) to exactly the policies whose Encode returned nil, in order.
//
// The schedule is per Write call, not per Encode call, so the oracle does not assume one Write per policy.
// Writers that break the io.Writer contract (n < len(p) with a nil error) are not used.

import (
	"bytes"
	"errors"
	"fmt"
	"io"
	"strings"

	cedar "github.com/cedar-policy/cedar-go"
	"github.com/cedar-policy/cedar-go/x/exp/ast"

	"verifharness/vh"
)

// c08WStep is the behaviour of one Write call.
type c08WStep struct {
	kind byte // 'k' accept everything; 'f' accept nothing, error; 'p' accept a prefix, error; 's' accept a prefix, io.ErrShortWrite
	n    int  // prefix length for 'p' / 's': n >= 0 bytes; -1 = all but one byte; -2 = half; -3 = everything (and still an error)
}

func (s c08WStep) String() string {
	switch s.kind {
	case 'k':
		return "ok"
	case 'f':
		return "fail(0)"
	}
	n := map[int]string{-1: "len-1", -2: "len/2", -3: "len"}[s.n]
	if s.n >= 0 {
		n = fmt.Sprint(s.n)
	}
	if s.kind == 's' {
		return "short(" + n + ",io.ErrShortWrite)"
	}
	return "short(" + n + ",error)"
}

var errC08Write = errors.New("c08: injected write failure")

// c08Writer follows sched for its first len(sched) Write calls and tail afterwards.
type c08Writer struct {
	sched       []c08WStep
	tail        c08WStep
	calls       int
	acc         bytes.Buffer // every byte accepted so far
	failed      int          // Write calls that returned an error
	failedTaken bool         // some failed Write accepted > 0 bytes
}

func (w *c08Writer) Write(b []byte) (int, error) {
	st := w.tail
	if w.calls < len(w.sched) {
		st = w.sched[w.calls]
	}
	w.calls++
	if st.kind == 'k' {
		return w.acc.Write(b)
	}
	w.failed++
	n := 0
	if st.kind != 'f' {
		switch {
		case st.n >= 0:
			n = st.n
		case st.n == -1:
			n = len(b) - 1
		case st.n == -2:
			n = len(b) / 2
		default:
			n = len(b)
		}
		if n > len(b) {
			n = len(b)
		}
		if n < 0 {
			n = 0
		}
	}
	if n > 0 {
		w.acc.Write(b[:n])
		w.failedTaken = true
	}
	if st.kind == 's' {
		return n, io.ErrShortWrite
	}
	return n, errC08Write
}

type c08EncCall struct {
	Policy   int    `json:"policy"`   // index into the policy list
	Err      string `json:"error"`    // "" = Encode returned nil
	Accepted string `json:"accepted"` // bytes the writer accepted during this call
}

// c08EncoderHistory runs one history and checks it.  strategy: "retry" (a failed policy is encoded again, at most
// `retries` more times, then given up) or "skip" (go on with the next policy).
func c08EncoderHistory(c *vh.Ctx, ps []*cedar.Policy, fresh [][]byte, want []string, sched []c08WStep, tail c08WStep, strategy string, retries int) {
	w := &c08Writer{sched: sched, tail: tail}
	var calls []c08EncCall
	var okList []int // policies whose Encode returned nil, in order
	var problem, class string
	desc := func() string {
		var ss []string
		for _, s := range sched {
			ss = append(ss, s.String())
		}
		return "writes: [" + strings.Join(ss, " ") + "] then " + tail.String() + "; on failure: " + strategy
	}
	note := func(cl, what string) { // the first problem gives the class; one more is appended to the description
		if problem == "" {
			class, problem = cl, what
		} else if !strings.Contains(problem, "; also: ") {
			problem += "; also: " + what
		}
	}
	var enc *cedar.Encoder
	if pn := vh.Protect(func() { enc = cedar.NewEncoder(w) }); pn != nil {
		note("encoder-panics", fmt.Sprint("NewEncoder panics: ", pn))
	}
	for i := 0; i < len(ps) && enc != nil; i++ {
		for attempt := 0; ; attempt++ {
			start := w.acc.Len()
			var err error
			if pn := vh.Protect(func() { err = enc.Encode(ps[i]) }); pn != nil {
				note("encoder-panics", fmt.Sprintf("Encode call %d (policy %d) panics: %v", len(calls), i, pn))
				err = fmt.Errorf("panic: %v", pn)
			}
			seg := append([]byte(nil), w.acc.Bytes()[start:]...)
			call := c08EncCall{Policy: i, Accepted: string(seg)}
			if err != nil {
				call.Err = err.Error()
			}
			calls = append(calls, call)
			cl := "encoder-stream-differs"
			if w.failed > 0 {
				cl = "encoder-stream-after-failed-write" // some Write of this encoder's history has failed
			}
			if err == nil {
				okList = append(okList, i)
				if !bytes.Equal(seg, fresh[i]) {
					note(cl, fmt.Sprintf("Encode call %d (policy %d) returned nil but the writer accepted %q during the call; a fresh encoder emits %q", len(calls)-1, i, seg, fresh[i]))
				}
				break
			}
			if !bytes.HasPrefix(fresh[i], seg) {
				note(cl, fmt.Sprintf("Encode call %d (policy %d) failed (%v) and the writer accepted %q during the call, which is not a prefix of that policy's rendering %q", len(calls)-1, i, err, seg, fresh[i]))
			}
			if strategy == "skip" || attempt >= retries {
				break
			}
		}
	}
	stream := append([]byte(nil), w.acc.Bytes()...)
	// decode: only when no failed Write took bytes (otherwise the stream legitimately holds a torn policy)
	if !w.failedTaken {
		var wantSeq []string
		for _, i := range okList {
			wantSeq = append(wantSeq, want[i])
		}
		var got []string
		dec := cedar.NewDecoder(bytes.NewReader(stream))
		var derr error
		for {
			var q cedar.Policy
			if pn := vh.Protect(func() { derr = dec.Decode(&q) }); pn != nil {
				derr = fmt.Errorf("panic: %v", pn)
			}
			if derr != nil {
				break
			}
			got = append(got, vh.ShowPolicyC07((*ast.Policy)(q.AST()), false))
			if len(got) > len(ps)*8 {
				break
			}
		}
		cl := "encoder-decoded-policies-differ"
		if w.failed > 0 {
			cl = "encoder-stream-after-failed-write"
		}
		if derr != io.EOF {
			note(cl, fmt.Sprintf("Decoder fails on the accepted stream: %v", derr))
		} else if strings.Join(got, "\n") != strings.Join(wantSeq, "\n") {
			note(cl, fmt.Sprintf("Decoder yields %d policies, %d Encode calls returned nil (policies %v); or they differ", len(got), len(okList), okList))
		}
		var lst cedar.PolicyList
		var lerr error
		vh.Protect(func() { lst, lerr = cedar.NewPolicyListFromBytes("stream.cedar", stream) })
		if lerr != nil {
			note(cl, fmt.Sprintf("NewPolicyListFromBytes fails on the accepted stream: %v", lerr))
		} else {
			var g2 []string
			for _, q := range lst {
				g2 = append(g2, vh.ShowPolicyC07((*ast.Policy)(q.AST()), false))
			}
			if strings.Join(g2, "\n") != strings.Join(wantSeq, "\n") {
				note(cl, fmt.Sprintf("NewPolicyListFromBytes yields %d policies, %d Encode calls returned nil (policies %v); or they differ", len(g2), len(okList), okList))
			}
		}
	}
	c.Res.OracleChecks++
	c.Count("encoder:"+desc()+":"+string(stream), len(calls) > 1 && w.failed > 0)
	if w.failed > 0 {
		c.Dist("encoder-history:with-failed-write")
	} else {
		c.Dist("encoder-history:no-failure")
	}
	if problem == "" {
		return
	}
	var texts []string
	for _, f := range fresh {
		texts = append(texts, string(f))
	}
	var expect []string
	for _, i := range okList {
		expect = append(expect, string(fresh[i]))
	}
	c.Report(vh.Finding{Class: class, What: fmt.Sprintf("%s: one Encoder, %d policies, %s: %s", class, len(ps), desc(), problem), Check: "oracle", Op: "Encoder.Encode (failing writer)",
		Input:    map[string]any{"policies": texts, "writer": desc(), "calls": calls},
		Expected: "accepted stream = renderings of the policies whose Encode returned nil (+ at most a prefix of a policy's own rendering during its failed call): " + strings.Join(expect, ""),
		Actual:   string(stream)})
}

// c08EncoderFailures: the histories.  good: policies that pass the round-trip oracle.
func c08EncoderFailures(c *vh.Ctx, good []*ast.Policy) {
	if len(good) == 0 {
		return
	}
	rnd := c.Rng
	pickList := func(n int) (ps []*cedar.Policy, fresh [][]byte, want []string, ok bool) {
		for i := 0; i < n; i++ {
			p := mkPol(good[rnd.Intn(len(good))])
			var b bytes.Buffer
			var err error
			if pn := vh.Protect(func() { err = cedar.NewEncoder(&b).Encode(p) }); pn != nil || err != nil {
				c.Report(vh.Finding{Class: "encoder-error", What: fmt.Sprintf("Encode into a bytes.Buffer fails: %v %v", pn, err), Check: "oracle", Op: "Encoder.Encode", Input: string(p.MarshalCedar())})
				return nil, nil, nil, false
			}
			var q cedar.Policy
			if err := q.UnmarshalCedar(b.Bytes()); err != nil {
				c.Report(vh.Finding{Class: "decoder-error", What: "Encoder output of a round-tripping policy does not parse: " + err.Error(), Check: "oracle", Op: "Encoder.Encode", Input: b.String()})
				return nil, nil, nil, false
			}
			ps, fresh, want = append(ps, p), append(fresh, append([]byte(nil), b.Bytes()...)), append(want, vh.ShowPolicyC07((*ast.Policy)(q.AST()), false))
		}
		return ps, fresh, want, true
	}
	okStep, fail0 := c08WStep{kind: 'k'}, c08WStep{kind: 'f'}
	type mode struct {
		steps []c08WStep // behaviour from the k-th Write on
		tail  c08WStep
	}
	modes := []mode{
		{[]c08WStep{fail0}, okStep},        // fails once, then recovers
		{[]c08WStep{fail0, fail0}, okStep}, // fails twice
		{[]c08WStep{fail0, okStep, fail0}, okStep},
		{nil, fail0}, // fails for ever
		{[]c08WStep{{'p', 1}}, okStep},
		{[]c08WStep{{'p', -2}}, okStep},
		{[]c08WStep{{'p', -1}}, okStep},
		{[]c08WStep{{'p', -3}}, okStep}, // takes everything and still reports an error
		{[]c08WStep{{'s', -2}}, okStep},
		{[]c08WStep{{'s', 0}}, okStep},
		{[]c08WStep{{'p', -2}, fail0}, okStep},
		{[]c08WStep{{'s', -1}}, fail0},
	}
	for l, nl := 0, c.N(4, 60); l < nl; l++ {
		ps, fresh, want, ok := pickList(2 + rnd.Intn(4))
		if !ok {
			continue
		}
		// no failure at all: the baseline
		c08EncoderHistory(c, ps, fresh, want, nil, okStep, "skip", 0)
		for k := 0; k <= 5; k++ { // the first failing Write call
			for _, m := range modes {
				sched := make([]c08WStep, 0, k+len(m.steps))
				for i := 0; i < k; i++ {
					sched = append(sched, okStep)
				}
				sched = append(sched, m.steps...)
				c08EncoderHistory(c, ps, fresh, want, sched, m.tail, "retry", 2)
				c08EncoderHistory(c, ps, fresh, want, sched, m.tail, "skip", 0)
			}
		}
	}
	// random schedules
	for r, nr := 0, c.N(150, 6000); r < nr; r++ {
		ps, fresh, want, ok := pickList(1 + rnd.Intn(5))
		if !ok {
			continue
		}
		sched := make([]c08WStep, rnd.Intn(12))
		for i := range sched {
			switch rnd.Intn(7) {
			case 0, 1:
				sched[i] = fail0
			case 2:
				sched[i] = c08WStep{kind: "ps"[rnd.Intn(2)], n: []int{0, 1, 2, 7, 40, -1, -2, -3}[rnd.Intn(8)]}
			default:
				sched[i] = okStep
			}
		}
		tail := okStep
		if rnd.Intn(4) == 0 {
			tail = fail0
		}
		strategy := []string{"retry", "skip"}[rnd.Intn(2)]
		c08EncoderHistory(c, ps, fresh, want, sched, tail, strategy, rnd.Intn(4))
	}
}
