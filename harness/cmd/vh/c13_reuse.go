package main

// C13 — "decoding is a function of the document": every document that the C13 stream decodes into a fresh
// variable is ALSO decoded into a REUSED destination that already holds other content of the same type (an
// earlier decoded entity map / entity / request / uid / record / set / extension value, or for
// types.UnmarshalJSON an interface variable holding an earlier value). Oracle: the reused destination ends
// up exactly like the fresh one (same accept / reject, same canonical rendering, byte-identical re-encoding).
// A decoder that fills its destination in place instead of replacing it (periodic reload of an entity
// store into one long-lived variable) keeps stale members and fails here.
//
// Struct destinations without their own UnmarshalJSON (Entity, Request) follow encoding/json's documented
// rule that keys absent from the document leave the field alone; for those the comparison is made only for
// documents that name every field (which every encoding produced by MarshalJSON does).

import (
	"bytes"
	"encoding/json"
	"fmt"
	"maps"
	"reflect"
	"strings"

	"github.com/cedar-policy/cedar-go/types"

	"verifharness/vh"
)

type c13ReuseState struct {
	c     *vh.Ctx
	stash map[reflect.Type][]any // earlier successfully decoded values, by destination type (ring of c13ReuseRing)
	n     int
}

const c13ReuseRing = 4

// c13R is set by runC13 (nil = reuse oracle off, e.g. when the helpers are used by another property).
var c13R *c13ReuseState

func c13ReuseStart(c *vh.Ctx) {
	c13R = &c13ReuseState{c: c, stash: map[reflect.Type][]any{}}
}

// c13CloneDest: a destination holding prev's content that the decoder may scribble on without touching prev
// (only map-typed destinations share storage with their copies).
func c13CloneDest[T any](prev T) T {
	if m, ok := any(prev).(types.EntityMap); ok {
		return any(maps.Clone(m)).(T)
	}
	return prev
}

// c13AllFieldsNamed: for struct destinations decoded field-wise by encoding/json, does the document name
// every field (exact spelling of the json tag)? Other destinations: always true.
func c13AllFieldsNamed[T any](doc []byte) bool {
	var zero T
	var fields []string
	switch any(zero).(type) {
	case types.Entity:
		fields = []string{"uid", "parents", "attrs", "tags"}
	case types.Request:
		fields = []string{"principal", "action", "resource", "context"}
	default:
		return true
	}
	var top map[string]json.RawMessage
	if err := json.Unmarshal(doc, &top); err != nil || top == nil {
		return false
	}
	for _, f := range fields {
		if _, ok := top[f]; !ok {
			return false
		}
	}
	return true
}

// c13ReuseCheck compares the fresh decode of doc (freshOut / fresh) with decodes into reused destinations.
func c13ReuseCheck[T any](doc []byte, freshOut string, fresh T, show func(T) string) {
	r := c13R
	if r == nil || freshOut == "panic" {
		return
	}
	key := reflect.TypeOf((*T)(nil)).Elem()
	prevs := r.stash[key]
	defer func() {
		if strings.HasPrefix(freshOut, "ok ") {
			if len(prevs) >= c13ReuseRing {
				prevs = prevs[1:]
			}
			r.stash[key] = append(prevs[:len(prevs):len(prevs)], fresh)
		}
	}()
	if len(prevs) == 0 || !c13AllFieldsNamed[T](doc) {
		return
	}
	r.n++
	// two earlier contents: the oldest of the ring and one chosen by the document (no draw from c.Rng: the
	// generated stream stays what it was)
	picks := []int{0}
	if k := (len(doc) + r.n) % len(prevs); k != 0 {
		picks = append(picks, k)
	}
	var freshBytes []byte
	if strings.HasPrefix(freshOut, "ok ") {
		freshBytes, _ = c13Marshal(fresh)
	}
	for pi, k := range picks {
		prev := prevs[k].(T)
		w := c13CloneDest(prev)
		out := ""
		via := "json.Unmarshal"
		if pn := vh.Protect(func() {
			var err error
			if u, ok := any(&w).(json.Unmarshaler); ok && pi == 1 {
				via = "UnmarshalJSON"
				err = u.UnmarshalJSON(doc)
			} else {
				err = json.Unmarshal(doc, &w)
			}
			if err != nil {
				out = "err"
				return
			}
			out = "ok " + show(w)
		}); pn != nil {
			out = "panic"
		}
		r.c.Res.OracleChecks++
		r.c.Dist("reused-destination:" + key.Name())
		if via == "UnmarshalJSON" && freshOut == "err" && out != "panic" {
			// the method alone (without encoding/json's syntax pre-check) may see documents json.Unmarshal refuses earlier
			continue
		}
		switch {
		case out != freshOut:
			r.c.Report(vh.Finding{Class: "decode-into-reused-destination-differs", What: fmt.Sprintf("%s of %s into a %s that already held %s gives %s; into a fresh variable %s", via, trunc(string(doc), 300), key.String(), trunc(show(prev), 200), trunc(out, 300), trunc(freshOut, 300)),
				Check: "oracle", Op: "decode-reused:" + key.Name(), Input: map[string]any{"doc": string(doc), "destination_held": show(prev), "via": via}, Expected: freshOut, Actual: out})
		case freshBytes != nil:
			if wb, _ := c13Marshal(w); !bytes.Equal(wb, freshBytes) {
				// attributable to the destination only if the fresh value's own encoding is stable (an unstable
				// encoder is the business of the stability oracles, under their own classes)
				stable := true
				for i := 0; i < 6 && stable; i++ {
					fb, _ := c13Marshal(fresh)
					stable = bytes.Equal(fb, freshBytes)
				}
				if !stable {
					r.c.Dist("reused-destination:fresh-encoding-itself-unstable")
					continue
				}
				r.c.Report(vh.Finding{Class: "decode-into-reused-destination-reencodes-differently", What: fmt.Sprintf("%s of %s into a reused %s re-encodes as %s, the fresh decode as %s", via, trunc(string(doc), 300), key.String(), trunc(string(wb), 300), trunc(string(freshBytes), 300)),
					Check: "oracle", Op: "decode-reused:" + key.Name(), Input: map[string]any{"doc": string(doc), "destination_held": show(prev), "via": via}, Expected: string(freshBytes), Actual: string(wb)})
			}
		}
	}
}

// c13ReuseValueCheck: types.UnmarshalJSON(doc, &v) with v already holding an earlier value; and, when the
// document is an object / array, the typed destinations Record / Set (fresh and reused).
func c13ReuseValueCheck(doc []byte, freshOut string, fresh types.Value) {
	r := c13R
	if r == nil || freshOut == "panic" {
		return
	}
	key := reflect.TypeOf((*types.Value)(nil)).Elem()
	prevs := r.stash[key]
	if fresh != nil {
		if _, scalar := fresh.(types.Long); !scalar { // keep containers and extension values: a stale Long shows little
			if len(prevs) >= c13ReuseRing {
				prevs = prevs[1:]
			}
			r.stash[key] = append(prevs[:len(prevs):len(prevs)], fresh)
		}
	}
	if len(prevs) > 0 {
		prev := prevs[0].(types.Value)
		w := prev
		out := ""
		if pn := vh.Protect(func() {
			if err := types.UnmarshalJSON(doc, &w); err != nil {
				out = "err"
				return
			}
			out = "ok " + vh.ShowValue(w)
		}); pn != nil {
			out = "panic"
		}
		r.c.Res.OracleChecks++
		r.c.Dist("reused-destination:Value")
		if out != freshOut {
			r.c.Report(vh.Finding{Class: "decode-into-reused-destination-differs", What: fmt.Sprintf("types.UnmarshalJSON of %s into a Value variable that already held %s gives %s; into a nil variable %s", trunc(string(doc), 300), trunc(vh.ShowValue(prev), 200), trunc(out, 300), trunc(freshOut, 300)),
				Check: "oracle", Op: "decode-reused:Value", Input: map[string]any{"doc": string(doc), "destination_held": vh.ShowValue(prev)}, Expected: freshOut, Actual: out})
		}
	}
	t := bytes.TrimLeft(doc, " \t\r\n")
	if len(t) == 0 {
		return
	}
	switch t[0] {
	case '{':
		c13DecodeInto[types.Record](doc, func(v types.Record) string { return vh.ShowValue(v) })
	case '[':
		c13DecodeInto[types.Set](doc, func(v types.Set) string { return vh.ShowValue(v) })
	}
}
