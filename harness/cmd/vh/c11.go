package main

// C11 — value equality, hashing, sets and records obey their algebraic laws; values are immutable.
//
//  (a) hash:    model goHash (Lean) vs types.VerifHash on every generated value; Equal => equal hash on the Go side.
//  (b) set-ops: every sequence of length <= 3 (quick) / <= 4 (thorough) over the colliding universe, plus random nested
//               sequences: Len/Contains/Equal/containsAll/containsAny through the public API AND through eval.Eval,
//               against the Lean table model (run with the real and three terrible hashes) and the list model.
//  (c) oracle:  the set-theoretic answer on sorted duplicate-free canonical renderings; equality laws.
//  (d) immutability histories: Go-side oracle here; replayed step by step on the Lean heap model (Model/Alias.lean) in c11_alias.go;
//      JSON forms of equal values.

import (
	"encoding/json"
	"fmt"
	"sort"
	"strconv"
	"strings"

	"github.com/cedar-policy/cedar-go/types"
	"github.com/cedar-policy/cedar-go/x/exp/ast"
	"github.com/cedar-policy/cedar-go/x/exp/eval"

	"verifharness/vh"
)

func init() { props["C11"] = runC11 }

// c11Universe: values built to collide in types.*.hash (everything here hashes to 0, 1, 2 or 3, or to the
// hash of a neighbour), including nested sets and records.
func c11Universe() []types.Value {
	u := vh.CollidingValues()
	u = append(u,
		types.NewSet(types.NewSet(types.Long(1))),         // [[1]]   hash 1
		types.NewSet(types.True, types.Long(1)),           // [true,1] hash 2 (collides with Long(2))
		types.NewRecord(types.RecordMap{"a": types.True}), // {a:true}: same hash as {a:1}
		types.Long(3), // neighbour of the probe chains starting at 1 and 2
	)
	return u
}

func c11Kind(v types.Value) string {
	switch v.(type) {
	case types.Boolean:
		return "bool"
	case types.Long:
		return "long"
	case types.String:
		return "string"
	case types.EntityUID:
		return "entity"
	case types.Set:
		return "set"
	case types.Record:
		return "record"
	case types.Decimal:
		return "decimal"
	case types.Datetime:
		return "datetime"
	case types.Duration:
		return "duration"
	case types.IPAddr:
		return "ip"
	}
	return fmt.Sprintf("%T", v)
}

func c11Bit(b bool) string {
	if b {
		return "1"
	}
	return "0"
}

var c11Env = eval.Env{Entities: types.EntityMap{}, Principal: types.NewEntityUID("User", "a"), Action: types.NewEntityUID("Action", "a"),
	Resource: types.NewEntityUID("Doc", "a"), Context: types.NewRecord(nil)}

func c11SetLit(vs []types.Value) ast.IsNode {
	es := make([]ast.IsNode, len(vs))
	for i, v := range vs {
		es[i] = ast.NodeValue{Value: v}
	}
	return ast.NodeTypeSet{Elements: es}
}

func c11EvalBool(n ast.IsNode) string {
	v, err := eval.Eval(n, c11Env)
	if err != nil {
		return "E"
	}
	b, ok := v.(types.Boolean)
	if !ok {
		return "?"
	}
	return c11Bit(bool(b))
}

// c11SetObsAPI: all observations of NewSet(a...), NewSet(b...) and the probes through the public API.
func c11SetObsAPI(a, b, probes []types.Value) string {
	sa := types.NewSet(append([]types.Value(nil), a...)...)
	sb := types.NewSet(append([]types.Value(nil), b...)...)
	var inA, inB strings.Builder
	for _, p := range probes {
		inA.WriteString(c11Bit(sa.Contains(p)))
		inB.WriteString(c11Bit(sb.Contains(p)))
	}
	all := func(l, r types.Set) bool {
		for e := range r.All() {
			if !l.Contains(e) {
				return false
			}
		}
		return true
	}
	anyOf := func(l, r types.Set) bool {
		for _, e := range r.Slice() {
			if l.Contains(e) {
				return true
			}
		}
		return false
	}
	return fmt.Sprintf("lenA=%d lenB=%d inA=%s inB=%s eqAB=%s eqBA=%s eqAA=%s allAB=%s allBA=%s anyAB=%s anyBA=%s members=%s",
		sa.Len(), sb.Len(), inA.String(), inB.String(), c11Bit(sa.Equal(sb)), c11Bit(sb.Equal(sa)), c11Bit(sa.Equal(sa)),
		c11Bit(all(sa, sb)), c11Bit(all(sb, sa)), c11Bit(anyOf(sa, sb)), c11Bit(anyOf(sb, sa)), vh.ShowValue(sa))
}

// c11SetObsEval: the same observations through eval.Eval of set literals, `==`, .contains, .containsAll, .containsAny.
func c11SetObsEval(a, b, probes []types.Value) string {
	la, lb := c11SetLit(a), c11SetLit(b)
	bn := func(l, r ast.IsNode) ast.BinaryNode { return ast.BinaryNode{Left: l, Right: r} }
	// the set literals are evaluated once (setLiteralEval -> NewSet); the probes then go through containsEval on the
	// evaluator's own result (re-evaluating the literal per probe only repeats the same NewSet call)
	lenOf := func(n ast.IsNode) (int, string, ast.IsNode) {
		v, err := eval.Eval(n, c11Env)
		if err != nil {
			return -1, "<err>", n
		}
		s, ok := v.(types.Set)
		if !ok {
			return -2, "<notset>", n
		}
		return s.Len(), vh.ShowValue(s), ast.NodeValue{Value: s}
	}
	na, showA, va := lenOf(la)
	nb, _, vb := lenOf(lb)
	var inA, inB strings.Builder
	for i, p := range probes {
		l, r := va, vb
		if i == 0 { // one probe per case through the literal itself
			l, r = la, lb
		}
		inA.WriteString(c11EvalBool(ast.NodeTypeContains{BinaryNode: bn(l, ast.NodeValue{Value: p})}))
		inB.WriteString(c11EvalBool(ast.NodeTypeContains{BinaryNode: bn(r, ast.NodeValue{Value: p})}))
	}
	return fmt.Sprintf("lenA=%d lenB=%d inA=%s inB=%s eqAB=%s eqBA=%s eqAA=%s allAB=%s allBA=%s anyAB=%s anyBA=%s members=%s",
		na, nb, inA.String(), inB.String(),
		c11EvalBool(ast.NodeTypeEquals{BinaryNode: bn(la, lb)}), c11EvalBool(ast.NodeTypeEquals{BinaryNode: bn(lb, la)}), c11EvalBool(ast.NodeTypeEquals{BinaryNode: bn(la, la)}),
		c11EvalBool(ast.NodeTypeContainsAll{BinaryNode: bn(la, lb)}), c11EvalBool(ast.NodeTypeContainsAll{BinaryNode: bn(lb, la)}),
		c11EvalBool(ast.NodeTypeContainsAny{BinaryNode: bn(la, lb)}), c11EvalBool(ast.NodeTypeContainsAny{BinaryNode: bn(lb, la)}), showA)
}

func c11Canon(vs []types.Value) []string {
	m := map[string]bool{}
	for _, v := range vs {
		m[vh.ShowValue(v)] = true
	}
	out := make([]string, 0, len(m))
	for k := range m {
		out = append(out, k)
	}
	sort.Strings(out)
	return out
}

// c11SetObsOracle: the set-theoretic answer on sorted duplicate-free lists of canonical renderings.
func c11SetObsOracle(a, b, probes []types.Value) string {
	A, B := c11Canon(a), c11Canon(b)
	in := func(S []string, x string) bool {
		i := sort.SearchStrings(S, x)
		return i < len(S) && S[i] == x
	}
	var inA, inB strings.Builder
	for _, p := range probes {
		s := vh.ShowValue(p)
		inA.WriteString(c11Bit(in(A, s)))
		inB.WriteString(c11Bit(in(B, s)))
	}
	sub := func(X, Y []string) bool { // X ⊆ Y
		for _, x := range X {
			if !in(Y, x) {
				return false
			}
		}
		return true
	}
	meet := func(X, Y []string) bool {
		for _, x := range X {
			if in(Y, x) {
				return true
			}
		}
		return false
	}
	eq := sub(A, B) && sub(B, A)
	return fmt.Sprintf("lenA=%d lenB=%d inA=%s inB=%s eqAB=%s eqBA=%s eqAA=%s allAB=%s allBA=%s anyAB=%s anyBA=%s members=%s",
		len(A), len(B), inA.String(), inB.String(), c11Bit(eq), c11Bit(eq), "1",
		c11Bit(sub(B, A)), c11Bit(sub(A, B)), c11Bit(meet(A, B)), c11Bit(meet(B, A)), "["+strings.Join(A, ",")+"]")
}

// c11DiffField names the first observation field on which two observation strings differ.
func c11DiffField(x, y string) string {
	fx, fy := strings.Fields(x), strings.Fields(y)
	for i := 0; i < len(fx) && i < len(fy); i++ {
		if fx[i] != fy[i] {
			if j := strings.IndexByte(fx[i], '='); j > 0 {
				return fx[i][:j]
			}
			return "field" + strconv.Itoa(i)
		}
	}
	return "shape"
}

func c11EncList(vs []types.Value) []any {
	out := make([]any, len(vs))
	for i, v := range vs {
		out[i] = vh.EncValue(v)
	}
	return out
}

type c11SetCase struct {
	a, b []types.Value
	tag  string
}

// c11AnyValue: a random (possibly nested, possibly colliding) value.
func c11AnyValue(c *vh.Ctx, g *vh.Gen, univ []types.Value, depth int) types.Value {
	switch c.Rng.Intn(10) {
	case 0, 1, 2:
		return univ[c.Rng.Intn(len(univ))]
	case 3:
		if depth > 0 {
			n := c.Rng.Intn(4)
			vs := make([]types.Value, n)
			for i := range vs {
				vs[i] = c11AnyValue(c, g, univ, depth-1)
			}
			return types.NewSet(vs...)
		}
	case 4:
		if depth > 0 {
			m := types.RecordMap{}
			for i, n := 0, c.Rng.Intn(3); i < n; i++ {
				m[types.String([]string{"a", "b", "", "é"}[c.Rng.Intn(4)])] = c11AnyValue(c, g, univ, depth-1)
			}
			return types.NewRecord(m)
		}
	case 5:
		return types.Long(int64(c.Rng.Intn(5)) - 1)
	}
	return g.Value(vh.Ty(c.Rng.Intn(12)), 1)
}

func c11IsModelled(v types.Value) bool {
	// the zero IPAddr (invalid prefix) has no model counterpart; nothing generates it, but stay safe
	switch t := v.(type) {
	case types.IPAddr:
		return t.Prefix().IsValid()
	case types.Set:
		for m := range t.All() {
			if !c11IsModelled(m) {
				return false
			}
		}
	case types.Record:
		for m := range t.Values() {
			if !c11IsModelled(m) {
				return false
			}
		}
	}
	return true
}

func runC11(c *vh.Ctx) {
	g := vh.NewGen(c.Rng)
	univ := c11Universe()
	maxLen := c.N(3, 4)
	c.Res.Rule = fmt.Sprintf("set-ops: ALL sequences of length <= %d over a %d-value universe built to collide in the internal hash "+
		"(true/1/decimal 0.0001/1ms/datetime 1, 0/2/3, false, \"\", [], [1], [true], [[1]], [true,1], {}, {a:1}, {a:true}), each paired with a "+
		"reordered+duplicated copy and with a one-element mutation / unrelated sequence, probes = whole universe; then random nested sequences; "+
		"rec-ops: all assignment sequences of length <= 3 over 3 keys x 6 colliding values; hash/eq: universe, boundary and random values. "+
		"distinct = distinct encoded inputs; non-trivial = a set case whose arguments contain a duplicate or two unequal members with the same hash "+
		"(a real probe chain), a record case with a re-assigned key, an eq case of two values with equal hash", maxLen, len(univ))

	// ---------------------------------------------------------------- value pool
	pool := append([]types.Value{}, univ...)
	for _, n := range vh.BoundaryLongs {
		pool = append(pool, types.Long(n))
	}
	for _, n := range vh.BoundaryMillis {
		pool = append(pool, types.NewDatetimeFromMillis(n), types.NewDurationFromMillis(n))
	}
	for _, n := range vh.BoundaryDecimals {
		pool = append(pool, types.VerifDecimalFromRaw(n))
	}
	for _, s := range vh.Strings {
		pool = append(pool, types.String(s))
	}
	for _, s := range vh.IPStrings {
		if ip, err := types.ParseIPAddr(s); err == nil {
			pool = append(pool, ip)
		}
	}
	for _, u := range g.World.UIDs {
		pool = append(pool, u)
	}
	pool = append(pool, types.NewEntityUID("", "Usera"), types.NewEntityUID("Usera", ""), types.NewEntityUID("Use", "ra"), // same FNV input, different entities
		types.String("Usera"), types.Set{}, types.Record{}, types.NewSet([]types.Value{}...), types.NewRecord(types.RecordMap{}),
		types.NewRecord(types.RecordMap{"__entity": types.NewRecord(types.RecordMap{"type": types.String("A"), "id": types.String("b")})}),
		types.NewSet(types.Long(2), types.Long(-1)), types.NewSet(types.Long(1), types.Long(0)), // sums collide
		types.NewSet(types.Long(-1), types.Long(1)), types.NewSet(types.False))
	for i, n := 0, c.N(400, 4000); i < n; i++ {
		pool = append(pool, c11AnyValue(c, g, univ, 2))
	}
	{
		kept := pool[:0]
		for _, v := range pool {
			if c11IsModelled(v) {
				kept = append(kept, v)
			}
		}
		pool = kept
	}
	for _, v := range pool {
		c.Dist("pool-kind:" + c11Kind(v))
	}

	// ---------------------------------------------------------------- (a) hash + eq
	hb := &vh.Batch{}
	hashes := make([]uint64, len(pool))
	shows := make([]string, len(pool))
	for i, v := range pool {
		hashes[i] = types.VerifHash(v)
		shows[i] = vh.ShowValue(v)
		idx := hb.Add("hash", map[string]any{"v": vh.EncValue(v)}, strconv.FormatUint(hashes[i], 10), "")
		c.Count("h"+hb.Key(idx), true)
		if i < 2 {
			c.Sample(map[string]any{"op": "hash", "value": shows[i], "impl": hashes[i]})
		}
	}
	// all pairs on the Go side: Equal <=> same canonical rendering; Equal => same hash; kinds; symmetry
	collidingPairs := 0
	for i, x := range pool {
		for j, y := range pool {
			if !c.Thorough() && i >= len(univ)+150 && j >= len(univ)+150 && (i+j)%7 != 0 {
				continue // quick tier: thin the random x random block
			}
			c.Res.OracleChecks++
			eq := x.Equal(y)
			if eq != (shows[i] == shows[j]) {
				c.Report(vh.Finding{Class: "equal-vs-canonical", What: fmt.Sprintf("Equal(%s, %s) = %v but canonical renderings say %v", shows[i], shows[j], eq, shows[i] == shows[j]),
					Check: "oracle", Op: "eq", Input: map[string]any{"a": vh.EncValue(x), "b": vh.EncValue(y)}, Expected: shows[i] == shows[j], Actual: eq})
			}
			if eq != y.Equal(x) {
				c.Report(vh.Finding{Class: "equal-not-symmetric", What: fmt.Sprintf("Equal(%s, %s) = %v but flipped = %v", shows[i], shows[j], eq, !eq),
					Check: "oracle", Op: "eq", Input: map[string]any{"a": vh.EncValue(x), "b": vh.EncValue(y)}})
			}
			if eq && hashes[i] != hashes[j] {
				c.Report(vh.Finding{Class: "equal-hash-mismatch", What: fmt.Sprintf("%s Equal %s but hashes %d != %d", shows[i], shows[j], hashes[i], hashes[j]),
					Check: "oracle", Op: "hash", Input: map[string]any{"a": vh.EncValue(x), "b": vh.EncValue(y)}})
			}
			if eq && c11Kind(x) != c11Kind(y) {
				c.Report(vh.Finding{Class: "equal-across-kinds", What: fmt.Sprintf("%s (%s) Equal %s (%s)", shows[i], c11Kind(x), shows[j], c11Kind(y)),
					Check: "oracle", Op: "eq", Input: map[string]any{"a": vh.EncValue(x), "b": vh.EncValue(y)}})
			}
			if !eq && hashes[i] == hashes[j] {
				collidingPairs++
			}
			// model correspondence for a subset of the pairs: universe x universe, all hash-colliding pairs, a sample of the rest
			if (i < len(univ) && j < len(univ)) || ((hashes[i] == hashes[j] || (i*31+j)%97 == 0) && hb.Len() < 150000) {
				impl := fmt.Sprintf("eq=%s qe=%s kind=%s hash=%s", c11Bit(eq), c11Bit(y.Equal(x)), c11Bit(c11Kind(x) == c11Kind(y)), c11Bit(hashes[i] == hashes[j]))
				idx := hb.Add("eq", map[string]any{"a": vh.EncValue(x), "b": vh.EncValue(y)}, impl, "")
				c.Count("e"+hb.Key(idx), hashes[i] == hashes[j])
			}
		}
		if !x.Equal(x) {
			c.Report(vh.Finding{Class: "equal-not-reflexive", What: shows[i] + " is not Equal to itself", Check: "oracle", Op: "eq", Input: map[string]any{"a": vh.EncValue(x)}})
		}
	}
	c.Res.Notes = append(c.Res.Notes, fmt.Sprintf("pool=%d values, unequal pairs with equal hash=%d", len(pool), collidingPairs))
	// transitivity on triples: exhaustive over the universe, sampled over the pool
	checkTrans := func(x, y, z types.Value) {
		c.Res.OracleChecks++
		if x.Equal(y) && y.Equal(z) && !x.Equal(z) {
			c.Report(vh.Finding{Class: "equal-not-transitive", What: fmt.Sprintf("%s = %s = %s but first != last", vh.ShowValue(x), vh.ShowValue(y), vh.ShowValue(z)),
				Check: "oracle", Op: "eq", Input: map[string]any{"a": vh.EncValue(x), "b": vh.EncValue(y), "c": vh.EncValue(z)}})
		}
	}
	// equal-but-differently-built copies make the triples non-trivial
	rebuilt := func(v types.Value) types.Value {
		switch t := v.(type) {
		case types.Set:
			s := t.Slice()
			c.Rng.Shuffle(len(s), func(i, j int) { s[i], s[j] = s[j], s[i] })
			if len(s) > 0 {
				s = append(s, s[0])
			}
			return types.NewSet(s...)
		case types.Record:
			return types.NewRecord(t.Map())
		}
		return v
	}
	for _, x := range univ {
		for _, y := range univ {
			for _, z := range univ {
				checkTrans(x, y, z)
			}
		}
	}
	for i, n := 0, c.N(20000, 400000); i < n; i++ {
		x := pool[c.Rng.Intn(len(pool))]
		y, z := rebuilt(x), rebuilt(x)
		if c.Rng.Intn(4) == 0 {
			z = pool[c.Rng.Intn(len(pool))]
		}
		checkTrans(x, y, z)
		checkTrans(z, y, x)
		if !x.Equal(y) || !y.Equal(x) || types.VerifHash(x) != types.VerifHash(y) || vh.ShowValue(x) != vh.ShowValue(y) {
			c.Report(vh.Finding{Class: "rebuilt-not-equal", What: fmt.Sprintf("%s rebuilt from its own Slice()/Map() in another order is not Equal / hashes differently", vh.ShowValue(x)),
				Check: "oracle", Op: "eq", Input: map[string]any{"a": vh.EncValue(x)}})
		}
	}
	c11Correspond(c, hb, func(op string) string {
		if op == "hash" {
			return "hash-model-mismatch"
		}
		return "eq-model-mismatch"
	})

	// ---------------------------------------------------------------- (b)+(c) set-ops
	var seqs [][]types.Value
	var rec func(cur []types.Value)
	rec = func(cur []types.Value) {
		seqs = append(seqs, append([]types.Value{}, cur...))
		if len(cur) == maxLen {
			return
		}
		for _, v := range univ {
			rec(append(cur, v))
		}
	}
	rec(nil)
	c.Res.Notes = append(c.Res.Notes, fmt.Sprintf("exhaustive sequences over the universe: %d (length <= %d)", len(seqs), maxLen))
	c.Res.Exhaustive = false // exhaustive only up to the stated sequence length; the rest is sampled
	var cases []c11SetCase
	for i, a := range seqs {
		// (1) same members, other order, duplicates
		b := append([]types.Value{}, a...)
		c.Rng.Shuffle(len(b), func(i, j int) { b[i], b[j] = b[j], b[i] })
		if len(b) > 0 {
			b = append(b, b[c.Rng.Intn(len(b))])
		}
		cases = append(cases, c11SetCase{a, b, "perm-dup"})
		// (2) one-element mutation, or an unrelated sequence (quick tier: for every second full-length sequence)
		if !c.Thorough() && len(a) == maxLen && i%2 == 1 {
			continue
		}
		var b2 []types.Value
		if len(a) > 0 && c.Rng.Intn(2) == 0 {
			b2 = append([]types.Value{}, a...)
			b2[c.Rng.Intn(len(b2))] = univ[c.Rng.Intn(len(univ))]
			cases = append(cases, c11SetCase{a, b2, "mutated"})
		} else {
			cases = append(cases, c11SetCase{a, seqs[(i*7919+13)%len(seqs)], "unrelated"})
		}
	}
	nExh := len(cases)
	for i, n := 0, c.N(3000, 120000); i < n; i++ {
		mk := func() []types.Value {
			vs := make([]types.Value, c.Rng.Intn(7))
			for k := range vs {
				vs[k] = c11AnyValue(c, g, univ, 2)
				if !c11IsModelled(vs[k]) {
					vs[k] = types.Long(int64(k))
				}
			}
			return vs
		}
		a := mk()
		var b []types.Value
		switch c.Rng.Intn(3) {
		case 0:
			b = mk()
		case 1:
			b = append([]types.Value{}, a...)
			c.Rng.Shuffle(len(b), func(i, j int) { b[i], b[j] = b[j], b[i] })
			b = append(b, a...)
		default:
			b = append([]types.Value{}, a...)
			if len(b) > 0 {
				b = b[:len(b)-1]
			}
			b = append(b, c11AnyValue(c, g, univ, 1))
			if !c11IsModelled(b[len(b)-1]) {
				b[len(b)-1] = types.Long(7)
			}
		}
		cases = append(cases, c11SetCase{a, b, "random"})
	}
	univEnc := c11EncList(univ)
	sb := &vh.Batch{}
	flush := func() {
		c11Correspond(c, sb, func(string) string { return "set-model" })
		sb = &vh.Batch{}
	}
	for ci, cs := range cases {
		probes := univ
		probesEnc := univEnc
		if cs.tag == "random" {
			probes = append(append([]types.Value{}, cs.a...), cs.b...)
			if len(probes) > 8 {
				probes = probes[:8]
			}
			probes = append(probes, univ[c.Rng.Intn(len(univ))])
			probesEnc = c11EncList(probes)
		}
		var api, viaEval string
		if p := vh.Protect(func() { api = c11SetObsAPI(cs.a, cs.b, probes) }); p != nil {
			api = fmt.Sprintf("panic %v", p)
		}
		if p := vh.Protect(func() { viaEval = c11SetObsEval(cs.a, cs.b, probes) }); p != nil {
			viaEval = fmt.Sprintf("panic %v", p)
		}
		oracle := c11SetObsOracle(cs.a, cs.b, probes)
		payload := map[string]any{"a": c11EncList(cs.a), "b": c11EncList(cs.b), "probes": probesEnc}
		c.Res.OracleChecks++
		if api != oracle {
			c.Report(vh.Finding{Class: "set-oracle-" + c11DiffField(api, oracle), What: fmt.Sprintf("public API disagrees with the set-theoretic answer: api=%q oracle=%q", api, oracle),
				Check: "oracle", Op: "set-ops", Input: payload, Expected: oracle, Actual: api})
		}
		if viaEval != oracle {
			c.Report(vh.Finding{Class: "set-eval-oracle-" + c11DiffField(viaEval, oracle), What: fmt.Sprintf("eval.Eval disagrees with the set-theoretic answer: eval=%q oracle=%q", viaEval, oracle),
				Check: "oracle", Op: "set-ops", Input: payload, Expected: oracle, Actual: viaEval})
		}
		idx := sb.Add("set-ops", payload, api, cs.tag)
		// non-trivial: a duplicate, or two unequal members sharing a hash (a real probe chain)
		nontrivial := false
		for _, seq := range [][]types.Value{cs.a, cs.b} {
			seen := map[uint64]int{}
			for _, v := range seq {
				seen[types.VerifHash(v)]++
			}
			for _, n := range seen {
				if n > 1 {
					nontrivial = true
				}
			}
		}
		c.Count("s"+sb.Key(idx), nontrivial)
		c.Dist("set-case:" + cs.tag)
		c.Dist(fmt.Sprintf("set-lenA:%d", len(c11Canon(cs.a))))
		if strings.Contains(api, "eqAB=1") {
			c.Dist("set-eqAB:true")
		} else {
			c.Dist("set-eqAB:false")
		}
		if ci == 5 || ci == nExh || ci == nExh-1 {
			c.Sample(map[string]any{"op": "set-ops", "a": vh.ShowValue(types.NewSet(cs.a...)), "nA": len(cs.a), "nB": len(cs.b), "impl": api})
		}
		if sb.Len() >= 40000 {
			flush()
		}
	}
	flush()

	// ---------------------------------------------------------------- records
	c11Records(c, univ)

	// ---------------------------------------------------------------- (d) immutability + JSON
	c11Immutability(c, univ)
	c11AliasHistories(c, univ) // the same kind of histories on the Lean heap model, step by step (c11_alias.go)
	c11JSON(c, pool)
}

// c11Correspond runs a batch and reports disagreements with narrow classes (<prefix>-<field>).
func c11Correspond(c *vh.Ctx, b *vh.Batch, class func(op string) string) {
	if b.Len() == 0 {
		return
	}
	ds, _, err := c.Correspond(b)
	if err != nil {
		c.Report(vh.Finding{Class: "driver-failure", What: err.Error(), Check: "correspondence", Op: "c11", NoInput: true})
		return
	}
	for _, d := range ds {
		cl := class(d.Line.Op)
		if strings.HasPrefix(d.Model, "MODEL-MISMATCH") {
			cl = "model-internal-mismatch"
		} else if d.Line.Op == "set-ops" || d.Line.Op == "rec-ops" {
			cl += "-" + c11DiffField(d.Line.Impl, d.Model)
		}
		c.Report(vh.Finding{Class: cl, What: fmt.Sprintf("%s disagreement: impl=%q model=%q", d.Line.Op, d.Line.Impl, d.Model),
			Check: "correspondence", Op: d.Line.Op, Input: d.Line.Payload(), Expected: d.Model, Actual: d.Line.Impl})
	}
}

// ---------------------------------------------------------------------------------------------- records

type c11KV struct {
	k types.String
	v types.Value
}

func c11Records(c *vh.Ctx, univ []types.Value) {
	keys := []types.String{"a", "b", "é"}
	vals := []types.Value{types.True, types.Long(1), types.VerifDecimalFromRaw(1), types.NewSet(types.Long(1)), types.NewRecord(nil), types.Long(2)}
	var pairs []c11KV
	for _, k := range keys {
		for _, v := range vals {
			pairs = append(pairs, c11KV{k, v})
		}
	}
	var seqs [][]c11KV
	var rec func(cur []c11KV)
	rec = func(cur []c11KV) {
		seqs = append(seqs, append([]c11KV{}, cur...))
		if len(cur) == 3 {
			return
		}
		for _, p := range pairs {
			rec(append(cur, p))
		}
	}
	rec(nil)
	probeKeys := []types.String{"a", "b", "é", "", "ab"}
	probesEnc := []any{}
	for _, k := range probeKeys {
		probesEnc = append(probesEnc, vh.Hex(string(k)))
	}
	enc := func(kvs []c11KV) []any {
		out := []any{}
		for _, kv := range kvs {
			out = append(out, []any{vh.Hex(string(kv.k)), vh.EncValue(kv.v)})
		}
		return out
	}
	build := func(kvs []c11KV) types.Record {
		m := types.RecordMap{}
		for _, kv := range kvs {
			m[kv.k] = kv.v
		}
		return types.NewRecord(m)
	}
	get := func(r types.Record) string {
		var xs []string
		for _, k := range probeKeys {
			if v, ok := r.Get(k); ok {
				xs = append(xs, vh.ShowValue(v))
			} else {
				xs = append(xs, "-")
			}
		}
		return "[" + strings.Join(xs, ",") + "]"
	}
	// oracle: last assignment wins, on canonical renderings
	canon := func(kvs []c11KV) map[string]string {
		m := map[string]string{}
		for _, kv := range kvs {
			m[string(kv.k)] = vh.ShowValue(kv.v)
		}
		return m
	}
	b := &vh.Batch{}
	bn := func(l, r ast.IsNode) ast.BinaryNode { return ast.BinaryNode{Left: l, Right: r} }
	run := func(x, y []c11KV, tag string) {
		var impl string
		var ra, rb types.Record
		if p := vh.Protect(func() {
			ra, rb = build(x), build(y)
			impl = fmt.Sprintf("lenA=%d lenB=%d eqAB=%s eqBA=%s eqAA=%s getA=%s getB=%s hashA=%d showA=%s", ra.Len(), rb.Len(),
				c11Bit(ra.Equal(rb)), c11Bit(rb.Equal(ra)), c11Bit(ra.Equal(ra)), get(ra), get(rb), types.VerifHash(ra), vh.ShowValue(ra))
		}); p != nil {
			impl = fmt.Sprintf("panic %v", p)
		}
		ca, cb := canon(x), canon(y)
		same := len(ca) == len(cb)
		for k, v := range ca {
			if w, ok := cb[k]; !ok || w != v {
				same = false
			}
		}
		payload := map[string]any{"a": enc(x), "b": enc(y), "probes": probesEnc}
		c.Res.OracleChecks++
		viaEval := c11EvalBool(ast.NodeTypeEquals{BinaryNode: bn(ast.NodeValue{Value: ra}, ast.NodeValue{Value: rb})})
		if !strings.Contains(impl, "eqAB="+c11Bit(same)+" eqBA="+c11Bit(same)+" eqAA=1") || !strings.HasPrefix(impl, fmt.Sprintf("lenA=%d lenB=%d ", len(ca), len(cb))) || viaEval != c11Bit(same) {
			c.Report(vh.Finding{Class: "record-oracle-equal", What: fmt.Sprintf("record equality/length disagrees with same-keys-equal-values: impl=%q eval==%s oracle same=%v lens=%d,%d", impl, viaEval, same, len(ca), len(cb)),
				Check: "oracle", Op: "rec-ops", Input: payload, Expected: same, Actual: impl})
		}
		idx := b.Add("rec-ops", payload, impl, tag)
		c.Count("r"+b.Key(idx), len(ca) < len(x) || len(cb) < len(y))
		c.Dist("rec-case:" + tag)
	}
	for i, x := range seqs {
		y := append([]c11KV{}, x...)
		c.Rng.Shuffle(len(y), func(i, j int) { y[i], y[j] = y[j], y[i] })
		run(x, y, "reordered") // equal iff no key is assigned twice with different values in a different final order
		thin := c.N(6, 3)
		if i%thin == 0 {
			run(x, seqs[(i*7919+5)%len(seqs)], "unrelated")
		}
		if len(x) > 0 && i%thin == 1 {
			z := append([]c11KV{}, x...)
			z[c.Rng.Intn(len(z))] = pairs[c.Rng.Intn(len(pairs))]
			run(x, z, "mutated")
		}
	}
	c11Correspond(c, b, func(string) string { return "record-model" })
}

// ---------------------------------------------------------------------------------------------- immutability

// c11Heap: mutable Go slices/maps and the immutable values built from / handed out by them, each with a
// pristine snapshot (canonical rendering, hash and an independently built copy).
type c11Heap struct {
	slices [][]types.Value
	maps   []types.RecordMap
	uids   [][]types.EntityUID
	vals   []c11Snap
	usets  []c11USnap
}

type c11Snap struct {
	v        types.Value
	show     string
	hash     uint64
	pristine types.Value
	origin   string
}

type c11USnap struct {
	s      types.EntityUIDSet
	show   string
	origin string
}

func c11ShowUIDSet(s types.EntityUIDSet) string {
	var xs []string
	for u := range s.All() {
		xs = append(xs, vh.ShowValue(u))
	}
	sort.Strings(xs)
	return strings.Join(xs, ",")
}

func (h *c11Heap) addVal(v types.Value, pristine types.Value, origin string) {
	h.vals = append(h.vals, c11Snap{v: v, show: vh.ShowValue(v), hash: types.VerifHash(v), pristine: pristine, origin: origin})
}

// the op alphabet of the histories; each op is total (no-op when its operand does not exist yet)
var c11Ops = []string{"newset-s0", "newset-s1", "mut-s0", "mut-s1", "slice-v", "mut-last-slice", "append-s0", "newrec-m0", "mut-m0", "del-m0", "map-v", "mut-last-map", "clear-last-map", "uidset-u0", "mut-u0", "uslice", "setofsets"}

func (h *c11Heap) apply(op string, x types.Value) {
	lastSet := func() (types.Set, bool) {
		for i := len(h.vals) - 1; i >= 0; i-- {
			if s, ok := h.vals[i].v.(types.Set); ok {
				return s, true
			}
		}
		return types.Set{}, false
	}
	lastRec := func() (types.Record, bool) {
		for i := len(h.vals) - 1; i >= 0; i-- {
			if r, ok := h.vals[i].v.(types.Record); ok {
				return r, true
			}
		}
		return types.Record{}, false
	}
	switch op {
	case "newset-s0", "newset-s1":
		i := int(op[len(op)-1] - '0')
		h.addVal(types.NewSet(h.slices[i]...), types.NewSet(append([]types.Value(nil), h.slices[i]...)...), op)
	case "mut-s0", "mut-s1":
		i := int(op[len(op)-1] - '0')
		for k := range h.slices[i] {
			h.slices[i][k] = x
		}
	case "append-s0":
		h.slices[0] = append(h.slices[0][:1], x) // overwrites element 1 in place (cap permitting)
	case "slice-v":
		if s, ok := lastSet(); ok {
			h.slices = append(h.slices, s.Slice())
		}
	case "mut-last-slice":
		if len(h.slices) > 2 {
			s := h.slices[len(h.slices)-1]
			for k := range s {
				s[k] = x
			}
			if cap(s) > len(s) {
				_ = append(s, x)
			}
		}
	case "newrec-m0":
		cp := types.RecordMap{}
		for k, v := range h.maps[0] {
			cp[k] = v
		}
		h.addVal(types.NewRecord(h.maps[0]), types.NewRecord(cp), op)
	case "mut-m0":
		h.maps[0]["a"] = x
		h.maps[0]["new"] = x
	case "del-m0":
		delete(h.maps[0], "a")
		delete(h.maps[0], "b")
	case "map-v":
		if r, ok := lastRec(); ok {
			if m := r.Map(); m != nil {
				h.maps = append(h.maps, m)
			}
		}
	case "mut-last-map":
		if len(h.maps) > 1 {
			m := h.maps[len(h.maps)-1]
			for k := range m {
				m[k] = x
			}
			m["zz"] = x
		}
	case "clear-last-map":
		if len(h.maps) > 1 {
			m := h.maps[len(h.maps)-1]
			for k := range m {
				delete(m, k)
			}
		}
	case "uidset-u0":
		s := types.NewEntityUIDSet(h.uids[0]...)
		h.usets = append(h.usets, c11USnap{s: s, show: c11ShowUIDSet(s), origin: op})
	case "mut-u0":
		for k := range h.uids[0] {
			h.uids[0][k] = types.NewEntityUID("Mut", "x")
		}
	case "uslice":
		if len(h.usets) > 0 {
			sl := h.usets[len(h.usets)-1].s.Slice()
			for k := range sl {
				sl[k] = types.NewEntityUID("Mut", "y")
			}
		}
	case "setofsets":
		// a set whose members are earlier sets/records: nested values must not alias mutable state either
		var ms []types.Value
		for _, s := range h.vals {
			ms = append(ms, s.v)
		}
		ms = append(ms, x)
		h.addVal(types.NewSet(ms...), types.NewSet(append([]types.Value(nil), ms...)...), op)
		for k := range ms {
			ms[k] = x
		}
	}
}

func c11NewHeap() *c11Heap {
	return &c11Heap{
		slices: [][]types.Value{{types.True, types.Long(1), types.VerifDecimalFromRaw(1)}, {types.NewSet(types.Long(1)), types.Long(1), types.Long(1)}},
		maps:   []types.RecordMap{{"a": types.Long(1), "b": types.NewSet(types.True)}},
		uids:   [][]types.EntityUID{{types.NewEntityUID("User", "a"), types.NewEntityUID("User", "b")}},
	}
}

// check: no existing value changed
func (h *c11Heap) check() (string, string) {
	for _, s := range h.vals {
		if now := vh.ShowValue(s.v); now != s.show {
			return "immut-" + s.origin + "-render", fmt.Sprintf("value built by %s rendered %s, now %s", s.origin, s.show, now)
		}
		if !s.v.Equal(s.pristine) || !s.pristine.Equal(s.v) {
			return "immut-" + s.origin + "-equal", fmt.Sprintf("value built by %s (%s) no longer Equal to its pristine copy %s", s.origin, s.show, vh.ShowValue(s.pristine))
		}
		if types.VerifHash(s.v) != s.hash || types.VerifHash(s.pristine) != s.hash {
			return "immut-" + s.origin + "-hash", fmt.Sprintf("value built by %s (%s) changed hash", s.origin, s.show)
		}
		if set, ok := s.v.(types.Set); ok {
			n := 0
			for m := range set.All() {
				n++
				if !set.Contains(m) {
					return "immut-" + s.origin + "-contains", fmt.Sprintf("set built by %s (%s) no longer contains its member %s", s.origin, s.show, vh.ShowValue(m))
				}
			}
			if n != set.Len() {
				return "immut-" + s.origin + "-len", fmt.Sprintf("set built by %s: Len %d but %d members", s.origin, set.Len(), n)
			}
		}
	}
	for _, s := range h.usets {
		if now := c11ShowUIDSet(s.s); now != s.show {
			return "immut-uidset", fmt.Sprintf("EntityUIDSet rendered %s, now %s", s.show, now)
		}
	}
	return "", ""
}

func c11Immutability(c *vh.Ctx, univ []types.Value) {
	maxLen := c.N(4, 5)
	mutVals := []types.Value{types.Long(99), types.NewSet(types.Long(99))}
	n := 0
	var hist []string
	var rec func()
	rec = func() {
		if len(hist) > 0 {
			// replay the history from scratch (ops are deterministic given the mutation value)
			for mi, mv := range mutVals {
				h := c11NewHeap()
				var cls, what string
				p := vh.Protect(func() {
					for _, op := range hist {
						h.apply(op, mv)
						if cls, what = h.check(); cls != "" {
							return
						}
					}
				})
				n++
				c.Res.OracleChecks++
				if p != nil {
					cls, what = "immut-panic", fmt.Sprintf("panic %v", p)
				}
				if cls != "" {
					c.Report(vh.Finding{Class: cls, What: what + " after history " + strings.Join(hist, ","), Check: "oracle", Op: "immut-history",
						Input: map[string]any{"history": append([]string{}, hist...), "mutation_value": vh.ShowValue(mv)}})
				}
				if mi == 0 {
					c.Count("i"+strings.Join(hist, ","), len(h.vals)+len(h.usets) > 0)
				}
			}
		}
		if len(hist) == maxLen {
			return
		}
		for _, op := range c11Ops {
			hist = append(hist, op)
			rec()
			hist = hist[:len(hist)-1]
		}
	}
	if c.Thorough() {
		rec()
	} else {
		// quick: all histories of length <= 3, then length-4 histories that start with a constructor
		maxLen = 3
		rec()
		maxLen = 4
		for _, first := range []string{"newset-s0", "newset-s1", "newrec-m0", "uidset-u0"} {
			hist = []string{first}
			for _, op := range c11Ops {
				hist = append(hist, op)
				rec()
				hist = hist[:len(hist)-1]
			}
		}
		hist = nil
	}
	// random long histories over random initial slices/maps
	for i, m := 0, c.N(3000, 60000); i < m; i++ {
		h := c11NewHeap()
		for k := range h.slices[0] {
			h.slices[0][k] = univ[c.Rng.Intn(len(univ))]
		}
		for k := range h.slices[1] {
			h.slices[1][k] = univ[c.Rng.Intn(len(univ))]
		}
		h.maps[0]["b"] = univ[c.Rng.Intn(len(univ))]
		var hs []string
		var cls, what string
		p := vh.Protect(func() {
			for k, l := 0, 6+c.Rng.Intn(20); k < l; k++ {
				op := c11Ops[c.Rng.Intn(len(c11Ops))]
				hs = append(hs, op)
				h.apply(op, univ[c.Rng.Intn(len(univ))])
				if cls, what = h.check(); cls != "" {
					return
				}
			}
		})
		n++
		c.Res.OracleChecks++
		if p != nil {
			cls, what = "immut-panic", fmt.Sprintf("panic %v", p)
		}
		if cls != "" {
			c.Report(vh.Finding{Class: cls, What: what + " after random history " + strings.Join(hs, ","), Check: "oracle", Op: "immut-history", Input: map[string]any{"history": hs, "seed": c.Seed}})
		}
		c.Count(fmt.Sprintf("ir%d", i), true)
	}
	c.Dist("immut-histories")
	c.Res.Distribution["immut-histories"] = n
	c.Res.Notes = append(c.Res.Notes, fmt.Sprintf("immutability histories replayed: %d (alphabet %d ops)", n, len(c11Ops)))
}

// ---------------------------------------------------------------------------------------------- JSON forms

func c11JSONRoundTrip(v types.Value) (types.Value, error) {
	bs, err := json.Marshal(v)
	if err != nil {
		return nil, err
	}
	var out types.Value
	if err := types.UnmarshalJSON(bs, &out); err != nil {
		return nil, err
	}
	return out, nil
}

// c11JSON: the JSON forms of Equal values decode to Equal values (MarshalJSON -> UnmarshalJSON).
// Whether the decoded value equals the ORIGINAL is C13's round trip; here only counted.
func c11JSON(c *vh.Ctx, pool []types.Value) {
	variant := func(v types.Value) types.Value { // an Equal value built differently (other insertion order, duplicates)
		switch t := v.(type) {
		case types.Set:
			s := t.Slice()
			for i, j := 0, len(s)-1; i < j; i, j = i+1, j-1 {
				s[i], s[j] = s[j], s[i]
			}
			if len(s) > 0 {
				s = append(s, s[len(s)-1])
			}
			return types.NewSet(s...)
		case types.Record:
			return types.NewRecord(t.Map())
		}
		return v
	}
	for _, x := range pool {
		y := variant(x)
		if !x.Equal(y) {
			continue // reported by the equality checks
		}
		var dx, dy types.Value
		var ex, ey error
		if p := vh.Protect(func() { dx, ex = c11JSONRoundTrip(x); dy, ey = c11JSONRoundTrip(y) }); p != nil {
			c.Report(vh.Finding{Class: "json-panic", What: fmt.Sprintf("JSON round trip of %s panics: %v", vh.ShowValue(x), p), Check: "oracle", Op: "json", Input: map[string]any{"v": vh.EncValue(x)}})
			continue
		}
		c.Res.OracleChecks++
		c.Count("j"+vh.ShowValue(x), c11Kind(x) == "set" || c11Kind(x) == "record")
		switch {
		case ex != nil && ey != nil:
			c.Dist("json:undecodable-both")
		case ex != nil || ey != nil:
			c.Report(vh.Finding{Class: "json-equal-decode-error", What: fmt.Sprintf("JSON forms of Equal values %s: one decodes, the other fails (%v / %v)", vh.ShowValue(x), ex, ey),
				Check: "oracle", Op: "json", Input: map[string]any{"v": vh.EncValue(x)}})
		case !dx.Equal(dy) || !dy.Equal(dx):
			c.Report(vh.Finding{Class: "json-equal-decode", What: fmt.Sprintf("JSON forms of Equal values %s decode to unequal values %s / %s", vh.ShowValue(x), vh.ShowValue(dx), vh.ShowValue(dy)),
				Check: "oracle", Op: "json", Input: map[string]any{"v": vh.EncValue(x)}})
		default:
			if dx.Equal(x) {
				c.Dist("json:roundtrip-equal-original")
			} else {
				c.Dist("json:roundtrip-differs-from-original(C13)")
			}
		}
	}
}
